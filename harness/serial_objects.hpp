// C11 harness, object level (property mode on the real code alone).
//
// For Schedule / EclipseState / SummaryConfig built from shipped decks (tests/*.DATA of the
// working tree) and from generated decks, and for random dynamic states (SummaryState, UDQState,
// Action::State, WellTestState, RestartValue):
//     pack -> unpack into a fresh default-constructed object ->
//        position()==buffer size, operator== (where it exists), identical answers to a sweep of
//        public queries, re-pack: same length and (modulo the addresses written for shared_ptr,
//        and modulo the order of unordered containers) the same bytes.
#pragma once
#include "common/vh.hpp"
#include "serial_codec.hpp"

#include <opm/common/OpmLog/KeywordLocation.hpp>
#include <opm/common/utility/MemPacker.hpp>
#include <opm/common/utility/OpmInputError.hpp>
#include <opm/common/utility/Serializer.hpp>
#include <opm/common/utility/TimeService.hpp>
#include <opm/input/eclipse/Deck/Deck.hpp>
#include <opm/input/eclipse/Deck/DeckItem.hpp>
#include <opm/input/eclipse/Deck/DeckKeyword.hpp>
#include <opm/input/eclipse/Deck/DeckRecord.hpp>
#include <opm/input/eclipse/EclipseState/Aquifer/Aquancon.hpp>
#include <opm/input/eclipse/EclipseState/Aquifer/AquiferCT.hpp>
#include <opm/input/eclipse/EclipseState/Aquifer/AquiferConfig.hpp>
#include <opm/input/eclipse/EclipseState/Aquifer/Aquifetp.hpp>
#include <opm/input/eclipse/EclipseState/Aquifer/NumericalAquifer/NumericalAquiferCell.hpp>
#include <opm/input/eclipse/EclipseState/EclipseConfig.hpp>
#include <opm/input/eclipse/EclipseState/EclipseState.hpp>
#include <opm/input/eclipse/EclipseState/Grid/EclipseGrid.hpp>
#include <opm/input/eclipse/EclipseState/Grid/FIPRegionStatistics.hpp>
#include <opm/input/eclipse/EclipseState/Grid/FaceDir.hpp>
#include <opm/input/eclipse/EclipseState/Grid/Fault.hpp>
#include <opm/input/eclipse/EclipseState/Grid/FaultCollection.hpp>
#include <opm/input/eclipse/EclipseState/Grid/FaultFace.hpp>
#include <opm/input/eclipse/EclipseState/Grid/FieldPropsManager.hpp>
#include <opm/input/eclipse/EclipseState/Grid/MULTREGTScanner.hpp>
#include <opm/input/eclipse/EclipseState/Grid/NNC.hpp>
#include <opm/input/eclipse/EclipseState/Grid/TranCalculator.hpp>
#include <opm/input/eclipse/EclipseState/Grid/TransMult.hpp>
#include <opm/input/eclipse/EclipseState/IOConfig/IOConfig.hpp>
#include <opm/input/eclipse/EclipseState/InitConfig/Equil.hpp>
#include <opm/input/eclipse/EclipseState/InitConfig/FoamConfig.hpp>
#include <opm/input/eclipse/EclipseState/InitConfig/InitConfig.hpp>
#include <opm/input/eclipse/EclipseState/Runspec.hpp>
#include <opm/input/eclipse/EclipseState/SimulationConfig/BCConfig.hpp>
#include <opm/input/eclipse/EclipseState/SimulationConfig/DatumDepth.hpp>
#include <opm/input/eclipse/EclipseState/SimulationConfig/RockConfig.hpp>
#include <opm/input/eclipse/EclipseState/SimulationConfig/SimulationConfig.hpp>
#include <opm/input/eclipse/EclipseState/SimulationConfig/ThresholdPressure.hpp>
#include <opm/input/eclipse/EclipseState/SummaryConfig/SummaryConfig.hpp>
#include <opm/input/eclipse/EclipseState/Tables/Aqudims.hpp>
#include <opm/input/eclipse/EclipseState/Tables/ColumnSchema.hpp>
#include <opm/input/eclipse/EclipseState/Tables/DenT.hpp>
#include <opm/input/eclipse/EclipseState/Tables/Eqldims.hpp>
#include <opm/input/eclipse/EclipseState/Tables/EzrokhiTable.hpp>
#include <opm/input/eclipse/EclipseState/Tables/FlatTable.hpp>
#include <opm/input/eclipse/EclipseState/Tables/JFunc.hpp>
#include <opm/input/eclipse/EclipseState/Tables/PlymwinjTable.hpp>
#include <opm/input/eclipse/EclipseState/Tables/PlyshlogTable.hpp>
#include <opm/input/eclipse/EclipseState/Tables/PvtgTable.hpp>
#include <opm/input/eclipse/EclipseState/Tables/PvtoTable.hpp>
#include <opm/input/eclipse/EclipseState/Tables/Regdims.hpp>
#include <opm/input/eclipse/EclipseState/Tables/Rock2dTable.hpp>
#include <opm/input/eclipse/EclipseState/Tables/Rock2dtrTable.hpp>
#include <opm/input/eclipse/EclipseState/Tables/RocktabTable.hpp>
#include <opm/input/eclipse/EclipseState/Tables/SimpleTable.hpp>
#include <opm/input/eclipse/EclipseState/Tables/SkprpolyTable.hpp>
#include <opm/input/eclipse/EclipseState/Tables/SkprwatTable.hpp>
#include <opm/input/eclipse/EclipseState/Tables/Tabdims.hpp>
#include <opm/input/eclipse/EclipseState/Tables/TableColumn.hpp>
#include <opm/input/eclipse/EclipseState/Tables/TableContainer.hpp>
#include <opm/input/eclipse/EclipseState/Tables/TableManager.hpp>
#include <opm/input/eclipse/EclipseState/Tables/TableSchema.hpp>
#include <opm/input/eclipse/EclipseState/TracerConfig.hpp>
#include <opm/input/eclipse/Parser/ErrorGuard.hpp>
#include <opm/input/eclipse/Parser/InputErrorAction.hpp>
#include <opm/input/eclipse/Parser/ParseContext.hpp>
#include <opm/input/eclipse/Parser/Parser.hpp>
#include <opm/input/eclipse/Python/Python.hpp>
#include <opm/input/eclipse/Schedule/Action/ASTNode.hpp>
#include <opm/input/eclipse/Schedule/Action/ActionAST.hpp>
#include <opm/input/eclipse/Schedule/Action/ActionResult.hpp>
#include <opm/input/eclipse/Schedule/Action/ActionX.hpp>
#include <opm/input/eclipse/Schedule/Action/Actions.hpp>
#include <opm/input/eclipse/Schedule/Action/Condition.hpp>
#include <opm/input/eclipse/Schedule/Action/PyAction.hpp>
#include <opm/input/eclipse/Schedule/Action/State.hpp>
#include <opm/input/eclipse/Schedule/Events.hpp>
#include <opm/input/eclipse/Schedule/GasLiftOpt.hpp>
#include <opm/input/eclipse/Schedule/Group/GConSale.hpp>
#include <opm/input/eclipse/Schedule/Group/GConSump.hpp>
#include <opm/input/eclipse/Schedule/Group/Group.hpp>
#include <opm/input/eclipse/Schedule/Group/GroupEconProductionLimits.hpp>
#include <opm/input/eclipse/Schedule/Group/GuideRate.hpp>
#include <opm/input/eclipse/Schedule/Group/GuideRateConfig.hpp>
#include <opm/input/eclipse/Schedule/Group/GuideRateModel.hpp>
#include <opm/input/eclipse/Schedule/MSW/AICD.hpp>
#include <opm/input/eclipse/Schedule/MSW/SICD.hpp>
#include <opm/input/eclipse/Schedule/MSW/Valve.hpp>
#include <opm/input/eclipse/Schedule/MSW/WellSegments.hpp>
#include <opm/input/eclipse/Schedule/MSW/icd.hpp>
#include <opm/input/eclipse/Schedule/MessageLimits.hpp>
#include <opm/input/eclipse/Schedule/Network/Balance.hpp>
#include <opm/input/eclipse/Schedule/Network/ExtNetwork.hpp>
#include <opm/input/eclipse/Schedule/Network/Node.hpp>
#include <opm/input/eclipse/Schedule/OilVaporizationProperties.hpp>
#include <opm/input/eclipse/Schedule/RFTConfig.hpp>
#include <opm/input/eclipse/Schedule/RPTConfig.hpp>
#include <opm/input/eclipse/Schedule/RSTConfig.hpp>
#include <opm/input/eclipse/Schedule/ResCoup/ReservoirCouplingInfo.hpp>
#include <opm/input/eclipse/Schedule/Schedule.hpp>
#include <opm/input/eclipse/Schedule/ScheduleState.hpp>
#include <opm/input/eclipse/Schedule/ScheduleTypes.hpp>
#include <opm/input/eclipse/Schedule/SummaryState.hpp>
#include <opm/input/eclipse/Schedule/Tuning.hpp>
#include <opm/input/eclipse/Schedule/UDQ/UDQASTNode.hpp>
#include <opm/input/eclipse/Schedule/UDQ/UDQActive.hpp>
#include <opm/input/eclipse/Schedule/UDQ/UDQAssign.hpp>
#include <opm/input/eclipse/Schedule/UDQ/UDQConfig.hpp>
#include <opm/input/eclipse/Schedule/UDQ/UDQDefine.hpp>
#include <opm/input/eclipse/Schedule/UDQ/UDQFunction.hpp>
#include <opm/input/eclipse/Schedule/UDQ/UDQFunctionTable.hpp>
#include <opm/input/eclipse/Schedule/UDQ/UDQInput.hpp>
#include <opm/input/eclipse/Schedule/UDQ/UDQSet.hpp>
#include <opm/input/eclipse/Schedule/UDQ/UDQState.hpp>
#include <opm/input/eclipse/Schedule/VFPInjTable.hpp>
#include <opm/input/eclipse/Schedule/VFPProdTable.hpp>
#include <opm/input/eclipse/Schedule/Well/Connection.hpp>
#include <opm/input/eclipse/Schedule/Well/FilterCake.hpp>
#include <opm/input/eclipse/Schedule/Well/NameOrder.hpp>
#include <opm/input/eclipse/Schedule/Well/PAvg.hpp>
#include <opm/input/eclipse/Schedule/Well/WDFAC.hpp>
#include <opm/input/eclipse/Schedule/Well/WList.hpp>
#include <opm/input/eclipse/Schedule/Well/WListManager.hpp>
#include <opm/input/eclipse/Schedule/Well/WVFPDP.hpp>
#include <opm/input/eclipse/Schedule/Well/WVFPEXP.hpp>
#include <opm/input/eclipse/Schedule/Well/Well.hpp>
#include <opm/input/eclipse/Schedule/Well/WellBrineProperties.hpp>
#include <opm/input/eclipse/Schedule/Well/WellConnections.hpp>
#include <opm/input/eclipse/Schedule/Well/WellEconProductionLimits.hpp>
#include <opm/input/eclipse/Schedule/Well/WellFoamProperties.hpp>
#include <opm/input/eclipse/Schedule/Well/WellMICPProperties.hpp>
#include <opm/input/eclipse/Schedule/Well/WellMatcher.hpp>
#include <opm/input/eclipse/Schedule/Well/WellPolymerProperties.hpp>
#include <opm/input/eclipse/Schedule/Well/WellTestConfig.hpp>
#include <opm/input/eclipse/Schedule/Well/WellTestState.hpp>
#include <opm/input/eclipse/Schedule/Well/WellTracerProperties.hpp>
#include <opm/input/eclipse/Schedule/WriteRestartFileEvents.hpp>
#include <opm/input/eclipse/Units/Dimension.hpp>
#include <opm/input/eclipse/Units/UnitSystem.hpp>
#include <opm/output/data/Aquifer.hpp>
#include <opm/output/data/Groups.hpp>
#include <opm/output/data/Solution.hpp>
#include <opm/output/data/Wells.hpp>
#include <opm/output/eclipse/RestartValue.hpp>

#include <cmath>
#include <filesystem>
#include <regex>
#include <iostream>
#include <sstream>

namespace so {

using sc::Packer;
using sc::Ser;
namespace fs = std::filesystem;

struct Dump {
    std::ostringstream o;
    void kv(const std::string& k, const std::string& v) { o << k << '=' << v << '\n'; }
    void kv(const std::string& k, double v) { o << k << '=' << vh::hexF64(v) << '\n'; }
    void kv(const std::string& k, long long v) { o << k << '=' << v << '\n'; }
    void kv(const std::string& k, int v) { o << k << '=' << v << '\n'; }
    void kv(const std::string& k, std::size_t v) { o << k << '=' << v << '\n'; }
    void kv(const std::string& k, bool v) { o << k << '=' << (v ? 1 : 0) << '\n'; }
    template <class F> void guarded(const std::string& k, F&& f) {
        try { f(); } catch (const std::exception&) { o << k << "=throws\n"; }
    }
    std::string str() const { return o.str(); }
};

inline std::string join(const std::vector<std::string>& v) { std::string s; for (auto& x : v) { s += x; s += ','; } return s; }
inline std::string joinSorted(std::vector<std::string> v) { std::sort(v.begin(), v.end()); return join(v); }

// first differing line of two dumps
inline std::string firstDiff(const std::string& a, const std::string& b) {
    std::istringstream ia(a), ib(b);
    std::string la, lb; size_t n = 0;
    while (true) {
        bool ha = static_cast<bool>(std::getline(ia, la)), hb = static_cast<bool>(std::getline(ib, lb));
        ++n;
        if (!ha && !hb) return "";
        if (!ha || !hb || la != lb)
            return "line " + std::to_string(n) + ": original `" + (ha ? la : "<end>") + "` copy `" + (hb ? lb : "<end>") + "`";
    }
}

inline std::string udaStr(const Opm::UDAValue& u) {
    if (u.is_numeric()) return vh::hexF64(u.get<double>()) + "/" + vh::hexF64(u.get_dim().getSIScaling());
    if (u.is<std::string>()) return u.get<std::string>();
    return "undefined";
}

// distinct (normalised) query names whose answers differ, each with its first example
inline std::string normKey(const std::string& k) {
    static const std::vector<std::pair<std::regex, std::string>> rules{
        { std::regex("^t[0-9]+\\."), "" }, { std::regex("(^|\\.)w\\.[^.]+\\."), "$1w." }, { std::regex("(^|\\.)g\\.[^.]+\\."), "$1g." },
        { std::regex("(^|\\.)gecon\\.[^.]+\\."), "$1gecon." }, { std::regex("(^|\\.)[WGN][0-9]+\\."), "$1X." }, { std::regex("\\.[0-9]+$"), ".n" }, { std::regex("(^|\\.)[cs][0-9]+\\."), "$1c." } };
    std::string r = k;
    for (const auto& [re, to] : rules) r = std::regex_replace(r, re, to);
    return r;
}
inline std::map<std::string, std::string> diffKeys(const std::string& a, const std::string& b) {
    std::map<std::string, std::string> out;
    std::istringstream ia(a), ib(b);
    std::string la, lb; size_t n = 0;
    while (true) {
        const bool ha = static_cast<bool>(std::getline(ia, la)), hb = static_cast<bool>(std::getline(ib, lb));
        ++n;
        if (!ha && !hb) break;
        if (!ha || !hb) { out.emplace("linecount", "line " + std::to_string(n) + ": one sweep is shorter"); break; }
        if (la != lb) {
            const std::string ka = la.substr(0, la.find('=')), kb = lb.substr(0, lb.find('='));
            if (ka != kb) { out.emplace("structure", "line " + std::to_string(n) + ": original `" + la + "` copy `" + lb + "`"); break; }
            out.emplace(normKey(ka), "line " + std::to_string(n) + ": original `" + la + "` copy `" + lb + "`");
        }
    }
    return out;
}

// ---- query sweeps ------------------------------------------------------------------------------

inline std::string optD(const std::optional<double>& v) { return v.has_value() ? vh::hexF64(*v) : std::string("none"); }
inline std::string optI(const std::optional<int>& v) { return v.has_value() ? std::to_string(*v) : std::string("none"); }
inline std::string optS(const std::optional<std::string>& v) { return v.has_value() ? "'" + *v + "'" : std::string("none"); }
inline std::string vecD(const std::vector<double>& v) { std::string s; for (double x : v) { s += vh::hexF64(x); s += ','; } return s; }

// every getter on its own line, each guarded on its own: a getter that throws prints `err`
#define SO_Q(key, expr) do { try { d.kv((key), (expr)); } catch (const std::exception&) { d.kv((key), std::string("err")); } } while (0)

// a SimpleTable (and everything derived from it): shape, column names, every value and its
// "defaulted" flag
inline void dumpSimpleTable(Dump& d, const std::string& p, const Opm::SimpleTable& t) {
    d.kv(p + "rows", t.numRows());
    d.kv(p + "cols", t.numColumns());
    for (std::size_t c = 0; c < t.numColumns(); ++c) {
        const auto& col = t.getColumn(c);
        std::string vals, defs;
        for (std::size_t r = 0; r < col.size(); ++r) { vals += vh::hexF64(col[r]); vals += ','; defs += col.defaultApplied(r) ? '1' : '0'; }
        d.kv(p + "col" + std::to_string(c) + ".name", col.name());
        d.kv(p + "col" + std::to_string(c) + ".v", vals);
        d.kv(p + "col" + std::to_string(c) + ".def", defs);
    }
}

inline void dumpTableContainer(Dump& d, const std::string& p, const Opm::TableContainer& tc) {
    d.kv(p + "size", tc.size());
    d.kv(p + "max", tc.max());
    for (const auto& [idx, ptr] : tc.tables()) {
        const std::string q = p + "n" + std::to_string(idx) + ".";
        d.kv(q + "present", ptr != nullptr);
        if (ptr) dumpSimpleTable(d, q, *ptr);
    }
}

inline void dumpTuning(Dump& d, const std::string& p, const Opm::Tuning& t) {
    d.kv(p + "TSINIT", optD(t.TSINIT));
    d.kv(p + "TSMAXZ", t.TSMAXZ); d.kv(p + "TSMINZ", t.TSMINZ); d.kv(p + "TSMCHP", t.TSMCHP); d.kv(p + "TSFMAX", t.TSFMAX);
    d.kv(p + "TSFMIN", t.TSFMIN); d.kv(p + "TFDIFF", t.TFDIFF); d.kv(p + "TSFCNV", t.TSFCNV); d.kv(p + "THRUPT", t.THRUPT);
    d.kv(p + "TMAXWC", t.TMAXWC); d.kv(p + "TMAXWC_has_value", t.TMAXWC_has_value);
    d.kv(p + "TRGTTE", t.TRGTTE); d.kv(p + "TRGCNV", t.TRGCNV); d.kv(p + "TRGMBE", t.TRGMBE); d.kv(p + "TRGLCV", t.TRGLCV);
    d.kv(p + "XXXTTE", t.XXXTTE); d.kv(p + "XXXCNV", t.XXXCNV); d.kv(p + "XXXMBE", t.XXXMBE); d.kv(p + "XXXLCV", t.XXXLCV);
    d.kv(p + "XXXWFL", t.XXXWFL); d.kv(p + "TRGFIP", t.TRGFIP); d.kv(p + "TRGSFT", t.TRGSFT); d.kv(p + "TRGSFT_has_value", t.TRGSFT_has_value);
    d.kv(p + "THIONX", t.THIONX); d.kv(p + "TRWGHT", t.TRWGHT);
    d.kv(p + "NEWTMX", t.NEWTMX); d.kv(p + "NEWTMN", t.NEWTMN); d.kv(p + "LITMAX", t.LITMAX); d.kv(p + "LITMIN", t.LITMIN);
    d.kv(p + "MXWSIT", t.MXWSIT); d.kv(p + "MXWPIT", t.MXWPIT); d.kv(p + "DDPLIM", t.DDPLIM); d.kv(p + "DDSLIM", t.DDSLIM);
    d.kv(p + "TRGDPR", t.TRGDPR); d.kv(p + "XXXDPR", t.XXXDPR); d.kv(p + "XXXDPR_has_value", t.XXXDPR_has_value);
    d.kv(p + "WSEG_MAX_RESTART", t.WSEG_MAX_RESTART); d.kv(p + "WSEG_REDUCTION_FACTOR", t.WSEG_REDUCTION_FACTOR); d.kv(p + "WSEG_INCREASE_FACTOR", t.WSEG_INCREASE_FACTOR);
}

inline void dumpSegmentDevices(Dump& d, const std::string& q, const Opm::Segment& s) {
    d.kv(q + "perflen", s.perfLength());
    d.kv(q + "nodeX", s.node_X());
    d.kv(q + "nodeY", s.node_Y());
    d.kv(q + "dataReady", s.dataReady());
    SO_Q(q + "ecl_type", s.ecl_type_id());
    { std::string in; for (int x : s.inletSegments()) in += std::to_string(x) + ","; d.kv(q + "inlets", in); }
    d.kv(q + "isRegular", s.isRegular()); d.kv(q + "isValve", s.isValve()); d.kv(q + "isSICD", s.isSpiralICD()); d.kv(q + "isAICD", s.isAICD());
    if (s.isValve()) {
        const auto& v = s.valve();
        SO_Q(q + "valve.cv", v.conFlowCoefficient());
        SO_Q(q + "valve.area", v.conCrossArea());
        SO_Q(q + "valve.areaValue", v.conCrossAreaValue());
        SO_Q(q + "valve.maxArea", v.conMaxCrossArea());
        SO_Q(q + "valve.addLen", v.pipeAdditionalLength());
        SO_Q(q + "valve.pipeD", v.pipeDiameter());
        SO_Q(q + "valve.pipeRough", v.pipeRoughness());
        SO_Q(q + "valve.pipeA", v.pipeCrossArea());
        SO_Q(q + "valve.status", static_cast<int>(v.status()));
        SO_Q(q + "valve.ecl_status", v.ecl_status());
    }
    auto sicd = [&](const std::string& r, const Opm::SICD& x) {
        SO_Q(r + "strength", x.strength());
        SO_Q(r + "length", x.length());
        SO_Q(r + "densCal", x.densityCalibration());
        SO_Q(r + "viscCal", x.viscosityCalibration());
        SO_Q(r + "critical", x.criticalValue());
        SO_Q(r + "widthTrans", x.widthTransitionRegion());
        SO_Q(r + "maxViscRatio", x.maxViscosityRatio());
        SO_Q(r + "method", x.methodFlowScaling());
        SO_Q(r + "maxAbsRate", optD(x.maxAbsoluteRate()));
        SO_Q(r + "status", static_cast<int>(x.status()));
        SO_Q(r + "ecl_status", x.ecl_status());
        SO_Q(r + "scaling", x.scalingFactor());
    };
    if (s.isSpiralICD()) sicd(q + "sicd.", s.spiralICD());
    if (s.isAICD()) {
        const auto& a = s.autoICD();
        sicd(q + "aicd.", a);
        SO_Q(q + "aicd.flowExp", a.flowRateExponent());
        SO_Q(q + "aicd.viscExp", a.viscExponent());
        SO_Q(q + "aicd.oilDensExp", a.oilDensityExponent());
        SO_Q(q + "aicd.watDensExp", a.waterDensityExponent());
        SO_Q(q + "aicd.gasDensExp", a.gasDensityExponent());
        SO_Q(q + "aicd.oilViscExp", a.oilViscExponent());
        SO_Q(q + "aicd.watViscExp", a.waterViscExponent());
        SO_Q(q + "aicd.gasViscExp", a.gasViscExponent());
    }
}

// the parts of a Well that the keyword families WECON, WPOLYMER, WFOAM, WSALT, WTRACER, WVFPEXP,
// WDFAC(COR), WPAVE/WWPAVE/WPAVEDEP, WINJTEMP, WINJMULT, WGRUPCON, WLIST, COMPLUMP fill
inline void dumpWellExtras(Dump& d, const std::string& p, const Opm::Well& w) {
    d.kv(p + "availgrup", w.isAvailableForGroupControl());
    d.kv(p + "guiderate", w.getGuideRate());
    SO_Q(p + "guidephase", static_cast<int>(w.getGuideRatePhase()));
    SO_Q(p + "guidephase_raw", static_cast<int>(w.getRawGuideRatePhase()));
    d.kv(p + "guidescale", w.getGuideRateScalingFactor());
    d.kv(p + "firststep", w.firstTimeStep());
    d.kv(p + "hasrefdepth", w.hasRefDepth());
    SO_Q(p + "wpaverefdepth", w.getWPaveRefDepth());
    d.kv(p + "solvent", w.getSolventFraction());
    d.kv(p + "prefphase", static_cast<int>(w.getPreferredPhase()));
    d.kv(p + "injmult.mode", static_cast<int>(w.getInjMultMode()));
    d.kv(p + "injmult.active", w.aciveWellInjMult());
    if (w.aciveWellInjMult()) {   // (asserted by the getter)
        SO_Q(p + "injmult.fp", w.getWellInjMult().fracture_pressure);
        SO_Q(p + "injmult.grad", w.getWellInjMult().multiplier_gradient);
    }
    d.kv(p + "gasinflow", static_cast<int>(w.gas_inflow_equation()));
    d.kv(p + "hasinjtemp", w.hasInjTemperature());
    if (w.hasInjTemperature()) SO_Q(p + "injtemp", w.inj_temperature());
    d.kv(p + "hasinjected", w.hasInjected());
    d.kv(p + "hasproduced", w.hasProduced());
    SO_Q(p + "prodcmode", static_cast<int>(w.production_cmode()));
    SO_Q(p + "injcmode", static_cast<int>(w.injection_cmode()));
    d.kv(p + "maxseg", w.maxSegmentID());
    d.kv(p + "maxbranch", w.maxBranchID());
    {
        const auto& e = w.getEconLimits();
        d.kv(p + "econ.any", e.onAnyEffectiveLimit()); d.kv(p + "econ.anyratio", e.onAnyRatioLimit()); d.kv(p + "econ.anyrate", e.onAnyRateLimit());
        d.kv(p + "econ.minoil", e.minOilRate()); d.kv(p + "econ.mingas", e.minGasRate()); d.kv(p + "econ.maxwct", e.maxWaterCut());
        d.kv(p + "econ.maxgor", e.maxGasOilRatio()); d.kv(p + "econ.maxwgr", e.maxWaterGasRatio()); d.kv(p + "econ.workover", static_cast<int>(e.workover()));
        d.kv(p + "econ.endrun", e.endRun()); d.kv(p + "econ.followon", e.followonWell()); d.kv(p + "econ.quantity", static_cast<int>(e.quantityLimit()));
        d.kv(p + "econ.wct2", e.maxSecondaryMaxWaterCut()); d.kv(p + "econ.workover2", static_cast<int>(e.workoverSecondary()));
        d.kv(p + "econ.maxglr", e.maxGasLiquidRatio()); d.kv(p + "econ.minliq", e.minLiquidRate()); d.kv(p + "econ.maxtemp", e.maxTemperature());
        d.kv(p + "econ.minresv", e.minReservoirFluidRate()); d.kv(p + "econ.validfollow", e.validFollowonWell());
        d.kv(p + "econ.reqwork", e.requireWorkover()); d.kv(p + "econ.reqwork2", e.requireSecondaryWorkover());
    }
    d.kv(p + "foam", w.getFoamProperties().m_foamConcentration);
    d.kv(p + "polymer.c", w.getPolymerProperties().m_polymerConcentration);
    d.kv(p + "polymer.salt", w.getPolymerProperties().m_saltConcentration);
    d.kv(p + "polymer.plymwinj", w.getPolymerProperties().m_plymwinjtable);
    d.kv(p + "polymer.skprwat", w.getPolymerProperties().m_skprwattable);
    d.kv(p + "polymer.skprpoly", w.getPolymerProperties().m_skprpolytable);
    d.kv(p + "brine", w.getBrineProperties().m_saltConcentration);
    for (const char* tr : { "SEA", "OT", "GT", "NOSUCH" }) SO_Q(p + "tracer." + tr, w.getTracerProperties().getConcentration(tr));
    d.kv(p + "wvfpdp.dp", w.getWVFPDP().getPressureAdjustment());
    d.kv(p + "wvfpdp.fp", w.getWVFPDP().getPLossScalingFactor());
    {
        const auto& x = w.getWVFPEXP();
        d.kv(p + "wvfpexp.explicit", x.explicit_lookup()); d.kv(p + "wvfpexp.shut", x.shut()); d.kv(p + "wvfpexp.prevent", x.prevent());
        d.kv(p + "wvfpexp.first", x.report_first()); d.kv(p + "wvfpexp.every", x.report_every());
    }
    {
        const auto& x = w.getWDFAC();
        d.kv(p + "wdfac.use", x.useDFactor());
        d.kv(p + "wdfac.a", x.getDFactorCorrelationCoefficients().coeff_a);
        d.kv(p + "wdfac.b", x.getDFactorCorrelationCoefficients().exponent_b);
        d.kv(p + "wdfac.c", x.getDFactorCorrelationCoefficients().exponent_c);
        const auto& cs = w.getConnections();
        for (std::size_t i = 0; i < cs.size(); ++i)
            SO_Q(p + "c" + std::to_string(i) + ".wdfac", x.getDFactor([] { return 0.9; }, [] { return 2e-5; }, cs.get(i)));
    }
    {
        const auto& a = w.pavg();
        d.kv(p + "pavg.inner", a.inner_weight()); d.kv(p + "pavg.conn", a.conn_weight()); d.kv(p + "pavg.open", a.open_connections());
        d.kv(p + "pavg.depth", static_cast<int>(a.depth_correction())); d.kv(p + "pavg.porv", a.use_porv());
    }
    try {
        for (const auto& [num, conns] : w.getCompletions()) {
            std::string e; for (const auto& c : conns) e += std::to_string(c.global_index()) + "/";
            d.kv(p + "completion" + std::to_string(num), e);
        }
    } catch (const std::exception&) { d.kv(p + "completions", std::string("err")); }
}

inline void dumpConnectionExtras(Dump& d, const std::string& q, const Opm::Connection& c) {
    d.kv(q + "attached", c.attachedToSegment());
    d.kv(q + "Ke", c.Ke());
    d.kv(q + "re", c.re());
    d.kv(q + "connlen", c.connectionLength());
    d.kv(q + "ctf.dfac", c.ctfProperties().d_factor);
    d.kv(q + "ctf.static_dfac", c.ctfProperties().static_dfac_corr_coeff);
    d.kv(q + "ctf.peaceman", c.ctfProperties().peaceman_denom);
    d.kv(q + "injmult.active", c.activeInjMult());
    if (c.activeInjMult()) {      // (asserted by the getter)
        SO_Q(q + "injmult.fp", c.injmult().fracture_pressure);
        SO_Q(q + "injmult.grad", c.injmult().multiplier_gradient);
    }
    d.kv(q + "filtercake", c.filterCakeActive());
    d.kv(q + "perfrange", c.perf_range().has_value() ? vh::hexF64(c.perf_range()->first) + "/" + vh::hexF64(c.perf_range()->second) : std::string("none"));
}

inline void dumpWell(Dump& d, const std::string& p, const Opm::Well& w) {
    d.kv(p + "name", w.name());
    d.kv(p + "group", w.groupName());
    d.kv(p + "status", static_cast<int>(w.getStatus()));
    d.kv(p + "producer", w.isProducer());
    d.kv(p + "injector", w.isInjector());
    d.kv(p + "headI", w.getHeadI());
    d.kv(p + "headJ", w.getHeadJ());
    d.guarded(p + "refdepth", [&] { d.kv(p + "refdepth", w.getRefDepth()); });
    d.kv(p + "efac", w.getEfficiencyFactor());
    d.kv(p + "seqIndex", w.seqIndex());
    d.kv(p + "msw", w.isMultiSegment());
    d.kv(p + "predmode", w.predictionMode());
    d.kv(p + "crossflow", w.getAllowCrossFlow());
    d.kv(p + "autoshut", w.getAutomaticShutIn());
    d.kv(p + "drainage", w.getDrainageRadius());
    d.kv(p + "pvt", w.pvt_table_number());
    d.kv(p + "fip", w.fip_region_number());
    d.kv(p + "vfp", w.vfp_table_number());
    if (w.isProducer()) d.guarded(p + "alq", [&] { d.kv(p + "alq", w.alq_value(Opm::SummaryState{})); });
    const auto& pp = w.getProductionProperties();
    d.kv(p + "prod.cmode", static_cast<int>(pp.controlMode));
    d.kv(p + "prod.whistctl", static_cast<int>(pp.whistctl_cmode));
    d.kv(p + "prod.controls", pp.productionControls());
    d.kv(p + "prod.bhphist", pp.bhp_hist_limit);
    d.kv(p + "prod.bhphist_defaulted", pp.bhp_hist_limit_defaulted);
    d.kv(p + "prod.vfp", pp.VFPTableNumber);
    d.kv(p + "prod.alq", udaStr(pp.ALQValue));
    for (const auto* u : { &pp.OilRate, &pp.WaterRate, &pp.GasRate, &pp.LiquidRate, &pp.ResVRate, &pp.BHPTarget, &pp.THPTarget })
        d.kv(p + "prod.uda", udaStr(*u));
    const auto& ip = w.getInjectionProperties();
    d.kv(p + "inj.cmode", static_cast<int>(ip.controlMode));
    d.kv(p + "inj.type", static_cast<int>(ip.injectorType));
    d.kv(p + "inj.controls", ip.injectionControls);
    d.kv(p + "inj.bhphist", ip.bhp_hist_limit);
    for (const auto* u : { &ip.surfaceInjectionRate, &ip.reservoirInjectionRate, &ip.BHPTarget, &ip.THPTarget })
        d.kv(p + "inj.uda", udaStr(*u));
    const auto& cs = w.getConnections();
    d.kv(p + "nconn", cs.size());
    for (std::size_t i = 0; i < cs.size(); ++i) {
        const auto& c = cs.get(i);
        const std::string q = p + "c" + std::to_string(i) + ".";
        d.kv(q + "ijk", std::to_string(c.getI()) + "," + std::to_string(c.getJ()) + "," + std::to_string(c.getK()));
        d.kv(q + "gi", c.global_index());
        d.kv(q + "state", static_cast<int>(c.state()));
        d.kv(q + "dir", static_cast<int>(c.dir()));
        d.kv(q + "depth", c.depth());
        d.kv(q + "sat", c.satTableId());
        d.kv(q + "complnum", c.complnum());
        d.kv(q + "segment", c.segment());
        d.kv(q + "wpimult", c.wpimult());
        d.kv(q + "CF", c.CF());
        d.kv(q + "Kh", c.Kh());
        d.kv(q + "rw", c.rw());
        d.kv(q + "r0", c.r0());
        d.kv(q + "skin", c.skinFactor());
        d.kv(q + "dfac", c.dFactor());
        d.kv(q + "kind", static_cast<int>(c.kind()));
        d.kv(q + "sort", c.sort_value());
        d.kv(q + "defsat", c.getDefaultSatTabId());
        dumpConnectionExtras(d, q, c);
    }
    dumpWellExtras(d, p, w);
    if (w.isMultiSegment()) {
        const auto& segs = w.getSegments();
        d.kv(p + "nseg", segs.size());
        SO_Q(p + "seg.maxid", segs.maxSegmentID());
        SO_Q(p + "seg.maxbranch", segs.maxBranchID());
        SO_Q(p + "seg.topdepth", segs.depthTopSegment());
        SO_Q(p + "seg.toplength", segs.lengthTopSegment());
        SO_Q(p + "seg.topvolume", segs.volumeTopSegment());
        SO_Q(p + "seg.pdrop", static_cast<int>(segs.compPressureDrop()));
        try { std::string b; for (int x : segs.branches()) b += std::to_string(x) + ","; d.kv(p + "seg.branches", b); } catch (const std::exception&) { d.kv(p + "seg.branches", std::string("err")); }
        for (std::size_t i = 0; i < segs.size(); ++i) {
            const auto& s = segs[i];
            const std::string q = p + "s" + std::to_string(i) + ".";
            d.kv(q + "num", s.segmentNumber());
            d.kv(q + "branch", s.branchNumber());
            d.kv(q + "outlet", s.outletSegment());
            d.kv(q + "len", s.totalLength());
            d.kv(q + "depth", s.depth());
            d.kv(q + "diam", s.internalDiameter());
            d.kv(q + "rough", s.roughness());
            d.kv(q + "area", s.crossArea());
            d.kv(q + "vol", s.volume());
            d.kv(q + "type", static_cast<int>(s.segmentType()));
            d.kv(q + "ninlet", s.inletSegments().size());
            dumpSegmentDevices(d, q, s);
            SO_Q(q + "seglen", segs.segmentLength(s.segmentNumber()));
            SO_Q(q + "segdz", segs.segmentDepthChange(s.segmentNumber()));
            SO_Q(q + "index", segs.segmentNumberToIndex(s.segmentNumber()));
            SO_Q(q + "perf_length", w.getConnections().segment_perf_length(s.segmentNumber()));
        }
    }
}

inline void dumpGroup(Dump& d, const std::string& p, const Opm::Group& g) {
    d.kv(p + "name", g.name());
    d.kv(p + "insert", g.insert_index());
    d.kv(p + "parent", g.parent());
    d.kv(p + "wells", join(g.wells()));
    d.kv(p + "groups", join(g.groups()));
    d.kv(p + "efac", g.getGroupEfficiencyFactor());
    d.kv(p + "tefac", g.getTransferGroupEfficiencyFactor());
    d.kv(p + "isprod", g.isProductionGroup());
    d.kv(p + "isinj", g.isInjectionGroup());
    d.kv(p + "type", static_cast<int>(g.getGroupType()));
    d.kv(p + "prod_cmode", static_cast<int>(g.prod_cmode()));
    d.kv(p + "gcontrol", g.productionGroupControlAvailable());
    const auto& pp = g.productionProperties();
    d.kv(p + "prod.controls", pp.production_controls);
    d.kv(p + "prod.guide", pp.guide_rate);
    d.kv(p + "prod.guidedef", static_cast<int>(pp.guide_rate_def));
    d.kv(p + "prod.avail", pp.available_group_control);
    for (const auto* u : { &pp.oil_target, &pp.water_target, &pp.gas_target, &pp.liquid_target })
        d.kv(p + "prod.uda", udaStr(*u));
    for (const auto& [phase, ip] : g.injectionProperties()) {
        const std::string q = p + "inj" + std::to_string(static_cast<int>(phase)) + ".";
        d.kv(q + "cmode", static_cast<int>(ip.cmode));
        d.kv(q + "controls", ip.injection_controls);
        d.kv(q + "avail", ip.available_group_control);
        for (const auto* u : { &ip.surface_max_rate, &ip.resv_max_rate, &ip.target_reinj_fraction, &ip.target_void_fraction })
            d.kv(q + "uda", udaStr(*u));
    }
    d.kv(p + "gpmaint", g.gpmaint().has_value());
    if (g.gpmaint().has_value()) {
        const auto& m = *g.gpmaint();
        d.kv(p + "gpmaint.ptarget", m.pressure_target());
        d.kv(p + "gpmaint.prop", m.prop_constant());
        d.kv(p + "gpmaint.time", m.time_constant());
        d.kv(p + "gpmaint.flow", static_cast<int>(m.flow_target()));
        const auto reg = m.region();
        d.kv(p + "gpmaint.region", reg.has_value() ? reg->first + "/" + std::to_string(reg->second) : std::string("none"));
    }
    d.kv(p + "control_group", optS(g.control_group()));
    d.kv(p + "flow_group", optS(g.flow_group()));
    d.kv(p + "wellgroup", g.wellgroup());
    d.kv(p + "numwells", g.numWells());
    d.kv(p + "topup", g.topup_phase().has_value() ? std::to_string(static_cast<int>(*g.topup_phase())) : std::string("none"));
    d.kv(p + "prod.cmode", static_cast<int>(pp.cmode));
    d.kv(p + "prod.resv", pp.resv_target);
    d.kv(p + "prod.name", pp.name);
    for (const auto& [phase, ip] : g.injectionProperties()) {
        const std::string q = p + "inj" + std::to_string(static_cast<int>(phase)) + ".";
        d.kv(q + "name", ip.name);
        d.kv(q + "phase", static_cast<int>(ip.phase));
        d.kv(q + "reinj_group", optS(ip.reinj_group));
        d.kv(q + "voidage_group", optS(ip.voidage_group));
        d.kv(q + "guide", ip.guide_rate);
        d.kv(q + "guidedef", static_cast<int>(ip.guide_rate_def));
        d.kv(q + "availinj", g.injectionGroupControlAvailable(phase));
    }
}

// per report step: everything the widened keyword families fill in ScheduleState
inline void dumpStepExtras(Dump& d, const std::string& p, const Opm::Schedule& s, std::size_t step) {
    const auto& st = s[step];
    dumpTuning(d, p + "tuning.", st.tuning());
    SO_Q(p + "max_next_tstep", st.max_next_tstep(false));
    SO_Q(p + "max_next_tstep.tuning", st.max_next_tstep(true));
    d.kv(p + "next_tstep", st.next_tstep.has_value() ? vh::hexF64(st.next_tstep->value()) + "/" + std::to_string(st.next_tstep->every_report()) : std::string("none"));
    d.kv(p + "save", st.save());
    d.kv(p + "whistctl.state", static_cast<int>(st.whistctl()));
    d.kv(p + "bhpdef.prod", optD(st.bhp_defaults().prod_target));
    d.kv(p + "bhpdef.inj", optD(st.bhp_defaults().inj_limit));
    d.kv(p + "has_gpmaint", st.has_gpmaint());
    d.kv(p + "hasAnalyticalAquifers", st.hasAnalyticalAquifers());
    {   // DRSDT / DRVDT / DRSDTR / DRVDTR / DRSDTCON / VAPPARS
        const auto& ov = st.oilvap();
        d.kv(p + "oilvap.defined", ov.defined());
        d.kv(p + "oilvap.nreg", ov.numPvtRegions());
        SO_Q(p + "oilvap.drsdt", ov.drsdtActive());
        SO_Q(p + "oilvap.drvdt", ov.drvdtActive());
        SO_Q(p + "oilvap.conv", ov.drsdtConvective());
        for (std::size_t r = 0; r < ov.numPvtRegions(); ++r) {
            const std::string q = p + "oilvap.r" + std::to_string(r) + ".";
            SO_Q(q + "maxdrsdt", ov.getMaxDRSDT(r));
            SO_Q(q + "maxdrvdt", ov.getMaxDRVDT(r));
            SO_Q(q + "option", ov.getOption(r));
            SO_Q(q + "drsdtActive", ov.drsdtActive(r));
            SO_Q(q + "drvdtActive", ov.drvdtActive(r));
            SO_Q(q + "conv", ov.drsdtConvective(r));
            SO_Q(q + "psi", ov.getPsi(r));
            SO_Q(q + "omega", ov.getOmega(r));
        }
    }
    {   // WLIST
        const auto& wlm = st.wlist_manager();
        d.kv(p + "wlist.size", wlm.WListSize());
        for (const char* ln : { "*L1", "*L2", "*L3", "*L4", "*NONE" }) {
            d.kv(p + "wlist." + ln + ".has", wlm.hasList(ln));
            if (wlm.hasList(ln)) {
                const auto& l = wlm.getList(ln);
                d.kv(p + "wlist." + ln + ".name", l.getName());
                d.kv(p + "wlist." + ln + ".size", l.size());
                d.kv(p + "wlist." + ln + ".wells", join(l.wells()));
            }
            SO_Q(p + "wlist." + ln + ".match", join(wlm.wells(ln)));
        }
        SO_Q(p + "wlist.matchall", join(wlm.wells("*L*")));
        for (const auto& wname : s.wellNames(step)) {
            d.kv(p + "wlist.w." + wname + ".has", wlm.hasWList(wname));
            SO_Q(p + "wlist.w." + wname + ".n", wlm.getNoWListsWell(wname));
            if (wlm.hasWList(wname)) SO_Q(p + "wlist.w." + wname + ".names", join(wlm.getWListNames(wname)));
        }
    }
    {   // GCONSALE / GCONSUMP
        const auto& gs = st.gconsale();
        const auto& gc = st.gconsump();
        d.kv(p + "gconsale.size", gs.size());
        d.kv(p + "gconsump.size", gc.size());
        for (const auto& gname : s.groupNames(step)) {
            d.kv(p + "gconsale." + gname + ".has", gs.has(gname));
            if (gs.has(gname)) {
                const auto& x = gs.get(gname);
                const std::string q = p + "gconsale." + gname + ".";
                d.kv(q + "target", udaStr(x.sales_target)); d.kv(q + "max", udaStr(x.max_sales_rate)); d.kv(q + "min", udaStr(x.min_sales_rate));
                d.kv(q + "proc", static_cast<int>(x.max_proc)); d.kv(q + "undef", x.udq_undefined); d.kv(q + "units", x.unit_system.getName());
                try { const auto e = gs.get(gname, Opm::SummaryState{}); d.kv(q + "eval", vh::hexF64(e.sales_target) + "/" + vh::hexF64(e.max_sales_rate) + "/" + vh::hexF64(e.min_sales_rate) + "/" + std::to_string(static_cast<int>(e.max_proc))); }
                catch (const std::exception&) { d.kv(q + "eval", std::string("err")); }
            }
            d.kv(p + "gconsump." + gname + ".has", gc.has(gname));
            if (gc.has(gname)) {
                const auto& x = gc.get(gname);
                const std::string q = p + "gconsump." + gname + ".";
                d.kv(q + "rate", udaStr(x.consumption_rate)); d.kv(q + "import", udaStr(x.import_rate)); d.kv(q + "node", x.network_node);
                d.kv(q + "undef", x.udq_undefined); d.kv(q + "units", x.unit_system.getName());
                try { const auto e = gc.get(gname, Opm::SummaryState{}); d.kv(q + "eval", vh::hexF64(e.consumption_rate) + "/" + vh::hexF64(e.import_rate) + "/" + e.network_node); }
                catch (const std::exception&) { d.kv(q + "eval", std::string("err")); }
            }
        }
    }
    {   // GUIDERAT, WGRUPCON, GCONPROD guide rates
        const auto& gr = st.guide_rate();
        d.kv(p + "guiderate.has_model", gr.has_model());
        if (gr.has_model()) {
            const auto& m = gr.model();
            const std::string q = p + "guiderate.model.";
            SO_Q(q + "target", static_cast<int>(m.target()));
            SO_Q(q + "A", m.getA()); SO_Q(q + "B", m.getB()); SO_Q(q + "C", m.getC()); SO_Q(q + "D", m.getD()); SO_Q(q + "E", m.getE()); SO_Q(q + "F", m.getF());
            SO_Q(q + "allow_increase", m.allow_increase());
            SO_Q(q + "damping", m.damping_factor());
            SO_Q(q + "delay", m.update_delay());
            SO_Q(q + "eval", m.eval(120.0, 3400.0, 56.0));
        }
        for (const auto& wname : s.wellNames(step)) {
            d.kv(p + "guiderate.w." + wname + ".has", gr.has_well(wname));
            if (gr.has_well(wname)) {
                const auto& x = gr.well(wname);
                d.kv(p + "guiderate.w." + wname + ".v", vh::hexF64(x.guide_rate) + "/" + std::to_string(static_cast<int>(x.target)) + "/" + vh::hexF64(x.scaling_factor));
            }
        }
        for (const auto& gname : s.groupNames(step)) {
            d.kv(p + "guiderate.g." + gname + ".hasprod", gr.has_production_group(gname));
            if (gr.has_production_group(gname)) {
                const auto& x = gr.production_group(gname);
                d.kv(p + "guiderate.g." + gname + ".prod", vh::hexF64(x.guide_rate) + "/" + std::to_string(static_cast<int>(x.target)));
            }
            for (const auto ph : { Opm::Phase::WATER, Opm::Phase::GAS, Opm::Phase::OIL }) {
                const std::string q = p + "guiderate.g." + gname + ".inj" + std::to_string(static_cast<int>(ph));
                d.kv(q + ".has", gr.has_injection_group(ph, gname));
                if (gr.has_injection_group(ph, gname)) {
                    const auto& x = gr.injection_group(ph, gname);
                    d.kv(q, vh::hexF64(x.guide_rate) + "/" + std::to_string(static_cast<int>(x.target)));
                }
            }
        }
    }
    {   // NETWORK: BRANPROP / NODEPROP / GRUPNET / NETBALAN
        const auto& net = st.network();
        d.kv(p + "network.standard", net.is_standard_network());
        SO_Q(p + "network.nbranch", net.NoOfBranches());
        SO_Q(p + "network.nnodes", net.NoOfNodes());
        SO_Q(p + "network.nodes", join(net.node_names()));
        try { std::string r; for (const auto& n : net.roots()) r += n.get().name() + ","; d.kv(p + "network.roots", r); } catch (const std::exception&) { d.kv(p + "network.roots", std::string("err")); }
        std::vector<std::string> names = s.groupNames(step);
        for (const auto& n : net.node_names()) if (std::find(names.begin(), names.end(), n) == names.end()) names.push_back(n);
        for (const auto& n : names) {
            d.kv(p + "network.N." + n + ".has", net.has_node(n));
            if (!net.has_node(n)) continue;
            const auto& node = net.node(n);
            const std::string q = p + "network.N." + n + ".";
            d.kv(q + "pressure", optD(node.terminal_pressure()));
            d.kv(q + "choke", node.as_choke());
            d.kv(q + "liftgas", node.add_gas_lift_gas());
            d.kv(q + "target_group", optS(node.target_group()));
            try {
                const auto up = net.uptree_branch(n);
                d.kv(q + "up", up.has_value() ? up->uptree_node() + "<-" + up->downtree_node() + " vfp=" + optI(up->vfp_table()) + " alqeq=" + std::to_string(static_cast<int>(up->alq_eq())) + " alq=" + optD(up->alq_value()) : std::string("none"));
            } catch (const std::exception&) { d.kv(q + "up", std::string("err")); }
            try { std::string dn; for (const auto& b : net.downtree_branches(n)) dn += b.downtree_node() + ","; d.kv(q + "down", dn); } catch (const std::exception&) { d.kv(q + "down", std::string("err")); }
        }
        const auto& bal = st.network_balance();
        d.kv(p + "netbalan.mode", static_cast<int>(bal.mode()));
        d.kv(p + "netbalan.interval", bal.interval());
        d.kv(p + "netbalan.ptol", bal.pressure_tolerance());
        d.kv(p + "netbalan.pmaxiter", bal.pressure_max_iter());
        d.kv(p + "netbalan.thptol", bal.thp_tolerance());
        d.kv(p + "netbalan.thpmaxiter", bal.thp_max_iter());
        d.kv(p + "netbalan.target_err", optD(bal.target_balance_error()));
        d.kv(p + "netbalan.max_err", optD(bal.max_balance_error()));
        d.kv(p + "netbalan.min_tstep", optD(bal.min_tstep()));
    }
    {   // RPTRST / RPTSCHED / RPTSOL
        const auto& rc = st.rst_config();
        d.kv(p + "rstconfig.write", rc.write_rst_file.has_value() ? std::to_string(*rc.write_rst_file) : std::string("none"));
        d.kv(p + "rstconfig.basic", optI(rc.basic));
        d.kv(p + "rstconfig.freq", optI(rc.freq));
        d.kv(p + "rstconfig.save", rc.save);
        d.kv(p + "rstconfig.compositional", rc.compositional);
        { std::string k; for (const auto& [m, v] : rc.keywords) k += m + "=" + std::to_string(v) + ","; d.kv(p + "rstconfig.keywords", k); }
        std::vector<std::string> rpt;
        for (const auto& [m, v] : st.rpt_config()) rpt.push_back(m + "=" + std::to_string(v));
        d.kv(p + "rptconfig", joinSorted(rpt));
        for (const char* m : { "FIP", "WELLS", "RESTART", "NOSUCH" }) d.kv(p + "rptconfig.contains." + m, st.rpt_config().contains(m));
    }
    {   // BCPROP / SOURCE / AQUFLUX / WELPI
        std::size_t i = 0;
        d.kv(p + "bcprop.size", st.bcprop.size());
        for (const auto& f : st.bcprop) {
            const std::string q = p + "bcprop.f" + std::to_string(i++) + ".";
            d.kv(q + "index", f.index); d.kv(q + "type", static_cast<int>(f.bctype)); d.kv(q + "mech", static_cast<int>(f.bcmechtype));
            d.kv(q + "comp", static_cast<int>(f.component)); d.kv(q + "rate", f.rate); d.kv(q + "pressure", optD(f.pressure)); d.kv(q + "temperature", optD(f.temperature));
            d.kv(q + "hasmech", f.mechbcvalue.has_value());
            if (f.mechbcvalue) {
                std::string m;
                for (double x : f.mechbcvalue->disp) m += vh::hexF64(x) + ","; m += "|";
                for (double x : f.mechbcvalue->stress) m += vh::hexF64(x) + ","; m += "|";
                for (bool x : f.mechbcvalue->fixeddir) m += x ? "1" : "0";
                d.kv(q + "mechvalue", m);
            }
        }
        i = 0;
        d.kv(p + "source.size", st.source().size());
        for (const auto& c : st.source()) {
            const std::string q = p + "source.c" + std::to_string(i++) + ".";
            d.kv(q + "ijk", std::to_string(c.ijk[0]) + "," + std::to_string(c.ijk[1]) + "," + std::to_string(c.ijk[2]));
            d.kv(q + "comp", static_cast<int>(c.component)); d.kv(q + "rate", c.rate); d.kv(q + "hrate", optD(c.hrate)); d.kv(q + "temp", optD(c.temperature));
            { const std::pair<std::array<int, 3>, Opm::SourceComponent> key{ c.ijk, c.component }; SO_Q(q + "lookup", st.source().rate(key)); }
        }
        std::vector<int> ids;
        for (const auto& kv : st.aqufluxs) ids.push_back(kv.first);
        std::sort(ids.begin(), ids.end());
        d.kv(p + "aqufluxs.size", ids.size());
        for (int id : ids) {
            const auto& a = st.aqufluxs.at(id);
            const std::string q = p + "aqufluxs.a" + std::to_string(id) + ".";
            d.kv(q + "id", a.id); d.kv(q + "flux", a.flux); d.kv(q + "salt", a.salt_concentration); d.kv(q + "active", a.active);
            d.kv(q + "temp", optD(a.temperature)); d.kv(q + "pressure", optD(a.datum_pressure));
        }
        std::vector<std::string> pi;
        for (const auto& [w, v] : st.target_wellpi) pi.push_back(w + ":" + vh::hexF64(v));
        d.kv(p + "target_wellpi", joinSorted(pi));
    }
    {   // LIFTOPT / GLIFTOPT / WLIFTOPT
        const auto& glo = st.glo();
        SO_Q(p + "glo.increment", glo.gaslift_increment());
        SO_Q(p + "glo.mineco", glo.min_eco_gradient());
        SO_Q(p + "glo.minwait", glo.min_wait());
        SO_Q(p + "glo.allnewton", glo.all_newton());
        SO_Q(p + "glo.nwells", glo.num_wells());
        for (const auto& wname : s.wellNames(step)) {
            d.kv(p + "glo.w." + wname + ".has", glo.has_well(wname));
            if (!glo.has_well(wname)) continue;
            const auto& x = glo.well(wname);
            const std::string q = p + "glo.w." + wname + ".";
            d.kv(q + "name", x.name()); d.kv(q + "use", x.use_glo()); d.kv(q + "max", optD(x.max_rate())); d.kv(q + "weight", x.weight_factor());
            d.kv(q + "incweight", x.inc_weight_factor()); d.kv(q + "min", x.min_rate()); d.kv(q + "extra", x.alloc_extra_gas());
        }
        for (const auto& gname : s.groupNames(step)) {
            d.kv(p + "glo.g." + gname + ".has", glo.has_group(gname));
            if (!glo.has_group(gname)) continue;
            const auto& x = glo.group(gname);
            d.kv(p + "glo.g." + gname + ".v", x.name() + "/" + optD(x.max_lift_gas()) + "/" + optD(x.max_total_gas()));
        }
    }
    {   // VFPPROD / VFPINJ (held in an unordered map: sorted by table number)
        auto prod = st.vfpprod();
        std::sort(prod.begin(), prod.end(), [](const auto& a, const auto& b) { return a.get().getTableNum() < b.get().getTableNum(); });
        d.kv(p + "vfpprod.size", prod.size());
        for (const auto& ref : prod) {
            const auto& t = ref.get();
            const std::string q = p + "vfpprod.T" + std::to_string(t.getTableNum()) + ".";
            d.kv(q + "datum", t.getDatumDepth()); d.kv(q + "flo", static_cast<int>(t.getFloType())); d.kv(q + "wfr", static_cast<int>(t.getWFRType()));
            d.kv(q + "gfr", static_cast<int>(t.getGFRType())); d.kv(q + "alq", static_cast<int>(t.getALQType()));
            d.kv(q + "floaxis", vecD(t.getFloAxis())); d.kv(q + "thpaxis", vecD(t.getTHPAxis())); d.kv(q + "wfraxis", vecD(t.getWFRAxis()));
            d.kv(q + "gfraxis", vecD(t.getGFRAxis())); d.kv(q + "alqaxis", vecD(t.getALQAxis())); d.kv(q + "table", vecD(t.getTable()));
            { std::string sh; for (auto x : t.shape()) sh += std::to_string(x) + ","; d.kv(q + "shape", sh); }
        }
        auto inj = st.vfpinj();
        std::sort(inj.begin(), inj.end(), [](const auto& a, const auto& b) { return a.get().getTableNum() < b.get().getTableNum(); });
        d.kv(p + "vfpinj.size", inj.size());
        for (const auto& ref : inj) {
            const auto& t = ref.get();
            const std::string q = p + "vfpinj.T" + std::to_string(t.getTableNum()) + ".";
            d.kv(q + "datum", t.getDatumDepth()); d.kv(q + "flo", static_cast<int>(t.getFloType()));
            d.kv(q + "floaxis", vecD(t.getFloAxis())); d.kv(q + "thpaxis", vecD(t.getTHPAxis())); d.kv(q + "table", vecD(t.getTable()));
            { std::string sh; for (auto x : t.shape()) sh += std::to_string(x) + ","; d.kv(q + "shape", sh); }
        }
    }
    {   // WPAVE (global), wellgroup events, geo keywords (MULTFLT, MULTX, ... in SCHEDULE)
        const auto& a = st.pavg();
        d.kv(p + "pavg", vh::hexF64(a.inner_weight()) + "/" + vh::hexF64(a.conn_weight()) + "/" + std::to_string(a.open_connections()) + "/" + std::to_string(static_cast<int>(a.depth_correction())) + "/" + std::to_string(a.use_porv()));
        const auto& wge = st.wellgroup_events();
        auto names = s.wellNames(step);
        for (const auto& g : s.groupNames(step)) names.push_back(g);
        for (const auto& n : names) {
            d.kv(p + "wgevents.X." + n + ".has", wge.has(n));
            if (!wge.has(n)) continue;
            std::string bits;
            for (uint64_t bit = 1; bit != 0 && bit <= (1ull << 40); bit <<= 1) if (wge.hasEvent(n, bit)) bits += std::to_string(bit) + ",";
            d.kv(p + "wgevents.X." + n + ".bits", bits);
        }
        d.kv(p + "geo.size", st.geo_keywords().size());
        for (const auto& kw : st.geo_keywords()) {
            std::ostringstream os; os << kw;
            std::string text = os.str();
            for (auto& ch : text) if (ch == '\n') ch = ' ';
            d.kv(p + "geo.kw", text);
        }
    }
    // ACTIONX bodies and the full condition structure (an action re-defined under the same name
    // at a later step must keep the later definition in the copy)
    for (const auto& a : st.actions()) {
        const std::string q = p + "action." + a.name() + ".";
        std::string conds;
        for (const auto& c : a.conditions()) {
            conds += c.lhs.quantity + "(" + join(c.lhs.args) + ")" + c.cmp_string + "[" + std::to_string(static_cast<int>(c.cmp)) + "]" + c.rhs.quantity + "(" + join(c.rhs.args) + ")"
                   + " logic=" + std::to_string(static_cast<int>(c.logic)) + " paren=" + std::to_string(c.left_paren) + std::to_string(c.right_paren) + ";";
        }
        d.kv(q + "conds", conds);
        SO_Q(q + "kwstrings", join(a.keyword_strings()));
        for (auto it = a.begin(); it != a.end(); ++it) {
            std::ostringstream os; os << *it;
            std::string text = os.str();
            for (auto& ch : text) if (ch == '\n') ch = ' ';
            d.kv(q + "kw", text);
        }
    }
}

inline std::string dumpSchedule(const Opm::Schedule& s) {
    Dump d;
    d.kv("size", s.size());
    d.kv("start", static_cast<long long>(s.getStartTime()));
    d.guarded("end", [&] { d.kv("end", static_cast<long long>(s.posixEndTime())); });
    d.kv("exit", s.exitStatus().has_value() ? std::to_string(*s.exitStatus()) : std::string("none"));
    d.kv("allwells", join(s.wellNames()));
    d.kv("allgroups", join(s.groupNames()));
    {
        std::vector<std::string> pf;
        for (const auto& [w, cells] : s.getPossibleFutureConnections()) {
            std::string e = w + ":";
            for (int c : cells) e += std::to_string(c) + "/";
            pf.push_back(e);
        }
        d.kv("possibleFutureConnections", joinSorted(pf));
    }
    for (std::size_t step = 0; step < s.size(); ++step) {
        const std::string p = "t" + std::to_string(step) + ".";
        const auto& st = s[step];
        d.kv(p + "simtime", static_cast<long long>(s.simTime(step)));
        d.kv(p + "seconds", s.seconds(step));
        d.kv(p + "start_ms", static_cast<long long>(st.start_time().time_since_epoch().count()));
        if (step + 1 < s.size()) {
            d.kv(p + "steplen", s.stepLength(step));
            d.kv(p + "end_ms", static_cast<long long>(st.end_time().time_since_epoch().count()));
        }
        d.kv(p + "simstep", st.sim_step());
        d.kv(p + "month", st.month_num());
        d.kv(p + "year", st.year_num());
        d.kv(p + "firstinmonth", st.first_in_month());
        d.kv(p + "firstinyear", st.first_in_year());
        d.kv(p + "rst", s.write_rst_file(step));
        d.kv(p + "nupcol", st.nupcol());
        d.kv(p + "events", static_cast<long long>(0));
        for (uint64_t bit = 1; bit != 0 && bit <= (1ull << 40); bit <<= 1)
            if (st.events().hasEvent(bit)) d.kv(p + "event", static_cast<long long>(bit));
        d.kv(p + "whistctl", static_cast<int>(s.getGlobalWhistctlMmode(step)));
        d.kv(p + "sumthin", st.sumthin().has_value() ? vh::hexF64(*st.sumthin()) : std::string("none"));
        d.kv(p + "rptonly", st.rptonly());
        d.kv(p + "tuning.tsinit", st.tuning().TSINIT.has_value() ? vh::hexF64(*st.tuning().TSINIT) : std::string("none"));
        d.kv(p + "tuning.tsmaxz", st.tuning().TSMAXZ);
        d.kv(p + "tuning.newtmx", st.tuning().NEWTMX);
        d.kv(p + "oilvap.type", static_cast<int>(st.oilvap().getType()));
        d.kv(p + "wtest.empty", st.wtest_config().empty());
        d.kv(p + "glo.active", st.glo().active());
        d.kv(p + "network.active", st.network().active());
        d.kv(p + "rft.active", st.rft_config().active());
        d.kv(p + "gecon.size", st.gecon().size());
        for (const auto& gname : s.groupNames(step)) {
            if (st.gecon().has_group(gname)) {
                const auto& gp = st.gecon().get_group(gname);
                d.kv(p + "gecon." + gname + ".reportStep", gp.reportStep());
                d.kv(p + "gecon." + gname + ".endRun", gp.endRun());
            }
        }
        d.kv(p + "wells", join(s.wellNames(step)));
        d.kv(p + "groups", join(s.groupNames(step)));
        d.kv(p + "wlist.well_order", join(st.well_order().names()));
        for (const auto& wname : s.wellNames(step))
            dumpWell(d, p + "w." + wname + ".", s.getWell(wname, step));
        for (const auto& gname : s.groupNames(step))
            dumpGroup(d, p + "g." + gname + ".", s.getGroup(gname, step));
        // UDQ
        const auto& udq = st.udq();
        d.kv(p + "udq.size", udq.size());
        for (const auto& def : udq.definitions()) {
            d.kv(p + "udq.def", def.keyword() + " := " + def.input_string());
            d.kv(p + "udq.def.type", static_cast<int>(def.var_type()));
        }
        for (const auto& asg : udq.assignments()) d.kv(p + "udq.assign", asg.keyword());
        for (const char* k : { "FU1", "FU2", "WU1" }) d.kv(p + "udq.has_unit." + k, udq.has_unit(k));
        d.kv(p + "udq.undef", udq.params().undefinedValue());
        // actions
        const auto& acts = st.actions();
        d.kv(p + "actions.size", acts.ecl_size());
        for (const auto& a : acts) {
            d.kv(p + "action", a.name());
            d.kv(p + "action.max_run", a.max_run());
            d.kv(p + "action.min_wait", a.min_wait());
            d.kv(p + "action.start", static_cast<long long>(a.start_time()));
            d.kv(p + "action.id", a.id());
            d.kv(p + "action.nkw", static_cast<std::size_t>(std::distance(a.begin(), a.end())));
            std::string conds;
            for (const auto& c : a.conditions()) conds += c.cmp_string + "|" + c.lhs.quantity + "|" + c.rhs.quantity + ";";
            d.kv(p + "action.conditions", conds);
            { std::unordered_set<std::string> req; a.required_summary(req); d.kv(p + "action.required", joinSorted(std::vector<std::string>(req.begin(), req.end()))); }
        }
        dumpStepExtras(d, p, s, step);
    }
    return d.str();
}

inline std::string nncStr(const std::vector<Opm::NNCdata>& v) { std::string s; for (const auto& n : v) s += std::to_string(n.cell1) + ">" + std::to_string(n.cell2) + ":" + vh::hexF64(n.trans) + ","; return s; }

// static state reached by the widened decks: tables of every region, aquifers, faults, NNC, THPRES,
// BCCON, tracers, ROCKCOMP/ROCKTAB, PLYSHLOG, JFUNC, ENDSCALE
inline void dumpEclipseStateExtras(Dump& d, const Opm::EclipseState& es) {
    const auto& rs = es.runspec();
    const auto& tm = es.getTableManager();
    d.kv("rs.satnodes", rs.tabdims().getNumSatNodes()); d.kv("rs.pnodes", rs.tabdims().getNumPressureNodes()); d.kv("rs.ntfip", rs.tabdims().getNumFIPRegions());
    d.kv("rs.rsnodes", rs.tabdims().getNumRSNodes());
    d.kv("rs.phase.oil", rs.phases().active(Opm::Phase::OIL)); d.kv("rs.phase.gas", rs.phases().active(Opm::Phase::GAS)); d.kv("rs.phase.water", rs.phases().active(Opm::Phase::WATER));
    d.kv("rs.phase.polymer", rs.phases().active(Opm::Phase::POLYMER));
    for (int ph = 0; ph < Opm::NUM_PHASES_IN_ENUM; ++ph) d.kv("rs.phase." + std::to_string(ph), rs.phases().active(static_cast<Opm::Phase>(ph)));
    // every FIP report flag through the public observer (FIPConfig::m_flags is a 17-bit bitset; RPTSOL mnemonics)
    for (int f = 0; f < static_cast<int>(Opm::FIPConfig::OutputField::NUM_FIP_REPORT); ++f)
        d.kv("cfg.fip.output." + std::to_string(f), es.cfg().fip().output(static_cast<Opm::FIPConfig::OutputField>(f)));
    d.kv("rs.wsegdims", std::to_string(rs.wellSegmentDimensions().maxSegmentedWells()) + "/" + std::to_string(rs.wellSegmentDimensions().maxSegmentsPerWell()) + "/" + std::to_string(rs.wellSegmentDimensions().maxLateralBranchesPerWell()));
    d.kv("rs.welldims", std::to_string(rs.wellDimensions().maxWellsPerGroup()) + "/" + std::to_string(rs.wellDimensions().maxGroupsInField()) + "/" + std::to_string(rs.wellDimensions().maxWellListsPrWell()) + "/" + std::to_string(rs.wellDimensions().maxDynamicWellLists()));
    d.kv("rs.aqudims", std::to_string(rs.aquiferDimensions().maxAnalyticAquifers()) + "/" + std::to_string(rs.aquiferDimensions().maxAnalyticAquiferConnections()));
    d.kv("rs.tracers.water", rs.tracers().water_tracers());
    d.kv("rs.endscale", rs.endpointScaling().operator bool());
    d.kv("rs.endscale.flags", std::to_string(rs.endpointScaling().directional()) + std::to_string(rs.endpointScaling().reversible()) + std::to_string(rs.endpointScaling().twopoint()) + std::to_string(rs.endpointScaling().threepoint()));
    d.kv("rs.nupcol", rs.nupcol().value());
    d.kv("rs.eclphasemask", rs.eclPhaseMask());
    d.kv("rs.satfunc.family", static_cast<int>(rs.saturationFunctionControls().family()));
    d.kv("tm.numfip", tm.numFIPRegions());
    d.kv("tm.useEqlnum", tm.useEqlnum()); d.kv("tm.useJFunc", tm.useJFunc()); d.kv("tm.useShrate", tm.useShrate());
    SO_Q("tm.rtemp", tm.rtemp());
    d.kv("tm.aqudims", std::to_string(tm.getAqudims().getNumAqunum()) + "/" + std::to_string(tm.getAqudims().getNumInfluenceTablesCT()) + "/" + std::to_string(tm.getAqudims().getNumAnalyticAquifers()));
    for (const auto& [name, tc] : tm.getSimpleTables()) dumpTableContainer(d, "tm.simple." + name + ".", tc);
    {
        std::size_t i = 0;
        for (const auto& r : tm.getPvtwTable()) d.kv("tm.pvtw.r" + std::to_string(i++), vh::hexF64(r.reference_pressure) + "/" + vh::hexF64(r.volume_factor) + "/" + vh::hexF64(r.compressibility) + "/" + vh::hexF64(r.viscosity) + "/" + vh::hexF64(r.viscosibility));
        i = 0;
        for (const auto& r : tm.getDensityTable()) d.kv("tm.density.r" + std::to_string(i++), vh::hexF64(r.oil) + "/" + vh::hexF64(r.water) + "/" + vh::hexF64(r.gas));
        i = 0;
        for (const auto& r : tm.getRockTable()) d.kv("tm.rock.r" + std::to_string(i++), vh::hexF64(r.reference_pressure) + "/" + vh::hexF64(r.compressibility));
    }
    auto pvtx = [&](const std::string& p, const auto& tables) {
        d.kv(p + "n", tables.size());
        for (std::size_t t = 0; t < tables.size(); ++t) {
            const auto& x = tables[t];
            const std::string q = p + "r" + std::to_string(t) + ".";
            d.kv(q + "size", x.size());
            try {
                dumpSimpleTable(d, q + "sat.", x.getSaturatedTable());
                for (std::size_t k = 0; k < x.size(); ++k) { d.kv(q + "arg" + std::to_string(k), x.getArgValue(k)); dumpSimpleTable(d, q + "u" + std::to_string(k) + ".", x.getUnderSaturatedTable(k)); }
            } catch (const std::exception&) { d.kv(q + "tables", std::string("err")); }
        }
    };
    pvtx("tm.pvto.", tm.getPvtoTables());
    pvtx("tm.pvtg.", tm.getPvtgTables());
    if (tm.hasTables("PLYSHLOG")) {
        const auto& tc = tm.getPlyshlogTables();
        for (const auto& [idx, ptr] : tc.tables()) {
            if (!ptr) continue;
            const auto& t = tc.getTable<Opm::PlyshlogTable>(idx);
            const std::string q = "tm.plyshlog.n" + std::to_string(idx) + ".";
            d.kv(q + "refconc", t.getRefPolymerConcentration()); d.kv(q + "hassal", t.hasRefSalinity()); d.kv(q + "hastemp", t.hasRefTemperature());
            d.kv(q + "refsal", t.getRefSalinity()); d.kv(q + "reftemp", t.getRefTemperature());
        }
    }
    // (ROCKTAB: the columns are covered by the generic sweep over getSimpleTables() above.  The copy
    //  holds plain SimpleTable objects for ROCKTAB - TableManager::splitSimpleTable looks for the key
    //  "ROCKMAP", not "ROCKTAB" - so RocktabTable::m_isDirectional cannot be queried on it without
    //  reading past the object; no probe here.)
    if (tm.useJFunc()) {
        const auto& j = tm.getJFunc();
        SO_Q("tm.jfunc.flag", static_cast<int>(j.flag())); SO_Q("tm.jfunc.dir", static_cast<int>(j.direction()));
        SO_Q("tm.jfunc.alpha", j.alphaFactor()); SO_Q("tm.jfunc.beta", j.betaFactor()); SO_Q("tm.jfunc.go", j.goSurfaceTension()); SO_Q("tm.jfunc.ow", j.owSurfaceTension());
    }
    const auto& sim = es.getSimulationConfig();
    d.kv("sim.diffusive", sim.isDiffusive()); d.kv("sim.nonnc", sim.useNONNC()); d.kv("sim.disgasw", sim.hasDISGASW()); d.kv("sim.vapwat", sim.hasVAPWAT());
    d.kv("sim.enthalpy", sim.useEnthalpy()); d.kv("sim.precsalt", sim.hasPRECSALT());
    {
        const auto& rc = sim.rock_config();
        d.kv("rock.active", rc.active()); d.kv("rock.rocknum", rc.rocknum_property()); d.kv("rock.ntab", rc.num_rock_tables());
        d.kv("rock.hyst", static_cast<int>(rc.hysteresis_mode())); d.kv("rock.watcomp", rc.water_compaction()); d.kv("rock.dispersion", rc.dispersion());
        std::size_t i = 0;
        for (const auto& c : rc.comp()) d.kv("rock.comp" + std::to_string(i++), vh::hexF64(c.pref) + "/" + vh::hexF64(c.compressibility));
    }
    {
        const auto& tp = sim.getThresholdPressure();
        d.kv("thpres.active", tp.active()); d.kv("thpres.restart", tp.restart()); d.kv("thpres.irrev", tp.irreversible()); d.kv("thpres.ftsize", tp.ftSize());
        for (int r1 = 1; r1 <= 3; ++r1) for (int r2 = 1; r2 <= 3; ++r2) {
            const std::string q = "thpres." + std::to_string(r1) + "_" + std::to_string(r2) + ".";
            SO_Q(q + "barrier", tp.hasRegionBarrier(r1, r2));
            SO_Q(q + "has", tp.hasThresholdPressure(r1, r2));
            SO_Q(q + "v", tp.getThresholdPressure(r1, r2));
        }
    }
    {
        std::size_t i = 0;
        d.kv("bccon.size", sim.bcconfig().size());
        for (const auto& b : sim.bcconfig()) d.kv("bccon.r" + std::to_string(i++), std::to_string(b.index) + ":" + std::to_string(b.i1) + "-" + std::to_string(b.i2) + "," + std::to_string(b.j1) + "-" + std::to_string(b.j2) + "," + std::to_string(b.k1) + "-" + std::to_string(b.k2) + " dir=" + std::to_string(static_cast<int>(b.dir)));
    }
    {   // aquifers
        const auto& aq = es.aquifer();
        d.kv("aq.hasnum", aq.hasNumericalAquifer()); d.kv("aq.hasana", aq.hasAnalyticalAquifer());
        for (int id = 1; id <= 5; ++id) { d.kv("aq.has" + std::to_string(id), aq.hasAquifer(id)); d.kv("aq.hasana" + std::to_string(id), aq.hasAnalyticalAquifer(id)); }
        for (const auto& f : aq.fetp()) {
            const std::string q = "aq.fetp" + std::to_string(f.aquiferID) + ".";
            d.kv(q + "pvt", f.pvttableID); d.kv(q + "J", f.prod_index); d.kv(q + "ct", f.total_compr); d.kv(q + "V0", f.initial_watvolume); d.kv(q + "d0", f.datum_depth);
            d.kv(q + "p0", optD(f.initial_pressure)); d.kv(q + "T0", optD(f.initial_temperature)); d.kv(q + "tc", f.timeConstant()); d.kv(q + "rho", f.waterDensity()); d.kv(q + "mu", f.waterViscosity());
        }
        for (const auto& c : aq.ct()) {
            const std::string q = "aq.ct" + std::to_string(c.aquiferID) + ".";
            d.kv(q + "inftab", c.inftableID); d.kv(q + "pvt", c.pvttableID); d.kv(q + "poro", c.porosity); d.kv(q + "d0", c.datum_depth); d.kv(q + "ct", c.total_compr);
            d.kv(q + "r", c.inner_radius); d.kv(q + "perm", c.permeability); d.kv(q + "h", c.thickness); d.kv(q + "angle", c.angle_fraction);
            d.kv(q + "p0", optD(c.initial_pressure)); d.kv(q + "T0", optD(c.initial_temperature)); d.kv(q + "td", vecD(c.dimensionless_time)); d.kv(q + "pd", vecD(c.dimensionless_pressure));
            d.kv(q + "tc", c.timeConstant()); d.kv(q + "beta", c.influxConstant()); d.kv(q + "rho", c.waterDensity()); d.kv(q + "mu", c.waterViscosity());
        }
        {
            std::vector<int> ids; for (const auto& kv : aq.connections().data()) ids.push_back(kv.first);
            std::sort(ids.begin(), ids.end());
            d.kv("aq.ancon.active", aq.connections().active());
            for (int id : ids) {
                std::string e;
                for (const auto& c : aq.connections().getConnections(id)) e += std::to_string(c.aquiferID) + ":" + std::to_string(c.global_index) + ":" + vh::hexF64(c.influx_coeff) + ":" + vh::hexF64(c.effective_facearea) + ":" + std::to_string(static_cast<int>(c.face_dir)) + ",";
                d.kv("aq.ancon" + std::to_string(id), e);
            }
        }
        {
            std::vector<int> ids; for (const auto& kv : aq.aquflux()) ids.push_back(kv.first);
            std::sort(ids.begin(), ids.end());
            d.kv("aq.flux.size", aq.aquflux().size());
            for (int id : ids) { d.kv("aq.flux.has" + std::to_string(id), aq.aquflux().hasAquifer(id)); }
            for (const auto& kv : aq.aquflux()) if (kv.first == (ids.empty() ? -1 : ids.front())) {
                const auto& a = kv.second;
                d.kv("aq.flux.first", std::to_string(a.id) + ":" + vh::hexF64(a.flux) + ":" + vh::hexF64(a.salt_concentration) + ":" + std::to_string(a.active) + ":" + optD(a.temperature) + ":" + optD(a.datum_pressure));
            }
        }
        const auto& num = aq.numericalAquifers();
        d.kv("aq.num.size", num.size());
        for (const auto& [id, a] : num.aquifers()) {
            const std::string q = "aq.num" + std::to_string(id) + ".";
            d.kv(q + "id", a.id()); d.kv(q + "ncells", a.numCells()); d.kv(q + "nconn", a.numConnections());
            for (std::size_t i = 0; i < a.numCells(); ++i) {
                const auto* c = a.getCellPrt(i);
                const std::string r = q + "cell" + std::to_string(i) + ".";
                d.kv(r + "ijk", std::to_string(c->I) + "," + std::to_string(c->J) + "," + std::to_string(c->K) + " gi=" + std::to_string(c->global_index) + " rec=" + std::to_string(c->record_id) + " aq=" + std::to_string(c->aquifer_id));
                d.kv(r + "geom", vh::hexF64(c->area) + "/" + vh::hexF64(c->length) + "/" + vh::hexF64(c->porosity) + "/" + vh::hexF64(c->permeability) + "/" + vh::hexF64(c->depth) + "/" + optD(c->init_pressure));
                d.kv(r + "tabs", std::to_string(c->pvttable) + "/" + std::to_string(c->sattable));
                d.kv(r + "derived", vh::hexF64(c->cellVolume()) + "/" + vh::hexF64(c->poreVolume()) + "/" + vh::hexF64(c->transmissiblity()));
            }
            std::size_t i = 0;
            for (const auto& c : a.connections())
                d.kv(q + "conn" + std::to_string(i++), std::to_string(c.aquifer_id) + ":" + std::to_string(c.I) + "," + std::to_string(c.J) + "," + std::to_string(c.K) + " gi=" + std::to_string(c.global_index) + " dir=" + std::to_string(static_cast<int>(c.face_dir)) + " m=" + vh::hexF64(c.trans_multipler) + " opt=" + std::to_string(c.trans_option) + " act=" + std::to_string(c.connect_active_cell) + " ve=" + vh::hexF64(c.ve_frac_relperm) + "/" + vh::hexF64(c.ve_frac_cappress));
        }
        try { std::string ids; for (auto x : num.allAquiferCellIds()) ids += std::to_string(x) + ","; d.kv("aq.num.cellids", ids); } catch (const std::exception&) { d.kv("aq.num.cellids", std::string("err")); }
    }
    for (const auto& t : es.tracer()) {
        const std::string q = "tracer." + t.name + ".";
        d.kv(q + "unit", t.unit_string); d.kv(q + "phase", static_cast<int>(t.phase));
        d.kv(q + "free", t.free_concentration.has_value() ? vecD(*t.free_concentration) : std::string("none"));
        d.kv(q + "sol", t.solution_concentration.has_value() ? vecD(*t.solution_concentration) : std::string("none"));
        d.kv(q + "free_tvdp", t.free_tvdp.has_value()); d.kv(q + "sol_tvdp", t.solution_tvdp.has_value());
        if (t.free_tvdp) dumpSimpleTable(d, q + "free_tvdp.", *t.free_tvdp);
        if (t.solution_tvdp) dumpSimpleTable(d, q + "sol_tvdp.", *t.solution_tvdp);
    }
    for (std::size_t i = 0; i < es.getFaults().size(); ++i) {
        const auto& f = es.getFaults().getFault(i);
        const std::string q = "fault." + f.getName() + ".";
        d.kv(q + "mult", f.getTransMult());
        std::size_t k = 0;
        for (const auto& face : f) { std::string e = "dir=" + std::to_string(static_cast<int>(face.getDir())) + ":"; for (auto gi : face) e += std::to_string(gi) + ","; d.kv(q + "face" + std::to_string(k++), e); }
    }
    d.kv("nnc.in", nncStr(es.getInputNNC().input()));
    d.kv("nnc.edit", nncStr(es.getInputNNC().edit()));
    d.kv("nnc.editr", nncStr(es.getInputNNC().editr()));
    d.kv("nnc.pinch", nncStr(es.getPinchNNC()));
    {
        const auto& trm = es.getTransMult();
        for (std::size_t gi : { std::size_t{0}, std::size_t{1}, std::size_t{5}, std::size_t{17} })
            for (const auto dir : { Opm::FaceDir::XPlus, Opm::FaceDir::YPlus, Opm::FaceDir::ZPlus, Opm::FaceDir::XMinus })
                SO_Q("transmult." + std::to_string(gi) + "." + std::to_string(static_cast<int>(dir)), trm.getMultiplier(gi, dir));
    }
    const auto& ic = es.getInitConfig();
    if (ic.hasEquil()) for (std::size_t i = 0; i < ic.getEquil().size(); ++i) {
        const auto& r = ic.getEquil().getRecord(i);
        d.kv("init.equil.r" + std::to_string(i), vh::hexF64(r.waterOilContactCapillaryPressure()) + "/" + vh::hexF64(r.gasOilContactCapillaryPressure()) + "/" + std::to_string(r.liveOilInitConstantRs()) + "/" + std::to_string(r.wetGasInitConstantRv()) + "/" + std::to_string(r.initializationTargetAccuracy()));
    }
    d.kv("init.gravity", ic.hasGravity());
}

inline std::string dumpEclipseState(const Opm::EclipseState& es) {
    Dump d;
    const auto& rs = es.runspec();
    d.kv("title", es.getTitle());
    d.kv("units", es.getUnits().getName());
    d.kv("deckunits", es.getDeckUnitSystem().getName());
    d.kv("phases", static_cast<int>(rs.phases().size()));
    d.kv("start", static_cast<long long>(rs.start_time()));
    d.kv("ntpvt", rs.tabdims().getNumPVTTables());
    d.kv("ntsfun", rs.tabdims().getNumSatTables());
    d.kv("wellmax", rs.wellDimensions().maxWellsInField());
    d.kv("conmax", rs.wellDimensions().maxConnPerWell());
    d.kv("netw.active", rs.networkDimensions().active());
    d.kv("netw.extended", rs.networkDimensions().extendedNetwork());
    d.kv("netw.standard", rs.networkDimensions().standardNetwork());
    d.kv("netw.maxnodes", rs.networkDimensions().maxNONodes());
    d.kv("netw.maxbranch", rs.networkDimensions().maxNoBranches());
    d.kv("udq.undef", rs.udqParams().undefinedValue());
    d.kv("hyst", rs.hysterPar().active());
    d.kv("actdims", rs.actdims().max_keywords());
    d.kv("co2", rs.co2Storage());
    d.kv("micp", rs.micp());
    d.kv("restart_net_pressures", es.getRestartNetworkPressures().has_value());
    const auto& tm = es.getTableManager();
    d.kv("tab.swof", tm.getSwofTables().size());
    d.kv("tab.sgof", tm.getSgofTables().size());
    d.kv("tab.pvdo", tm.getPvdoTables().size());
    d.kv("tab.pvdg", tm.getPvdgTables().size());
    d.kv("tab.pvto", tm.getPvtoTables().size());
    d.kv("tab.pvtg", tm.getPvtgTables().size());
    d.kv("tab.pvtw", tm.getPvtwTable().size());
    d.kv("tab.density", tm.getDensityTable().size());
    d.kv("tab.rock", tm.getRockTable().size());
    if (tm.getDensityTable().size() > 0) {
        d.kv("tab.density.oil", tm.getDensityTable()[0].oil);
        d.kv("tab.density.water", tm.getDensityTable()[0].water);
        d.kv("tab.density.gas", tm.getDensityTable()[0].gas);
    }
    for (std::size_t i = 0; i < tm.getSwofTables().size(); ++i) {
        const auto& t = tm.getSwofTables()[i];
        d.kv("tab.swof.rows", t.numRows());
        for (std::size_t c = 0; c < t.numColumns(); ++c)
            for (std::size_t r = 0; r < t.numRows(); ++r) d.kv("tab.swof.v", t.get(c, r));
    }
    d.kv("tab.eqldims", tm.getEqldims().getNumEquilRegions());
    d.kv("tab.regdims", tm.getRegdims().getNTFIP());
    d.kv("tab.stcond.T", tm.stCond().temperature);
    d.kv("tab.stcond.p", tm.stCond().pressure);
    d.kv("tab.gas_comp", tm.gas_comp_index());
    const auto& sim = es.getSimulationConfig();
    d.kv("sim.thermal", sim.isThermal());
    d.kv("sim.disgas", sim.hasDISGAS());
    d.kv("sim.vapoil", sim.hasVAPOIL());
    d.kv("sim.cpr", sim.useCPR());
    d.kv("sim.thpres", sim.useThresholdPressure());
    d.kv("sim.thpres.size", sim.getThresholdPressure().size());
    const auto& io = es.getIOConfig();
    d.kv("io.fmtout", io.getFMTOUT());
    d.kv("io.unifout", io.getUNIFOUT());
    d.kv("io.base", io.getBaseName());
    d.kv("io.nosim", io.initOnly());
    d.kv("io.egrid", io.getWriteEGRIDFile());
    d.kv("io.init", io.getWriteINITFile());
    const auto& ic = es.getInitConfig();
    d.kv("init.equil", ic.hasEquil());
    if (ic.hasEquil()) {
        d.kv("init.equil.size", ic.getEquil().size());
        for (std::size_t i = 0; i < ic.getEquil().size(); ++i) {
            const auto& r = ic.getEquil().getRecord(i);
            d.kv("init.equil.datum", r.datumDepth());
            d.kv("init.equil.p", r.datumDepthPressure());
            d.kv("init.equil.woc", r.waterOilContactDepth());
            d.kv("init.equil.goc", r.gasOilContactDepth());
        }
    }
    d.kv("init.restart", ic.restartRequested());
    d.kv("init.filleps", ic.filleps());
    d.kv("nnc.input", es.getInputNNC().input().size());
    d.kv("faults", es.getFaults().size());
    d.kv("aquifer.active", es.aquifer().active());
    d.kv("aquifer.ct", es.aquifer().ct().size());
    d.kv("aquifer.fetp", es.aquifer().fetp().size());
    d.kv("tracer", es.tracer().size());
    d.kv("lgrs", es.getLgrs().size());
    dumpEclipseStateExtras(d, es);
    return d.str();
}

inline std::string dumpSummaryConfig(const Opm::SummaryConfig& sc) {
    Dump d;
    d.kv("size", sc.size());
    d.kv("runsum", sc.createRunSummary());
    d.kv("keywords*", sc.keywords("*").size());
    d.kv("keywordsW*", sc.keywords("W*").size());
    for (const auto& n : sc) {
        d.kv("node", n.uniqueNodeKey());
        d.kv("node.kw", n.keyword());
        d.kv("node.cat", static_cast<int>(n.category()));
        d.kv("node.type", static_cast<int>(n.type()));
        d.kv("node.name", n.namedEntity());
        d.kv("node.num", n.number());
        d.kv("node.ud", n.isUserDefined());
    }
    for (const char* k : { "WOPR", "FOPT", "GOPR", "BPR", "WBHP", "RPR" }) {
        d.kv(std::string("has.") + k, sc.hasKeyword(k));
        d.kv(std::string("match.") + k, sc.match(std::string(k) + "*"));
    }
    d.kv("require3d.PRESSURE", sc.require3DField("PRESSURE"));
    d.kv("require3d.SWAT", sc.require3DField("SWAT"));
    return d.str();
}

// Byte comparison modes.  EXACT: pointer-free, ordered content.  MODULO_PTR: the buffers may differ
// only in the 8-byte addresses that the shared_ptr handler writes, and the renaming original ->
// copy must be a bijection (same aliasing graph).  LENGTH: the class holds unordered containers
// whose iteration order legitimately changes; only the length is compared.
enum { EXACT = 0, MODULO_PTR = 1, LENGTH = 2 };

inline bool looksLikeHeapPtr(const std::vector<char>& b, std::size_t s) {
    if (s + 8 > b.size()) return false;
    const unsigned char b5 = static_cast<unsigned char>(b[s + 5]);
    return b[s + 6] == 0 && b[s + 7] == 0 && (b5 == 0x55 || b5 == 0x56 || b5 == 0x7f || b5 == 0x7e) && (static_cast<unsigned char>(b[s]) & 0x7) == 0;
}
inline bool equalModuloPointers(const std::vector<char>& a, const std::vector<char>& b, std::string& why, std::map<std::string, long>& stats) {
    if (a.size() != b.size()) { why = "length"; return false; }
    std::map<uint64_t, uint64_t> fwd, bwd;
    std::size_t i = 0;
    while (i < a.size()) {
        if (a[i] == b[i]) { ++i; continue; }
        bool found = false;
        for (std::size_t back = 0; back < 6 && back <= i; ++back) {
            const std::size_t s = i - back;
            if (looksLikeHeapPtr(a, s) && looksLikeHeapPtr(b, s)) {
                uint64_t pa, pb; std::memcpy(&pa, a.data() + s, 8); std::memcpy(&pb, b.data() + s, 8);
                auto f = fwd.find(pa); auto g = bwd.find(pb);
                if ((f != fwd.end() && f->second != pb) || (g != bwd.end() && g->second != pa)) {
                    why = "aliasing differs at offset " + std::to_string(s); return false;
                }
                fwd[pa] = pb; bwd[pb] = pa;
                i = s + 8; found = true; stats["pointer_fields_renamed"]++;
                break;
            }
        }
        if (!found) {
            const std::size_t lo = i >= 24 ? i - 24 : 0, hi = std::min(a.size(), i + 16);
            why = "offset " + std::to_string(i) + " of " + std::to_string(a.size()) + " original[" + std::to_string(lo) + "..]=" +
                  vh::hex(reinterpret_cast<const unsigned char*>(a.data()) + lo, hi - lo) + " repacked=" +
                  vh::hex(reinterpret_cast<const unsigned char*>(b.data()) + lo, hi - lo);
            return false;
        }
    }
    return true;
}

// ---- the round-trip predicate --------------------------------------------------------------------

struct Stats { std::map<std::string, long>& m; };

// Bytes are compared after the unpacked copy has itself been packed twice: the addresses that
// shared_ptr handling writes into the buffer differ between two objects, so "same bytes" is
// decided on   pack(copy)  vs  pack(unpack(pack(copy)))   only for length, and structurally through
// == and the query sweep.  `exactBytes` is set for pointer-free classes.
template <class T, class DumpF, class EqF>
void roundTrip(const std::string& key, const std::string& tag, const T& orig, vh::PropLog& plog, std::map<std::string, long>& stats,
               DumpF&& dump, EqF&& equal, int byteMode) {
    const std::string in = " [" + tag + "]";
    // one FAIL line per distinct key (first instance); further instances are only counted
    struct Once { vh::PropLog& p; std::map<std::string, long>& st; void fail(const std::string& k, const std::string& d) {
        static std::set<std::string> seen; if (seen.insert(k).second) p.fail(k, d); else { ++p.failed; st["repeat." + k]++; } } void ok() { p.ok(); } };
    Once once{plog, stats};
    Packer packer; Ser ser(packer);
    ser.pack(orig);
    const std::vector<char> buf = ser.buffer();
    const std::size_t posPack = ser.position();
    T copy{};
    try {
        ser.unpack(copy);
    } catch (const std::exception& e) {
        once.fail(key + ".unpack_throws", std::string("unpack throws: ") + typeid(e).name() + in);
        return;
    }
    const std::size_t posUnpack = ser.position();
    stats["objects"]++;
    stats["object_bytes"] += static_cast<long>(buf.size());
    bool bad = false;
    // re-pack first, before any query touches the lazily filled caches some classes serialize
    Packer p2; Ser ser2(p2);
    ser2.pack(copy);
    if (posPack != buf.size()) { once.fail(key + ".packsize", "PACK ended at " + std::to_string(posPack) + " in a buffer of " + std::to_string(buf.size()) + in); bad = true; }
    if (posUnpack != buf.size()) { once.fail(key + ".consumed", "UNPACK consumed " + std::to_string(posUnpack) + " of " + std::to_string(buf.size()) + " bytes" + in); bad = true; }
    if (ser2.buffer().size() != buf.size()) { once.fail(key + ".repack_length", "re-packed length " + std::to_string(ser2.buffer().size()) + " != " + std::to_string(buf.size()) + in); bad = true; }
    else if (byteMode == MODULO_PTR) {
        std::string why;
        if (!equalModuloPointers(buf, ser2.buffer(), why, stats)) { once.fail(key + ".repack_bytes", "re-packed bytes differ (beyond a consistent renaming of shared_ptr addresses): " + why + in); bad = true; }
    }
    else if (byteMode == EXACT && ser2.buffer() != buf) {
        std::size_t i = 0; while (i < buf.size() && buf[i] == ser2.buffer()[i]) ++i;
        const std::size_t lo = i >= 24 ? i - 24 : 0, hi = std::min(buf.size(), i + 16);
        once.fail(key + ".repack_bytes", "re-packed bytes differ first at offset " + std::to_string(i) + " of " + std::to_string(buf.size()) +
                  " original[" + std::to_string(lo) + "..]=" + vh::hex(reinterpret_cast<const unsigned char*>(buf.data()) + lo, hi - lo) +
                  " repacked=" + vh::hex(reinterpret_cast<const unsigned char*>(ser2.buffer().data()) + lo, hi - lo) + in); bad = true;
    }
    std::string eqDetail;
    if (!equal(orig, copy, eqDetail)) {
        // eqDetail may start with "@suffix " to refine the key (a recognised cause)
        std::string suffix;
        if (!eqDetail.empty() && eqDetail[0] == '@') { const auto sp = eqDetail.find(' '); suffix = "." + eqDetail.substr(1, sp == std::string::npos ? std::string::npos : sp - 1); eqDetail = sp == std::string::npos ? std::string() : eqDetail.substr(sp); }
        once.fail(key + ".equal" + suffix, "copy != original under operator==" + eqDetail + in); bad = true;
    }
    std::string d1, d2;
    try { d1 = dump(orig); } catch (const std::exception& e) { d1 = std::string("QUERY-SWEEP-THROWS ") + e.what() + "\n"; }
    try { d2 = dump(copy); } catch (const std::exception& e) { d2 = std::string("QUERY-SWEEP-THROWS ") + e.what() + "\n"; }
    if (d1.rfind("QUERY-SWEEP-THROWS", 0) == 0) { stats["sweep_throws_on_original"]++; if (std::getenv("SERIAL_DEBUG")) std::cerr << key << " " << d1; }
    stats["query_lines"] += static_cast<long>(std::count(d1.begin(), d1.end(), '\n'));
    if (d1 != d2) {
        bad = true;
        for (const auto& [nk, example] : diffKeys(d1, d2))
            once.fail(key + ".query." + nk, "public query answers differently: " + example + in);
    }
    if (!bad) once.ok();
}

// EclipseState has no operator==; the serialised parts that have one are compared (grid and field properties are
// documented as distributed separately).  A comparison that throws - on (original, copy) or already on (original,
// original), as JFunc::operator== did for every JFUNC WATER / GAS deck before its repair - is a difference: the copy is
// not "equal under comparison".
inline long& eqThrowsOnOriginal() { static long n = 0; return n; }
template <class Part> void cmpPart(const char* name, const Part& a, const Part& b, std::string& parts) {
    try { if (!(a == b)) parts += std::string(" ") + name; }
    catch (const std::exception&) {
        bool self = false;
        try { (void)(a == a); } catch (const std::exception&) { self = true; }
        if (self) eqThrowsOnOriginal()++;
        parts += std::string(" ") + name + (self ? "(comparison-throws-on-original)" : "(comparison-throws)");
    }
}
inline bool eclipseStateEqual(const Opm::EclipseState& a, const Opm::EclipseState& b, std::string& detail) {
    std::string parts;
    cmpPart("EclipseConfig", a.cfg(), b.cfg(), parts);
    cmpPart("Runspec", a.runspec(), b.runspec(), parts);
    cmpPart("TableManager", a.getTableManager(), b.getTableManager(), parts);
    cmpPart("SimulationConfig", a.getSimulationConfig(), b.getSimulationConfig(), parts);
    cmpPart("AquiferConfig", a.aquifer(), b.aquifer(), parts);
    cmpPart("TracerConfig", a.tracer(), b.tracer(), parts);
    if (parts.empty()) return true;
    detail = " (parts that differ:" + parts + ")";
    return false;
}

// ---- decks ------------------------------------------------------------------------------------

struct Loaded {
    std::unique_ptr<Opm::Deck> deck;
    std::unique_ptr<Opm::EclipseState> es;
    std::unique_ptr<Opm::Schedule> sched;
    std::unique_ptr<Opm::SummaryConfig> smry;
};

inline bool load(const std::string& pathOrText, bool isFile, Loaded& out, std::string& why) {
    try {
        Opm::ParseContext pc(Opm::InputErrorAction::IGNORE);
        Opm::ErrorGuard eg;
        Opm::Parser parser;
        out.deck = std::make_unique<Opm::Deck>(isFile ? parser.parseFile(pathOrText, pc, eg) : parser.parseString(pathOrText, pc, eg));
        out.es = std::make_unique<Opm::EclipseState>(*out.deck);
        auto python = std::make_shared<Opm::Python>();
        out.sched = std::make_unique<Opm::Schedule>(*out.deck, *out.es, pc, eg, python);
        out.smry = std::make_unique<Opm::SummaryConfig>(*out.deck, *out.sched, out.es->fieldProps(), out.es->aquifer(), pc, eg);
        eg.clear();
        return true;
    } catch (const std::exception& e) {
        why = typeid(e).name();
        return false;
    } catch (...) {
        why = "unknown";
        return false;
    }
}

inline void checkLoaded(const std::string& tag, const Loaded& L, vh::PropLog& plog, std::map<std::string, long>& stats) {
    // does the deck advance time by an amount that is not a whole number of seconds?
    bool deckSubsecond = false;
    for (const auto& kw : *L.deck) {
        if (kw.name() != "TSTEP" || kw.size() == 0) continue;
        for (double sec : kw.getRecord(0).getItem(0).getSIDoubleData()) if (std::fmod(sec, 1.0) != 0.0) deckSubsecond = true;
    }
    roundTrip<Opm::Schedule>("schedule", tag, *L.sched, plog, stats, dumpSchedule,
        [deckSubsecond](const Opm::Schedule& a, const Opm::Schedule& b, std::string& detail) {
            if (a == b) return true;
            bool subsecond = deckSubsecond;
            for (std::size_t i = 0; i < a.size(); ++i)
                if (a[i].start_time().time_since_epoch().count() % 1000 != 0 || (i + 1 < a.size() && a[i].end_time().time_since_epoch().count() % 1000 != 0)) subsecond = true;
            if (subsecond) detail = "@subsecond_time";
            // locate: which snapshot
            for (std::size_t i = 0; i < std::min(a.size(), b.size()); ++i)
                if (!(a[i] == b[i])) { detail += " (first differing ScheduleState: " + std::to_string(i) + ")"; break; }
            return false;
        }, LENGTH);
    roundTrip<Opm::EclipseState>("eclipsestate", tag, *L.es, plog, stats, dumpEclipseState,
        eclipseStateEqual, LENGTH);
    roundTrip<Opm::SummaryConfig>("summaryconfig", tag, *L.smry, plog, stats, dumpSummaryConfig,
        [](const Opm::SummaryConfig& a, const Opm::SummaryConfig& b, std::string&) { return a == b; }, EXACT);
    // parts of the schedule on their own (pointer-free: exact bytes)
    const auto& sched = *L.sched;
    const std::size_t last = sched.size() - 1;
    for (std::size_t step : { std::size_t{0}, last / 2, last }) {
        for (const auto& wname : sched.wellNames(step)) {
            const auto& w = sched.getWell(wname, step);
            roundTrip<Opm::Well>("well", tag, w, plog, stats,
                [](const Opm::Well& x) { Dump d; dumpWell(d, "", x); return d.str(); },
                [](const Opm::Well&, const Opm::Well&, std::string&) { return true; /* a lone Well has no unit-system back-pointer */ }, MODULO_PTR);
        }
        for (const auto& gname : sched.groupNames(step)) {
            const auto& g = sched.getGroup(gname, step);
            roundTrip<Opm::Group>("group", tag, g, plog, stats,
                [](const Opm::Group& x) { Dump d; dumpGroup(d, "", x); return d.str(); },
                [](const Opm::Group& a, const Opm::Group& b, std::string&) { return a == b; }, LENGTH);
        }
        roundTrip<Opm::UDQConfig>("udqconfig", tag, sched[step].udq(), plog, stats,
            [](const Opm::UDQConfig& u) { Dump d; d.kv("size", u.size()); for (const auto& def : u.definitions()) d.kv("def", def.keyword() + ":=" + def.input_string()); for (const auto& a : u.assignments()) d.kv("assign", a.keyword()); return d.str(); },
            [](const Opm::UDQConfig& a, const Opm::UDQConfig& b, std::string&) { return a == b; }, LENGTH);
        roundTrip<Opm::Action::Actions>("actions", tag, sched[step].actions(), plog, stats,
            [](const Opm::Action::Actions& x) { Dump d; d.kv("size", x.ecl_size()); for (const auto& a : x) { d.kv("name", a.name()); d.kv("max_run", a.max_run()); d.kv("min_wait", a.min_wait()); } return d.str(); },
            [](const Opm::Action::Actions& a, const Opm::Action::Actions& b, std::string&) { return a == b; }, LENGTH);
    }
}

// ---- generated decks -------------------------------------------------------------------------

inline std::string fmtD(double v) { char b[64]; std::snprintf(b, sizeof b, "%.6g", v); return b; }

// Generated decks.  Every keyword family is switched on independently at random so that most decks
// carry a handful of them; stats["deck.kw.<KW>"] counts how often each keyword was written (the
// input distribution of property mode; see prop_stats.json).
inline std::string genDeck(vh::Rng& r, std::map<std::string, long>& stats) {
    std::ostringstream o;
    auto kw = [&](const std::string& name) -> std::ostream& { stats["deck.kw." + name]++; o << name << "\n"; return o; };
    using SV = std::vector<std::string>;
    const int nx = r.range(3, 6), ny = r.range(3, 6), nz = r.range(2, 4);
    const int N = nx * ny * nz;
    const bool msw = r.coin(1, 3);
    const int nplain = r.range(1, 5);
    const int nwells = nplain + (msw ? 1 : 0), ngroups = r.range(1, 3);
    const bool network = r.coin(1, 3), extnet = r.coin(2, 3);
    const bool field = r.coin(1, 3);
    const bool live = r.coin();                       // PVTO/PVTG instead of PVDO/PVDG
    const int ntsfun = r.coin() ? 1 : r.range(2, 3);
    const int ntpvt = r.coin() ? 1 : (r.coin(1, 3) ? r.range(9, 10) : r.range(2, 3));
    const int nteql = r.coin(2, 3) ? 1 : 2;
    const int ntfip = r.range(1, 3);
    const bool anaq = r.coin(1, 3), numaq = r.coin(1, 4);
    const bool tracers = r.coin(1, 3);
    const int ntrocc = r.coin(1, 4) ? r.range(1, 2) : 0;
    const bool polymer = r.coin(1, 4);
    const bool bc = r.coin(1, 3);
    const bool faults = r.coin(1, 3);
    const bool vfp = r.coin(1, 2);
    const bool endscale = r.coin(1, 4);
    const bool thpres = nteql == 2 && r.coin();
    const bool liftopt = r.coin(1, 3);
    const double len = field ? 3.28 : 1.0;            // rough unit factors, only to stay plausible
    const double top = 2000 + r.below(500);
    const double dz = 5 + r.below(20);
    auto cellList = [&](int nreg) { std::string s; for (int c = 0; c < N; ++c) { s += " " + std::to_string(1 + (c * nreg) / N); if (c % 20 == 19) s += "\n"; } return s; };

    kw("RUNSPEC"); kw("TITLE") << " gen " << r.below(1000) << "\n\n";
    kw("DIMENS") << " " << nx << ' ' << ny << ' ' << nz << " /\n";
    o << "OIL\nWATER\nGAS\n";
    const bool disgas = live || r.coin(), vapoil = live || r.coin(1, 4);
    if (disgas) kw("DISGAS");
    if (vapoil) kw("VAPOIL");
    if (polymer) kw("POLYMER");
    if (r.coin(1, 6)) kw("DIFFUSE");
    o << (field ? "FIELD\n" : "METRIC\n");
    kw("START") << " " << r.range(1, 28) << " '" << r.pick(SV{"JAN", "MAR", "JUN", "OCT", "DEC"}) << "' " << r.range(1990, 2030) << " /\n";
    kw("WELLDIMS") << " " << nwells + 2 << " " << nz + 3 << " " << ngroups + 2 << " " << nwells + 2 << " 5 10 5 4 3 0 1 1 /\n";
    if (msw) kw("WSEGDIMS") << " 2 " << 2 * nz + 4 << " 3 /\n";
    kw("TABDIMS") << " " << ntsfun << " " << ntpvt << " 20 20 " << ntfip << " 20 /\n";
    kw("EQLDIMS") << " " << nteql << " /\n";
    kw("REGDIMS") << " " << ntfip << " /\n";
    if (anaq || numaq) kw("AQUDIMS") << " 2 2 2 36 4 " << 4 * N << " /\n";
    if (tracers) kw("TRACERS") << " 1 1 1 0 /\n";
    if (ntrocc) kw("ROCKCOMP") << " " << r.pick(SV{"REVERS", "IRREVERS"}) << " " << ntrocc << " " << (r.coin() ? "YES" : "NO") << " /\n";
    kw("UDQDIMS") << " 10 10 4 4 4 4 4 4 4 / \n";
    kw("ACTDIMS") << " 4 10 80 3 /\n";
    if (network) {
        if (extnet) kw("NETWORK") << " " << r.range(4, 9) << " " << r.range(3, 8) << " /\n";
        stats["gen.network"]++;
    }
    if (vfp) { kw("VFPPDIMS") << " 5 3 3 3 2 4 /\n"; kw("VFPIDIMS") << " 5 3 4 /\n"; }
    if (endscale) kw("ENDSCALE") << (r.coin() ? " /\n" : " 'NODIR' 'REVERS' /\n");
    if (faults) kw("FAULTDIM") << " 4 /\n";
    if (r.coin(1, 4)) { kw("UNIFOUT"); }
    if (r.coin(1, 4)) { kw("FMTOUT"); }

    kw("GRID");
    o << "DX\n " << N << "*" << fmtD(50 + r.below(100)) << " /\nDY\n " << N << "*" << fmtD(50 + r.below(100)) << " /\nDZ\n " << N << "*" << fmtD(dz) << " /\n";
    o << "TOPS\n " << nx * ny << "*" << fmtD(top) << " /\nPORO\n " << N << "*0." << r.range(10, 35) << " /\n";
    o << "PERMX\n " << N << "*" << r.range(10, 900) << " /\nPERMY\n " << N << "*" << r.range(10, 900) << " /\nPERMZ\n " << N << "*" << r.range(1, 90) << " /\n";
    if (bc) {
        kw("BCCON") << " 1 1 1 1 " << ny << " 1 " << nz << " X- /\n";
        if (r.coin()) o << " 2 " << nx << " " << nx << " 1 " << ny << " 1 " << r.range(1, nz) << " X /\n";
        if (r.coin(1, 3)) o << " 3 1 " << nx << " 1 1 1 " << nz << " Y- /\n";
        o << "/\n";
    }
    if (numaq) {
        // aquifer cells in the far corner column (wells are never drilled at (nx, ny))
        kw("AQUNUM");
        const int ncell = r.range(1, std::min(2, nz));
        for (int c = 0; c < ncell; ++c)
            o << " 1 " << nx << " " << ny << " " << nz - c << " " << fmtD(1e4 * (1 + r.below(50))) << " " << fmtD(500 * (1 + r.below(9))) << " 0." << r.range(15, 35) << " " << r.range(50, 900)
              << " " << (r.coin() ? fmtD(top + 30 + r.below(50)) : std::string("1*")) << " " << (r.coin() ? fmtD(200 + r.below(100)) : std::string("1*")) << " " << r.range(1, ntpvt) << " " << r.range(1, ntsfun) << " /\n";
        o << "/\n";
        kw("AQUCON") << " 1 " << nx - 1 << " " << nx - 1 << " " << ny << " " << ny << " 1 " << nz << " 'I+' " << fmtD(0.5 + r.unit()) << " " << r.range(0, 1) << " /\n/\n";
    }
    if (faults) {
        kw("FAULTS") << " 'F1' 2 2 1 " << ny << " 1 " << nz << " X /\n";
        if (r.coin()) o << " 'F2' 1 " << nx << " 2 2 1 " << r.range(1, nz) << " Y /\n";
        if (r.coin(1, 3)) o << " 'F1' 2 2 1 1 1 " << nz << " Y /\n";
        o << "/\n";
        if (r.coin(2, 3)) kw("MULTFLT") << " 'F1' " << fmtD(0.1 + r.unit()) << " /\n/\n";
    }
    if (r.coin(1, 4)) {
        kw("NNC") << " 1 1 1 2 2 " << nz << " " << fmtD(r.unit() * 5) << " /\n";
        if (r.coin()) o << " 1 2 1 3 3 1 " << fmtD(r.unit() * 5) << " /\n";
        o << "/\n";
    }
    if (r.coin(1, 5)) kw("MINPV") << " " << fmtD(1e-3 * (1 + r.below(9))) << " /\n";
    if (r.coin(1, 6)) kw("PINCH") << " " << fmtD(0.01 * (1 + r.below(20))) << " " << r.pick(SV{"GAP", "NOGAP"}) << " 1* " << r.pick(SV{"TOPBOT", "ALL"}) << " " << r.pick(SV{"TOP", "ALL"}) << " /\n";
    if (endscale && r.coin(1, 2)) kw("JFUNC") << " " << r.pick(SV{"BOTH", "WATER", "GAS"}) << " " << fmtD(10 + r.below(40)) << " " << fmtD(10 + r.below(40)) << (r.coin() ? " 0.6 0.4 " + r.pick(SV{"XY", "X", "Z"}) : std::string("")) << " /\n";
    if (r.coin(1, 8)) kw("GDORIENT") << " INC INC INC DOWN RIGHT /\n";
    const bool editnnc = r.coin(1, 6);
    if (editnnc) { kw("EDIT"); kw("EDITNNC") << " 1 1 1 2 2 " << nz << " " << fmtD(0.5 + r.unit() * 3) << " /\n/\n"; }

    kw("PROPS");
    kw("SWOF");
    for (int t = 0; t < ntsfun; ++t) o << " 0." << 15 + 5 * t << " 0 1 0\n 0.5 0." << r.range(1, 5) << " 0.3 0\n" << (r.coin() ? " 0.8 0.7 1* 0\n" : "") << " 1.0 1 0 0 /\n";
    kw("SGOF");
    for (int t = 0; t < ntsfun; ++t) o << " 0 0 1 0\n 0.4 0." << r.range(1, 6) << " 0.2 0\n 0." << 75 + t << " 1 0 0 /\n";
    kw("DENSITY");
    for (int t = 0; t < ntpvt; ++t) o << " " << fmtD(800 + r.below(100)) << " " << fmtD(1000 + r.below(50)) << " " << fmtD(0.8 + r.unit()) << " /\n";
    kw("PVTW");
    for (int t = 0; t < ntpvt; ++t) o << (t > 0 && r.coin(1, 4) ? " /\n" : " " + fmtD(250 + r.below(40)) + " 1.03 4.6E-5 0." + std::to_string(r.range(2, 6)) + " 0 /\n");
    kw("ROCK");
    for (int t = 0; t < ntpvt; ++t) o << " " << fmtD(250 + r.below(40)) << " " << fmtD(1e-5 * (1 + r.below(9))) << " /\n";
    if (live) {
        kw("PVTO");
        for (int t = 0; t < ntpvt; ++t) {
            if (t > 0 && r.coin(1, 3)) { o << "/\n"; continue; }      // region copies the previous table
            const double rs1 = 5 + r.below(20), rs2 = rs1 + 20 + r.below(60);
            o << " " << fmtD(rs1) << " 50 1.1 1.0\n      300 1.0" << r.range(1, 9) << " 1.2 /\n " << fmtD(rs2) << " 100 1.2 0.9\n      300 1.1" << r.range(1, 9) << " 1.0 /\n/\n";
        }
        kw("PVTG");
        for (int t = 0; t < ntpvt; ++t) {
            if (t > 0 && r.coin(1, 3)) { o << "/\n"; continue; }
            o << " 50 0.0001" << r.range(1, 9) << " 0.02 0.01\n    0 0.021 0.011 /\n 300 0.0002 0.004 0.02\n    0 0.0041 0.021 /\n/\n";
        }
    } else {
        kw("PVDG");
        for (int t = 0; t < ntpvt; ++t) o << " 50 0.02 0.01\n 100 0.01 0.015\n 300 0.00" << r.range(2, 8) << " 0.02 /\n";
        kw("PVDO");
        for (int t = 0; t < ntpvt; ++t) o << " 50 1.1 1.0\n 300 1.0" << r.range(0, 9) << " 1.2 /\n";
    }
    if (ntrocc) {
        kw("ROCKTAB");
        for (int t = 0; t < ntrocc; ++t) o << " 100 1.0 1.0\n" << (r.coin() ? " 200 1.0" + std::to_string(r.range(1, 9)) + " 1.1\n" : std::string("")) << " 300 1.1 1.2" << r.range(0, 9) << " /\n";
    }
    if (polymer) {
        kw("PLYSHLOG") << " " << fmtD(0.5 + r.unit()) << " /\n 1e-7 1.0\n 1e-5 1." << r.range(1, 4) << "\n 1e-3 1." << r.range(5, 9) << " /\n";
        kw("PLYVISC");
        for (int t = 0; t < ntpvt; ++t) o << " 0 1\n " << fmtD(0.5 + r.unit()) << " " << fmtD(2 + r.below(20)) << " /\n";
    }
    if (anaq) kw("AQUTAB") << " 0.01 0.112\n 0.05 0.229\n " << fmtD(0.1 + r.unit()) << " 0.4 /\n";
    if (tracers) kw("TRACER") << " 'SEA' 'WAT' /\n 'OT' 'OIL' /\n 'GT' 'GAS' /\n/\n";
    if (endscale && r.coin()) kw("SCALECRS") << " " << (r.coin() ? "YES" : "NO") << " /\n";

    if (ntsfun > 1 || ntpvt > 1 || nteql > 1 || ntfip > 1 || ntrocc > 1) {
        kw("REGIONS");
        if (ntsfun > 1) kw("SATNUM") << cellList(ntsfun) << " /\n";
        if (ntpvt > 1) kw("PVTNUM") << cellList(ntpvt) << " /\n";
        if (nteql > 1) kw("EQLNUM") << cellList(nteql) << " /\n";
        if (ntfip > 1) kw("FIPNUM") << cellList(ntfip) << " /\n";
        if (ntrocc > 1) kw("ROCKNUM") << cellList(ntrocc) << " /\n";
    }

    kw("SOLUTION");
    kw("EQUIL");
    for (int t = 0; t < nteql; ++t) o << " " << fmtD(top + 50 + r.below(100)) << " " << fmtD(200 + r.below(100)) << " " << fmtD(top + 200 + r.below(100)) << " 0 " << fmtD(top + r.below(40)) << " 0 1 0 0 /\n";
    if (live) {
        kw("RSVD"); for (int t = 0; t < nteql; ++t) o << " " << fmtD(top) << " 5\n " << fmtD(top + 300) << " 5 /\n";
        kw("RVVD"); for (int t = 0; t < nteql; ++t) o << " " << fmtD(top) << " 0.0001\n " << fmtD(top + 300) << " 0.0001 /\n";
    }
    if (thpres) kw("THPRES") << " 1 2 " << (r.coin(3, 4) ? fmtD(1 + r.below(20)) : std::string("1*")) << " /\n/\n";
    std::vector<int> fluxAquifers;
    if (anaq) {
        const int split = r.range(1, ny - 1);
        const bool fetp = r.coin(2, 3), ct = r.coin(2, 3) || !fetp;
        if (fetp) {
            kw("AQUFETP") << " 2 " << fmtD(top + 20) << " " << (r.coin(3, 4) ? fmtD(250 + r.below(50)) : std::string("1*")) << " " << fmtD(1e8 * (1 + r.below(50))) << " " << fmtD(1e-5 * (1 + r.below(9))) << " " << fmtD(100 + r.below(900)) << " " << r.range(1, ntpvt) << " 0 /\n/\n";
        }
        if (ct) {
            kw("AQUCT") << " 3 " << fmtD(top + 20) << " " << (r.coin(3, 4) ? fmtD(250 + r.below(50)) : std::string("1*")) << " " << fmtD(50 + r.below(500)) << " 0." << r.range(1, 4) << " " << fmtD(1e-5 * (1 + r.below(9))) << " " << fmtD(300 + r.below(900)) << " " << fmtD(10 + r.below(40)) << " "
                        << fmtD(30 + r.below(330)) << " " << r.range(1, ntpvt) << " " << r.range(1, 2) << " /\n/\n";
        }
        const bool flux = r.coin();
        if (flux) fluxAquifers.push_back(4);
        kw("AQUANCON");
        if (fetp) o << " 2 1 1 1 " << split << " 1 " << nz << " 'I-' " << (r.coin() ? "1*" : fmtD(100 + r.below(900))) << " " << fmtD(0.5 + r.unit()) << " /\n";
        if (ct) o << " 3 1 1 " << split + 1 << " " << ny << " 1 " << nz << " 'I-' 1* " << fmtD(0.5 + r.unit()) << " " << (r.coin() ? "YES" : "NO") << " /\n";
        if (flux) o << " 4 2 " << nx - 1 << " 1 1 1 " << r.range(1, nz) << " 'J-' /\n";
        o << "/\n";
        if (flux && r.coin()) kw("AQUFLUX") << " 4 " << fmtD(r.unit() * 0.1) << (r.coin() ? " 1.0 30 250" : "") << " /\n/\n";
    }
    if (tracers) {
        if (r.coin()) kw("TVDPFSEA") << " " << fmtD(top) << " 0\n " << fmtD(top + 200) << " 0." << r.range(1, 9) << " /\n";
        else kw("TBLKFSEA") << " " << N << "*0." << r.range(0, 9) << " /\n";
        kw("TBLKFOT") << " " << N << "*0." << r.range(0, 9) << " /\n";
        if (r.coin()) kw("TBLKFGT") << " " << N << "*0.0 /\n";
        if (disgas && r.coin(1, 3)) kw("TBLKSGT") << " " << N << "*0.1 /\n";
    }
    const SV rstMnemonics{"KRO", "KRW", "KRG", "DEN", "VISC", "PORO", "PRES", "RSSAT", "RVSAT", "FLOWS", "ALLPROPS", "PBPD", "BG", "BO", "BW", "ROCKC", "FIP", "POT"};
    auto rptrst = [&]() {
        kw("RPTRST");
        if (r.coin(1, 6)) { o << " " << r.range(0, 3) << " /\n"; return; }           // integer control
        if (r.coin(4, 5)) o << " BASIC=" << r.range(0, 5);
        if (r.coin(1, 3)) o << " FREQ=" << r.range(1, 4);
        for (int i = r.range(0, 3); i > 0; --i) { const auto& m = r.pick(rstMnemonics); o << " " << m; if (m == "FIP" && r.coin()) o << "=" << r.range(1, 3); }
        o << " /\n";
    };
    if (r.coin(1, 3)) rptrst();
    if (r.coin(1, 2)) {
        // every mnemonic FIPConfig::parseRPT knows (17 flags; FIPVE is the highest, bit 16)
        static const struct { const char* m; int max; } fipM[] = { {"FIP", 3}, {"FIPFOAM", 2}, {"FIPPLY", 2}, {"FIPSOL", 2}, {"FIPSURF", 2}, {"FIPTEMP", 2}, {"FIPHEAT", 2}, {"FIPTR", 2}, {"FIPRESV", 1}, {"FIPVE", 1} };
        kw("RPTSOL");
        if (r.coin()) o << " RESTART=" << r.range(1, 4);
        const bool all = r.coin(1, 6);
        for (const auto& m : fipM) if (all || r.coin(1, 3)) { o << " " << m.m; if (m.max > 1 && r.coin(2, 3)) o << "=" << r.range(1, m.max); stats[std::string("deck.rptsol.") + m.m]++; }
        o << " /\n";
    }

    kw("SUMMARY");
    const SV fvec{"FOPR", "FOPT", "FWPR", "FGPR", "FWIR", "FPR", "FWCT", "FGOR"};
    const SV wvec{"WOPR", "WWPR", "WGPR", "WBHP", "WTHP", "WWCT", "WOPT", "WWIR"};
    const SV gvec{"GOPR", "GWPR", "GGPR", "GOPT"};
    for (int i = r.range(1, 5); i > 0; --i) o << r.pick(fvec) << "\n";
    for (int i = r.range(0, 4); i > 0; --i) o << r.pick(wvec) << "\n" << (r.coin() ? " /\n" : " 'W1' /\n");
    for (int i = r.range(0, 3); i > 0; --i) o << r.pick(gvec) << "\n /\n";
    if (r.coin(1, 3)) o << "BPR\n 1 1 1 /\n " << nx << " " << ny << " " << nz << " /\n/\n";
    if (r.coin(1, 3)) { o << "RUNSUM\n"; stats["gen.runsum"]++; }
    if (r.coin(1, 4)) o << "NARROW\n";
    if (r.coin(1, 4)) o << "SEPARATE\n";
    if (r.coin(1, 5)) o << "FU1\n";
    if (anaq && r.coin()) o << "AAQR\n /\n";

    kw("SCHEDULE");
    SV groups, wells;
    for (int g = 0; g < ngroups; ++g) groups.push_back("G" + std::to_string(g + 1));
    for (int w = 0; w < nplain; ++w) wells.push_back("W" + std::to_string(w + 1));
    if (msw) wells.push_back("MS1");
    std::vector<bool> isMsw(nwells, false);
    if (msw) isMsw[nwells - 1] = true;
    if (r.coin()) rptrst();
    if (r.coin(1, 4)) kw("RPTSCHED") << " FIP=" << r.range(1, 3) << (r.coin() ? " WELLS=" + std::to_string(r.range(1, 5)) : std::string("")) << (r.coin() ? " RESTART=" + std::to_string(r.range(0, 6)) : std::string("")) << " /\n";
    if (vfp) {
        kw("VFPPROD") << " 1 " << fmtD(top) << " " << r.pick(SV{"LIQ", "OIL", "GAS"}) << " " << r.pick(SV{"WCT", "WOR", "WGR"}) << " " << r.pick(SV{"GOR", "GLR", "OGR"}) << " THP " << r.pick(SV{"' '", "GRAT"}) << " " << (field ? "FIELD" : "METRIC") << " BHP /\n"
                      << " 1 " << fmtD(100 + r.below(900)) << " /\n 10 " << fmtD(50 + r.below(50)) << " /\n 0 0." << r.range(1, 9) << " /\n " << fmtD(1 + r.below(500)) << " /\n 0 /\n"
                      << " 1 1 1 1 100 1" << r.range(10, 99) << " /\n 2 1 1 1 130 150 /\n 1 2 1 1 101 121 /\n 2 2 1 1 131 15" << r.range(1, 9) << " /\n";
        kw("VFPINJ") << " 2 " << fmtD(top) << " " << r.pick(SV{"WAT", "OIL", "GAS"}) << " THP " << (field ? "FIELD" : "METRIC") << " BHP /\n 1 100 " << fmtD(500 + r.below(500)) << " /\n 10 50 /\n 1 100 110 12" << r.range(0, 9) << " /\n 2 130 140 150 /\n";
    }
    std::set<std::string> parents;
    {   // every group is declared (GCONSALE, GCONSUMP, ... need the group to exist)
        kw("GRUPTREE") << " 'G1' 'FIELD' /\n";
        for (size_t g = 1; g < groups.size(); ++g) {
            if (r.coin(1, 3)) { o << " '" << groups[g] << "' 'FIELD' /\n"; continue; }
            const auto& par = groups[r.below(g)]; parents.insert(par); o << " '" << groups[g] << "' '" << par << "' /\n";
        }
        o << "/\n";
    }
    SV leaves;
    for (const auto& g : groups) if (!parents.count(g)) leaves.push_back(g);
    std::vector<bool> producer(nwells);
    std::vector<std::string> groupOf(nwells);
    std::vector<std::pair<int, int>> head(nwells);
    auto welspecs = [&](int w) {
        groupOf[w] = r.pick(leaves);
        // never at (nx, ny): that column may hold numerical-aquifer cells
        do { head[w] = { r.range(1, nx), r.range(1, ny) }; } while (head[w].first == nx && head[w].second == ny);
        kw("WELSPECS") << " '" << wells[w] << "' '" << groupOf[w] << "' " << head[w].first << " " << head[w].second << " " << (r.coin() && !isMsw[w] ? "1*" : fmtD(top + r.below(20)))
          << " '" << (producer[w] ? "OIL" : "WATER") << "' " << (r.coin(1, 4) ? fmtD(100 + r.below(100)) : std::string("1*"))
          << (r.coin(1, 4) ? " " + r.pick(SV{"STD", "NO", "R-G", "YES", "P-P", "GPP"}) + " " + r.pick(SV{"SHUT", "STOP"}) + " " + r.pick(SV{"YES", "NO"}) + " " + std::to_string(r.range(0, ntpvt)) + " 1* " + std::to_string(r.range(0, ntfip)) : std::string("")) << " /\n/\n";
    };
    auto compdat = [&](int w) {
        if (isMsw[w]) return;
        const int k1 = r.range(1, nz), k2 = r.range(k1, nz);
        int ci = r.range(1, nx), cj = r.range(1, ny);
        if (ci == nx && cj == ny) ci = 1;
        kw("COMPDAT") << " '" << wells[w] << "' " << (r.coin() ? "2*" : std::to_string(ci) + " " + std::to_string(cj)) << " " << k1 << " " << k2 << " '"
          << (r.coin(3, 4) ? "OPEN" : "SHUT") << "' " << (r.coin() ? "1*" : std::to_string(r.range(1, ntsfun))) << " " << (r.coin() ? "1*" : fmtD(1 + r.below(50))) << " " << fmtD(0.1 + 0.05 * r.below(6))
          << " " << (r.coin(3, 4) ? "1*" : fmtD(100 + r.below(1000))) << " " << (r.coin() ? "1*" : fmtD(r.range(-2, 5))) << (r.coin(1, 5) ? " " + fmtD(1e-5 * r.below(9)) + " " + r.pick(SV{"Z", "X", "Y"}) : std::string("")) << " /\n/\n";
    };
    std::set<std::string> chokeGroups;     // NODEPROP auto-choke groups: their wells run on THP, GRUP is refused
    std::set<int> noGrup;                  // WGRUPCON NO: not available for group control any more
    auto control = [&](int w) {
        const bool choked = chokeGroups.count(groupOf[w]) > 0 || noGrup.count(w) > 0;
        if (producer[w]) {
            if (r.coin(1, 3)) kw("WCONHIST") << " '" << wells[w] << "' 'OPEN' '" << r.pick(SV{"ORAT", "LRAT", "RESV"}) << "' " << fmtD(r.below(5000)) << " " << fmtD(r.below(500)) << " " << fmtD(r.below(90000)) << (r.coin() ? " 3* " + fmtD(50 + r.below(100)) : "") << " /\n/\n";
            else kw("WCONPROD") << " '" << wells[w] << "' '" << (r.coin(4, 5) ? "OPEN" : "SHUT") << "' '" << (choked ? r.pick(SV{"ORAT", "LRAT", "BHP"}) : r.pick(SV{"ORAT", "LRAT", "BHP", "GRUP"})) << "' " << fmtD(100 + r.below(5000)) << " " << (r.coin() ? "1*" : fmtD(r.below(900))) << " 1* " << fmtD(200 + r.below(7000)) << " 1* " << fmtD(20 + r.below(100))
                                << (vfp && r.coin() ? " " + fmtD(5 + r.below(20)) + " 1 " + fmtD(r.below(100)) : std::string("")) << " /\n/\n";
        } else {
            kw("WCONINJE") << " '" << wells[w] << "' '" << r.pick(SV{"WATER", "GAS"}) << "' 'OPEN' '" << (choked ? r.pick(SV{"RATE", "BHP"}) : r.pick(SV{"RATE", "BHP", "GRUP"})) << "' " << fmtD(100 + r.below(9000)) << " 1* " << fmtD(300 + r.below(300))
                           << (vfp && r.coin() ? " " + fmtD(50 + r.below(100)) + " 2" : std::string("")) << " /\n/\n";
        }
    };
    for (int w = 0; w < nwells; ++w) { producer[w] = (w == 0) || isMsw[w] || r.coin(2, 3); welspecs(w); if (!isMsw[w]) compdat(w); }
    if (msw) {
        // a vertical multisegment producer: main-branch segments 2..nz+1 (one per layer) and, per
        // layer, a one-segment lateral (segments nz+2 .. 2nz+1) that can carry a valve / ICD
        const int w = nwells - 1;
        const auto [hi, hj] = head[w];
        kw("COMPDAT") << " 'MS1' " << hi << " " << hj << " 1 " << nz << " 'OPEN' 1* 1* 0.2 /\n/\n";
        const bool inc = r.coin();
        kw("WELSEGS") << " 'MS1' " << fmtD(top) << " 0 " << (r.coin() ? "1e-5" : "1*") << " '" << (inc ? "INC" : "ABS") << "' '" << r.pick(SV{"HF-", "HFA"}) << "' 'HO' /\n";
        for (int k = 1; k <= nz; ++k) {
            const double l = inc ? dz : k * dz, dd = inc ? dz : top + k * dz;
            o << " " << k + 1 << " " << k + 1 << " 1 " << k << " " << fmtD(l) << " " << fmtD(dd) << " 0." << r.range(1, 3) << " 0.0001 /\n";
        }
        for (int k = 1; k <= nz; ++k) {
            const double l = inc ? 0.5 : k * dz + 0.5, dd = inc ? 0.0 : top + k * dz;
            o << " " << nz + 1 + k << " " << nz + 1 + k << " " << k + 1 << " " << k + 1 << " " << fmtD(l) << " " << fmtD(dd) << " 0.1 0.0001 /\n";
        }
        o << "/\n";
        kw("COMPSEGS") << " 'MS1' /\n";
        for (int k = 1; k <= nz; ++k) o << " " << hi << " " << hj << " " << k << " " << k + 1 << " " << fmtD(k * dz + 0.5) << " " << fmtD(k * dz + 0.5 + 0.3) << " /\n";
        o << "/\n";
        stats["gen.msw"]++;
    }
    for (int w = 0; w < nwells; ++w) control(w);
    auto segDevice = [&]() {
        if (!msw) return;
        const int seg = nz + 1 + r.range(1, nz);
        switch (r.below(3)) {
        case 0: kw("WSEGVALV") << " 'MS1' " << seg << " 0." << r.range(5, 9) << " " << fmtD(1e-5 * (1 + r.below(20))) << (r.coin() ? " 5* " + fmtD(1e-4 * (2 + r.below(8))) : (r.coin() ? " " + fmtD(r.below(3)) + " 0.1 1e-4 0.008 " + r.pick(SV{"OPEN", "SHUT"}) + " 3e-4" : std::string(""))) << " /\n/\n"; break;
        case 1: kw("WSEGSICD") << " 'MS1' " << seg << " " << seg << " " << fmtD(1e-3 * (1 + r.below(9))) << " " << (r.coin() ? fmtD(-0.1 * (1 + r.below(9))) : fmtD(1 + r.below(20))) << " " << (r.coin() ? "1*" : fmtD(900 + r.below(200))) << " 1* 0." << r.range(3, 7) << " 1* 1* " << (r.coin() ? "1*" : std::to_string(r.range(-1, 2))) << " "
                               << (r.coin() ? "1*" : fmtD(100 + r.below(900))) << " '" << r.pick(SV{"OPEN", "SHUT"}) << "' /\n/\n"; break;
        default: kw("WSEGAICD") << " 'MS1' " << seg << " " << seg << " " << fmtD(1e-3 * (1 + r.below(9))) << " " << fmtD(-0.1 * (1 + r.below(9))) << " 1* 1* 0." << r.range(3, 7) << " 1* 1* 1* " << (r.coin() ? "1*" : fmtD(100 + r.below(900))) << " " << fmtD(0.5 + r.unit()) << " " << fmtD(0.5 + r.unit())
                                << " '" << r.pick(SV{"OPEN", "SHUT"}) << "'" << (r.coin() ? " 1.1 1.2 1.3 1.4 1.5 1." + std::to_string(r.range(1, 9)) : std::string("")) << " /\n/\n"; break;
        }
    };
    if (msw) for (int i = r.range(0, 3); i > 0; --i) segDevice();
    // network: extended (BRANPROP/NODEPROP) or standard (GRUPNET)
    bool netDefined = false;
    auto allProducers = [&](const std::string& g) { bool any = false; for (int w = 0; w < nwells; ++w) if (groupOf[w] == g) { any = true; if (!producer[w]) return false; } return any; };
    auto defineNetwork = [&]() {
        if (!network) return;
        if (extnet) {
            if (!netDefined) for (const auto& g : leaves) if (allProducers(g) && r.coin(1, 3)) chokeGroups.insert(g);
            kw("BRANPROP");
            for (size_t g = 0; g < groups.size(); ++g) {
                // parent as in GRUPTREE (FIELD for the top groups)
                o << " '" << groups[g] << "' '" << "FIELD" << "' " << (chokeGroups.count(groups[g]) || !vfp || r.coin() ? 9999 : 1) << (r.coin(1, 4) ? " " + fmtD(r.below(50)) + " " + r.pick(SV{"NONE", "DENO", "DENG"}) : std::string("")) << " /\n";
            }
            o << "/\n";
            kw("NODEPROP") << " 'FIELD' " << fmtD(10 + r.below(40)) << " /\n";
            for (const auto& g : groups) o << " '" << g << "' 1* '" << (chokeGroups.count(g) ? "YES" : "NO") << "' '" << (r.coin(1, 4) ? "YES" : "NO") << "' /\n";
            o << "/\n";
        } else {
            kw("GRUPNET") << " 'FIELD' " << fmtD(10 + r.below(40)) << " /\n";
            for (const auto& g : groups) o << " '" << g << "' 1* " << (vfp && r.coin() ? 1 : 9999) << (r.coin(1, 3) ? " " + fmtD(r.below(50)) + " " + r.pick(SV{"NO", "YES"}) + " " + r.pick(SV{"NO", "FLO"}) : std::string("")) << " /\n";
            o << "/\n";
        }
        netDefined = true;
    };
    auto netbalan = [&]() {
        if (!network) return;
        kw("NETBALAN") << " " << (r.coin() ? fmtD(-1.0) : fmtD(r.below(30))) << " " << fmtD(0.01 * (1 + r.below(30))) << " " << r.range(1, 20);
        if (r.coin()) { o << " " << fmtD(0.01 * (1 + r.below(9))) << " " << r.range(1, 20); if (r.coin()) { o << " " << (r.coin() ? "1*" : fmtD(1 + r.below(9))) << " " << fmtD(2 + r.below(9)); if (r.coin()) o << " " << fmtD(0.1 * (1 + r.below(9))); } }
        o << " /\n";
    };
    defineNetwork();
    if (network && r.coin(2, 3)) netbalan();
    auto injectorOK = [&](int w) { return !producer[w] && !chokeGroups.count(groupOf[w]); };
    auto tuningRec = [&](const std::string& types) {
        // every item of the three TUNING records independently entered or defaulted: the
        // optional ones (TMAXWC, TRGSFT, ...) carry a has_value flag that must travel on its own
        std::string out; int last = -1; const int n = (int) types.size();
        SV it(n);
        for (int i = 0; i < n; ++i) if (r.coin(1, 3)) { it[i] = types[i] == 'I' ? std::to_string(r.range(1, 40)) : fmtD(0.01 + r.unit() * (i == 0 ? 1.0 : 20.0)); last = i; }
        for (int i = 0; i <= last; ++i) out += " " + (it[i].empty() ? std::string("1*") : it[i]);
        return out + " /\n";
    };
    auto tuning = [&]() { kw("TUNING") << tuningRec("DDDDDDDDDD") << tuningRec("DDDDDDDDDDDDI") << tuningRec("IIIIIIDDDD"); stats["gen.tuning"]++; };
    std::set<int> wlists;
    auto wlist = [&](int w) {
        const int l = r.range(1, 3); const bool isNew = !wlists.count(l) || r.coin(1, 6); wlists.insert(l);
        kw("WLIST") << " '*L" << l << "' '" << (isNew ? "NEW" : r.pick(SV{"ADD", "ADD", "DEL", "MOV"})) << "'";
        std::set<int> ws{w}; for (int i = r.range(0, 2); i > 0; --i) ws.insert(static_cast<int>(r.below(nwells)));
        for (int x : ws) o << " '" << wells[x] << "'";
        o << " /\n/\n";
    };
    std::set<std::string> actions;
    auto actionx = [&](int w, int step) {
        // half of the time an action that already exists is defined again (other condition / body)
        std::string name = "A" + std::to_string(r.range(1, 3));
        if (!actions.empty() && r.coin()) { name = *std::next(actions.begin(), static_cast<long>(r.below(actions.size()))); stats["gen.actionx_redefined"]++; }
        else if (actions.count(name)) stats["gen.actionx_redefined"]++;
        actions.insert(name);
        kw("ACTIONX") << " '" << name << "' " << r.range(1, 5) << " " << fmtD(r.below(50)) << " /\n";
        const SV quant{"FOPR", "WWCT 'W1'", "FWCT", "GOPR 'G1'", "WOPR '" + wells[w] + "'", "FGOR", "MNTH", "DAY"};
        const int nc = r.range(1, 3);
        for (int c = 0; c < nc; ++c) {
            const auto& q = r.pick(quant);
            o << " " << q << " " << r.pick(SV{">", "<", ">=", "<=", "="}) << " " << (q == "MNTH" ? r.pick(SV{"JAN", "JUN", "OCT"}) : q == "DAY" ? std::to_string(r.range(1, 28)) : fmtD(r.unit() * 100)) << (c + 1 < nc ? r.pick(SV{" AND", " OR"}) : std::string("")) << " /\n";
        }
        o << "/\n";
        for (int b = r.range(0, 3); b > 0; --b) {
            switch (r.below(7)) {
            case 0: kw("WELOPEN") << " '" << (r.coin() ? "?" : wells[w]) << "' '" << r.pick(SV{"SHUT", "OPEN", "STOP"}) << "' /\n/\n"; break;
            case 1: if (!isMsw[w]) { const int k1 = r.range(1, nz); kw("COMPDAT") << " '" << wells[w] << "' " << head[w].first << " " << head[w].second << " " << k1 << " " << r.range(k1, nz) << " 'OPEN' 1* 1* 0.2 /\n/\n"; stats["gen.actionx_compdat"]++; } break;
            case 2: if (producer[w]) kw("WELTARG") << " '" << wells[w] << "' '" << r.pick(SV{"ORAT", "BHP", "LRAT"}) << "' " << fmtD(50 + r.below(4000)) << " /\n/\n"; break;
            case 3: kw("WPIMULT") << " '" << wells[w] << "' " << fmtD(0.5 + r.unit()) << " /\n/\n"; break;
            case 4: kw("NEXTSTEP") << " " << fmtD(0.1 + r.unit() * 5) << " " << (r.coin() ? "YES" : "NO") << " /\n"; break;
            case 5: kw("GCONPROD") << " '" << r.pick(groups) << "' 'ORAT' " << fmtD(1000 + r.below(20000)) << " /\n/\n"; break;
            default: kw("WEFAC") << " '" << wells[w] << "' " << fmtD(0.5 + 0.5 * r.unit()) << " /\n/\n"; break;
            }
        }
        kw("ENDACTIO"); stats["gen.actionx"]++; (void) step;
    };
    auto drsdt = [&]() {
        switch (r.below(4)) {
        case 0: kw("DRSDT") << " " << fmtD(r.unit() * 0.01) << (r.coin() ? " " + r.pick(SV{"ALL", "FREE"}) : std::string("")) << " /\n"; break;
        case 1: if (vapoil) kw("DRVDT") << " " << fmtD(r.unit() * 0.01) << " /\n"; break;
        case 2: kw("DRSDTR"); for (int t = 0; t < ntpvt; ++t) o << " " << fmtD(r.unit() * 0.01 * (t + 1)) << (r.coin(1, 3) ? " " + r.pick(SV{"ALL", "FREE"}) : std::string("")) << " /\n"; if (ntpvt >= 9) stats["gen.drsdtr_ge9"]++; break;
        default: if (vapoil) { kw("DRVDTR"); for (int t = 0; t < ntpvt; ++t) o << " " << fmtD(r.unit() * 0.01 * (t + 1)) << " /\n"; } break;
        }
    };
    bool lifton = false;
    const int nsteps = r.range(1, 6);
    for (int step = 0; step < nsteps; ++step) {
        // a few random keywords, then advance
        for (int k = r.range(0, 6); k > 0; --k) {
            const int w = static_cast<int>(r.below(nwells));
            const std::string wq = "'" + wells[w] + "'";
            switch (r.below(52)) {
            case 0: kw("WELOPEN") << " " << wq << " '" << r.pick(SV{"OPEN", "SHUT", "STOP"}) << "' /\n/\n"; break;
            case 1: control(w); break;
            case 2: compdat(w); break;
            case 3: kw("GCONPROD") << " '" << r.pick(groups) << "' '" << r.pick(SV{"ORAT", "LRAT", "NONE", "FLD"}) << "' " << fmtD(1000 + r.below(20000)) << " 2* " << fmtD(2000 + r.below(30000)) << " '" << r.pick(SV{"RATE", "NONE", "WELL"}) << "'"
                                    << (r.coin(1, 3) ? " " + r.pick(SV{"YES", "NO"}) + " " + fmtD(r.below(9)) + " " + r.pick(SV{"OIL", "LIQ", "RES", "' '"}) : std::string("")) << " /\n/\n"; break;
            case 4: kw("GCONINJE") << " '" << r.pick(groups) << "' '" << r.pick(SV{"WATER", "GAS"}) << "' '" << r.pick(SV{"RATE", "VREP", "NONE", "REIN"}) << "' " << fmtD(1000 + r.below(20000)) << " 1* " << fmtD(0.5 + r.unit()) << " " << fmtD(0.5 + r.unit())
                                    << (r.coin(1, 3) ? " " + r.pick(SV{"YES", "NO"}) + " " + fmtD(r.below(9)) + " " + r.pick(SV{"RATE", "VOID", "NETV"}) : std::string("")) << " /\n/\n"; break;
            case 5: kw("GECON") << " '" << r.pick(groups) << "' " << fmtD(r.below(100)) << " " << fmtD(r.below(1000)) << " " << fmtD(0.5 + 0.4 * r.unit()) << " 2* '" << r.pick(SV{"NONE", "CON", "WELL"}) << "' '" << (r.coin() ? "YES" : "NO") << "' /\n/\n"; stats["gen.gecon"]++; break;
            case 6: kw("WTEST") << " " << wq << " " << fmtD(1 + r.below(30)) << " '" << r.pick(SV{"P", "E", "PE", "G"}) << "' " << r.range(0, 5) << " /\n/\n"; break;
            case 7: kw("WECON") << " " << wq << " " << fmtD(r.below(50)) << " " << (r.coin() ? "1*" : fmtD(r.below(500))) << " " << fmtD(0.8 + 0.19 * r.unit()) << " " << (r.coin() ? "2*" : fmtD(100 + r.below(900)) + " " + fmtD(r.unit())) << " '" << r.pick(SV{"NONE", "CON", "WELL", "+CON", "PLUG"}) << "' '" << (r.coin() ? "YES" : "NO") << "'"
                                 << (r.coin(1, 3) ? " 1* " + r.pick(SV{"RATE", "POTN"}) + " " + fmtD(0.9 + 0.09 * r.unit()) + " " + r.pick(SV{"NONE", "CON", "WELL"}) + " " + fmtD(r.below(90)) + " " + fmtD(r.below(20)) : std::string("")) << " /\n/\n"; break;
            case 8: kw("WEFAC") << " " << wq << " " << fmtD(0.5 + 0.5 * r.unit()) << " /\n/\n"; break;
            case 9: kw("GEFAC") << " '" << r.pick(groups) << "' " << fmtD(0.5 + 0.5 * r.unit()) << (r.coin(1, 3) ? " NO" : "") << " /\n/\n"; break;
            case 10: case 11: tuning(); break;
            case 12: kw("NUPCOL") << " " << r.range(1, 12) << " /\n"; break;
            case 13: if (producer[w]) kw("WELTARG") << " " << wq << " '" << r.pick(SV{"ORAT", "BHP", "LRAT"}) << "' " << fmtD(50 + r.below(4000)) << " /\n/\n"; break;
            case 14: kw("UDQ") << " ASSIGN FU" << r.range(1, 3) << " " << fmtD(r.below(100)) << " /\n " << (r.coin() ? "DEFINE WU" + std::to_string(r.range(1, 2)) + " WOPR * " + fmtD(1 + r.below(5)) + " /\n" : std::string("UNITS FU1 SM3 /\n")) << "/\n"; stats["gen.udq"]++; break;
            case 15: case 16: case 17: actionx(w, step); break;
            case 18: case 19: case 20: wlist(w); break;
            case 21: case 22: kw("GCONSALE") << " '" << r.pick(groups) << "' " << fmtD(10000 + r.below(50000)) << " " << (r.coin() ? "1*" : fmtD(60000 + r.below(9000))) << " " << (r.coin() ? "1*" : fmtD(r.below(9000))) << " '" << r.pick(SV{"NONE", "CON", "WELL", "RATE", "MAXR", "END", "+CON", "PLUG"}) << "' /\n/\n"; break;
            case 23: kw("GCONSUMP") << " '" << r.pick(groups) << "' " << fmtD(r.below(500)) << " " << (r.coin() ? "1*" : fmtD(r.below(500))) << (network && extnet && r.coin(1, 3) ? " '" + r.pick(groups) + "'" : std::string("")) << " /\n/\n"; break;
            case 24: case 25: kw("GUIDERAT") << " " << fmtD(r.below(30)) << " '" << r.pick(SV{"OIL", "LIQ", "GAS", "RES", "NONE"}) << "' " << fmtD(r.unit() * 2) << " " << fmtD(r.unit()) << " " << fmtD(r.unit()) << " " << fmtD(r.unit() * 2) << " " << fmtD(r.unit()) << " " << fmtD(r.unit())
                                              << " '" << r.pick(SV{"YES", "NO"}) << "' " << fmtD(0.1 + 0.9 * r.unit()) << " /\n"; break;
            case 26: { const bool yes = r.coin(); if (yes) noGrup.erase(w); else noGrup.insert(w); }
                     kw("WGRUPCON") << " " << wq << " '" << (noGrup.count(w) ? "NO" : "YES") << "' " << (r.coin() ? "1*" : fmtD(r.unit() * 5)) << " '" << r.pick(SV{"OIL", "WAT", "GAS", "LIQ", "RES", "RAT"}) << "' " << fmtD(0.5 + r.unit()) << " /\n/\n"; break;
            case 27: segDevice(); break;
            case 28: netbalan(); break;
            case 29: if (r.coin(1, 3)) defineNetwork(); else rptrst(); break;
            case 30: rptrst(); break;
            case 31: if (bc) { const std::string ty = r.pick(SV{"RATE GAS", "RATE WATER", "RATE OIL", "FREE", "DIRICHLET WATER", "THERMAL WATER", "NONE"});
                               kw("BCPROP") << " 1 " << ty;
                               if (ty.find(' ') != std::string::npos) o << " " << fmtD(-0.1 * r.unit()) << (r.coin() ? " " + fmtD(200 + r.below(100)) + (r.coin() ? " " + fmtD(20 + r.below(60)) : std::string("")) : std::string(""));
                               o << " /\n";
                               if (r.coin()) o << " 2 " << r.pick(SV{"FREE", "RATE WATER 0.01", "NONE * * * * FIXED 1 0 1 1.0 * 2.0 0.1"}) << " /\n"; o << "/\n"; } break;
            case 32: if (tracers) kw("WTRACER") << " " << wq << " '" << r.pick(SV{"SEA", "OT", "GT"}) << "' " << fmtD(r.unit()) << " /\n/\n"; break;
            case 33: if (!fluxAquifers.empty()) kw("AQUFLUX") << " 4 " << fmtD(r.unit() * 0.1) << (r.coin() ? " " + fmtD(r.unit()) + (r.coin() ? " " + fmtD(20 + r.below(50)) + " " + fmtD(200 + r.below(100)) : std::string("")) : std::string("")) << " /\n/\n"; else drsdt(); break;
            case 34: case 35: drsdt(); break;
            case 36: kw("WPIMULT") << " " << wq << " " << fmtD(0.5 + r.unit() * 2) << (r.coin(1, 3) ? " 2* " + std::to_string(r.range(1, nz)) : (r.coin(1, 4) ? " 3* 1 1" : std::string(""))) << " /\n/\n"; break;
            case 37: if (injectorOK(w)) switch (r.below(4)) {
                        case 0: if (polymer) kw("WPOLYMER") << " " << wq << " " << fmtD(r.unit() * 2) << " " << fmtD(r.unit()) << " /\n/\n"; break;
                        case 1: kw("WFOAM") << " " << wq << " " << fmtD(r.unit()) << " /\n/\n"; break;
                        case 2: kw("WSALT") << " " << wq << " " << fmtD(r.unit() * 30) << " /\n/\n"; break;
                        default: kw("WINJTEMP") << " " << wq << " 1* " << fmtD(20 + r.below(60)) << (r.coin() ? " " + fmtD(100 + r.below(200)) : std::string("")) << " /\n/\n"; break; }
                     break;
            case 38: if (injectorOK(w)) kw("WINJMULT") << " " << wq << " " << fmtD(300 + r.below(200)) << " " << fmtD(r.unit() * 0.1) << " '" << r.pick(SV{"WREV", "CREV", "CIRR"}) << "'" << (r.coin(1, 3) ? " 2* " + std::to_string(r.range(1, nz)) : std::string("")) << " /\n/\n"; break;
            case 39: kw("LIFTOPT") << " " << fmtD(100 + r.below(10000)) << " " << fmtD(r.unit() * 0.01) << " " << fmtD(r.below(30)) << " '" << r.pick(SV{"YES", "NO"}) << "' /\n"; lifton = true; (void) liftopt; break;
            case 40: if (lifton) { if (r.coin()) kw("GLIFTOPT") << " '" << r.pick(groups) << "' " << (r.coin() ? "1*" : fmtD(r.below(90000))) << " " << (r.coin() ? "1*" : fmtD(r.below(90000))) << " /\n/\n";
                                   else if (producer[w]) kw("WLIFTOPT") << " " << wq << " '" << r.pick(SV{"YES", "NO"}) << "' " << (r.coin() ? "1*" : fmtD(r.below(9000))) << " " << fmtD(0.5 + r.unit()) << " " << fmtD(r.below(100)) << " " << fmtD(r.unit()) << " '" << r.pick(SV{"YES", "NO"}) << "' /\n/\n"; }
                     else { kw("LIFTOPT") << " " << fmtD(100 + r.below(10000)) << " " << fmtD(r.unit() * 0.01) << " /\n"; lifton = true; } break;
            case 41: kw("GPMAINT") << " '" << r.pick(groups) << "' '" << r.pick(SV{"WINJ", "GINJ", "PROD", "NONE", "OINJ"}) << "' " << r.range(0, ntfip) << " 1* " << fmtD(200 + r.below(100)) << " " << fmtD(r.unit()) << " " << fmtD(0.5 + r.below(10)) << " /\n/\n"; break;
            case 42: kw("WVFPEXP") << " " << wq << " '" << r.pick(SV{"EXP", "IMP"}) << "' '" << r.pick(SV{"YES", "NO"}) << "' '" << r.pick(SV{"YES1", "YES2", "NO"}) << "' /\n/\n"; break;
            case 43: if (r.coin()) kw("WDFAC") << " " << wq << " " << fmtD(1e-4 * r.unit()) << " /\n/\n"; else kw("WDFACCOR") << " " << wq << " " << fmtD(1e-5 * r.unit()) << " " << fmtD(r.unit()) << " " << fmtD(r.unit()) << " /\n/\n"; break;
            case 44: { kw("SOURCE"); for (int i = r.range(1, 3); i > 0; --i) o << " " << r.range(1, nx - 1) << " " << r.range(1, ny) << " " << r.range(1, nz) << " " << r.pick(SV{"GAS", "WATER", "OIL"}) << " " << fmtD(r.unit() * 0.1) << (r.coin(1, 3) ? " " + fmtD(r.below(100)) + " " + fmtD(20 + r.below(60)) : std::string("")) << " /\n"; o << "/\n"; break; }
            case 45: if (r.coin()) kw("RPTSCHED") << " " << r.pick(SV{"FIP=2", "WELLS=2", "RESTART=2", "NOTHING", "FIP WELLS", "RESTART=1 FIP=3"}) << " /\n"; else { kw("SAVE"); } break;
            case 46: kw("NEXTSTEP") << " " << fmtD(0.1 + r.unit() * 5) << " " << (r.coin() ? "YES" : "NO") << " /\n"; break;
            case 47: if (!isMsw[w]) { kw("COMPLUMP") << " " << wq << " 2* " << (r.coin() ? "2*" : "1 " + std::to_string(r.range(1, nz))) << " " << r.range(1, 4) << " /\n/\n"; } break;
            case 48: kw("WELPI") << " " << wq << " " << fmtD(1 + r.below(50)) << " /\n/\n"; break;
            case 49: switch (r.below(3)) {
                        case 0: kw("WPAVE") << " " << fmtD(r.unit()) << " " << fmtD(r.unit()) << " '" << r.pick(SV{"WELL", "RES", "NONE"}) << "' '" << r.pick(SV{"OPEN", "ALL"}) << "' /\n"; break;
                        case 1: kw("WWPAVE") << " " << wq << " " << fmtD(r.unit()) << " " << fmtD(r.unit()) << " '" << r.pick(SV{"WELL", "RES", "NONE"}) << "' '" << r.pick(SV{"OPEN", "ALL"}) << "' /\n/\n"; break;
                        default: kw("WPAVEDEP") << " " << wq << " " << fmtD(top + r.below(50)) << " /\n/\n"; break; }
                     break;
            case 50: if (faults && r.coin()) kw("MULTFLT") << " 'F1' " << fmtD(0.1 + r.unit()) << " /\n/\n"; else kw(r.pick(SV{"MULTX", "MULTY", "MULTZ"})) << " " << N << "*" << fmtD(0.5 + r.unit()) << " /\n"; break;
            default: if (r.coin()) kw("WHISTCTL") << " '" << r.pick(SV{"ORAT", "LRAT", "RESV", "NONE"}) << "' /\n"; else kw("SUMTHIN") << " " << fmtD(1 + r.below(30)) << " /\n"; break;
            }
        }
        if (r.coin()) {
            kw("TSTEP");
            for (int i = r.range(1, 3); i > 0; --i) {
                switch (r.below(4)) { case 0: o << " " << r.range(1, 31); break; case 1: o << " " << fmtD(0.5 * (1 + r.below(20))); break;
                case 2: o << " " << fmtD(r.unit() * 10); stats["gen.fractional_tstep"]++; break; default: o << " " << fmtD(1e-3 * (1 + r.below(900))); stats["gen.subday_tstep"]++; break; }
            }
            o << " /\n";
        } else {
            kw("TSTEP") << " " << r.range(1, 300) << " /\n";
        }
    }
    (void) len;
    o << "END\n";
    return o.str();
}

// ---- random dynamic states -------------------------------------------------------------------

inline double rndVal(vh::Rng& r) {
    switch (r.below(5)) { case 0: return 0.0; case 1: return static_cast<double>(r.range(-1000, 1000)); case 2: return r.unit() * 1e6; case 3: return -r.unit(); default: return vh::f64FromBits(r.next() & 0x7fefffffffffffffull); }
}
inline std::string rndName(vh::Rng& r, const char* prefix, int n) { return std::string(prefix) + std::to_string(r.range(1, n)); }

inline Opm::SummaryState genSummaryState(vh::Rng& r, std::vector<std::string>& queries) {
    Opm::SummaryState st(Opm::TimeService::from_time_t(static_cast<std::time_t>(r.below(2000000000ull))), r.coin() ? 0.0 : -1e20);
    const std::vector<std::string> wv{"WOPR", "WWCT", "WBHP", "WOPT", "WUX"}, gv{"GOPR", "GWPR", "GUY"}, fv{"FOPR", "FOPT", "FWCT", "FUZ", "TIME", "YEARS"};
    const std::vector<std::string> cv{"COPR", "CWIR"}, sv{"SOFR", "SPR"}, rv{"RPR", "ROIP"};
    for (int i = r.range(0, 25); i > 0; --i) {
        switch (r.below(7)) {
        case 0: st.update(r.pick(fv), rndVal(r)); break;
        case 1: st.update_well_var(rndName(r, "W", 6), r.pick(wv), rndVal(r)); break;
        case 2: st.update_group_var(rndName(r, "G", 4), r.pick(gv), rndVal(r)); break;
        case 3: st.update_conn_var(rndName(r, "W", 6), r.pick(cv), r.below(200), rndVal(r)); break;
        case 4: st.update_segment_var(rndName(r, "W", 6), r.pick(sv), r.range(1, 9), rndVal(r)); break;
        case 5: st.update_region_var(r.coin() ? "FIPNUM" : "FIPABC", r.pick(rv), r.range(1, 5), rndVal(r)); break;
        default: st.update_elapsed(r.unit() * 86400 * 30); break;
        }
    }
    for (const auto& k : fv) queries.push_back(k);
    return st;
}

inline std::string dumpSummaryState(const Opm::SummaryState& st) {
    Dump d;
    d.kv("elapsed", st.get_elapsed());
    d.kv("size", st.size());
    d.kv("num_wells", st.num_wells());
    std::vector<std::string> keys;
    for (const auto& kv : st) keys.push_back(kv.first);
    std::sort(keys.begin(), keys.end());
    for (const auto& k : keys) { d.kv("has." + k, st.has(k)); d.kv("get." + k, st.get(k)); }
    for (const char* k : { "FOPR", "FNOSUCH", "WOPR:W1", "TIME" }) { d.kv(std::string("has?") + k, st.has(k)); d.kv(std::string("get?") + k, st.get(k, -7.0)); }
    d.kv("wells", joinSorted(st.wells()));
    d.kv("groups", joinSorted(st.groups()));
    for (const char* v : { "WOPR", "WWCT", "WBHP", "WOPT", "WUX" }) {
        d.kv(std::string("wells.") + v, joinSorted(st.wells(v)));
        for (int w = 1; w <= 6; ++w) { const std::string wn = "W" + std::to_string(w); d.kv(wn + "." + v + ".has", st.has_well_var(wn, v)); d.kv(wn + "." + v, st.get_well_var(wn, v, -1.0)); }
    }
    for (const char* v : { "GOPR", "GWPR", "GUY" }) {
        d.kv(std::string("groups.") + v, joinSorted(st.groups(v)));
        for (int g = 1; g <= 4; ++g) { const std::string gn = "G" + std::to_string(g); d.kv(gn + "." + v + ".has", st.has_group_var(gn, v)); d.kv(gn + "." + v, st.get_group_var(gn, v, -1.0)); }
    }
    for (const char* v : { "COPR", "CWIR" }) for (int w = 1; w <= 6; ++w) for (std::size_t gi : { std::size_t{0}, std::size_t{7}, std::size_t{100} }) {
        const std::string wn = "W" + std::to_string(w); d.kv(wn + "." + v + "." + std::to_string(gi), st.get_conn_var(wn, v, gi, -1.0)); }
    for (const char* v : { "SOFR", "SPR" }) for (int w = 1; w <= 6; ++w) for (std::size_t s = 1; s <= 9; ++s) {
        const std::string wn = "W" + std::to_string(w); d.kv(wn + "." + v + "." + std::to_string(s), st.get_segment_var(wn, v, s, -1.0)); }
    for (const char* v : { "RPR", "ROIP" }) for (const char* rs : { "FIPNUM", "FIPABC" }) for (std::size_t reg = 1; reg <= 5; ++reg)
        d.kv(std::string(rs) + "." + v + "." + std::to_string(reg), st.has_region_var(rs, v, reg) ? st.get_region_var(rs, v, reg) : -1.0);
    return d.str();
}

inline Opm::UDQSet genUDQSet(vh::Rng& r, const std::string& key) {
    if (key[0] == 'W') {
        std::vector<std::string> ws; for (int i = 1; i <= 6; ++i) ws.push_back("W" + std::to_string(i));
        auto s = Opm::UDQSet::wells(key, ws);
        for (const auto& w : ws) if (r.coin(2, 3)) s.assign(w, rndVal(r));
        return s;
    }
    if (key[0] == 'G') {
        std::vector<std::string> gs; for (int i = 1; i <= 4; ++i) gs.push_back("G" + std::to_string(i));
        auto s = Opm::UDQSet::groups(key, gs);
        for (const auto& g : gs) if (r.coin(2, 3)) s.assign(g, rndVal(r));
        return s;
    }
    if (r.coin(1, 4)) return Opm::UDQSet::scalar(key, std::nullopt);
    return Opm::UDQSet::scalar(key, rndVal(r));
}

inline Opm::UDQState genUDQState(vh::Rng& r) {
    Opm::UDQState st(r.coin() ? -99.0 : 0.25);
    const std::vector<std::string> keys{"FUA", "FUB", "WUA", "WUB", "GUA", "GUB"};
    for (int i = r.range(0, 10); i > 0; --i) {
        const auto& k = r.pick(keys);
        if (r.coin()) st.add_define(r.below(20), k, genUDQSet(r, k)); else st.add_assign(k, genUDQSet(r, k));
    }
    return st;
}

inline std::string dumpUDQState(const Opm::UDQState& st) {
    Dump d;
    d.kv("undef", st.undefined_value());
    for (const char* k : { "FUA", "FUB", "FUC" }) { d.kv(std::string("has.") + k, st.has(k)); d.guarded(k, [&] { d.kv(k, st.get(k)); }); }
    for (const char* k : { "WUA", "WUB" }) for (int w = 1; w <= 6; ++w) { const std::string wn = "W" + std::to_string(w);
        d.kv(wn + "." + k + ".has", st.has_well_var(wn, k)); d.guarded(wn + k, [&] { d.kv(wn + "." + k, st.get_well_var(wn, k)); }); }
    for (const char* k : { "GUA", "GUB" }) for (int g = 1; g <= 4; ++g) { const std::string gn = "G" + std::to_string(g);
        d.kv(gn + "." + k + ".has", st.has_group_var(gn, k)); d.guarded(gn + k, [&] { d.kv(gn + "." + k, st.get_group_var(gn, k)); }); }
    for (std::size_t rs = 0; rs < 20; rs += 3) d.kv("define." + std::to_string(rs), st.define(std::make_pair(Opm::UDQUpdate::ON, rs)));
    return d.str();
}

inline std::string dumpActionState(const Opm::Action::State& st, const std::vector<Opm::Action::ActionX>& acts) {
    Dump d;
    for (const auto& a : acts) {
        d.kv(a.name() + ".count", st.run_count(a));
        d.guarded(a.name() + ".time", [&] { d.kv(a.name() + ".time", static_cast<long long>(st.run_time(a))); });
        const auto* ms = st.result(a.name());
        d.kv(a.name() + ".result", ms != nullptr);
        if (ms) { for (int w = 1; w <= 6; ++w) d.kv(a.name() + ".hasW" + std::to_string(w), ms->hasWell("W" + std::to_string(w))); }
        auto pr = st.python_result(a.name());
        d.kv(a.name() + ".py", pr.has_value() ? (*pr ? "1" : "0") : "none");
    }
    return d.str();
}

inline std::string dumpWellTestState(const Opm::WellTestState& st) {
    Dump d;
    d.kv("closed_wells", st.num_closed_wells());
    d.kv("closed_completions", st.num_closed_completions());
    for (int w = 1; w <= 6; ++w) {
        const std::string wn = "W" + std::to_string(w);
        d.kv(wn + ".closed", st.well_is_closed(wn));
        d.guarded(wn + ".last", [&] { d.kv(wn + ".last", st.lastTestTime(wn)); });
        for (int c = 1; c <= 5; ++c) d.kv(wn + ".c" + std::to_string(c), st.completion_is_closed(wn, c));
    }
    return d.str();
}

inline void runDynamic(vh::Rng& r, vh::PropLog& plog, std::map<std::string, long>& stats, int reps) {
    for (int i = 0; i < reps; ++i) {
        {
            std::vector<std::string> q;
            auto st = genSummaryState(r, q);
            roundTrip<Opm::SummaryState>("summarystate", "random", st, plog, stats, dumpSummaryState,
                [](const Opm::SummaryState& a, const Opm::SummaryState& b, std::string&) { return a == b; }, LENGTH);
        }
        {
            auto st = genUDQState(r);
            roundTrip<Opm::UDQState>("udqstate", "random", st, plog, stats, dumpUDQState,
                [](const Opm::UDQState& a, const Opm::UDQState& b, std::string&) { return a == b; }, LENGTH);
        }
        {
            std::vector<Opm::Action::ActionX> acts;
            for (int a = 1; a <= 4; ++a) acts.emplace_back("ACT" + std::to_string(a), r.range(1, 5), r.unit() * 10, static_cast<std::time_t>(r.below(100000)));
            Opm::Action::State st;
            for (int k = r.range(0, 8); k > 0; --k) {
                const auto& a = r.pick(acts);
                Opm::Action::Result res(r.coin(3, 4));
                if (r.coin()) { std::vector<std::string> ws; for (int w = r.range(1, 3); w > 0; --w) ws.push_back(rndName(r, "W", 6)); res.wells(ws); }
                st.add_run(a, static_cast<std::time_t>(r.below(2000000000ull)), res);
            }
            roundTrip<Opm::Action::State>("actionstate", "random", st, plog, stats,
                [&acts](const Opm::Action::State& s) { return dumpActionState(s, acts); },
                [](const Opm::Action::State& a, const Opm::Action::State& b, std::string&) { return a == b; }, LENGTH);
        }
        {
            Opm::WellTestState st;
            for (int k = r.range(0, 8); k > 0; --k) {
                const std::string wn = rndName(r, "W", 6);
                switch (r.below(4)) {
                case 0: st.close_well(wn, r.pick(std::vector<Opm::WellTestConfig::Reason>{Opm::WellTestConfig::Reason::PHYSICAL, Opm::WellTestConfig::Reason::ECONOMIC, Opm::WellTestConfig::Reason::GROUP}), r.unit() * 1e6); break;
                case 1: st.close_completion(wn, r.range(1, 5), r.unit() * 1e6); break;
                case 2: if (st.well_is_closed(wn)) st.open_well(wn); break;
                default: { const int c = r.range(1, 5); if (st.completion_is_closed(wn, c)) st.open_completion(wn, c); break; }
                }
            }
            roundTrip<Opm::WellTestState>("wellteststate", "random", st, plog, stats, dumpWellTestState,
                [](const Opm::WellTestState& a, const Opm::WellTestState& b, std::string&) { return a == b; }, LENGTH);
        }
        {
            Opm::data::Solution sol;
            const std::size_t ncell = r.range(1, 30);
            for (const char* k : { "PRESSURE", "SWAT", "SGAS", "RS", "TEMP" }) if (r.coin(2, 3)) {
                std::vector<double> v(ncell); for (auto& x : v) x = rndVal(r);
                sol.insert(k, Opm::UnitSystem::measure::identity, v, r.coin() ? Opm::data::TargetType::RESTART_SOLUTION : Opm::data::TargetType::RESTART_AUXILIARY);
            }
            Opm::data::Wells wells;
            for (int w = r.range(0, 4); w > 0; --w) {
                Opm::data::Well dw;
                dw.rates.set(Opm::data::Rates::opt::oil, rndVal(r)); if (r.coin()) dw.rates.set(Opm::data::Rates::opt::wat, rndVal(r)); if (r.coin()) dw.rates.set(Opm::data::Rates::opt::gas, rndVal(r));
                { const bool allOpts = r.coin(1, 5); for (int b = 3; b < 23; ++b) if (b != 19 && (allOpts || r.coin(1, 4))) dw.rates.set(static_cast<Opm::data::Rates::opt>(1u << b), rndVal(r)); }   // 23 option bits, highest mass_gas = 1 << 22 (19 = tracer, named)
                if (r.coin(1, 3)) dw.rates.set(Opm::data::Rates::opt::tracer, rndVal(r), "T1");
                dw.bhp = rndVal(r); dw.thp = rndVal(r); dw.temperature = rndVal(r); dw.control = r.range(0, 9); dw.dynamicStatus = r.coin() ? Opm::Well::Status::OPEN : Opm::Well::Status::SHUT;
                for (int c = r.range(0, 3); c > 0; --c) { Opm::data::Connection dc; dc.index = r.below(1000); dc.pressure = rndVal(r); dc.reservoir_rate = rndVal(r); dc.cell_pressure = rndVal(r); dc.trans_factor = rndVal(r); dc.rates.set(Opm::data::Rates::opt::oil, rndVal(r)); dw.connections.push_back(dc); }
                for (int s = r.range(0, 2); s > 0; --s) { Opm::data::Segment sg; sg.segNumber = r.range(1, 20); sg.rates.set(Opm::data::Rates::opt::wat, rndVal(r)); sg.pressures[Opm::data::SegmentPressures::Value::Pressure] = rndVal(r); dw.segments[sg.segNumber] = sg; }
                dw.current_control.isProducer = r.coin(); dw.current_control.prod = Opm::Well::ProducerCMode::ORAT; dw.current_control.inj = Opm::Well::InjectorCMode::RATE;
                dw.guide_rates.set(Opm::data::GuideRateValue::Item::Oil, rndVal(r));
                for (const auto it : { Opm::data::GuideRateValue::Item::Gas, Opm::data::GuideRateValue::Item::Water, Opm::data::GuideRateValue::Item::ResV }) if (r.coin()) dw.guide_rates.set(it, rndVal(r));
                wells[rndName(r, "W", 6)] = dw;
            }
            Opm::data::GroupAndNetworkValues gnv;
            for (int g = r.range(0, 3); g > 0; --g) {
                auto& gd = gnv.groupData[rndName(r, "G", 4)];
                gd.currentControl.set(Opm::Group::ProductionCMode::ORAT, Opm::Group::InjectionCMode::RATE, Opm::Group::InjectionCMode::VREP);
                gd.guideRates.production.set(Opm::data::GuideRateValue::Item::Oil, rndVal(r));
                for (const auto it : { Opm::data::GuideRateValue::Item::Gas, Opm::data::GuideRateValue::Item::Water, Opm::data::GuideRateValue::Item::ResV }) { if (r.coin()) gd.guideRates.production.set(it, rndVal(r)); if (r.coin()) gd.guideRates.injection.set(it, rndVal(r)); }
            }
            for (int n = r.range(0, 3); n > 0; --n) gnv.nodeData[rndName(r, "N", 4)].pressure = rndVal(r);
            Opm::data::Aquifers aq;
            for (int a = r.range(0, 2); a > 0; --a) {
                Opm::data::AquiferData ad; ad.aquiferID = r.range(1, 9); ad.pressure = rndVal(r); ad.fluxRate = rndVal(r); ad.volume = rndVal(r); ad.initPressure = rndVal(r); ad.datumDepth = rndVal(r);
                if (r.coin()) { auto* f = ad.typeData.create<Opm::data::AquiferType::Fetkovich>(); f->initVolume = rndVal(r); f->prodIndex = rndVal(r); f->timeConstant = rndVal(r); }
                aq[ad.aquiferID] = ad;
            }
            Opm::RestartValue rv(sol, wells, gnv, aq);
            for (int e = r.range(0, 3); e > 0; --e) {
                const std::string key = "EXTRA" + std::to_string(e);
                std::vector<double> v(r.range(1, 8)); for (auto& x : v) x = rndVal(r);
                rv.addExtra(key, Opm::UnitSystem::measure::pressure, v);
            }
            roundTrip<Opm::RestartValue>("restartvalue", "random", rv, plog, stats,
                [](const Opm::RestartValue& x) {
                    Dump d; d.kv("solution", x.solution.size()); d.kv("wells", x.wells.size()); d.kv("extra", x.extra.size());
                    for (const auto& [k, v] : x.solution) { d.kv("sol." + k, static_cast<int>(v.target)); d.kv("sol." + k + ".dim", static_cast<int>(v.dim)); for (double y : v.data<double>()) d.kv("sol." + k + ".v", y); }
                    for (const auto& [k, w] : x.wells) { d.kv("w." + k + ".bhp", w.bhp); d.kv("w." + k + ".oil", w.rates.get(Opm::data::Rates::opt::oil, -1.0)); d.kv("w." + k + ".nconn", w.connections.size()); d.kv("w." + k + ".nseg", w.segments.size()); d.kv("w." + k + ".status", static_cast<int>(w.dynamicStatus)); }
                    for (const auto& [k, g] : x.grp_nwrk.groupData) d.kv("g." + k, g.guideRates.production.get(Opm::data::GuideRateValue::Item::Oil));
                    const auto grv = [&d](const std::string& p, const Opm::data::GuideRateValue& g) { for (const auto it : { Opm::data::GuideRateValue::Item::Oil, Opm::data::GuideRateValue::Item::Gas, Opm::data::GuideRateValue::Item::Water, Opm::data::GuideRateValue::Item::ResV }) { d.kv(p + ".has", g.has(it)); if (g.has(it)) d.kv(p + ".get", g.get(it)); } };
                    for (const auto& [k, g] : x.grp_nwrk.groupData) { grv("g." + k + ".gr.prod", g.guideRates.production); grv("g." + k + ".gr.inj", g.guideRates.injection); }
                    for (const auto& [k, w] : x.wells) {
                        grv("w." + k + ".gr", w.guide_rates);
                        for (int b = 0; b < 23; ++b) { const auto o = static_cast<Opm::data::Rates::opt>(1u << b); d.kv("w." + k + ".rates.has", w.rates.has(o)); d.kv("w." + k + ".rates.get", b == 19 ? w.rates.get(o, -1.0, "T1") : w.rates.get(o, -1.0)); }
                    }
                    for (const auto& [k, n] : x.grp_nwrk.nodeData) d.kv("n." + k, n.pressure);
                    for (const auto& [k, a] : x.aquifer) { d.kv("aq." + std::to_string(k), a.pressure); d.kv("aq.fet." + std::to_string(k), a.typeData.is<Opm::data::AquiferType::Fetkovich>()); }
                    for (const auto& [k, v] : x.extra) { d.kv("extra." + k.key, static_cast<int>(k.dim)); for (double y : v) d.kv("extra." + k.key + ".v", y); }
                    return d.str();
                },
                [](const Opm::RestartValue& a, const Opm::RestartValue& b, std::string&) { return a == b; }, LENGTH);
        }
    }
}

inline void runObjects(vh::Rng& rng, vh::PropLog& plog, std::map<std::string, long>& stats, bool thorough, const std::string& outdir) {
    // (a) random dynamic states
    runDynamic(rng, plog, stats, thorough ? 2000 : 60);
    // (b) shipped decks of the working tree
    const char* repoEnv = std::getenv("VERIF_REPO");
    const std::string repo = repoEnv ? repoEnv : "/repo";
    std::vector<std::string> shipped;
    const std::vector<std::string> quickSet{"SPE1CASE1.DATA", "SPE1CASE2.DATA", "ACTIONX_M1.DATA", "UDQ_ACTIONX.DATA", "MSW.DATA", "5_NETWORK_MODEL5_STDW_NETBAL_PACK.DATA", "SPE1CASE1_SUMTHIN.DATA", "TEST_WLIST.DATA"};
    if (thorough) {
        for (const auto& e : fs::directory_iterator(repo + "/tests")) if (e.path().extension() == ".DATA") shipped.push_back(e.path().string());
        std::sort(shipped.begin(), shipped.end());
    } else {
        for (const auto& n : quickSet) shipped.push_back(repo + "/tests/" + n);
    }
    std::ofstream decklog(outdir + "/decks.txt");
    for (const auto& path : shipped) {
        Loaded L; std::string why;
        if (!fs::exists(path) || !load(path, true, L, why)) { stats["shipped.skipped"]++; decklog << "skip " << path << " " << why << "\n"; continue; }
        stats["shipped.loaded"]++;
        decklog << "ok " << path << " steps=" << L.sched->size() << "\n";
        checkLoaded(fs::path(path).filename().string(), L, plog, stats);
    }
    stats["eclipsestate.eq_throws_on_original"] = 0;
    // (c) generated decks
    const int ngen = thorough ? 600 : 25;
    for (int i = 0; i < ngen; ++i) {
        const std::string text = genDeck(rng, stats);
        if (std::getenv("SERIAL_DUMP_DECKS")) vh::spit(outdir + "/gen" + std::to_string(i) + ".DATA", text);
        Loaded L; std::string why;
        if (!load(text, false, L, why)) { stats["gen.rejected"]++; decklog << "gen-reject " << i << " " << why << "\n"; if (stats["gen.rejected"] <= 3) vh::spit(outdir + "/rejected" + std::to_string(i) + ".DATA", text); continue; }
        stats["gen.loaded"]++;
        const long before = plog.failed;
        checkLoaded("gen", L, plog, stats);
        if (plog.failed != before && stats["gen.saved"] < (std::getenv("SERIAL_DEBUG") ? 100 : 5)) { stats["gen.saved"]++; vh::spit(outdir + "/failing" + std::to_string(i) + ".DATA", text); }
    }
}

} // namespace so
