#pragma once
#include "common/vh.hpp"
#include <map>
namespace so {
inline void runObjects(vh::Rng&, vh::PropLog&, std::map<std::string, long>&, bool, const std::string&) {}
}
