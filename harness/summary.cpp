// C09 harness: drives the real out::Summary::eval on generated models.
//
//   summary corr <seed> <tier> <outdir>   ops.txt / impl.txt / stats.json for the Lean model
//   summary prop <seed> <tier> <outdir>   the property's laws recomputed on the real SummaryState
//
// A case = a generated deck (unit system, group tree to depth 4 below FIELD, wells in the leaf
// groups, WCONHIST / WCONINJH, WEFAC / GEFAC, later-step changes, wells introduced later), parsed
// with the real Parser / EclipseState / Schedule / SummaryConfig, plus random data::Wells per
// evaluation (absent, dynamically shut, cross-flowing wells, unset rate components) and random
// step lengths including sub-steps inside a report step.
#include "common/vh.hpp"

#include <opm/input/eclipse/Parser/Parser.hpp>
#include <opm/input/eclipse/Parser/ParseContext.hpp>
#include <opm/input/eclipse/Parser/ErrorGuard.hpp>
#include <opm/input/eclipse/Deck/Deck.hpp>
#include <opm/input/eclipse/EclipseState/EclipseState.hpp>
#include <opm/input/eclipse/EclipseState/SummaryConfig/SummaryConfig.hpp>
#include <opm/input/eclipse/Schedule/Schedule.hpp>
#include <opm/input/eclipse/Schedule/SummaryState.hpp>
#include <opm/input/eclipse/Schedule/Group/Group.hpp>
#include <opm/input/eclipse/Schedule/Well/Well.hpp>
#include <opm/input/eclipse/Python/Python.hpp>
#include <opm/input/eclipse/Units/UnitSystem.hpp>
#include <opm/output/eclipse/Summary.hpp>
#include <opm/output/eclipse/Inplace.hpp>
#include <opm/output/eclipse/RegionCache.hpp>
#include <opm/io/eclipse/SummaryNode.hpp>
#include <opm/io/eclipse/EclFile.hpp>
#include <opm/input/eclipse/Schedule/Well/Connection.hpp>
#include <opm/input/eclipse/Schedule/Well/WellConnections.hpp>
#include <opm/output/data/Wells.hpp>
#include <opm/output/data/Groups.hpp>
#include <opm/common/utility/TimeService.hpp>
#include <opm/common/OpmLog/OpmLog.hpp>

#include <algorithm>
#include <array>
#include <cmath>
#include <filesystem>
#include <functional>
#include <iostream>
#include <memory>
#include <set>

using namespace Opm;
using rt = data::Rates::opt;
using M = UnitSystem::measure;

namespace {

// ---------------------------------------------------------------------------------------
// key families (the property's quantifier) + neighbours built from the same combinators

const std::vector<std::string> kSuffix = {
    // X in {W,G,F} is prepended
    "OPR", "WPR", "GPR", "LPR", "VPR", "OIR", "WIR", "GIR", "LIR", "VIR",
    "OPT", "WPT", "GPT", "LPT", "VPT", "OIT", "WIT", "GIT", "LIT", "VIT",
    "OPRH", "WPRH", "GPRH", "LPRH", "OIRH", "WIRH", "GIRH",
    "OPTH", "WPTH", "GPTH", "LPTH", "OITH", "WITH", "GITH",
    "WCT", "GOR", "GLR", "OGR", "WGR", "WCTH", "GORH", "GLRH", "WGRH",
    "GPRS", "GPRF", "OPRS", "OPRF", "GPTS", "GPTF", "OPTS", "OPTF",
    "NPR", "NPT", "NIR", "NIT", "CPR", "CPT", "CIR", "CIT", "SPR", "SPT", "SIR", "SIT",
    "EPR", "EPT", "EIR", "EIT", "GMIR", "GMIT", "GVPR", "GVIR", "WVIR", "CPC", "SPC",
};

// levels below the well, regions, network nodes (the leaves crate<>, crate_resv<>, cpr, cratel<>, ratel<>,
// srate<>, segpress<>, region_rate<>, node_pressure of the funs table)
const std::vector<std::string> kConnKeys = {
    "CWIR", "CGIR", "COIR", "CVIR", "CCIR", "CSIR", "COIT", "CWIT", "CGIT", "CVIT", "CNIT", "CWPR", "COPR", "CGPR", "CVPR",
    "CCPR", "CSPR", "CGFR", "COFR", "CWFR", "CWCT", "CGOR", "CNFR", "CWPT", "COPT", "CGPT", "CVPT", "CNPT", "CCIT", "CCPT",
    "CSIT", "CSPT", "CGFRF", "CGFRS", "COFRF", "COFRS", "CPR",
    "CGIRL", "CGITL", "CWIRL", "CWITL", "CWPRL", "CWPTL", "COPRL", "COPTL", "CGPRL", "CGPTL", "COFRL", "CGORL", "CWCTL",
};
const std::vector<std::string> kWellComplKeys = {
    "WWPTL", "WGPTL", "WOPTL", "WWPRL", "WGPRL", "WOPRL", "WOFRL", "WWIRL", "WWITL", "WGIRL", "WGITL", "WLPTL", "WWCTL", "WGORL",
};
const std::vector<std::string> kSegKeys = {
    "SOFR", "SOFT", "SOFRF", "SOFRS", "SGFR", "SGFT", "SGFRF", "SGFRS", "SWFR", "SWFT", "SGOR", "SOGR", "SWCT", "SWGR",
    "SPR", "SPRD", "SPRDH", "SPRDF", "SPRDA",
};
const std::vector<std::string> kRegKeys = {
    "ROIR", "RGIR", "RWIR", "ROPR", "RGPR", "RWPR", "ROIT", "RGIT", "RWIT", "ROPT", "RGPT", "RWPT", "ROPR_ABC", "RWIT_ABC", "RGPT_ABC",
};

const std::vector<std::pair<std::string, M>> kMeasures = {
    {"identity", M::identity}, {"time", M::time},
    {"liquid_surface_volume", M::liquid_surface_volume}, {"gas_surface_volume", M::gas_surface_volume},
    {"volume", M::volume}, {"liquid_surface_rate", M::liquid_surface_rate},
    {"gas_surface_rate", M::gas_surface_rate}, {"rate", M::rate}, {"mass", M::mass},
    {"mass_rate", M::mass_rate}, {"gas_oil_ratio", M::gas_oil_ratio}, {"oil_gas_ratio", M::oil_gas_ratio},
    {"water_cut", M::water_cut}, {"energy", M::energy}, {"energy_rate", M::energy_rate},
    {"polymer_density", M::polymer_density}, {"pressure", M::pressure},
};

const std::vector<std::pair<std::string, rt>> kRates = {
    {"wat", rt::wat}, {"oil", rt::oil}, {"gas", rt::gas}, {"polymer", rt::polymer},
    {"solvent", rt::solvent}, {"energy", rt::energy}, {"dissolved_gas", rt::dissolved_gas},
    {"vaporized_oil", rt::vaporized_oil}, {"reservoir_water", rt::reservoir_water},
    {"reservoir_oil", rt::reservoir_oil}, {"reservoir_gas", rt::reservoir_gas},
    {"brine", rt::brine}, {"mass_gas", rt::mass_gas},
};

// ---------------------------------------------------------------------------------------
// generated model

struct GroupSpec {
    std::string name;
    int parent;                      // index into groups, -1 = FIELD (sim step 0; later steps: parentAt)
    int depth;                       // 1 = child of FIELD (sim step 0)
    std::vector<double> gefac;       // per sim step
    std::vector<int> kids;           // sim step 0
    std::vector<int> wells;          // wells whose first WELSPECS names this group
    std::vector<int> parentAt;       // per sim step: GRUPTREE at a later report step re-parents existing groups
    bool nodeGroup = false;          // may hold child groups (never wells); the others hold wells (never groups)
};

struct WellSpec {
    std::string name;
    int group;                       // group of the first WELSPECS (later steps: groupAt)
    std::vector<int> groupAt;        // per sim step: a later WELSPECS moves the well to another group
    std::vector<int> k2At;           // per sim step: last connected layer (a later COMPDAT adds layers); k2 = the final one
    int i, j;
    bool producer;
    std::string injType;             // WATER / GAS / OIL
    int firstStep;                   // sim step at which WELSPECS appears
    std::vector<double> wefac;       // per sim step
    std::vector<std::string> status; // per sim step: OPEN / STOP / SHUT
    std::vector<double> orat, wrat, grat, irat;  // deck units, per sim step
    int k1 = 1, k2 = 2;              // connected layers
    std::vector<int> complOf;        // completion number per connected layer (COMPLUMP); empty = default numbering
    bool msw = false;                // multi-segment well: segment 1 + one segment per connection
    int gidx(int k) const { return (i - 1) + 10 * (j - 1) + 100 * (k - 1); }
    int complnum(int k) const { return complOf.empty() ? (k - k1 + 1) : complOf[k - k1]; }
};

struct Case {
    std::string units;               // METRIC / FIELD / LAB / PVT-M
    std::vector<GroupSpec> groups;
    std::vector<WellSpec> wells;
    int nsteps;                      // number of report steps (TSTEP records)
    std::vector<double> tstep;       // deck time units per report step
    int year, month, day;            // START
    std::string deck;
    std::map<std::string, long> hist;   // what changes between report steps (generator statistics)
    std::vector<int> quietRegroup;      // sim steps whose only tree change is a GRUPTREE re-parenting (no WELSPECS at all)
    std::vector<int> quietMove;         // sim steps whose only tree change is a WELSPECS moving existing wells
};

// the group tree of one sim step, from the generated specification (independent of the Schedule)
struct Tree {
    std::vector<int> parent;                 // -1 = FIELD
    std::vector<std::vector<int>> kids, wells;
};
Tree treeAt(const Case& c, int s) {
    Tree t;
    const size_t ng = c.groups.size();
    t.parent.resize(ng); t.kids.resize(ng); t.wells.resize(ng);
    for (size_t g = 0; g < ng; ++g) t.parent[g] = c.groups[g].parentAt[s];
    for (size_t g = 0; g < ng; ++g) if (t.parent[g] >= 0) t.kids[t.parent[g]].push_back(static_cast<int>(g));
    for (size_t w = 0; w < c.wells.size(); ++w) if (c.wells[w].firstStep <= s) t.wells[c.wells[w].groupAt[s]].push_back(static_cast<int>(w));
    return t;
}

std::string num(double v) {
    char b[64];
    std::snprintf(b, sizeof b, "%.4f", v);
    return b;
}

const char* kMonths[] = {"JAN", "FEB", "MAR", "APR", "MAY", "JUN", "JUL", "AUG", "SEP", "OCT", "NOV", "DEC"};

double randFac(vh::Rng& rng) {
    // efficiency factors in (0, 1], a few decimal digits so the deck text is exact
    if (rng.coin(1, 3)) return 1.0;
    return (1 + rng.below(1000)) / 1000.0;
}

double randRate(vh::Rng& rng) {
    if (rng.coin(1, 12)) return 0.0;
    // a nearly watered-out / very low rate well: the smallest numbers the deck format here can carry
    // (0.0001 ... 0.0100 deck units, i.e. 1e-9 m3/s and below in every unit system)
    if (rng.coin(1, 6)) return (1 + rng.below(100)) / 10000.0;
    return std::strtod(num(rng.unit() * (rng.coin() ? 100.0 : 20000.0)).c_str(), nullptr);
}

int fipnumOf(int gidx) { const int x = gidx % 10, z = gidx / 100; return 1 + (x >= 5 ? 1 : 0) + (z >= 2 ? 2 : 0); }
int fipabcOf(int gidx) { return 1 + gidx / 100; }

struct XKeys { std::vector<std::string> conn, wcompl, seg, reg; bool gpr = false; };

Case makeCase(vh::Rng& rng, const std::vector<std::string>& keys, bool thorough, const XKeys* xk = nullptr) {
    Case c;
    static const std::vector<std::string> us = {"METRIC", "FIELD", "LAB", "PVT-M"};
    c.units = rng.pick(us);
    c.nsteps = rng.coin(1, 6) ? 1 : rng.range(2, thorough ? 6 : 4);     // mostly histories of several report steps
    c.year = rng.range(1990, 2030); c.month = rng.range(1, 12); c.day = rng.range(1, 28);
    for (int s = 0; s < c.nsteps; ++s) {
        // mostly whole days so that calendar vectors are crisp; sometimes fractional
        double d = rng.coin(3, 4) ? double(rng.range(1, 400)) : std::strtod(num(rng.unit() * 50 + 0.01).c_str(), nullptr);
        c.tstep.push_back(d);
    }
    // group tree: every group picks FIELD or an earlier group of depth < 4 as parent
    const int ng = rng.range(1, thorough ? 9 : 7);
    for (int g = 0; g < ng; ++g) {
        GroupSpec gs;
        gs.name = "G" + std::to_string(g + 1);
        gs.parent = -1; gs.depth = 1;
        if (g > 0 && rng.coin(3, 4)) {
            std::vector<int> cand;
            for (int p = 0; p < g; ++p) if (c.groups[p].depth < 4) cand.push_back(p);
            if (!cand.empty()) {
                // favour deep chains
                int p = rng.coin() ? cand.back() : rng.pick(cand);
                gs.parent = p; gs.depth = c.groups[p].depth + 1;
            }
        }
        double f = randFac(rng);
        for (int s = 0; s < c.nsteps; ++s) {
            if (s > 0 && rng.coin(1, 4)) f = randFac(rng);
            gs.gefac.push_back(f);
        }
        c.groups.push_back(gs);
    }
    for (int g = 0; g < ng; ++g)
        if (c.groups[g].parent >= 0) c.groups[c.groups[g].parent].kids.push_back(g);
    // groups that hold groups vs groups that hold wells (the Schedule refuses to mix them): the inner groups of
    // the initial tree and some childless "empty platforms" may receive groups later, the others hold the wells
    {
        int wellGroups = 0;
        for (int g = 0; g < ng; ++g) { c.groups[g].nodeGroup = !c.groups[g].kids.empty(); if (!c.groups[g].nodeGroup) ++wellGroups; }
        for (int g = 0; g < ng; ++g)
            if (!c.groups[g].nodeGroup && wellGroups > 1 && rng.coin(1, 4)) { c.groups[g].nodeGroup = true; --wellGroups; }
    }
    std::vector<int> leaves;
    for (int g = 0; g < ng; ++g) if (!c.groups[g].nodeGroup) leaves.push_back(g);

    // --- the group tree changes between report steps: GRUPTREE at a later step moves an EXISTING group (with
    //     everything below it) under another EXISTING group or FIELD.  Every later step has one kind of structural
    //     change: R = GRUPTREE re-parenting only ("quiet": no WELSPECS, no new group — nothing but the GRUPTREE record
    //     itself announces the change), M = only WELSPECS records that move existing wells to another group,
    //     N = only new wells, X = any mixture.
    std::vector<int> par(ng);
    for (int g = 0; g < ng; ++g) { par[g] = c.groups[g].parent; c.groups[g].parentAt.assign(c.nsteps, par[g]); }
    std::vector<char> quiet(c.nsteps, 0);
    std::set<int> everMoved;
    auto depthOf = [&](int g) { int d = 0; for (int p = g; p >= 0; p = par[p]) ++d; return d; };
    auto below = [&](int anc, int g) { for (int p = g; p >= 0; p = par[p]) if (p == anc) return true; return false; };
    auto heightOf = [&](int g) { int h = 1; for (int x = 0; x < ng; ++x) if (below(g, x)) h = std::max(h, depthOf(x) - depthOf(g) + 1); return h; };
    std::vector<char> kind(c.nsteps, 'X');
    for (int s = 1; s < c.nsteps; ++s) kind[s] = "RMNX"[rng.below(4)];
    for (int s = 1; s < c.nsteps; ++s) {
        if (kind[s] != 'R' && !(kind[s] == 'X' && rng.coin(2, 3))) continue;
        const int nmoves = rng.coin(1, 4) ? 2 : 1;
        bool any = false;
        for (int mv = 0; mv < nmoves; ++mv) {
            std::vector<std::pair<int,int>> cand;       // (moved group, new parent)
            for (int m = 0; m < ng; ++m)
                for (int p = -1; p < ng; ++p) {
                    if (p == par[m] || p == m) continue;
                    if (p >= 0 && (!c.groups[p].nodeGroup || below(m, p))) continue;
                    if ((p >= 0 ? depthOf(p) : 0) + heightOf(m) > 4) continue;
                    cand.push_back({m, p});
                }
            if (cand.empty()) break;
            const auto pick = rng.pick(cand);
            par[pick.first] = pick.second;
            everMoved.insert(pick.first);
            any = true;
            ++c.hist["regroup.moves"];
            ++c.hist[pick.second < 0 ? "regroup.to_FIELD" : "regroup.under_group"];
        }
        if (!any) continue;
        for (int t = s; t < c.nsteps; ++t) for (int g = 0; g < ng; ++g) c.groups[g].parentAt[t] = par[g];
        quiet[s] = kind[s] == 'R';
        ++c.hist[quiet[s] ? "regroup.steps_quiet" : "regroup.steps_with_other_events_allowed"];
        if (quiet[s]) c.quietRegroup.push_back(s);
    }
    // well groups that are, at some step, below a group that gets moved: wells prefer them
    std::vector<int> movedLeaves;
    for (int g : leaves)
        for (int s = 0; s < c.nsteps && (movedLeaves.empty() || movedLeaves.back() != g); ++s)
            for (int p = g; p >= 0; p = c.groups[p].parentAt[s]) if (everMoved.count(p)) { movedLeaves.push_back(g); break; }
    std::vector<int> loudSteps;                          // later steps in which a WELSPECS may appear
    for (int s = 1; s < c.nsteps; ++s) if (kind[s] == 'N' || kind[s] == 'X') loudSteps.push_back(s);

    const int nw = rng.range(1, thorough ? 12 : 9);
    std::set<std::pair<int,int>> used;
    for (int w = 0; w < nw; ++w) {
        WellSpec ws;
        ws.name = (rng.coin() ? "P" : "W") + std::to_string(w + 1);
        ws.group = (!movedLeaves.empty() && rng.coin(1, 2)) ? rng.pick(movedLeaves) : rng.pick(leaves);
        do { ws.i = rng.range(1, 10); ws.j = rng.range(1, 10); } while (!used.insert({ws.i, ws.j}).second);
        ws.producer = rng.coin(2, 3);
        static const std::vector<std::string> it = {"WATER", "GAS", "OIL"};
        ws.injType = rng.pick(it);
        ws.firstStep = (!loudSteps.empty() && rng.coin(1, 5)) ? rng.pick(loudSteps) : 0;
        if (ws.firstStep > 0) ++c.hist["well.introduced_later"];
        if (xk) {
            static const std::vector<std::pair<int,int>> spans = {{1, 1}, {1, 2}, {1, 3}, {2, 3}, {1, 3}};
            const auto sp = rng.pick(spans); ws.k1 = sp.first; ws.k2 = sp.second;
            ws.msw = ws.producer && rng.coin(1, 3);
        }
        // a later COMPDAT adds layers above the first ones (the well's connection list, its completions and the
        // regions it is connected in change between evaluations); not for multi-segment wells
        ws.k2At.assign(c.nsteps, ws.k2);
        if (xk && !ws.msw && ws.k2 > ws.k1 && ws.firstStep < c.nsteps - 1 && rng.coin(1, 2)) {
            int k = rng.range(ws.k1, ws.k2 - 1);
            for (int s = 0; s < c.nsteps; ++s) {
                if (s > ws.firstStep && k < ws.k2 && rng.coin(1, 2)) { k = rng.range(k + 1, ws.k2); ++c.hist["compdat.layers_added_later"]; }
                ws.k2At[s] = k;
            }
            for (int s = 0; s <= ws.firstStep; ++s) ws.k2At[s] = ws.k2At[ws.firstStep];
            ws.k2 = ws.k2At.back();
        }
        if (xk && rng.coin(1, 2)) for (int k = ws.k1; k <= ws.k2; ++k) ws.complOf.push_back(rng.range(1, 2));
        // a later WELSPECS moves the well to another well group (never in a quiet step)
        ws.groupAt.assign(c.nsteps, ws.group);
        {
            int g = ws.group;
            for (int s = 0; s < c.nsteps; ++s) {
                if (s > ws.firstStep && leaves.size() > 1 && ((kind[s] == 'M' && rng.coin(1, 2)) || (kind[s] == 'X' && rng.coin(1, 6)))) {
                    int g2; do { g2 = rng.pick(leaves); } while (g2 == g);
                    g = g2; ++c.hist["well.moved_to_other_group"];
                    if (kind[s] == 'M') { ++c.hist["well.moved_in_step_with_only_WELSPECS_of_existing_wells"]; c.quietMove.push_back(s); }
                }
                ws.groupAt[s] = g;
            }
        }
        double f = randFac(rng);
        std::string st = "OPEN";
        double o = randRate(rng), wq = randRate(rng), gq = randRate(rng), iq = randRate(rng);
        for (int s = 0; s < c.nsteps; ++s) {
            if (s > 0 && rng.coin(1, 4)) { f = randFac(rng); if (s > ws.firstStep) ++c.hist["wefac.changed_later"]; }
            if (s > 0 && rng.coin(1, 3)) { o = randRate(rng); wq = randRate(rng); gq = randRate(rng); iq = randRate(rng); }
            if (s == 0 || rng.coin(1, 4)) {
                int r = rng.range(0, 9);
                st = r < 7 ? "OPEN" : (r < 9 ? "STOP" : "SHUT");
            }
            ws.wefac.push_back(f); ws.status.push_back(st);
            ws.orat.push_back(o); ws.wrat.push_back(wq); ws.grat.push_back(gq); ws.irat.push_back(iq);
        }
        c.groups[ws.group].wells.push_back(w);
        c.wells.push_back(ws);
    }
    for (const auto& g : c.groups) for (int s = 1; s < c.nsteps; ++s) if (g.gefac[s] != g.gefac[s-1]) ++c.hist["gefac.changed_later"];

    std::ostringstream d;
    d << "RUNSPEC\nTITLE\nC09\nDIMENS\n 10 10 3 /\nOIL\nGAS\nWATER\n" << c.units << "\n"
      << "START\n " << c.day << " '" << kMonths[c.month - 1] << "' " << c.year << " /\n"
      << "WELLDIMS\n 40 10 20 40 /\nUNIFIN\nUNIFOUT\n"
      << (xk ? "REGDIMS\n 4 2 1* 1* /\nWSEGDIMS\n 12 6 3 /\nNETWORK\n 12 12 /\n" : "")
      << "GRID\nDX\n300*100 /\nDY\n300*100 /\nDZ\n300*10 /\nTOPS\n100*2000 /\n"
      << "PORO\n300*0.2 /\nPERMX\n300*100 /\nPERMY\n300*100 /\nPERMZ\n300*10 /\n"
      ;
    if (xk) {
        d << "REGIONS\nFIPNUM\n";
        for (int g = 0; g < 300; ++g) d << ' ' << fipnumOf(g) << (g % 20 == 19 ? "\n" : "");
        d << "/\nFIPABC\n";
        for (int g = 0; g < 300; ++g) d << ' ' << fipabcOf(g) << (g % 20 == 19 ? "\n" : "");
        d << "/\n";
    }
    d << "SUMMARY\nDATE\n";
    for (const auto& k : keys) {
        d << k << "\n";
        if (k[0] != 'F') d << "/\n";
    }
    if (xk) {
        for (const auto& k : xk->conn) d << k << "\n '*' /\n/\n";
        for (const auto& k : xk->wcompl) {
            d << k << "\n";
            for (const auto& w : c.wells) {
                std::set<int> cn; for (int kk = w.k1; kk <= w.k2; ++kk) cn.insert(w.complnum(kk));
                for (int n : cn) d << " '" << w.name << "' " << n << " /\n";
            }
            d << "/\n";
        }
        bool anyMsw = false; for (const auto& w : c.wells) anyMsw = anyMsw || w.msw;
        if (anyMsw)
            for (const auto& k : xk->seg) {
                d << k << "\n";
                for (const auto& w : c.wells) if (w.msw) d << " '" << w.name << "' /\n";
                d << "/\n";
            }
        for (const auto& k : xk->reg) d << k << "\n/\n";
        if (xk->gpr) d << "GPR\n/\nNPR\n/\nGNETPR\n/\n";
    }
    d << "SCHEDULE\nGRUPTREE\n";
    for (const auto& g : c.groups)
        d << " '" << g.name << "' '" << (g.parent < 0 ? std::string("FIELD") : c.groups[g.parent].name) << "' /\n";
    d << "/\n";
    if (xk && xk->gpr) {
        // extended network along the group tree: every group is a node, FIELD the fixed-pressure terminal
        d << "BRANPROP\n";
        for (const auto& g : c.groups)
            d << " '" << g.name << "' '" << (g.parent < 0 ? std::string("FIELD") : c.groups[g.parent].name) << "' 9999 /\n";
        d << "/\nNODEPROP\n 'FIELD' 20 /\n";
        for (const auto& g : c.groups) d << " '" << g.name << "' /\n";
        d << "/\n";
    }
    for (int s = 0; s < c.nsteps; ++s) {
        std::ostringstream ws, cd, cl, sg, hist, injh, wef, gef, gt;
        // GRUPTREE of a later step: only the groups whose parent changes (both ends exist already)
        if (s > 0)
            for (const auto& g : c.groups)
                if (g.parentAt[s] != g.parentAt[s-1])
                    gt << " '" << g.name << "' '" << (g.parentAt[s] < 0 ? std::string("FIELD") : c.groups[g.parentAt[s]].name) << "' /\n";
        if (!gt.str().empty()) d << "GRUPTREE\n" << gt.str() << "/\n";
        for (const auto& w : c.wells) {
            if (w.firstStep > s) continue;
            if (w.firstStep == s || w.groupAt[s] != w.groupAt[s-1])
                ws << " '" << w.name << "' '" << c.groups[w.groupAt[s]].name << "' " << w.i << " " << w.j << " 1* '"
                   << (w.producer ? "OIL" : (w.injType == "GAS" ? "GAS" : "WATER")) << "' /\n";
            if (w.firstStep == s || w.k2At[s] != w.k2At[s-1]) {
                const int ka = w.firstStep == s ? w.k1 : w.k2At[s-1] + 1;
                cd << " '" << w.name << "' " << w.i << " " << w.j << " " << ka << " " << w.k2At[s] << " 'OPEN' 1* 1* 0.2 /\n";
                if (!w.complOf.empty())
                    for (int kk = ka; kk <= w.k2At[s]; ++kk)
                        cl << " '" << w.name << "' " << w.i << " " << w.j << " " << kk << " " << kk << " " << w.complnum(kk) << " /\n";
            }
            if (w.firstStep == s) {
                if (w.msw) {
                    sg << "WELSEGS\n '" << w.name << "' 2000 0 1* 'INC' 'HFA' /\n";
                    for (int kk = w.k1; kk <= w.k2; ++kk) {
                        const int sno = kk - w.k1 + 2;
                        sg << " " << sno << " " << sno << " 1 " << (sno - 1) << " 10 10 0.2 0.0001 /\n";
                    }
                    sg << "/\nCOMPSEGS\n '" << w.name << "' /\n";
                    for (int kk = w.k1; kk <= w.k2; ++kk)
                        sg << " " << w.i << " " << w.j << " " << kk << " 1 " << (kk - w.k1) * 10 << " " << (kk - w.k1 + 1) * 10 << " /\n";
                    sg << "/\n";
                }
            }
            const bool first = (w.firstStep == s);
            const bool ratesChanged = first || w.orat[s] != w.orat[s-1] || w.wrat[s] != w.wrat[s-1] ||
                w.grat[s] != w.grat[s-1] || w.irat[s] != w.irat[s-1] || w.status[s] != w.status[s-1];
            if (ratesChanged) {
                if (w.producer)
                    hist << " '" << w.name << "' '" << w.status[s] << "' 'ORAT' " << num(w.orat[s]) << " "
                         << num(w.wrat[s]) << " " << num(w.grat[s]) << " /\n";
                else
                    injh << " '" << w.name << "' '" << w.injType << "' '" << w.status[s] << "' " << num(w.irat[s]) << " /\n";
            }
            if ((first && w.wefac[s] != 1.0) || (!first && w.wefac[s] != w.wefac[s-1]))
                wef << " '" << w.name << "' " << num(w.wefac[s]) << " /\n";
        }
        for (const auto& g : c.groups)
            if ((s == 0 && g.gefac[0] != 1.0) || (s > 0 && g.gefac[s] != g.gefac[s-1]))
                gef << " '" << g.name << "' " << num(g.gefac[s]) << " /\n";
        if (!ws.str().empty()) d << "WELSPECS\n" << ws.str() << "/\n";
        if (!cd.str().empty()) d << "COMPDAT\n" << cd.str() << "/\n";
        if (!cl.str().empty()) d << "COMPLUMP\n" << cl.str() << "/\n";
        d << sg.str();
        if (!hist.str().empty()) d << "WCONHIST\n" << hist.str() << "/\n";
        if (!injh.str().empty()) d << "WCONINJH\n" << injh.str() << "/\n";
        if (!wef.str().empty()) d << "WEFAC\n" << wef.str() << "/\n";
        if (!gef.str().empty()) d << "GEFAC\n" << gef.str() << "/\n";
        d << "TSTEP\n " << num(c.tstep[s]) << " /\n";
    }
    d << "END\n";
    c.deck = d.str();
    return c;
}

// the real objects for one case
struct Real {
    Deck deck;
    EclipseState es;
    Schedule sched;
    SummaryConfig cfg;
    Real(const std::string& text, const Parser& parser)
        : deck(parser.parseString(text))
        , es(deck)
        , sched(deck, es, std::make_shared<Python>())
        , cfg(deck, sched, es.fieldProps(), es.aquifer())
    {}
};

data::Wells makeWellData(vh::Rng& rng, const Case& c, int simStep, vh::Sink* sink, bool ext = false) {
    data::Wells out;
    // small but non-zero rates (SI, m3/s): 1e-9 ... 1e-14, far below any "looks like zero" threshold but
    // perfectly good numbers (core floods in LAB units, nearly dead wells).  Either every well of the
    // evaluation (so that group and field denominators are small too) or single wells / single phases.
    const bool allTiny = rng.coin(1, 5);
    for (const auto& w : c.wells) {
        const int tinyMode = allTiny ? rng.range(0, 1) : rng.range(0, 9);   // 0 all components, 1 liquids only, 2 gas only, else none
        const double tinyScale = std::pow(10.0, -rng.range(9, 14));
        if (w.firstStep > simStep) { if (rng.coin(1, 6)) {} else continue; }   // sometimes results for a well the schedule does not know yet
        const int r = rng.range(0, 19);
        if (r == 0) { if (sink) sink->count("well.absent"); continue; }
        data::Well dw;
        dw.dynamicStatus = (r <= 3) ? Well::Status::SHUT : (r == 4 ? Well::Status::STOP : Well::Status::OPEN);
        if (sink) sink->count(r <= 3 ? "well.dyn_shut" : (r == 4 ? "well.dyn_stop" : "well.dyn_open"));
        dw.current_control.isProducer = w.producer;
        for (const auto& pr : kRates) {
            if (rng.coin(1, 10)) continue;                    // component not set
            double mag = rng.unit() * (rng.coin() ? 1e-3 : 1.0);
            const bool liquid = pr.second == rt::wat || pr.second == rt::oil;
            if (tinyMode == 0 || (tinyMode == 1 && liquid) || (tinyMode == 2 && pr.second == rt::gas)) {
                mag = (0.05 + rng.unit()) * tinyScale;
                if (sink) sink->count("rate.tiny");
            }
            if (rng.coin(1, 15)) mag = 0.0;
            double sign = w.producer ? -1.0 : 1.0;
            if (rng.coin(1, 8)) sign = -sign;                 // cross flow
            dw.rates.set(pr.second, sign * mag);
        }
        if (ext) {
            // rarely the simulator runs a well under the opposite control type
            if (rng.coin(1, 12)) { dw.current_control.isProducer = !w.producer; if (sink) sink->count("well.type_flipped"); }
            // connection results: either a consistent split of the well rates (same sign, fractions summing to
            // one) or independent numbers; sometimes a connection is missing, sometimes there is an extra one
            const bool split = rng.coin(1, 2);
            if (sink) sink->count(split ? "conn.split_of_well_rates" : "conn.independent");
            const int k2now = w.k2At[std::min<int>(simStep, static_cast<int>(w.k2At.size()) - 1)];   // the connections the schedule has at this step
            const int nc = k2now - w.k1 + 1;
            std::vector<double> frac(nc);
            { double t = 0; for (auto& f : frac) { f = 0.05 + rng.unit(); t += f; } for (auto& f : frac) f /= t; }
            const bool dropOne = !split && rng.coin(1, 6);
            const int dropK = w.k1 + rng.range(0, nc - 1);
            for (int k = w.k1; k <= k2now; ++k) {
                if (dropOne && k == dropK) { if (sink) sink->count("conn.missing_in_results"); continue; }
                data::Connection cn;
                cn.index = static_cast<std::size_t>(w.gidx(k));
                for (const auto& pr : kRates) {
                    if (split) { if (dw.rates.has(pr.second)) cn.rates.set(pr.second, dw.rates.get(pr.second) * frac[k - w.k1]); continue; }
                    if (rng.coin(1, 10)) continue;
                    double mag = rng.unit() * (rng.coin() ? 1e-3 : 1.0);
                    if (tinyMode == 0) mag = (0.05 + rng.unit()) * tinyScale;
                    if (rng.coin(1, 15)) mag = 0.0;
                    double sign = w.producer ? -1.0 : 1.0;
                    if (rng.coin(1, 8)) sign = -sign;
                    cn.rates.set(pr.second, sign * mag);
                }
                cn.reservoir_rate = (w.producer ? -1.0 : 1.0) * (rng.coin(1, 8) ? -1.0 : 1.0) * rng.unit() * (rng.coin(1, 10) ? 0.0 : 1.0);
                cn.pressure = 1e5 + rng.unit() * 4e7;
                dw.connections.push_back(cn);
                if (sink) sink->count("conn.results");
            }
            if (rng.coin(1, 10)) { data::Connection cn; cn.index = 299 - static_cast<std::size_t>(w.gidx(w.k1)) % 100; cn.rates.set(rt::oil, -1.0); dw.connections.push_back(cn); }
            if (w.msw)
                for (int sno = 1; sno <= nc + 1; ++sno) {
                    if (rng.coin(1, 12)) { if (sink) sink->count("seg.missing_in_results"); continue; }
                    data::Segment sg;
                    sg.segNumber = static_cast<std::size_t>(sno);
                    for (const auto& pr : kRates) {
                        if (rng.coin(1, 10)) continue;
                        double mag = rng.unit() * (rng.coin() ? 1e-3 : 1.0);
                        if (tinyMode == 0) mag = (0.05 + rng.unit()) * tinyScale;
                        if (rng.coin(1, 15)) mag = 0.0;
                        sg.rates.set(pr.second, (rng.coin(1, 6) ? 1.0 : -1.0) * mag);
                    }
                    using SP = data::SegmentPressures::Value;
                    for (SP v : {SP::Pressure, SP::PDrop, SP::PDropHydrostatic, SP::PDropAccel, SP::PDropFriction})
                        sg.pressures[v] = (v == SP::Pressure ? 1e5 + rng.unit() * 4e7 : (rng.unit() - 0.3) * 1e6);
                    dw.segments.emplace(sg.segNumber, sg);
                    if (sink) sink->count("seg.results");
                }
        }
        out[w.name] = dw;
    }
    return out;
}

std::string joinOrDash(const std::vector<std::string>& v) {
    if (v.empty()) return "-";
    std::string s;
    for (size_t i = 0; i < v.size(); ++i) s += (i ? "," : "") + v[i];
    return s;
}

// dump of the real Schedule state + simulator results, in the model's input format
std::string dumpState(const Real& R, const SummaryState& st, int simStep, const data::Wells& wd) {
    std::ostringstream o;
    auto gnames = R.sched.groupNames(simStep);
    std::sort(gnames.begin(), gnames.end());
    o << "G " << gnames.size();
    for (const auto& gn : gnames) {
        const auto& g = R.sched.getGroup(gn, simStep);
        const auto par = g.flow_group();
        o << ' ' << gn << ' ' << (par ? *par : std::string("-")) << ' ' << vh::hexF64(g.getGroupEfficiencyFactor())
          << ' ' << joinOrDash(g.groups()) << ' ' << joinOrDash(g.wells());
    }
    auto wnames = R.sched.wellNames(simStep);
    std::sort(wnames.begin(), wnames.end());
    o << " W " << wnames.size();
    for (const auto& wn : wnames) {
        const auto& w = R.sched.getWell(wn, simStep);
        auto it = wd.find(wn);
        const char* dyn = (it == wd.end()) ? "A" : (it->second.dynamicStatus == Well::Status::SHUT ? "S" : "O");
        o << ' ' << wn << ' ' << w.groupName() << ' ' << w.seqIndex() << ' ' << vh::hexF64(w.getEfficiencyFactor()) << ' ' << dyn;
        std::vector<std::pair<std::string, double>> rs;
        if (it != wd.end())
            for (const auto& pr : kRates)
                if (it->second.rates.has(pr.second)) rs.emplace_back(pr.first, it->second.rates.get(pr.second));
        o << ' ' << rs.size();
        for (const auto& r : rs) o << ' ' << r.first << ' ' << vh::hexF64(r.second);
        for (auto ph : {Phase::WATER, Phase::OIL, Phase::GAS}) o << ' ' << vh::hexF64(w.production_rate(st, ph));
        for (auto ph : {Phase::WATER, Phase::OIL, Phase::GAS}) o << ' ' << vh::hexF64(w.injection_rate(st, ph));
    }
    const auto& us = R.es.getUnits();
    o << " U " << kMeasures.size();
    for (const auto& m : kMeasures) o << ' ' << m.first << ' ' << vh::hexF64(us.from_si(m.second, 1.0));
    return o.str();
}

data::GroupAndNetworkValues makeNetData(vh::Rng& rng, const Case& c) {
    data::GroupAndNetworkValues out;
    for (const auto& g : c.groups)
        if (rng.coin(2, 3)) { auto& nd = out.nodeData[g.name]; nd.pressure = 1e5 + rng.unit() * 3e7; nd.converged_pressure = 1e5 + rng.unit() * 3e7; }
    if (rng.coin(2, 3)) { auto& nd = out.nodeData["FIELD"]; nd.pressure = 2e6; nd.converged_pressure = 2e6 + rng.unit(); }
    return out;
}

// ---- nodes below the well level, regions, network nodes ------------------------------------------
struct XNode {
    char kind;                       // C connection, L completion, S segment, R region, N group (network node)
    std::string name;                // well / group; region set for R
    int number;
    std::vector<std::pair<std::string, std::string>> keys;   // (normalised key = table key, keyword of the node)
};

std::vector<XNode> collectXNodes(const SummaryConfig& cfg) {
    std::map<std::tuple<char, std::string, int>, XNode> m;
    using Cat = SummaryConfigNode::Category;
    for (const auto& n : cfg) {
        char kind = 0; std::string name = n.namedEntity(); std::string key = n.keyword();
        switch (n.category()) {
        case Cat::Connection: kind = 'C'; break;
        case Cat::Completion: kind = 'L'; key = EclIO::SummaryNode::normalise_keyword(EclIO::SummaryNode::Category::Completion, key); break;
        case Cat::Segment: kind = 'S'; break;
        case Cat::Region: kind = 'R'; name = n.fip_region(); key = EclIO::SummaryNode::normalise_region_keyword(key); break;
        case Cat::Node: if (n.keyword() == "GPR" || n.keyword() == "NPR" || n.keyword() == "GNETPR") kind = 'N'; break;
        default: break;
        }
        if (!kind) continue;
        auto& x = m[{kind, name, kind == 'N' ? 0 : n.number()}];
        x.kind = kind; x.name = name; x.number = kind == 'N' ? 0 : n.number();
        x.keys.emplace_back(key, n.keyword());
    }
    std::vector<XNode> out;
    for (auto& kv : m) out.push_back(kv.second);
    return out;
}

bool xget(const SummaryState& st, const XNode& n, const std::pair<std::string, std::string>& k, double& v) {
    const auto num = static_cast<std::size_t>(n.number);
    switch (n.kind) {
    case 'C': if (!st.has_conn_var(n.name, k.second, num)) return false; v = st.get_conn_var(n.name, k.second, num); return true;
    case 'S': if (!st.has_segment_var(n.name, k.second, num)) return false; v = st.get_segment_var(n.name, k.second, num); return true;
    case 'R': if (!st.has_region_var(n.name, k.second, num)) return false; v = st.get_region_var(n.name, k.second, num); return true;
    case 'N': if (!st.has_group_var(n.name, k.second)) return false; v = st.get_group_var(n.name, k.second); return true;
    default: {
        const std::string key = k.first + ":" + n.name + ":" + std::to_string(n.number);
        if (!st.has(key)) return false; v = st.get(key); return true; }
    }
}

// the W section restricted to `only` (empty = all) + the sections of the xnode op
std::string dumpStateX(const Real& R, const SummaryState& st, int simStep, const data::Wells& wd, const data::GroupAndNetworkValues& net,
                       const XNode& n, const std::vector<std::pair<std::string, std::size_t>>& rconns) {
    std::set<std::string> only;
    if (n.kind == 'R') for (const auto& rc : rconns) only.insert(rc.first);
    else if (n.kind != 'N') only.insert(n.name);
    std::ostringstream o;
    auto gnames = R.sched.groupNames(simStep);
    std::sort(gnames.begin(), gnames.end());
    o << "G " << gnames.size();
    for (const auto& gn : gnames) {
        const auto& g = R.sched.getGroup(gn, simStep);
        const auto par = g.flow_group();
        o << ' ' << gn << ' ' << (par ? *par : std::string("-")) << ' ' << vh::hexF64(g.getGroupEfficiencyFactor())
          << ' ' << joinOrDash(g.groups()) << ' ' << joinOrDash(g.wells());
    }
    std::vector<std::string> wnames;
    for (const auto& wn : R.sched.wellNames(simStep)) if (only.empty() || only.count(wn)) wnames.push_back(wn);
    std::sort(wnames.begin(), wnames.end());
    o << " W " << wnames.size();
    for (const auto& wn : wnames) {
        const auto& w = R.sched.getWell(wn, simStep);
        auto it = wd.find(wn);
        const char* dyn = (it == wd.end()) ? "A" : (it->second.dynamicStatus == Well::Status::SHUT ? "S" : "O");
        o << ' ' << wn << ' ' << w.groupName() << ' ' << w.seqIndex() << ' ' << vh::hexF64(w.getEfficiencyFactor()) << ' ' << dyn;
        std::vector<std::pair<std::string, double>> rs;
        if (it != wd.end())
            for (const auto& pr : kRates)
                if (it->second.rates.has(pr.second)) rs.emplace_back(pr.first, it->second.rates.get(pr.second));
        o << ' ' << rs.size();
        for (const auto& r : rs) o << ' ' << r.first << ' ' << vh::hexF64(r.second);
        for (auto ph : {Phase::WATER, Phase::OIL, Phase::GAS}) o << ' ' << vh::hexF64(w.production_rate(st, ph));
        for (auto ph : {Phase::WATER, Phase::OIL, Phase::GAS}) o << ' ' << vh::hexF64(w.injection_rate(st, ph));
    }
    o << " SC " << wnames.size();
    for (const auto& wn : wnames) {
        const auto& conns = R.sched.getWell(wn, simStep).getConnections();
        o << ' ' << wn << ' ' << conns.size();
        for (const auto& cn : conns) o << ' ' << cn.global_index() << ' ' << cn.complnum();
    }
    auto rateList = [&](const data::Rates& r) {
        std::vector<std::pair<std::string, double>> rs;
        for (const auto& pr : kRates) if (r.has(pr.second)) rs.emplace_back(pr.first, r.get(pr.second));
        std::ostringstream t; t << rs.size();
        for (const auto& x : rs) t << ' ' << x.first << ' ' << vh::hexF64(x.second);
        return t.str();
    };
    std::vector<std::string> xnames;
    for (const auto& kv : wd) if (only.empty() || only.count(kv.first)) xnames.push_back(kv.first);
    std::sort(xnames.begin(), xnames.end());
    o << " X " << xnames.size();
    for (const auto& wn : xnames) {
        const auto& dw = wd.at(wn);
        o << ' ' << wn << ' ' << (dw.dynamicStatus == Well::Status::SHUT ? "S" : "O") << ' ' << (dw.current_control.isProducer ? "P" : "I")
          << ' ' << dw.connections.size();
        for (const auto& cn : dw.connections)
            o << ' ' << cn.index << ' ' << rateList(cn.rates) << ' ' << vh::hexF64(cn.reservoir_rate) << ' ' << vh::hexF64(cn.pressure);
        o << ' ' << dw.segments.size();
        using SP = data::SegmentPressures::Value;
        for (const auto& sg : dw.segments) {
            o << ' ' << sg.first << ' ' << rateList(sg.second.rates);
            for (SP v : {SP::Pressure, SP::PDrop, SP::PDropHydrostatic, SP::PDropAccel, SP::PDropFriction}) o << ' ' << vh::hexF64(sg.second.pressures[v]);
        }
    }
    o << " RC " << rconns.size();
    for (const auto& rc : rconns) o << ' ' << rc.first << ' ' << rc.second;
    auto np = net.nodeData.find(n.name);
    const bool hasN = n.kind == 'N' && np != net.nodeData.end();
    o << " N " << (hasN ? 1 : 0) << ' ' << vh::hexF64(hasN ? np->second.pressure : 0.0) << ' ' << vh::hexF64(hasN ? np->second.converged_pressure : 0.0);
    const auto& us = R.es.getUnits();
    o << " U " << kMeasures.size();
    for (const auto& m : kMeasures) o << ' ' << m.first << ' ' << vh::hexF64(us.from_si(m.second, 1.0));
    return o.str();
}

XKeys recognisedXKeys(const Parser& parser, std::map<std::string, long>& stats) {
    XKeys xk;
    auto add = [&](const std::vector<std::string>& from, std::vector<std::string>& to) {
        for (const auto& k : from) if (parser.isRecognizedKeyword(k)) to.push_back(k); else { ++stats["key.unknown_to_parser"]; ++stats["unknown_to_parser." + k]; }
    };
    add(kConnKeys, xk.conn); add(kWellComplKeys, xk.wcompl); add(kSegKeys, xk.seg); add(kRegKeys, xk.reg);
    xk.gpr = parser.isRecognizedKeyword("GPR") && parser.isRecognizedKeyword("NPR") && parser.isRecognizedKeyword("GNETPR");
    return xk;
}

struct Eval { int reportStep; double secs; };

std::vector<Eval> makeEvals(vh::Rng& rng, const Case& c, const Real& R) {
    std::vector<Eval> ev;
    if (rng.coin(1, 3)) ev.push_back({0, 0.0});              // initial evaluation, dt = 0
    for (int s = 0; s < c.nsteps; ++s) {
        const double t0 = R.sched.seconds(s), t1 = R.sched.seconds(s + 1);
        const int sub = rng.coin(1, 3) ? rng.range(1, 3) : 0;
        std::vector<double> cuts;
        for (int k = 0; k < sub; ++k) cuts.push_back(t0 + (t1 - t0) * rng.unit());
        std::sort(cuts.begin(), cuts.end());
        for (double t : cuts) if (t > t0 && t < t1) ev.push_back({s + 1, t});
        ev.push_back({s + 1, t1});
    }
    return ev;
}

double getVar(const SummaryState& st, char cat, const std::string& node, const std::string& key, bool& has) {
    if (cat == 'W') { has = st.has_well_var(node, key); return has ? st.get_well_var(node, key) : 0.0; }
    if (cat == 'G') { has = st.has_group_var(node, key); return has ? st.get_group_var(node, key) : 0.0; }
    has = st.has(key); return has ? st.get(key) : 0.0;
}

std::vector<std::string> recognisedKeys(const Parser& parser, std::map<std::string, long>& stats) {
    std::vector<std::string> keys;
    for (char x : {'W', 'G', 'F'})
        for (const auto& s : kSuffix) {
            std::string k = std::string(1, x) + s;
            if (parser.isRecognizedKeyword(k)) keys.push_back(k); else { ++stats["key.unknown_to_parser"]; ++stats["unknown_to_parser." + k]; }
        }
    return keys;
}

// ---------------------------------------------------------------------------------------

int runCorr(uint64_t seed, bool thorough, const std::string& outdir) {
    vh::Sink sink(outdir);
    vh::Rng rng(seed);
    Parser parser;
    const auto keys = recognisedKeys(parser, sink.stats);
    const XKeys xkeys = recognisedXKeys(parser, sink.stats);
    const int ncases = thorough ? 260 : 36;
    const std::string tol = vh::hexF64(1e-12);
    for (int ci = 0; ci < ncases; ++ci) {
        Case c = makeCase(rng, keys, thorough, &xkeys);
        std::unique_ptr<Real> Rp;
        try { Rp = std::make_unique<Real>(c.deck, parser); }
        catch (const std::exception& e) {
            std::cerr << "generated deck rejected: " << e.what() << "\n" << c.deck << std::endl;
            return 3;
        }
        Real& R = *Rp;
        const auto xnodes = collectXNodes(R.cfg);
        const out::RegionCache regCache(R.cfg.fip_regions(), R.es.fieldProps(), R.es.getInputGrid(), R.sched);
        sink.count("case.units." + c.units);
        sink.count("case.groups", c.groups.size());
        sink.count("case.wells", c.wells.size());
        int maxDepth = 0; for (auto& g : c.groups) maxDepth = std::max(maxDepth, g.depth);
        sink.count("case.depth." + std::to_string(maxDepth));
        sink.count("case.report_steps." + std::to_string(c.nsteps));
        for (const auto& kv : c.hist) sink.count("history." + kv.first, kv.second);
        out::Summary writer(R.cfg, R.es, R.es.getInputGrid(), R.sched, outdir + "/CASE");
        SummaryState st(TimeService::from_time_t(R.sched.getStartTime()), R.es.runspec().udqParams().undefinedValue());
        for (const auto& ev : makeEvals(rng, c, R)) {
            const int simStep = std::max(0, ev.reportStep - 1);
            const auto wd = makeWellData(rng, c, simStep, &sink, true);
            const auto net = makeNetData(rng, c);
            std::vector<std::vector<double>> xprev(xnodes.size());
            for (size_t xi = 0; xi < xnodes.size(); ++xi)
                for (const auto& k : xnodes[xi].keys) { double v = 0.0; xget(st, xnodes[xi], k, v); xprev[xi].push_back(v); }
            // previous values
            struct Node { char cat; std::string name; };
            std::vector<Node> nodes;
            for (const auto& wn : R.sched.wellNames(simStep)) nodes.push_back({'W', wn});
            for (const auto& gn : R.sched.groupNames(simStep)) if (gn != "FIELD") nodes.push_back({'G', gn});
            nodes.push_back({'F', "FIELD"});
            std::map<std::string, double> prev;
            for (const auto& n : nodes)
                for (const auto& k : keys) if (k[0] == n.cat) { bool h; prev[n.name + "/" + k] = getVar(st, n.cat, n.name, k, h); }
            const double dt = ev.secs - st.get_elapsed();
            const double elapsedBefore = st.get_elapsed();
            const std::string state = dumpState(R, st, simStep, wd);
            writer.eval(st, ev.reportStep, ev.secs, wd, {}, net, {}, {}, {});
            {
                std::ostringstream top;
                top << "sumfuns.time " << static_cast<long long>(R.sched.getStartTime()) << ' ' << vh::hexF64(elapsedBefore) << ' '
                    << vh::hexF64(dt) << ' ' << vh::hexF64(R.es.getUnits().from_si(M::time, 1.0));
                for (const char* k : {"TIME", "YEARS", "DAY", "MONTH", "YEAR"}) top << ' ' << vh::hexF64(st.has(k) ? st.get(k) : -1.0);
                sink.emit(top.str(), "ok");
                sink.count("time.ops");
            }
            sink.count(dt == 0.0 ? "eval.dt_zero" : "eval.dt_pos");
            if (std::count(c.quietRegroup.begin(), c.quietRegroup.end(), simStep)) sink.count("history.eval_in_step_with_only_a_GRUPTREE_reparenting");
            if (std::count(c.quietMove.begin(), c.quietMove.end(), simStep)) sink.count("history.eval_in_step_with_only_moved_wells");
            // parent pointers and children lists of the real Schedule describe one tree
            sink.emit("sumfuns.tree " + state.substr(0, state.find(" W ")), "ok");
            for (const auto& n : nodes) {
                std::ostringstream ks;
                int nk = 0;
                for (const auto& k : keys) {
                    if (k[0] != n.cat) continue;
                    bool has; const double v = getVar(st, n.cat, n.name, k, has);
                    if (!has) { sink.count("key.not_evaluated"); if (ci == 0) sink.count("not_evaluated." + k); continue; }
                    ks << ' ' << k << ' ' << vh::hexF64(prev[n.name + "/" + k]) << ' ' << vh::hexF64(v);
                    ++nk;
                    if (v != 0.0) sink.count("value.nonzero"); else sink.count("value.zero");
                }
                std::ostringstream op;
                op << "sumfuns.node " << n.cat << ' ' << n.name << ' ' << vh::hexF64(dt) << ' ' << tol << ' ' << state << " K " << nk << ks.str();
                sink.emit(op.str(), "ok " + std::to_string(nk));
                sink.count(std::string("node.") + n.cat);
                sink.count("keys", nk);
            }
            for (size_t xi = 0; xi < xnodes.size(); ++xi) {
                const auto& n = xnodes[xi];
                // wells / groups the schedule does not know at this step are not evaluated by the real code either way
                std::ostringstream ks; int nk = 0;
                for (size_t ki = 0; ki < n.keys.size(); ++ki) {
                    double v = 0.0;
                    if (!xget(st, n, n.keys[ki], v)) { sink.count("xkey.not_evaluated"); continue; }
                    ks << ' ' << n.keys[ki].first << ' ' << vh::hexF64(xprev[xi][ki]) << ' ' << vh::hexF64(v);
                    ++nk;
                    sink.count(v != 0.0 ? std::string("xvalue.nonzero.") + n.kind : std::string("xvalue.zero.") + n.kind);
                }
                if (!nk) continue;
                static const std::vector<std::pair<std::string, std::size_t>> noConns;
                const auto& rconns = n.kind == 'R' ? regCache.connections(n.name, n.number) : noConns;
                std::ostringstream op;
                op << "sumfuns.xnode " << (n.kind == 'R' ? "R" : (n.kind == 'N' ? "G" : "S")) << ' ' << (n.kind == 'R' ? std::string("-") : n.name) << ' '
                   << n.number << ' ' << vh::hexF64(dt) << ' ' << tol << ' ' << dumpStateX(R, st, simStep, wd, net, n, rconns) << " K " << nk << ks.str();
                sink.emit(op.str(), "ok " + std::to_string(nk));
                sink.count(std::string("xnode.") + n.kind);
                sink.count("xkeys", nk);
            }
        }
    }
    // classification + unit tags of the generated table as seen through the real code are covered
    // by the node ops (a wrong total/unit shows as a value difference).
    sink.writeStats(outdir + "/stats.json");
    std::error_code ec; std::filesystem::remove(outdir + "/CASE.SMSPEC", ec);
    return 0;
}

// ---------------------------------------------------------------------------------------
// property mode: the laws, recomputed from the real SummaryState only

bool close(double a, double b, double rel = 1e-9, double abs = 1e-11) {
    return std::fabs(a - b) <= abs + rel * std::max(std::fabs(a), std::fabs(b));
}

// days from civil (proleptic Gregorian), Howard Hinnant's algorithm
long daysFromCivil(long y, unsigned m, unsigned d) {
    y -= m <= 2;
    const long era = (y >= 0 ? y : y - 399) / 400;
    const unsigned yoe = static_cast<unsigned>(y - era * 400);
    const unsigned doy = (153 * (m + (m > 2 ? -3 : 9)) + 2) / 5 + d - 1;
    const unsigned doe = yoe * 365 + yoe / 4 - yoe / 100 + doy;
    return era * 146097 + static_cast<long>(doe) - 719468;
}
void civilFromDays(long z, long& y, unsigned& m, unsigned& d) {
    z += 719468;
    const long era = (z >= 0 ? z : z - 146096) / 146097;
    const unsigned doe = static_cast<unsigned>(z - era * 146097);
    const unsigned yoe = (doe - doe / 1460 + doe / 36524 - doe / 146096) / 365;
    y = static_cast<long>(yoe) + era * 400;
    const unsigned doy = doe - (365 * yoe + yoe / 4 - yoe / 100);
    const unsigned mp = (5 * doy + 2) / 153;
    d = doy - (153 * mp + 2) / 5 + 1;
    m = mp < 10 ? mp + 3 : mp - 9;
    y += (m <= 2);
}

// purely relative comparison (ratios range over many decades; no absolute slack)
bool closeRel(double a, double b, double rel) { return std::fabs(a - b) <= rel * std::max(std::fabs(a), std::fabs(b)); }

// ratio vectors and their constituents (suffixes; W, G or F is prepended): value = num / (sum of den),
// 0 when the denominator is exactly 0
struct RatioDef { const char* ratio; const char* num; std::vector<const char*> den; bool denIsGas; };
const std::vector<RatioDef> kRatios = {
    {"WCT", "WPR", {"WPR", "OPR"}, false}, {"GOR", "GPR", {"OPR"}, false}, {"GLR", "GPR", {"WPR", "OPR"}, false},
    {"OGR", "OPR", {"GPR"}, true}, {"WGR", "WPR", {"GPR"}, true},
    {"WCTH", "WPRH", {"WPRH", "OPRH"}, false}, {"GORH", "GPRH", {"OPRH"}, false}, {"GLRH", "GPRH", {"WPRH", "OPRH"}, false},
    {"WGRH", "WPRH", {"GPRH"}, true},
};

// ratio = num / (d1 + d2) where the terms may have opposite signs (connections and segments have no sign filter):
// the rounding error of the denominator is relative to |d1| + |d2|, not to |d1 + d2| — compare ratio * den with num
// under that bound (0 iff the denominator is exactly 0)
bool ratioHolds(double ratio, double nume, double d1, double d2) {
    const double den = d1 + d2;
    if (den == 0.0) return ratio == 0.0;
    return std::fabs(ratio * den - nume) <= 1e-12 * (std::fabs(ratio) * (std::fabs(d1) + std::fabs(d2)) + std::fabs(nume));
}

struct UnitConst { double liq, gas, resv, timeSec; };   // deck value = SI value * factor ; time: seconds per deck time unit
UnitConst unitConst(const std::string& u) {
    const double day = 86400.0, stb = 0.158987294928, mscf = 28.316846592;
    if (u == "FIELD") return {day / stb, day / mscf, day / stb, day};
    if (u == "LAB") return {3600.0 * 1e6, 3600.0 * 1e6, 3600.0 * 1e6, 3600.0};
    return {day, day, day, day};   // METRIC, PVT-M
}

int runProp(uint64_t seed, bool thorough, const std::string& outdir) {
    vh::PropLog log(outdir + "/prop.txt");
    vh::Rng rng(seed ^ 0x5eedULL);
    Parser parser;
    std::map<std::string, long> stats;
    const auto keys = recognisedKeys(parser, stats);
    const XKeys xkeys = recognisedXKeys(parser, stats);
    std::map<std::string, long> lvlStats;
    const int ncases = thorough ? 300 : 40;
    long noted_checked = 0, noted_dev = 0;
    auto chk = [&](bool ok, const std::string& key, const std::string& detail) {
        if (ok) log.ok(); else { log.ok(); log.fail(key, detail); }
    };
    std::map<std::string, long> ratioStats, histStats;
    auto g17 = [](double v) { char b[40]; std::snprintf(b, sizeof b, "%.17g", v); return std::string(b); };
    // every ratio vector of one node from the constituents reported in the same SummaryState
    auto ratios = [&](char cat, const UnitConst& uc, const std::string& units, const std::function<bool(const std::string&)>& has,
                      const std::function<double(const std::string&)>& get, const std::string& where) {
        for (const auto& rd : kRatios) {
            const std::string rk = std::string(1, cat) + rd.ratio, nk = std::string(1, cat) + rd.num;
            bool all = has(rk) && has(nk);
            for (const char* d : rd.den) all = all && has(std::string(1, cat) + d);
            if (!all) { ++ratioStats["not_available." + rk]; continue; }
            double den = 0.0; std::string dk;
            for (const char* d : rd.den) { den += get(std::string(1, cat) + d); dk += std::string(dk.empty() ? "" : "+") + cat + d; }
            const double nume = get(nk), got = get(rk);
            const double expect = den == 0.0 ? 0.0 : nume / den;
            const double denSI = den / (rd.denIsGas ? uc.gas : uc.liq);
            chk(closeRel(got, expect, 1e-12), "ratio." + rk,
                where + " " + rk + "=" + g17(got) + " but " + nk + "/(" + dk + ") = " + g17(nume) + "/" + g17(den) + " = " + g17(expect) +
                " (denominator in SI " + g17(denSI) + " m3/s)");
            ++ratioStats[std::string("checked.") + cat];
            if (den != 0.0 && denSI < 1e-8) { ++ratioStats["small_nonzero_denominator." + units]; ++ratioStats[std::string("small_nonzero_denominator.level.") + cat]; }
            if (den == 0.0) ++ratioStats["zero_denominator"];
        }
    };
    for (int ci = 0; ci < ncases; ++ci) {
        Case c = makeCase(rng, keys, thorough, &xkeys);
        std::unique_ptr<Real> Rp;
        try { Rp = std::make_unique<Real>(c.deck, parser); }
        catch (const std::exception& e) { std::cerr << "generated deck rejected: " << e.what() << "\n" << c.deck << std::endl; return 3; }
        Real& R = *Rp;
        if (std::getenv("C09_DUMP_DECKS")) { std::ofstream df(outdir + "/case" + std::to_string(ci) + ".DATA"); df << c.deck; }   // to look at a failing input
        for (const auto& kv : c.hist) histStats["generated." + kv.first] += kv.second;
        ++histStats["generated.report_steps." + std::to_string(c.nsteps)];
        const UnitConst uc = unitConst(c.units);
        const double pf = c.units == "METRIC" ? 1e-5 : (c.units == "FIELD" ? 1.0 / 6894.757293168361 : 1.0 / 101325.0);
        out::Summary writer(R.cfg, R.es, R.es.getInputGrid(), R.sched, outdir + "/PCASE");
        SummaryState st(TimeService::from_time_t(R.sched.getStartTime()), R.es.runspec().udqParams().undefinedValue());
        const std::string tag = "case" + std::to_string(ci) + "/" + c.units;
        double elapsedSec = 0.0;
        for (const auto& ev : makeEvals(rng, c, R)) {
            const int s = std::max(0, ev.reportStep - 1);
            const auto wd = makeWellData(rng, c, s, nullptr, true);
            const auto net = makeNetData(rng, c);
            auto CV = [&](const std::string& w, const std::string& k, int num) { return st.has_conn_var(w, k, num) ? st.get_conn_var(w, k, num) : 0.0; };
            auto SV = [&](const std::string& w, const std::string& k, int num) { return st.has_segment_var(w, k, num) ? st.get_segment_var(w, k, num) : 0.0; };
            auto RV = [&](const std::string& set, const std::string& k, int num) { return st.has_region_var(set, k, num) ? st.get_region_var(set, k, num) : 0.0; };
            auto LV = [&](const std::string& w, const std::string& k, int num) { const std::string key = k + ":" + w + ":" + std::to_string(num); return st.has(key) ? st.get(key) : 0.0; };
            std::map<std::string, double> xbefore;
            for (const auto& w : c.wells) {
                for (int k = w.k1; k <= w.k2; ++k)
                    for (const char* t : {"COPT", "CWPT", "CGPT", "CWIT", "CGIT", "CVPT", "CVIT", "COPTL", "CWITL"})
                        xbefore[w.name + "/" + t + "/" + std::to_string(k)] = std::string(t).size() == 5 ? LV(w.name, t, w.gidx(k) + 1) : CV(w.name, t, w.gidx(k) + 1);
                for (int sno = 1; sno <= w.k2 - w.k1 + 2; ++sno)
                    for (const char* t : {"SOFT", "SGFT", "SWFT"}) xbefore[w.name + "/" + t + "/" + std::to_string(sno)] = SV(w.name, t, sno);
                for (int n = 1; n <= 3; ++n) for (const char* t : {"WOPTL", "WGPTL", "WWITL"}) xbefore[w.name + "/" + t + "/" + std::to_string(n)] = LV(w.name, t, n);
            }
            for (int r = 1; r <= 4; ++r) for (const char* t : {"ROPT", "RGPT", "RWPT", "ROIT", "RGIT", "RWIT"}) xbefore[std::string("R/") + t + "/" + std::to_string(r)] = RV("FIPNUM", t, r);
            auto W = [&](const std::string& w, const std::string& k) { return st.has_well_var(w, k) ? st.get_well_var(w, k) : 0.0; };
            auto G = [&](const std::string& g, const std::string& k) { return st.has_group_var(g, k) ? st.get_group_var(g, k) : 0.0; };
            auto F = [&](const std::string& k) { return st.has(k) ? st.get(k) : 0.0; };
            // snapshot of totals
            std::map<std::string, double> before;
            for (const auto& k : keys) {
                if (k[0] == 'F') before["F/" + k] = F(k);
                if (k[0] == 'W') for (const auto& w : c.wells) before[w.name + "/" + k] = W(w.name, k);
                if (k[0] == 'G') for (const auto& g : c.groups) before[g.name + "/" + k] = G(g.name, k);
            }
            const double dtSec = ev.secs - elapsedSec;
            writer.eval(st, ev.reportStep, ev.secs, wd, {}, net, {}, {}, {});
            elapsedSec = ev.secs;
            const double dt = dtSec / uc.timeSec;            // deck time units
            const std::string at = tag + "/rs" + std::to_string(ev.reportStep);

            // full efficiency factor of a well / of a group (own gefac and everything above), from the generated spec
            // the group tree, the wells' groups and the connections of THIS sim step (the generated history changes them)
            const Tree T = treeAt(c, s);
            auto groupUp = [&](int g) { double f = 1.0; for (int p = g; p >= 0; p = T.parent[p]) f *= c.groups[p].gefac[s]; return f; };
            if (std::count(c.quietRegroup.begin(), c.quietRegroup.end(), s)) ++histStats["eval_in_step_with_only_a_GRUPTREE_reparenting"];
            if (std::count(c.quietMove.begin(), c.quietMove.end(), s)) ++histStats["eval_in_step_with_only_moved_wells"];
            auto known = [&](const WellSpec& w) { return w.firstStep <= s; };
            auto flowing = [&](const WellSpec& w) {
                auto it = wd.find(w.name);
                return known(w) && it != wd.end() && it->second.dynamicStatus != Well::Status::SHUT;
            };

            // --- time and calendar ---------------------------------------------------
            chk(close(F("TIME"), ev.secs / uc.timeSec, 1e-12), "time.TIME", at + " TIME=" + std::to_string(F("TIME")));
            chk(close(F("YEARS"), ev.secs / (365.25 * 86400.0), 1e-12), "time.YEARS", at);
            {
                const long d0 = daysFromCivil(c.year, c.month, c.day);
                const double daysEl = ev.secs / 86400.0;
                const double frac = daysEl - std::floor(daysEl);
                if (frac < 1e-6 || frac > 1 - 1e-6 || true) {
                    long y; unsigned m, d;
                    // whole seconds are what TimeStampUTC carries; guard the midnight boundary
                    const double secsOfDay = ev.secs - std::floor(daysEl) * 86400.0;
                    if (secsOfDay > 2.0 && secsOfDay < 86398.0 || std::fabs(ev.secs - std::round(daysEl) * 86400.0) < 1e-6) {
                        const long wholeDays = (std::fabs(ev.secs - std::round(daysEl) * 86400.0) < 1e-6) ? std::lround(daysEl) : static_cast<long>(std::floor(daysEl));
                        civilFromDays(d0 + wholeDays, y, m, d);
                        chk(F("DAY") == d && F("MONTH") == m && F("YEAR") == y, "time.DATE",
                            at + " expected " + std::to_string(y) + "-" + std::to_string(m) + "-" + std::to_string(d) + " got " +
                            std::to_string(F("YEAR")) + "-" + std::to_string(F("MONTH")) + "-" + std::to_string(F("DAY")));
                    }
                }
            }

            // --- per well --------------------------------------------------------------
            for (const auto& w : c.wells) {
                if (!known(w)) continue;
                const bool fl = flowing(w);
                auto it = wd.find(w.name);
                const double full = w.wefac[s] * groupUp(w.groupAt[s]);
                auto q = [&](rt p) { return (fl && it->second.rates.has(p)) ? it->second.rates.get(p) : 0.0; };
                const std::string a = at + "/" + w.name;
                // definitions in deck units straight from the simulator results
                struct PR { const char* key; rt p; double f; bool inj; };
                for (const PR& pr : { PR{"WOPR", rt::oil, uc.liq, false}, PR{"WWPR", rt::wat, uc.liq, false}, PR{"WGPR", rt::gas, uc.gas, false},
                                      PR{"WOIR", rt::oil, uc.liq, true}, PR{"WWIR", rt::wat, uc.liq, true}, PR{"WGIR", rt::gas, uc.gas, true} }) {
                    const double v = q(pr.p);
                    const double expect = pr.inj ? (v > 0 ? v : 0.0) : (v > 0 ? 0.0 : -v);
                    chk(close(W(w.name, pr.key), expect * pr.f, 1e-12), std::string("well.rate.") + pr.key,
                        a + " got " + std::to_string(W(w.name, pr.key)) + " expected " + std::to_string(expect * pr.f));
                }
                chk(close(W(w.name, "WVPR"), ((q(rt::reservoir_water) > 0 ? 0 : -q(rt::reservoir_water)) + (q(rt::reservoir_oil) > 0 ? 0 : -q(rt::reservoir_oil)) +
                                              (q(rt::reservoir_gas) > 0 ? 0 : -q(rt::reservoir_gas))) * uc.resv, 1e-12), "well.rate.WVPR", a);
                chk(close(W(w.name, "WVIR"), ((q(rt::reservoir_water) > 0 ? q(rt::reservoir_water) : 0) + (q(rt::reservoir_oil) > 0 ? q(rt::reservoir_oil) : 0) +
                                              (q(rt::reservoir_gas) > 0 ? q(rt::reservoir_gas) : 0)) * uc.resv, 1e-12), "well.rate.WVIR", a);
                // derived vectors from their constituents
                chk(close(W(w.name, "WLPR"), W(w.name, "WOPR") + W(w.name, "WWPR"), 1e-12), "derived.WLPR", a);
                {
                    const double den = W(w.name, "WWPR") + W(w.name, "WOPR");
                    chk(close(W(w.name, "WWCT"), den == 0 ? 0.0 : W(w.name, "WWPR") / den, 1e-12), "derived.WWCT", a);
                    chk(close(W(w.name, "WGOR"), W(w.name, "WOPR") == 0 ? 0.0 : W(w.name, "WGPR") / W(w.name, "WOPR"), 1e-12), "derived.WGOR", a);
                    chk(close(W(w.name, "WGLR"), den == 0 ? 0.0 : W(w.name, "WGPR") / den, 1e-12), "derived.WGLR", a);
                }
                ratios('W', uc, c.units, [&](const std::string& k) { return st.has_well_var(w.name, k); },
                       [&](const std::string& k) { return W(w.name, k); }, a);
                // shut / absent wells contribute nothing
                if (!fl)
                    for (const auto& k : keys)
                        if (k[0] == 'W') {
                            const bool total = k.find("PT") != std::string::npos || k.find("IT") != std::string::npos;
                            if (total) chk(W(w.name, k) == before[w.name + "/" + k], "shut.total_unchanged", a + " " + k);
                            else chk(W(w.name, k) == 0.0, "shut.zero", a + " " + k + "=" + std::to_string(W(w.name, k)));
                        }
                // cumulative: previous + rate * efficiency * step
                struct TR { const char* t; const char* r; };
                for (const TR& tr : { TR{"WOPT", "WOPR"}, TR{"WWPT", "WWPR"}, TR{"WGPT", "WGPR"}, TR{"WLPT", "WLPR"}, TR{"WVPT", "WVPR"},
                                      TR{"WOIT", "WOIR"}, TR{"WWIT", "WWIR"}, TR{"WGIT", "WGIR"}, TR{"WVIT", "WVIR"},
                                      TR{"WOPTH", "WOPRH"}, TR{"WWPTH", "WWPRH"}, TR{"WGPTH", "WGPRH"}, TR{"WLPTH", "WLPRH"},
                                      TR{"WOITH", "WOIRH"}, TR{"WWITH", "WWIRH"}, TR{"WGITH", "WGIRH"} }) {
                    if (!st.has_well_var(w.name, tr.t)) continue;
                    const double expect = before[w.name + "/" + tr.t] + W(w.name, tr.r) * full * dt;
                    chk(close(W(w.name, tr.t), expect), std::string("cumulative.") + tr.t,
                        a + " got " + std::to_string(W(w.name, tr.t)) + " expected " + std::to_string(expect) + " efac " + std::to_string(full));
                }
                // neighbours outside the property's O,W,G,L,V families: polymer and solvent totals obey the
                // same law; brine and energy totals do not (SummaryConfig does not type them Total, finding
                // F-C09-1) — counted, not failed.
                for (const TR& tr : { TR{"WCPT", "WCPR"}, TR{"WNPT", "WNPR"}, TR{"WCIT", "WCIR"}, TR{"WNIT", "WNIR"} }) {
                    if (!st.has_well_var(w.name, tr.t)) continue;
                    const double expect = before[w.name + "/" + tr.t] + W(w.name, tr.r) * full * dt;
                    chk(close(W(w.name, tr.t), expect), std::string("cumulative.") + tr.t, a);
                }
                for (const TR& tr : { TR{"WSPT", "WSPR"}, TR{"WEPT", "WEPR"}, TR{"WSIT", "WSIR"}, TR{"WEIT", "WEIR"} }) {
                    if (!st.has_well_var(w.name, tr.t)) continue;
                    const double expect = before[w.name + "/" + tr.t] + W(w.name, tr.r) * full * dt;
                    ++noted_checked;
                    if (!close(W(w.name, tr.t), expect)) ++noted_dev;
                }
                // history vectors echo the schedule's observed rates (deck numbers)
                if (fl) {
                    const bool isProd = w.producer;
                    chk(close(W(w.name, "WOPRH"), isProd ? w.orat[s] : 0.0, 1e-12), "history.WOPRH", a + " got " + std::to_string(W(w.name, "WOPRH")) + " deck " + std::to_string(w.orat[s]));
                    chk(close(W(w.name, "WWPRH"), isProd ? w.wrat[s] : 0.0, 1e-12), "history.WWPRH", a);
                    chk(close(W(w.name, "WGPRH"), isProd ? w.grat[s] : 0.0, 1e-12), "history.WGPRH", a);
                    chk(close(W(w.name, "WLPRH"), isProd ? w.orat[s] + w.wrat[s] : 0.0, 1e-12), "history.WLPRH", a);
                    chk(close(W(w.name, "WWIRH"), (!isProd && w.injType == "WATER") ? w.irat[s] : 0.0, 1e-12), "history.WWIRH", a);
                    chk(close(W(w.name, "WGIRH"), (!isProd && w.injType == "GAS") ? w.irat[s] : 0.0, 1e-12), "history.WGIRH", a);
                    chk(close(W(w.name, "WOIRH"), (!isProd && w.injType == "OIL") ? w.irat[s] : 0.0, 1e-12), "history.WOIRH", a);
                }
            }


            // --- below the well level: connections, completions, segments --------------------------
            for (const auto& w : c.wells) {
                if (!known(w)) continue;
                const bool fl = flowing(w);
                auto it = wd.find(w.name);
                const double full = w.wefac[s] * groupUp(w.groupAt[s]);
                const bool isProd = fl && it->second.current_control.isProducer;
                const bool isInj = fl && !it->second.current_control.isProducer;
                const std::string a = at + "/" + w.name;
                auto conn = [&](int k) -> const data::Connection* {
                    if (!fl) return nullptr;
                    for (const auto& cn : it->second.connections) if (cn.index == static_cast<std::size_t>(w.gidx(k))) return &cn;
                    return nullptr;
                };
                std::map<int, std::map<std::string, double>> complSum;
                bool consistent = isProd && w.producer;
                std::map<rt, double> connTotal;
                for (int k = w.k1; k <= w.k2At[s]; ++k) {
                    const int num = w.gidx(k) + 1;
                    const data::Connection* cn = conn(k);
                    const std::string ak = a + "/k" + std::to_string(k);
                    struct CR { const char* key; rt p; double f; bool inj; };
                    for (const CR& cr : { CR{"COPR", rt::oil, uc.liq, false}, CR{"CWPR", rt::wat, uc.liq, false}, CR{"CGPR", rt::gas, uc.gas, false},
                                          CR{"CWIR", rt::wat, uc.liq, true}, CR{"CGIR", rt::gas, uc.gas, true} }) {
                        if (!st.has_conn_var(w.name, cr.key, num)) continue;
                        const double qv = (cn && cn->rates.has(cr.p)) ? cn->rates.get(cr.p) : 0.0;
                        const double expect = cr.inj ? (isInj ? qv : 0.0) : (isProd ? -qv : 0.0);
                        chk(close(CV(w.name, cr.key, num), expect * cr.f, 1e-12, 0.0), std::string("conn.rate.") + cr.key,
                            ak + " got " + g17(CV(w.name, cr.key, num)) + " expected " + g17(expect * cr.f));
                        ++lvlStats["conn.rate"];
                    }
                    if (st.has_conn_var(w.name, "CVPR", num))
                        chk(close(CV(w.name, "CVPR", num), (isProd && cn) ? -cn->reservoir_rate * uc.resv : 0.0, 1e-12, 0.0), "conn.rate.CVPR", ak);
                    if (st.has_conn_var(w.name, "CVIR", num))
                        chk(close(CV(w.name, "CVIR", num), (isInj && cn) ? cn->reservoir_rate * uc.resv : 0.0, 1e-12, 0.0), "conn.rate.CVIR", ak);
                    if (st.has_conn_var(w.name, "CPR", num))
                        chk(close(CV(w.name, "CPR", num), cn ? cn->pressure * pf : 0.0, 1e-12, 0.0), "conn.CPR", ak + " got " + g17(CV(w.name, "CPR", num)));
                    {   // ratios of the connection from its own vectors
                        if (st.has_conn_var(w.name, "CWCT", num))
                            chk(ratioHolds(CV(w.name, "CWCT", num), CV(w.name, "CWPR", num), CV(w.name, "CWPR", num), CV(w.name, "COPR", num)), "conn.ratio.CWCT",
                                ak + " CWCT=" + g17(CV(w.name, "CWCT", num)) + " CWPR=" + g17(CV(w.name, "CWPR", num)) + " COPR=" + g17(CV(w.name, "COPR", num)));
                        if (st.has_conn_var(w.name, "CGOR", num))
                            chk(ratioHolds(CV(w.name, "CGOR", num), CV(w.name, "CGPR", num), CV(w.name, "COPR", num), 0.0), "conn.ratio.CGOR", ak);
                    }
                    struct TR { const char* t; const char* r; };
                    for (const TR& tr : { TR{"COPT", "COPR"}, TR{"CWPT", "CWPR"}, TR{"CGPT", "CGPR"}, TR{"CWIT", "CWIR"}, TR{"CGIT", "CGIR"},
                                          TR{"CVPT", "CVPR"}, TR{"CVIT", "CVIR"}, TR{"COPTL", "COPRL"}, TR{"CWITL", "CWIRL"} }) {
                        if (!st.has_conn_var(w.name, tr.t, num) && !st.has(std::string(tr.t) + ":" + w.name + ":" + std::to_string(num))) continue;
                        const bool compl_ = std::string(tr.t).size() == 5;
                        const double now = compl_ ? LV(w.name, tr.t, num) : CV(w.name, tr.t, num);
                        const double rate = compl_ ? LV(w.name, tr.r, num) : CV(w.name, tr.r, num);
                        const double bef = xbefore[w.name + "/" + tr.t + "/" + std::to_string(k)];
                        chk(close(now, bef + rate * full * dt), std::string("conn.cumulative.") + tr.t,
                            ak + " got " + g17(now) + " expected " + g17(bef + rate * full * dt) + " efac " + g17(full));
                        ++lvlStats["conn.cumulative"];
                    }
                    for (const char* key : {"COPR", "CWPR", "CGPR", "CWIR", "CGIR"}) {
                        complSum[w.complnum(k)][key] += CV(w.name, key, num);
                        complSum[w.complnum(k)][std::string("abs.") + key] += std::fabs(CV(w.name, key, num));   // connections may cross-flow: error bound of the sum
                    }
                    if (!cn) consistent = false;
                    else for (rt p : {rt::oil, rt::wat, rt::gas}) { const double qv = cn->rates.has(p) ? cn->rates.get(p) : 0.0; if (qv > 0) consistent = false; connTotal[p] += qv; }
                }
                // completion vector = sum of the connection vectors of its connections; C…L = W…L of the connection's completion
                for (const auto& cs : complSum) {
                    struct LK { const char* l; const char* cl; const char* ck; };
                    for (const LK& lk : { LK{"WOPRL", "COPRL", "COPR"}, LK{"WWPRL", "CWPRL", "CWPR"}, LK{"WGPRL", "CGPRL", "CGPR"},
                                          LK{"WWIRL", "CWIRL", "CWIR"}, LK{"WGIRL", "CGIRL", "CGIR"} }) {
                        const std::string key = std::string(lk.l) + ":" + w.name + ":" + std::to_string(cs.first);
                        if (!st.has(key)) continue;
                        chk(std::fabs(st.get(key) - cs.second.at(lk.ck)) <= 1e-12 * cs.second.at(std::string("abs.") + lk.ck), std::string("completion.sum_of_connections.") + lk.l,
                            a + "/compl" + std::to_string(cs.first) + " " + lk.l + "=" + g17(st.get(key)) + " but sum of " + lk.ck + " = " + g17(cs.second.at(lk.ck)));
                        ++lvlStats["completion.sum_of_connections"];
                        for (int k = w.k1; k <= w.k2At[s]; ++k)
                            if (w.complnum(k) == cs.first) {
                                const std::string ck = std::string(lk.cl) + ":" + w.name + ":" + std::to_string(w.gidx(k) + 1);
                                if (st.has(ck)) chk(st.get(ck) == st.get(key), std::string("completion.connection_view.") + lk.cl, a + " " + ck);
                            }
                    }
                    for (const auto& tr : { std::pair<const char*, const char*>{"WOPTL", "WOPRL"}, {"WGPTL", "WGPRL"}, {"WWITL", "WWIRL"} }) {
                        const std::string tk = std::string(tr.first) + ":" + w.name + ":" + std::to_string(cs.first);
                        if (!st.has(tk)) continue;
                        const double expect = xbefore[w.name + "/" + tr.first + "/" + std::to_string(cs.first)] + LV(w.name, tr.second, cs.first) * full * dt;
                        chk(close(st.get(tk), expect), std::string("completion.cumulative.") + tr.first, a + " got " + g17(st.get(tk)) + " expected " + g17(expect));
                    }
                }
                // well vector = sum of its connection vectors where the simulator's numbers are consistent
                if (consistent) {
                    struct WK { const char* wk; const char* ck; rt p; };
                    for (const WK& wk : { WK{"WOPR", "COPR", rt::oil}, WK{"WWPR", "CWPR", rt::wat}, WK{"WGPR", "CGPR", rt::gas} }) {
                        const double qw = it->second.rates.has(wk.p) ? it->second.rates.get(wk.p) : 0.0;
                        if (!closeRel(qw, connTotal[wk.p], 1e-13) || qw > 0) continue;
                        double sum = 0.0; for (int k = w.k1; k <= w.k2At[s]; ++k) sum += CV(w.name, wk.ck, w.gidx(k) + 1);
                        if (!st.has_conn_var(w.name, wk.ck, w.gidx(w.k1) + 1)) continue;
                        chk(close(W(w.name, wk.wk), sum, 1e-12, 0.0), std::string("well.sum_of_connections.") + wk.wk, a + " " + wk.wk + "=" + g17(W(w.name, wk.wk)) + " sum " + g17(sum));
                        ++lvlStats["well.sum_of_connections"];
                    }
                }
                // segments
                if (w.msw)
                    for (int sno = 1; sno <= w.k2 - w.k1 + 2; ++sno) {
                        const data::Segment* sg = nullptr;
                        if (fl) { auto sp = it->second.segments.find(sno); if (sp != it->second.segments.end()) sg = &sp->second; }
                        const std::string as = a + "/seg" + std::to_string(sno);
                        struct SR { const char* key; rt p; double f; };
                        for (const SR& sr : { SR{"SOFR", rt::oil, uc.liq}, SR{"SWFR", rt::wat, uc.liq}, SR{"SGFR", rt::gas, uc.gas} }) {
                            if (!st.has_segment_var(w.name, sr.key, sno)) continue;
                            const double qv = (sg && sg->rates.has(sr.p)) ? sg->rates.get(sr.p) : 0.0;
                            chk(close(SV(w.name, sr.key, sno), -qv * sr.f, 1e-12, 0.0), std::string("segment.rate.") + sr.key, as + " got " + g17(SV(w.name, sr.key, sno)) + " expected " + g17(-qv * sr.f));
                            ++lvlStats["segment.rate"];
                        }
                        using SP = data::SegmentPressures::Value;
                        struct PK { const char* key; SP v; };
                        for (const PK& pk : { PK{"SPR", SP::Pressure}, PK{"SPRD", SP::PDrop}, PK{"SPRDH", SP::PDropHydrostatic}, PK{"SPRDF", SP::PDropFriction}, PK{"SPRDA", SP::PDropAccel} })
                            if (st.has_segment_var(w.name, pk.key, sno))
                                chk(close(SV(w.name, pk.key, sno), sg ? sg->pressures[pk.v] * pf : 0.0, 1e-12, 0.0), std::string("segment.pressure.") + pk.key, as);
                        if (st.has_segment_var(w.name, "SWCT", sno)) chk(ratioHolds(SV(w.name, "SWCT", sno), SV(w.name, "SWFR", sno), SV(w.name, "SWFR", sno), SV(w.name, "SOFR", sno)), "segment.ratio.SWCT", as);
                        if (st.has_segment_var(w.name, "SGOR", sno)) chk(ratioHolds(SV(w.name, "SGOR", sno), SV(w.name, "SGFR", sno), SV(w.name, "SOFR", sno), 0.0), "segment.ratio.SGOR", as);
                        for (const auto& tr : { std::pair<const char*, const char*>{"SOFT", "SOFR"}, {"SGFT", "SGFR"}, {"SWFT", "SWFR"} }) {
                            if (!st.has_segment_var(w.name, tr.first, sno)) continue;
                            const double expect = xbefore[w.name + "/" + tr.first + "/" + std::to_string(sno)] + SV(w.name, tr.second, sno) * full * dt;
                            chk(close(SV(w.name, tr.first, sno), expect), std::string("segment.cumulative.") + tr.first, as + " got " + g17(SV(w.name, tr.first, sno)) + " expected " + g17(expect));
                        }
                    }
            }
            // --- regions: sum over the connections in the region of rate x efficiency, clamped to the direction --
            {
                struct RK { const char* key; rt p; double f; bool inj; };
                double sumNum[6] = {0, 0, 0, 0, 0, 0}, sumAbc = 0.0;
                int ki = 0;
                for (const RK& rk : { RK{"ROPR", rt::oil, uc.liq, false}, RK{"RWPR", rt::wat, uc.liq, false}, RK{"RGPR", rt::gas, uc.gas, false},
                                      RK{"ROIR", rt::oil, uc.liq, true}, RK{"RWIR", rt::wat, uc.liq, true}, RK{"RGIR", rt::gas, uc.gas, true} }) {
                    for (int r = 1; r <= 4; ++r) {
                        if (!st.has_region_var("FIPNUM", rk.key, r)) continue;
                        double expect = 0.0;
                        for (const auto& w : c.wells) {
                            auto it = wd.find(w.name);
                            if (it == wd.end()) continue;
                            // shut wells contribute nothing, whatever their connection results say (as on the W, C, G, F levels)
                            if (it->second.dynamicStatus == Well::Status::SHUT) {
                                for (const auto& cn : it->second.connections) if (cn.rates.has(rk.p) && cn.rates.get(rk.p) != 0.0) { ++lvlStats["region.shut_well_with_connection_rates"]; break; }
                                continue;
                            }
                            const double f = known(w) ? w.wefac[s] * groupUp(w.groupAt[s]) : 1.0;
                            for (const auto& cn : it->second.connections) {
                                bool mine = false;
                                for (int k = w.k1; k <= w.k2; ++k) mine = mine || (cn.index == static_cast<std::size_t>(w.gidx(k)) && fipnumOf(w.gidx(k)) == r);
                                if (!mine) continue;
                                const double v = (cn.rates.has(rk.p) ? cn.rates.get(rk.p) : 0.0) * f;
                                if ((v > 0) == rk.inj) expect += rk.inj ? v : -v;
                            }
                        }
                        chk(close(RV("FIPNUM", rk.key, r), expect * rk.f, 1e-11, 0.0), std::string("region.rate.") + rk.key,
                            at + "/FIPNUM" + std::to_string(r) + " " + rk.key + "=" + g17(RV("FIPNUM", rk.key, r)) + " expected " + g17(expect * rk.f));
                        ++lvlStats["region.rate"];
                        chk(RV("FIPNUM", rk.key, r) >= 0.0, "region.nonneg", at);
                        {
                            bool anyFlowing = false;
                            for (const auto& w : c.wells) {
                                auto it = wd.find(w.name);
                                if (it == wd.end() || it->second.dynamicStatus == Well::Status::SHUT) continue;
                                for (int k = w.k1; k <= w.k2At[std::min<int>(s, c.nsteps - 1)]; ++k) anyFlowing = anyFlowing || fipnumOf(w.gidx(k)) == r;
                            }
                            if (!anyFlowing) {
                                chk(RV("FIPNUM", rk.key, r) == 0.0, std::string("region.shut_zero.") + rk.key,
                                    at + "/FIPNUM" + std::to_string(r) + " every well with a connection in the region is SHUT or absent but " + rk.key + "=" + g17(RV("FIPNUM", rk.key, r)));
                                ++lvlStats["region.shut_zero"];
                            }
                        }
                        sumNum[ki] += RV("FIPNUM", rk.key, r);
                    }
                    ++ki;
                }
                // two region sets partition the same connections: the sums over the regions agree
                if (st.has_region_var("FIPABC", "ROPR_ABC", 1)) {
                    for (int r = 1; r <= 3; ++r) sumAbc += RV("FIPABC", "ROPR_ABC", r);
                    chk(close(sumNum[0], sumAbc, 1e-11, 0.0), "region.partition.ROPR", at + " sum over FIPNUM " + g17(sumNum[0]) + " sum over FIPABC " + g17(sumAbc));
                    ++lvlStats["region.partition"];
                }
                for (int r = 1; r <= 4; ++r)
                    for (const auto& tr : { std::pair<const char*, const char*>{"ROPT", "ROPR"}, {"RGPT", "RGPR"}, {"RWPT", "RWPR"}, {"ROIT", "ROIR"}, {"RGIT", "RGIR"}, {"RWIT", "RWIR"} }) {
                        if (!st.has_region_var("FIPNUM", tr.first, r)) continue;
                        const double expect = xbefore[std::string("R/") + tr.first + "/" + std::to_string(r)] + RV("FIPNUM", tr.second, r) * dt;
                        chk(close(RV("FIPNUM", tr.first, r), expect), std::string("region.cumulative.") + tr.first, at + "/FIPNUM" + std::to_string(r) + " got " + g17(RV("FIPNUM", tr.first, r)) + " expected " + g17(expect));
                    }
            }
            // --- network nodes ---------------------------------------------------------------------------------
            for (const auto& g : c.groups) {
                auto np = net.nodeData.find(g.name);
                if (st.has_group_var(g.name, "GPR")) { chk(close(G(g.name, "GPR"), np == net.nodeData.end() ? 0.0 : np->second.pressure * pf, 1e-12, 0.0), "node.GPR", at + "/" + g.name); ++lvlStats["node.pressure"]; }
                if (st.has_group_var(g.name, "NPR")) chk(close(G(g.name, "NPR"), np == net.nodeData.end() ? 0.0 : np->second.converged_pressure * pf, 1e-12, 0.0), "node.NPR", at + "/" + g.name);
            }

            // --- groups: hierarchy -----------------------------------------------------------
            for (size_t gi = 0; gi < c.groups.size(); ++gi) {
                const auto& g = c.groups[gi];
                const std::string a = at + "/" + g.name;
                struct GW { const char* gk; const char* wk; };
                for (const GW& gw : { GW{"GOPR", "WOPR"}, GW{"GWPR", "WWPR"}, GW{"GGPR", "WGPR"}, GW{"GVPR", "WVPR"}, GW{"GLPR", "WLPR"},
                                      GW{"GOIR", "WOIR"}, GW{"GWIR", "WWIR"}, GW{"GGIR", "WGIR"}, GW{"GVIR", "WVIR"},
                                      GW{"GOPRH", "WOPRH"}, GW{"GWPRH", "WWPRH"}, GW{"GGPRH", "WGPRH"}, GW{"GWIRH", "WWIRH"}, GW{"GGIRH", "WGIRH"} }) {
                    double sum = 0.0;
                    for (int k : T.kids[gi]) sum += c.groups[k].gefac[s] * G(c.groups[k].name, gw.gk);
                    for (int w : T.wells[gi]) sum += c.wells[w].wefac[s] * W(c.wells[w].name, gw.wk);
                    chk(close(G(g.name, gw.gk), sum), std::string("hierarchy.") + gw.gk,
                        a + " got " + std::to_string(G(g.name, gw.gk)) + " expected " + std::to_string(sum));
                }
                // the same from scratch: efficiency-weighted sum over ALL wells below the group in the tree of this step
                // (factor = WEFAC times the GEFACs of the groups between the well and this group, the group's own excluded)
                std::vector<std::pair<int, double>> desc;
                {
                    std::function<void(int, double)> walk = [&](int gg, double f) {
                        for (int w : T.wells[gg]) desc.emplace_back(w, f * c.wells[w].wefac[s]);
                        for (int k : T.kids[gg]) walk(k, f * c.groups[k].gefac[s]);
                    };
                    walk(static_cast<int>(gi), 1.0);
                }
                for (const GW& gw : { GW{"GOPR", "WOPR"}, GW{"GWPR", "WWPR"}, GW{"GGPR", "WGPR"}, GW{"GVPR", "WVPR"}, GW{"GLPR", "WLPR"},
                                      GW{"GOIR", "WOIR"}, GW{"GWIR", "WWIR"}, GW{"GGIR", "WGIR"}, GW{"GVIR", "WVIR"},
                                      GW{"GOPRH", "WOPRH"}, GW{"GWPRH", "WWPRH"}, GW{"GGPRH", "WGPRH"}, GW{"GWIRH", "WWIRH"}, GW{"GGIRH", "WGIRH"} }) {
                    if (!st.has_group_var(g.name, gw.gk)) continue;
                    double sum = 0.0; std::string terms;
                    for (const auto& wf : desc) {
                        sum += wf.second * W(c.wells[wf.first].name, gw.wk);
                        if (terms.size() < 400) terms += " " + c.wells[wf.first].name + ":" + g17(wf.second) + "*" + g17(W(c.wells[wf.first].name, gw.wk));
                    }
                    chk(close(G(g.name, gw.gk), sum), std::string("hierarchy.descendants.") + gw.gk,
                        a + " " + gw.gk + "=" + g17(G(g.name, gw.gk)) + " but the efficiency-weighted sum over the wells below " + g.name +
                        " in the group tree of sim step " + std::to_string(s) + " is " + g17(sum) + " =" + (terms.empty() ? " (no wells)" : terms));
                    ++histStats["hierarchy.descendants.checked"];
                    if (c.groups[gi].parentAt[s] != c.groups[gi].parentAt[0] || !T.kids[gi].empty()) ++histStats["hierarchy.descendants.inner_or_moved_group"];
                }
                // totals: the increment of a group total is the sum of the increments of the well totals below it
                // (both are rate x full efficiency factor x step) — GOPT stays consistent with the WOPTs whatever the tree did
                for (const GW& gw : { GW{"GOPT", "WOPT"}, GW{"GWPT", "WWPT"}, GW{"GGPT", "WGPT"}, GW{"GVPT", "WVPT"}, GW{"GLPT", "WLPT"},
                                      GW{"GOIT", "WOIT"}, GW{"GWIT", "WWIT"}, GW{"GGIT", "WGIT"}, GW{"GVIT", "WVIT"},
                                      GW{"GOPTH", "WOPTH"}, GW{"GWPTH", "WWPTH"}, GW{"GGPTH", "WGPTH"}, GW{"GWITH", "WWITH"}, GW{"GGITH", "WGITH"} }) {
                    if (!st.has_group_var(g.name, gw.gk)) continue;
                    const double dG = G(g.name, gw.gk) - before[g.name + "/" + gw.gk];
                    double dW = 0.0, mag = std::fabs(G(g.name, gw.gk)), inc = std::fabs(dG);
                    for (const auto& wf : desc) {
                        const auto& wn = c.wells[wf.first].name;
                        const double x = W(wn, gw.wk) - before[wn + "/" + gw.wk];
                        dW += x; inc += std::fabs(x); mag += std::fabs(W(wn, gw.wk));
                    }
                    chk(std::fabs(dG - dW) <= 1e-9 * inc + 1e-13 * mag + 1e-11, std::string("consistency.") + gw.gk,
                        a + " " + gw.gk + " grew by " + g17(dG) + " but the " + gw.wk + " of the wells below " + g.name + " (tree of sim step " +
                        std::to_string(s) + ") grew by " + g17(dW));
                    ++histStats["consistency.group_total_vs_well_totals"];
                }
                chk(close(G(g.name, "GLPR"), G(g.name, "GOPR") + G(g.name, "GWPR"), 1e-12), "derived.GLPR", a);
                {
                    const double den = G(g.name, "GWPR") + G(g.name, "GOPR");
                    chk(close(G(g.name, "GWCT"), den == 0 ? 0.0 : G(g.name, "GWPR") / den, 1e-12), "derived.GWCT", a);
                    chk(close(G(g.name, "GGOR"), G(g.name, "GOPR") == 0 ? 0.0 : G(g.name, "GGPR") / G(g.name, "GOPR"), 1e-12), "derived.GGOR", a);
                }
                ratios('G', uc, c.units, [&](const std::string& k) { return st.has_group_var(g.name, k); },
                       [&](const std::string& k) { return G(g.name, k); }, a);
                const double up = groupUp(static_cast<int>(gi));
                struct TR { const char* t; const char* r; };
                for (const TR& tr : { TR{"GOPT", "GOPR"}, TR{"GWPT", "GWPR"}, TR{"GGPT", "GGPR"}, TR{"GLPT", "GLPR"}, TR{"GVPT", "GVPR"},
                                      TR{"GOIT", "GOIR"}, TR{"GWIT", "GWIR"}, TR{"GGIT", "GGIR"}, TR{"GVIT", "GVIR"},
                                      TR{"GOPTH", "GOPRH"}, TR{"GWPTH", "GWPRH"}, TR{"GGPTH", "GGPRH"}, TR{"GWITH", "GWIRH"}, TR{"GGITH", "GGIRH"} }) {
                    if (!st.has_group_var(g.name, tr.t)) continue;
                    const double expect = before[g.name + "/" + tr.t] + G(g.name, tr.r) * up * dt;
                    chk(close(G(g.name, tr.t), expect), std::string("cumulative.") + tr.t,
                        a + " got " + std::to_string(G(g.name, tr.t)) + " expected " + std::to_string(expect));
                }
            }

            // --- field = FIELD group: sum over the top-level groups -------------------------------
            {
                struct FG { const char* fk; const char* gk; };
                for (const FG& fg : { FG{"FOPR", "GOPR"}, FG{"FWPR", "GWPR"}, FG{"FGPR", "GGPR"}, FG{"FVPR", "GVPR"}, FG{"FLPR", "GLPR"},
                                      FG{"FOIR", "GOIR"}, FG{"FWIR", "GWIR"}, FG{"FGIR", "GGIR"}, FG{"FVIR", "GVIR"},
                                      FG{"FOPRH", "GOPRH"}, FG{"FWPRH", "GWPRH"}, FG{"FGPRH", "GGPRH"}, FG{"FWIRH", "GWIRH"}, FG{"FGIRH", "GGIRH"} }) {
                    double sum = 0.0;
                    for (size_t gi = 0; gi < c.groups.size(); ++gi) if (T.parent[gi] < 0) sum += c.groups[gi].gefac[s] * G(c.groups[gi].name, fg.gk);
                    chk(close(F(fg.fk), sum), std::string("hierarchy.") + fg.fk, at + " got " + std::to_string(F(fg.fk)) + " expected " + std::to_string(sum));
                }
                // field totals: increment = sum of the increments of all well totals = sum over the top-level groups
                for (const auto& fw : { std::array<const char*, 3>{"FOPT", "GOPT", "WOPT"}, {"FWPT", "GWPT", "WWPT"}, {"FGPT", "GGPT", "WGPT"}, {"FVPT", "GVPT", "WVPT"},
                                        {"FOIT", "GOIT", "WOIT"}, {"FWIT", "GWIT", "WWIT"}, {"FGIT", "GGIT", "WGIT"}, {"FOPTH", "GOPTH", "WOPTH"}, {"FWITH", "GWITH", "WWITH"} }) {
                    if (!st.has(fw[0])) continue;
                    const double dF = F(fw[0]) - before[std::string("F/") + fw[0]];
                    double dW = 0.0, dG = 0.0, mag = std::fabs(F(fw[0])), inc = std::fabs(dF);
                    for (const auto& w : c.wells) if (known(w)) { const double x = W(w.name, fw[2]) - before[w.name + "/" + fw[2]]; dW += x; inc += std::fabs(x); mag += std::fabs(W(w.name, fw[2])); }
                    for (size_t gi = 0; gi < c.groups.size(); ++gi) if (T.parent[gi] < 0) { dG += G(c.groups[gi].name, fw[1]) - before[c.groups[gi].name + "/" + fw[1]]; mag += std::fabs(G(c.groups[gi].name, fw[1])); }
                    chk(std::fabs(dF - dW) <= 1e-9 * inc + 1e-13 * mag + 1e-11, std::string("consistency.") + fw[0],
                        at + " " + fw[0] + " grew by " + g17(dF) + " but the " + fw[2] + " of all wells grew by " + g17(dW));
                    chk(std::fabs(dF - dG) <= 1e-9 * inc + 1e-13 * mag + 1e-11, std::string("consistency.") + fw[0] + ".groups",
                        at + " " + fw[0] + " grew by " + g17(dF) + " but the " + fw[1] + " of the groups directly below FIELD (tree of sim step " + std::to_string(s) + ") grew by " + g17(dG));
                    ++histStats["consistency.field_total_vs_well_and_group_totals"];
                }
                chk(close(F("FLPR"), F("FOPR") + F("FWPR"), 1e-12), "derived.FLPR", at);
                const double den = F("FWPR") + F("FOPR");
                chk(close(F("FWCT"), den == 0 ? 0.0 : F("FWPR") / den, 1e-12), "derived.FWCT", at);
                chk(close(F("FGOR"), F("FOPR") == 0 ? 0.0 : F("FGPR") / F("FOPR"), 1e-12), "derived.FGOR", at);
                ratios('F', uc, c.units, [&](const std::string& k) { return st.has(k); }, [&](const std::string& k) { return F(k); }, at + "/FIELD");
                struct TR { const char* t; const char* r; };
                for (const TR& tr : { TR{"FOPT", "FOPR"}, TR{"FWPT", "FWPR"}, TR{"FGPT", "FGPR"}, TR{"FLPT", "FLPR"}, TR{"FVPT", "FVPR"},
                                      TR{"FOIT", "FOIR"}, TR{"FWIT", "FWIR"}, TR{"FGIT", "FGIR"}, TR{"FVIT", "FVIR"}, TR{"FLIT", "FLIR"},
                                      TR{"FOPTH", "FOPRH"}, TR{"FWPTH", "FWPRH"}, TR{"FGPTH", "FGPRH"}, TR{"FLPTH", "FLPRH"},
                                      TR{"FOITH", "FOIRH"}, TR{"FWITH", "FWIRH"}, TR{"FGITH", "FGIRH"} }) {
                    if (!st.has(tr.t)) continue;
                    const double expect = before[std::string("F/") + tr.t] + F(tr.r) * dt;
                    chk(close(F(tr.t), expect), std::string("cumulative.") + tr.t, at + " got " + std::to_string(F(tr.t)) + " expected " + std::to_string(expect));
                }
            }
        }
        // --- units written to the SMSPEC file: polymer / brine connection vectors are mass rates and masses,
        //     like the W/G/F ones ("values are reported in deck units": the label must be the unit of the value)
        {
            writer.add_timestep(st, c.nsteps, false);
            writer.write(true);
            EclIO::EclFile f(outdir + "/PCASE.SMSPEC");
            f.loadData();
            const auto kw = f.get<std::string>("KEYWORDS");
            const auto un = f.get<std::string>("UNITS");
            const std::string massRate = c.units == "FIELD" ? "LB/DAY" : (c.units == "LAB" ? "G/HR" : "KG/DAY");
            const std::string mass = c.units == "FIELD" ? "LB" : (c.units == "LAB" ? "G" : "KG");
            static const std::set<std::string> rateKw = {"CCIR", "CCPR", "CSIR", "CSPR", "WCIR", "WCPR", "WSIR", "WSPR", "GCIR", "GCPR", "GSIR", "GSPR", "FCIR", "FCPR", "FSIR", "FSPR"};
            static const std::set<std::string> totKw = {"CCIT", "CCPT", "CSIT", "CSPT", "WCIT", "WCPT", "WSIT", "WSPT", "GCIT", "GCPT", "GSIT", "FCIT", "FCPT", "FSIT", "FSPT"};
            std::set<std::string> seen;
            for (size_t i = 0; i < kw.size() && i < un.size(); ++i) {
                if (!seen.insert(kw[i]).second) continue;
                if (rateKw.count(kw[i])) { chk(un[i] == massRate, "smspec.unit." + kw[i], tag + " unit of " + kw[i] + " in the SMSPEC file is [" + un[i] + "], the values are " + massRate); ++lvlStats["smspec.unit"]; }
                if (totKw.count(kw[i])) { chk(un[i] == mass, "smspec.unit." + kw[i], tag + " unit of " + kw[i] + " in the SMSPEC file is [" + un[i] + "], the values are " + mass); ++lvlStats["smspec.unit"]; }
            }
        }
    }
    std::ofstream ps(outdir + "/prop_stats.json");
    ps << "{\n  \"checked\": " << log.checked << ",\n  \"failed\": " << log.failed << ",\n  \"cases\": " << ncases
       << ",\n  \"ratio_checks\": {";
    { bool first = true; for (const auto& kv : ratioStats) { ps << (first ? "" : ", ") << "\"" << kv.first << "\": " << kv.second; first = false; } }
    ps << "},\n  \"history_checks\": {";
    { bool first = true; for (const auto& kv : histStats) { ps << (first ? "" : ", ") << "\"" << kv.first << "\": " << kv.second; first = false; } }
    ps << "},\n  \"level_checks\": {";
    { bool first = true; for (const auto& kv : lvlStats) { ps << (first ? "" : ", ") << "\"" << kv.first << "\": " << kv.second; first = false; } }
    ps << "}"
       << ",\n  \"outside_quantifier_brine_energy_totals_checked\": " << noted_checked
       << ",\n  \"outside_quantifier_brine_energy_totals_without_efac\": " << noted_dev << "\n}\n";
    std::error_code ec; std::filesystem::remove(outdir + "/PCASE.SMSPEC", ec);
    return 0;
}

} // namespace

int main(int argc, char** argv) {
    if (argc < 5) { std::cerr << "usage: summary corr|prop <seed> <tier> <outdir>\n"; return 2; }
    const std::string mode = argv[1];
    const uint64_t seed = std::strtoull(argv[2], nullptr, 10);
    const bool thorough = std::string(argv[3]) == "thorough";
    const std::string outdir = argv[4];
    OpmLog::removeAllBackends();
    try {
        if (mode == "corr") return runCorr(seed, thorough, outdir);
        if (mode == "prop") return runProp(seed, thorough, outdir);
    } catch (const std::exception& e) {
        std::cerr << "harness exception: " << e.what() << std::endl;
        return 4;
    }
    return 2;
}
