// Shared helpers for the correspondence harnesses: PRNG, hex, line-protocol
// sink, small stats map.  Header only.
#pragma once
#include <cstdint>
#include <cstdio>
#include <cstring>
#include <fstream>
#include <map>
#include <sstream>
#include <string>
#include <vector>
#include <stdexcept>

namespace vh {

// splitmix64: every random choice of a harness derives from one state so a
// disagreement replays exactly from (seed).
struct Rng {
    uint64_t s;
    // the seed is hashed first: with s = seed * golden the streams of neighbouring seeds
    // would be shifted copies of each other
    static uint64_t mix(uint64_t z) {
        z = (z ^ (z >> 30)) * 0xBF58476D1CE4E5B9ull;
        z = (z ^ (z >> 27)) * 0x94D049BB133111EBull;
        return z ^ (z >> 31);
    }
    explicit Rng(uint64_t seed) : s(mix(mix(seed + 0x1234567ull) ^ 0xD1B54A32D192ED03ull)) {}
    uint64_t next() {
        uint64_t z = (s += 0x9E3779B97F4A7C15ull);
        z = (z ^ (z >> 30)) * 0xBF58476D1CE4E5B9ull;
        z = (z ^ (z >> 27)) * 0x94D049BB133111EBull;
        return z ^ (z >> 31);
    }
    uint64_t below(uint64_t n) { return n ? next() % n : 0; }
    int range(int lo, int hi) { return lo + static_cast<int>(below(static_cast<uint64_t>(hi - lo + 1))); }
    bool coin(int num = 1, int den = 2) { return below(den) < static_cast<uint64_t>(num); }
    double unit() { return (next() >> 11) * (1.0 / 9007199254740992.0); }
    template <class T> const T& pick(const std::vector<T>& v) { return v[below(v.size())]; }
};

inline std::string hex(const unsigned char* p, size_t n) {
    static const char* d = "0123456789abcdef";
    if (n == 0) return "-";
    std::string out;
    out.resize(2 * n);
    for (size_t i = 0; i < n; ++i) { out[2*i] = d[p[i] >> 4]; out[2*i+1] = d[p[i] & 15]; }
    return out;
}
inline std::string hex(const std::string& s) { return hex(reinterpret_cast<const unsigned char*>(s.data()), s.size()); }
inline std::string hex(const std::vector<unsigned char>& s) { return hex(s.data(), s.size()); }

inline std::string hexU64(uint64_t v) { char b[17]; std::snprintf(b, sizeof b, "%016llx", (unsigned long long) v); return b; }
inline std::string hexF64(double d) { uint64_t v; std::memcpy(&v, &d, 8); return hexU64(v); }
inline std::string hexU32(uint32_t v) { char b[9]; std::snprintf(b, sizeof b, "%08x", v); return b; }
inline std::string hexF32(float f) { uint32_t v; std::memcpy(&v, &f, 4); return hexU32(v); }
inline double f64FromBits(uint64_t v) { double d; std::memcpy(&d, &v, 8); return d; }
inline float f32FromBits(uint32_t v) { float d; std::memcpy(&d, &v, 4); return d; }

inline std::string slurp(const std::string& path) {
    std::ifstream f(path, std::ios::binary);
    std::ostringstream ss; ss << f.rdbuf(); return ss.str();
}
inline void spit(const std::string& path, const std::string& bytes) {
    std::ofstream f(path, std::ios::binary | std::ios::trunc);
    f.write(bytes.data(), static_cast<std::streamsize>(bytes.size()));
}

// Output sink: `ops.txt` (what the model is asked) and `impl.txt` (what the
// real code answered), line i of one belongs to line i of the other.
struct Sink {
    std::ofstream ops, impl;
    std::map<std::string, long> stats;
    long n = 0;
    explicit Sink(const std::string& dir) : ops(dir + "/ops.txt"), impl(dir + "/impl.txt") {
        if (!ops || !impl) throw std::runtime_error("cannot open sink in " + dir);
    }
    void emit(const std::string& op, const std::string& answer) {
        ops << op << '\n'; impl << answer << '\n'; ++n;
    }
    void count(const std::string& key, long k = 1) { stats[key] += k; }
    void writeStats(const std::string& path) {
        std::ofstream f(path);
        f << "{";
        bool first = true;
        for (auto& kv : stats) { f << (first ? "" : ",") << "\n  \"" << kv.first << "\": " << kv.second; first = false; }
        f << (first ? "" : ",") << "\n  \"lines\": " << n << "\n}\n";
    }
};

// Property-mode reporting: one line per violated instance, machine readable.
struct PropLog {
    std::ofstream out;
    long checked = 0, failed = 0;
    explicit PropLog(const std::string& path) : out(path) {}
    void fail(const std::string& key, const std::string& detail) {
        ++failed; out << "FAIL " << key << " " << detail << '\n'; out.flush();
    }
    void ok() { ++checked; }
};

} // namespace vh
