// C02 harness: drives the real UnitSystem / Dimension / DeckItem / Parser of the working tree.
//
//   units corr <seed> <tier> <outdir>   correspondence: ops.txt / impl.txt / stats.json
//   units prop <seed> <tier> <outdir>   the property's own statement on the implementation alone
//
// Protocol (see lean/OpmVerif/Model/UnitsIO.lean).  Two kinds of lines:
//  * bit-exact: the model executes the generated C++ expressions at Float in source order and
//    must print the very same bit pattern as the real code (constants, to_si/from_si, named
//    dimensions, parse, DeckItem call sequences);
//  * exact ("…_q"): the op line carries the double the real code produced, the model evaluates
//    the same expression exactly in Rat and answers `ok` iff the double lies within the
//    rounding bound k·u·mag it derives from the expression; the implementation side is `ok`.
#include "common/vh.hpp"

#include <opm/input/eclipse/Units/UnitSystem.hpp>
#include <opm/input/eclipse/Units/Dimension.hpp>
#include <opm/input/eclipse/Units/Units.hpp>
#include <opm/input/eclipse/Deck/Deck.hpp>
#include <opm/input/eclipse/Deck/DeckItem.hpp>
#include <opm/input/eclipse/Deck/UDAValue.hpp>
#include <opm/input/eclipse/Deck/DeckKeyword.hpp>
#include <opm/input/eclipse/Deck/DeckRecord.hpp>
#include <opm/input/eclipse/Parser/Parser.hpp>
#include <opm/input/eclipse/Parser/ParserKeyword.hpp>
#include <opm/input/eclipse/Parser/ParserRecord.hpp>
#include <opm/input/eclipse/Parser/ParserItem.hpp>
#include <opm/input/eclipse/Parser/ParseContext.hpp>
#include <opm/input/eclipse/Parser/ErrorGuard.hpp>
#include <opm/input/eclipse/EclipseState/EclipseState.hpp>
#include <opm/input/eclipse/EclipseState/Tables/TableManager.hpp>
#include <opm/input/eclipse/EclipseState/Tables/FlatTable.hpp>
#include <opm/input/eclipse/EclipseState/Grid/FieldPropsManager.hpp>
#include <opm/input/eclipse/EclipseState/Grid/EclipseGrid.hpp>
#include <opm/input/eclipse/EclipseState/Grid/FieldProps.hpp>
#include <opm/input/eclipse/Schedule/UDQ/UDQEnums.hpp>
#include <opm/input/eclipse/EclipseState/InitConfig/Equil.hpp>
#include <opm/input/eclipse/Schedule/Schedule.hpp>
#include <opm/input/eclipse/Schedule/Well/Well.hpp>
#include <opm/input/eclipse/Schedule/Well/WellConnections.hpp>
#include <opm/input/eclipse/Schedule/Well/Connection.hpp>
#include <opm/input/eclipse/Schedule/SummaryState.hpp>
#include <opm/input/eclipse/Python/Python.hpp>
#include <opm/common/OpmLog/OpmLog.hpp>
#include <opm/output/data/Solution.hpp>
#include <opm/output/data/Cells.hpp>
#include <opm/output/eclipse/RestartValue.hpp>

#include <algorithm>
#include <cmath>
#include <filesystem>
#include <iostream>
#include <limits>
#include <set>
#include <sstream>
#include <sys/wait.h>
#include <unistd.h>

using namespace Opm;
#include "units_quantities.hpp"

namespace fs = std::filesystem;
using M = UnitSystem::measure;

namespace {

const std::vector<UnitSystem::UnitType> ALL_TYPES = {
    UnitSystem::UnitType::UNIT_TYPE_METRIC, UnitSystem::UnitType::UNIT_TYPE_FIELD,
    UnitSystem::UnitType::UNIT_TYPE_LAB, UnitSystem::UnitType::UNIT_TYPE_PVT_M,
    UnitSystem::UnitType::UNIT_TYPE_INPUT };

const int NMEASURE = static_cast<int>(M::_count);

// the names UnitSystem::init*() registers + some that must be unknown
const std::vector<std::string> DIM_NAMES = {
    "1", "Unit", "Pressure", "Temperature", "AbsoluteTemperature", "Length", "Time", "RunTime", "Mass",
    "Permeability", "Area", "Transmissibility", "GasDissolutionFactor", "OilDissolutionFactor",
    "LiquidSurfaceVolume", "GasSurfaceVolume", "ReservoirVolume", "GeometricVolume", "Density",
    "PolymerDensity", "FoamDensity", "FoamSurfactantConcentration", "Salinity", "Viscosity", "Timestep",
    "SurfaceTension", "Energy", "PPM", "Moles", "ContextDependent", "Ymodule",
    "Volume", "length", "", "Foo", "Length ", "GeomVolume" };

#define UC(x) { #x, Opm::x }
const std::vector<std::pair<std::string, double>> CONSTS = {
    UC(prefix::micro), UC(prefix::milli), UC(prefix::centi), UC(prefix::deci), UC(prefix::kilo), UC(prefix::mega), UC(prefix::giga),
    UC(unit::meter), UC(unit::inch), UC(unit::feet), UC(unit::second), UC(unit::minute), UC(unit::hour), UC(unit::day),
    UC(unit::year), UC(unit::ecl_year), UC(unit::gallon), UC(unit::stb), UC(unit::liter), UC(unit::kilogram), UC(unit::gram),
    UC(unit::pound), UC(unit::joule), UC(unit::btu), UC(unit::gravity), UC(unit::mol), UC(unit::Newton), UC(unit::dyne),
    UC(unit::lbf), UC(unit::Pascal), UC(unit::barsa), UC(unit::atm), UC(unit::psia), UC(unit::degCelsius),
    UC(unit::degCelsiusOffset), UC(unit::degFahrenheit), UC(unit::degFahrenheitOffset), UC(unit::Pas), UC(unit::Poise),
    UC(unit::ppm), UC(unit::perm_details::p_grad), UC(unit::perm_details::area), UC(unit::perm_details::flux),
    UC(unit::perm_details::velocity), UC(unit::perm_details::visc), UC(unit::perm_details::darcy), UC(unit::darcy),
#define SYSC(S) UC(S::Pressure), UC(S::Temperature), UC(S::TemperatureOffset), UC(S::AbsoluteTemperature), UC(S::Length), \
    UC(S::Time), UC(S::RunTime), UC(S::Mass), UC(S::Permeability), UC(S::Transmissibility), UC(S::LiquidSurfaceVolume), \
    UC(S::GasSurfaceVolume), UC(S::ReservoirVolume), UC(S::Area), UC(S::GeomVolume), UC(S::GasDissolutionFactor), \
    UC(S::OilDissolutionFactor), UC(S::Density), UC(S::PolymerDensity), UC(S::FoamDensity), \
    UC(S::FoamSurfactantConcentration), UC(S::Salinity), UC(S::Viscosity), UC(S::Timestep), UC(S::SurfaceTension), \
    UC(S::Energy), UC(S::Moles), UC(S::PPM), UC(S::Ymodule)
    SYSC(Metric), SYSC(Field), SYSC(Lab), SYSC(PVT_M) };

std::string sysId(const UnitSystem& u) { return std::to_string(static_cast<int>(u.getType())); }

std::string fbits(double d) { return std::isnan(d) ? std::string("nan") : vh::hexF64(d); }

std::string hexs(const std::string& s) { return vh::hex(s); }

std::string dimStr(const Dimension& d) {
    std::string sc;
    try { sc = fbits(d.getSIScaling()); } catch (const std::exception&) { sc = "nan"; }
    return sc + " " + fbits(d.getSIOffset());
}

// Strings that end in their only '/': UnitSystem::parse throws std::invalid_argument for them since fix
// ee5075475; before, it indexed parts[1] of a one-element vector (undefined behaviour).  Whether the tree under
// test refuses them is probed once in a forked child (so that a tree without the guard cannot take the harness
// down): "" = every probe string threw std::invalid_argument, else what happened instead.
const std::vector<std::string> TRAILING_SLASH = { "/", "Length/", "Length*Time/", "Foo/", "Pressure/" };
std::string probeTrailingSlash() {
    for (const auto& s : TRAILING_SLASH) {
        std::cout.flush(); std::cerr.flush();
        const pid_t pid = fork();
        if (pid < 0) return "fork failed";
        if (pid == 0) {
            int rc = 1;
            try { UnitSystem u(UnitSystem::UnitType::UNIT_TYPE_METRIC); (void) u.parse(s).getSIOffset(); rc = 1; }
            catch (const std::invalid_argument&) { rc = 0; }
            catch (const std::exception&) { rc = 2; }
            catch (...) { rc = 2; }
            _exit(rc);
        }
        int st = 0;
        if (waitpid(pid, &st, 0) != pid) return "waitpid failed";
        if (WIFSIGNALED(st)) return "parse(\"" + s + "\") killed the probe process with signal " + std::to_string(WTERMSIG(st));
        if (!WIFEXITED(st) || WEXITSTATUS(st) != 0)
            return "parse(\"" + s + "\") " + (WEXITSTATUS(st) == 1 ? "returned a Dimension" : "threw something else than std::invalid_argument") +
                   " (it reads parts[1] of a one-element vector)";
    }
    return "";
}
bool g_trailingSlashRefused = false;

// would UnitSystem::parse index parts[1] of a one-element vector?  (undefined behaviour: never sent)
bool parseWouldBeUB(const std::string& s) {
    if (g_trailingSlashRefused) return false;
    if (std::count(s.begin(), s.end(), '/') != 1) return false;
    return s.back() == '/';
}

double sampleValue(vh::Rng& rng) {
    switch (rng.below(8)) {
    case 0: return 1.0;
    case 1: return 0.0;
    case 2: return static_cast<double>(rng.range(-20, 400));
    case 3: return rng.pick(std::vector<double>{ 0.1, 14.7, 60.0, 273.15, 288.7055555555556, 1000.0, -40.0, 1e-3, 999.014, 0.25 });
    case 4: return rng.unit() * 1000.0;
    case 5: return -rng.unit() * 500.0;
    default: {
        double e = rng.unit() * 24.0 - 12.0;
        double v = std::pow(10.0, e) * (0.5 + rng.unit());
        return rng.coin(1, 4) ? -v : v;
    }
    }
}

// a keyword of the compiled parser by the name getAllDeckNames() lists it under; wild-card keywords
// (deck_name_regex, e.g. TRDCY.+) are only reachable through a matching deck name
const ParserKeyword* findKeyword(const Parser& parser, const std::string& name) {
    if (parser.hasKeyword(name)) return &parser.getKeyword(name);
    for (const char* suffix : { "X", "1", "A", "XX", "F1", "" }) {
        try {
            const auto& kw = parser.getParserKeywordFromDeckName(name + suffix);
            if (kw.getName() == name) return &kw;
        } catch (const std::exception&) {}
    }
    return nullptr;
}

// distinct dimension strings of the *compiled* parser keywords (generated C++ from the JSON)
std::vector<std::string> compiledDimStrings(std::map<std::string, std::string>* firstUser = nullptr) {
    Parser parser;
    std::set<std::string> out;
    for (const auto& name : parser.getAllDeckNames()) {
        const ParserKeyword* pkw = findKeyword(parser, name);
        if (!pkw) continue;                                 // summary collections: no dimensions
        const auto& kw = *pkw;
        for (const auto& rec : kw)
            for (const auto& item : rec)
                for (const auto& d : item.dimensions()) {
                    if (out.insert(d).second && firstUser) (*firstUser)[d] = name + "." + item.name();
                }
    }
    return std::vector<std::string>(out.begin(), out.end());
}

// "KEYWORD.record.ITEM" -> dimension list, for every item of the compiled parser that has one
std::map<std::string, std::string> compiledItemDims() {
    Parser parser;
    std::map<std::string, std::string> out;
    for (const auto& name : parser.getAllDeckNames()) {
        const ParserKeyword* pkw = findKeyword(parser, name);
        if (!pkw) continue;
        const auto& kw = *pkw;
        size_t r = 0;
        for (const auto& rec : kw) {
            for (const auto& item : rec) {
                if (item.dimensions().empty()) continue;
                std::string ds;
                for (const auto& d : item.dimensions()) ds += (ds.empty() ? "" : ",") + d;
                out[kw.getName() + "." + std::to_string(r) + "." + item.name()] = ds;
            }
            ++r;
        }
    }
    return out;
}

std::string cellsStr(const data::Solution& sol) {
    std::string s;
    for (const auto& kv : sol) {
        if (!s.empty()) s += ";";
        s += std::to_string(static_cast<int>(kv.second.dim)) + ":";
        const auto& v = kv.second.data<double>();
        if (v.empty()) s += "-";
        for (size_t i = 0; i < v.size(); ++i) s += (i ? "," : "") + fbits(v[i]);
    }
    return s.empty() ? "-" : s;
}

std::string randomComposite(vh::Rng& rng, bool allowBad) {
    static const std::vector<std::string> good = {
        "1", "Pressure", "AbsoluteTemperature", "Length", "Time", "RunTime", "Mass", "Permeability", "Area",
        "Transmissibility", "GasDissolutionFactor", "OilDissolutionFactor", "LiquidSurfaceVolume", "GasSurfaceVolume",
        "ReservoirVolume", "GeometricVolume", "Density", "PolymerDensity", "FoamDensity", "Salinity", "Viscosity",
        "Timestep", "SurfaceTension", "Energy", "PPM", "Moles", "Unit" };
    static const std::vector<std::string> bad = { "Temperature", "ContextDependent", "Ymodule", "Volume", "", "Foo", "length" };
    auto factor = [&](int n) {
        std::string s;
        for (int i = 0; i < n; ++i) {
            if (i) s += "*";
            s += (allowBad && rng.coin(1, 7)) ? rng.pick(bad) : rng.pick(good);
        }
        return s;
    };
    std::string s = factor(rng.range(allowBad ? 0 : 1, 4));
    int nd = allowBad ? (int) rng.below(10) : (int) rng.below(2);
    if (nd >= 1) s += "/" + factor(rng.range(allowBad ? 0 : 1, 3));
    if (nd == 9) s += "/" + factor(1);                                  // two divisions: must throw
    if (allowBad && rng.coin(1, 12)) s += "*";                           // trailing delimiter (dropped by getline)
    if (allowBad && rng.coin(1, 12)) s = "*" + s;                        // leading delimiter: empty token
    return s;
}


// every UDAControl enumerator under its C++ name
#define UCTL(x) { #x, UDAControl::x }
const std::vector<std::pair<std::string, UDAControl>> UDA_CONTROLS = {
    UCTL(WCONPROD_ORAT), UCTL(WCONPROD_WRAT), UCTL(WCONPROD_GRAT), UCTL(WCONPROD_LRAT), UCTL(WCONPROD_RESV), UCTL(WCONPROD_BHP),
    UCTL(WCONPROD_THP), UCTL(WCONPROD_LIFT), UCTL(WCONINJE_RATE), UCTL(WCONINJE_RESV), UCTL(WCONINJE_BHP), UCTL(WCONINJE_THP),
    UCTL(GCONPROD_OIL_TARGET), UCTL(GCONPROD_WATER_TARGET), UCTL(GCONPROD_GAS_TARGET), UCTL(GCONPROD_LIQUID_TARGET),
    UCTL(GCONINJE_SURFACE_MAX_RATE), UCTL(GCONINJE_RESV_MAX_RATE), UCTL(GCONINJE_TARGET_REINJ_FRACTION),
    UCTL(GCONINJE_TARGET_VOID_FRACTION), UCTL(WELTARG_ORAT), UCTL(WELTARG_WRAT), UCTL(WELTARG_GRAT), UCTL(WELTARG_LRAT),
    UCTL(WELTARG_RESV), UCTL(WELTARG_BHP), UCTL(WELTARG_THP), UCTL(WELTARG_LIFT) };

// the deck item a UDA control limits (keyword, item name) — the harness's own knowledge
const std::vector<std::tuple<std::string, std::string, std::string>> UDA_ITEM = {
    { "WCONPROD_ORAT", "WCONPROD", "ORAT" }, { "WCONPROD_WRAT", "WCONPROD", "WRAT" }, { "WCONPROD_GRAT", "WCONPROD", "GRAT" },
    { "WCONPROD_LRAT", "WCONPROD", "LRAT" }, { "WCONPROD_RESV", "WCONPROD", "RESV" }, { "WCONPROD_BHP", "WCONPROD", "BHP" },
    { "WCONPROD_THP", "WCONPROD", "THP" }, { "WCONPROD_LIFT", "WCONPROD", "ALQ" }, { "WCONINJE_RATE", "WCONINJE", "RATE" },
    { "WCONINJE_RESV", "WCONINJE", "RESV" }, { "WCONINJE_BHP", "WCONINJE", "BHP" }, { "WCONINJE_THP", "WCONINJE", "THP" },
    { "GCONPROD_OIL_TARGET", "GCONPROD", "OIL_TARGET" }, { "GCONPROD_WATER_TARGET", "GCONPROD", "WATER_TARGET" },
    { "GCONPROD_GAS_TARGET", "GCONPROD", "GAS_TARGET" }, { "GCONPROD_LIQUID_TARGET", "GCONPROD", "LIQUID_TARGET" },
    { "GCONINJE_SURFACE_MAX_RATE", "GCONINJE", "SURFACE_TARGET" }, { "GCONINJE_RESV_MAX_RATE", "GCONINJE", "RESV_TARGET" },
    { "GCONINJE_TARGET_REINJ_FRACTION", "GCONINJE", "REINJ_TARGET" }, { "GCONINJE_TARGET_VOID_FRACTION", "GCONINJE", "VOIDAGE_TARGET" } };

// FieldProps.hpp: SECTION, keyword, unit string of every double keyword that has one
std::vector<std::tuple<std::string, std::string, std::string>> fieldPropsUnits() {
    std::vector<std::tuple<std::string, std::string, std::string>> out;
    namespace K = Fieldprops::keywords;
    auto take = [&](const char* sec, const std::unordered_map<std::string, K::keyword_info<double>>& m) {
        for (const auto& kv : m) if (kv.second.unit) out.emplace_back(sec, kv.first, *kv.second.unit);
    };
    take("GRID", K::GRID::double_keywords); take("EDIT", K::EDIT::double_keywords); take("PROPS", K::PROPS::double_keywords);
    take("SOLUTION", K::SOLUTION::double_keywords); take("SCHEDULE", K::SCHEDULE::double_keywords);
    std::sort(out.begin(), out.end());
    return out;
}

// Findings that have been REPORTED and await the main session's decision: a failure under one of these exact
// keys is written to pending.txt and counted, not reported as FAIL.  Empty since the round-3 findings were
// fixed (0d2fae2e6, ee5075475); the one left open (uda_dim.WCONPROD_LIFT) fails until known_findings.txt lists it.
const std::set<std::string> PENDING = { };

// the harness's own reading of a composite: product of the named factors left of '/', divided by those right of it
bool ownComposite(const UnitSystem& u, const std::string& s, double& out) {
    auto prod = [&](const std::string& part, double& p) {
        p = 1.0;
        size_t i = 0;
        while (true) {
            size_t j = part.find('*', i);
            const std::string name = part.substr(i, j == std::string::npos ? std::string::npos : j - i);
            try { const auto& d = u.getDimension(name); if (d.getSIOffset() != 0.0) return false; p *= d.getSIScaling(); }
            catch (const std::exception&) { return false; }
            if (j == std::string::npos) return true;
            i = j + 1;
        }
    };
    const size_t k = s.find('/');
    double n = 1.0, d = 1.0;
    if (!prod(s.substr(0, k), n)) return false;
    if (k != std::string::npos && !prod(s.substr(k + 1), d)) return false;
    out = n / d;
    return true;
}

struct ItemSpec {
    std::vector<Dimension> active, dflt;
    std::vector<std::pair<char, double>> vals;   // status letter v/d/e
    std::vector<std::string> calls;
};

std::string dimSpec(const std::vector<Dimension>& ds) {
    if (ds.empty()) return "-";
    std::string s;
    for (size_t i = 0; i < ds.size(); ++i) {
        if (i) s += ",";
        std::string sc;
        try { sc = fbits(ds[i].getSIScaling()); } catch (const std::exception&) { sc = "nan"; }
        s += sc + ":" + fbits(ds[i].getSIOffset());
    }
    return s;
}

DeckItem buildItem(const ItemSpec& sp) {
    DeckItem it("X", double(), sp.active, sp.dflt);
    for (auto& v : sp.vals) {
        if (v.first == 'v') it.push_back(v.second);
        else if (v.first == 'd') it.push_backDefault(v.second);
        else it.push_backDummyDefault<double>();
    }
    return it;
}

std::string vecStr(const std::vector<double>& v) {
    if (v.empty()) return "v:-";
    std::string s = "v:";
    for (size_t i = 0; i < v.size(); ++i) { if (i) s += ","; s += fbits(v[i]); }
    return s;
}

std::string runCalls(DeckItem& it, const std::vector<std::string>& calls) {
    std::string out;
    for (size_t k = 0; k < calls.size(); ++k) {
        if (k) out += ";";
        const auto& c = calls[k];
        try {
            if (c == "D") out += vecStr(it.getData<double>());
            else if (c == "S") out += vecStr(it.getSIDoubleData());
            else if (c[0] == 'g') out += "x:" + fbits(it.get<double>(std::stoul(c.substr(1))));
            else out += "x:" + fbits(it.getSIDouble(std::stoul(c.substr(1))));
        } catch (const std::exception&) { out += "err"; }
    }
    return out;
}

ItemSpec randomItem(vh::Rng& rng, const std::vector<UnitSystem>& systems, bool allowNaN) {
    static const std::vector<std::string> names = {
        "Pressure", "Temperature", "Length", "Time", "Density", "Permeability", "LiquidSurfaceVolume", "1",
        "GasDissolutionFactor", "Viscosity", "Transmissibility", "AbsoluteTemperature", "Mass" };
    ItemSpec sp;
    int nd = rng.coin(1, 12) ? 0 : rng.range(1, 3);
    const auto& act = systems[rng.below(4)];
    const auto& def = rng.coin(3, 4) ? systems[0] : systems[rng.below(4)];
    for (int i = 0; i < nd; ++i) {
        std::string n = (allowNaN && rng.coin(1, 15)) ? "ContextDependent" : rng.pick(names);
        sp.active.push_back(act.getDimension(n));
        sp.dflt.push_back(def.getDimension(n));
    }
    int nv = rng.coin(1, 10) ? 0 : rng.range(1, 6);
    for (int i = 0; i < nv; ++i) {
        int k = rng.below(6);
        char st = k < 4 ? 'v' : (k == 4 ? 'd' : 'e');
        sp.vals.push_back({ st, st == 'e' ? 0.0 : sampleValue(rng) });
    }
    // no deck value may follow a dummy default (push_default throws otherwise); keep API-legal order
    int nc = rng.range(1, 8);
    for (int i = 0; i < nc; ++i) {
        switch (rng.below(4)) {
        case 0: sp.calls.push_back("D"); break;
        case 1: sp.calls.push_back("S"); break;
        case 2: sp.calls.push_back("g" + std::to_string(rng.below(nv + 2))); break;
        default: sp.calls.push_back("s" + std::to_string(rng.below(nv + 2))); break;
        }
    }
    return sp;
}

std::string itemOp(const ItemSpec& sp) {
    std::string v = sp.vals.empty() ? "-" : "";
    for (size_t i = 0; i < sp.vals.size(); ++i) { if (i) v += ","; v += std::string(1, sp.vals[i].first) + ":" + fbits(sp.vals[i].second); }
    std::string c;
    for (size_t i = 0; i < sp.calls.size(); ++i) { if (i) c += ","; c += sp.calls[i]; }
    return "units.item " + dimSpec(sp.active) + " " + dimSpec(sp.dflt) + " " + v + " " + c;
}

// ---------------------------------------------------------------------------------------------
// property mode helpers

const double EPS = std::numeric_limits<double>::epsilon();   // 2^-52

bool closeRel(double a, double b, double k, double absScale = 0.0) {
    if (a == b) return true;
    if (!std::isfinite(a) || !std::isfinite(b)) return false;
    double scale = std::max({ std::fabs(a), std::fabs(b), absScale });
    return std::fabs(a - b) <= k * EPS * scale;
}

std::string g17(double d) { char b[40]; std::snprintf(b, sizeof b, "%.17g", d); return b; }

// measure -> the composite of named dimensions it is documented as (independent of the Lean spec
// table, same content).  The real parse() is used to evaluate the right-hand side.
const std::vector<std::pair<M, std::string>> MEASURE_SPEC = {
    { M::identity, "1" }, { M::length, "Length" }, { M::time, "Time" }, { M::runtime, "RunTime" },
    { M::density, "Density" }, { M::pressure, "Pressure" }, { M::temperature_absolute, "AbsoluteTemperature" },
    { M::temperature, "Temperature" }, { M::viscosity, "Viscosity" }, { M::permeability, "Permeability" },
    { M::area, "Length*Length" }, { M::liquid_surface_volume, "LiquidSurfaceVolume" },
    { M::gas_surface_volume, "GasSurfaceVolume" }, { M::volume, "ReservoirVolume" },
    { M::geometric_volume, "GeometricVolume" }, { M::liquid_surface_rate, "LiquidSurfaceVolume/Time" },
    { M::gas_surface_rate, "GasSurfaceVolume/Time" }, { M::rate, "ReservoirVolume/Time" },
    { M::geometric_volume_rate, "GeometricVolume/Time" }, { M::pipeflow_velocity, "Length/RunTime" },
    { M::transmissibility, "Viscosity*ReservoirVolume/Time*Pressure" }, { M::effective_Kh, "Permeability*Length" },
    { M::mass, "Mass" }, { M::mass_rate, "Mass/Time" }, { M::gas_oil_ratio, "GasSurfaceVolume/LiquidSurfaceVolume" },
    { M::oil_gas_ratio, "LiquidSurfaceVolume/GasSurfaceVolume" }, { M::water_cut, "LiquidSurfaceVolume/LiquidSurfaceVolume" },
    { M::gas_formation_volume_factor, "ReservoirVolume/GasSurfaceVolume" },
    { M::oil_formation_volume_factor, "ReservoirVolume/LiquidSurfaceVolume" },
    { M::water_formation_volume_factor, "ReservoirVolume/LiquidSurfaceVolume" },
    { M::gas_inverse_formation_volume_factor, "GasSurfaceVolume/ReservoirVolume" },
    { M::oil_inverse_formation_volume_factor, "LiquidSurfaceVolume/ReservoirVolume" },
    { M::water_inverse_formation_volume_factor, "LiquidSurfaceVolume/ReservoirVolume" },
    { M::liquid_productivity_index, "LiquidSurfaceVolume/Time*Pressure" },
    { M::gas_productivity_index, "GasSurfaceVolume/Time*Pressure" }, { M::energy, "Energy" },
    { M::energy_rate, "Energy/Time" }, { M::icd_strength, "Pressure*Time*Time/GeometricVolume*GeometricVolume" },
    { M::aicd_strength, "Pressure*Time*Time/GeometricVolume*GeometricVolume*Density" },
    { M::polymer_density, "PolymerDensity" }, { M::salinity, "Salinity" },
    { M::gas_oil_ratio_rate, "GasDissolutionFactor/Time" }, { M::moles, "Moles" }, { M::ppm, "PPM" },
    { M::ymodule, "Ymodule" }, { M::dfactor, "Time/GasSurfaceVolume" } };

// physical definitions in SI, written as decimal numbers independent of Units.hpp
struct Phys { const char* sys; const char* dim; double scale; double offset; };
const double IN = 0.0254, FT = 0.3048, LB = 0.45359237, G0 = 9.80665, PSI = LB * G0 / (IN * IN), ATM = 101325.0,
             STB = 42.0 * 231.0 * IN * IN * IN, MSCF = 1000.0 * FT * FT * FT, DAY = 86400.0, HOUR = 3600.0,
             MD = 1e-3 * 1e-7 / 101325.0, CP = 1e-3;
const std::vector<Phys> PHYS = {
    { "METRIC", "Pressure", 1e5, 0 }, { "METRIC", "Temperature", 1.0, 273.15 }, { "METRIC", "Length", 1.0, 0 },
    { "METRIC", "Time", DAY, 0 }, { "METRIC", "Mass", 1.0, 0 }, { "METRIC", "Permeability", MD, 0 },
    { "METRIC", "Viscosity", CP, 0 }, { "METRIC", "Density", 1.0, 0 }, { "METRIC", "LiquidSurfaceVolume", 1.0, 0 },
    { "METRIC", "GasSurfaceVolume", 1.0, 0 }, { "METRIC", "Transmissibility", CP * 1.0 / (DAY * 1e5), 0 },
    { "METRIC", "Energy", 1000.0, 0 }, { "METRIC", "SurfaceTension", 1e-3, 0 }, { "METRIC", "Ymodule", 1e9, 0 },
    { "FIELD", "Pressure", PSI, 0 }, { "FIELD", "Temperature", 5.0 / 9.0, 459.67 * 5.0 / 9.0 }, { "FIELD", "Length", FT, 0 },
    { "FIELD", "AbsoluteTemperature", 5.0 / 9.0, 0 },
    { "FIELD", "Time", DAY, 0 }, { "FIELD", "Mass", LB, 0 }, { "FIELD", "Permeability", MD, 0 }, { "FIELD", "Viscosity", CP, 0 },
    { "FIELD", "Density", LB / (FT * FT * FT), 0 }, { "FIELD", "LiquidSurfaceVolume", STB, 0 },
    { "FIELD", "GasSurfaceVolume", MSCF, 0 }, { "FIELD", "ReservoirVolume", STB, 0 }, { "FIELD", "GeometricVolume", FT * FT * FT, 0 },
    { "FIELD", "Transmissibility", CP * STB / (DAY * PSI), 0 }, { "FIELD", "GasDissolutionFactor", MSCF / STB, 0 },
    { "FIELD", "OilDissolutionFactor", STB / MSCF, 0 }, { "FIELD", "Energy", 1054.3503, 0 },
    { "FIELD", "PolymerDensity", LB / STB, 0 }, { "FIELD", "Salinity", LB / STB, 0 }, { "FIELD", "Moles", 1000.0 * LB, 0 },
    { "LAB", "Pressure", ATM, 0 }, { "LAB", "Temperature", 1.0, 273.15 }, { "LAB", "Length", 0.01, 0 }, { "LAB", "Time", HOUR, 0 },
    { "LAB", "Mass", 1e-3, 0 }, { "LAB", "Permeability", MD, 0 }, { "LAB", "Density", 1000.0, 0 },
    { "LAB", "LiquidSurfaceVolume", 1e-6, 0 }, { "LAB", "GasSurfaceVolume", 1e-6, 0 },
    { "LAB", "Transmissibility", CP * 1e-6 / (HOUR * ATM), 0 }, { "LAB", "Energy", 1.0, 0 },
    { "PVT-M", "Pressure", ATM, 0 }, { "PVT-M", "Temperature", 1.0, 273.15 }, { "PVT-M", "Length", 1.0, 0 },
    { "PVT-M", "Time", DAY, 0 }, { "PVT-M", "Mass", 1.0, 0 }, { "PVT-M", "Permeability", MD, 0 },
    { "PVT-M", "Transmissibility", CP / (DAY * ATM), 0 }, { "PVT-M", "Energy", 1000.0, 0 } };

// ---------------------------------------------------------------------------------------------
// deck level: one physical model (values in SI), written in a given unit system

struct Model {
    int nx = 2, ny = 2, nz = 2;
    std::vector<double> dx, dy, dz, tops, poro, permx;   // SI
    double datumDepth, datumP, owc, pcowc, goc, pcgoc;   // EQUIL  (Length, Pressure)
    double pvtwPref, pvtwBw, pvtwCw, pvtwMuw, pvtwCv;    // PVTW   (Pressure, 1, 1/Pressure, Viscosity, 1/Pressure)
    double rhoO, rhoW, rhoG;                             // DENSITY
    double rockPref, rockC;                              // ROCK   (Pressure, 1/Pressure)
    double orat, bhp, wrat;                              // WCONPROD (LiquidSurfaceVolume/Time, Pressure)
    double injRate, injBhp, vapoil;                      // WCONINJE (.., OilDissolutionFactor)
    double refDepth, diam;                               // WELSPECS ref depth, COMPDAT diameter (Length)
    double tstepDays;                                    // TSTEP (Timestep)
    double rtemp;                                        // RTEMP (Temperature, absolute K)
    bool oilInjector = false;
};

Model randomModel(vh::Rng& rng, bool oilInjector) {
    Model m;
    int n = m.nx * m.ny * m.nz;
    auto rnd = [&](double lo, double hi) { return lo + (hi - lo) * rng.unit(); };
    // a consistent box grid (DX depends on i only, DY on j, DZ on k, flat top): every cell is a box, so the
    // conditioning of its volume w.r.t. the corner coordinates is known (see the tolerance in the comparison)
    std::vector<double> dxI, dyJ, dzK;
    for (int i = 0; i < m.nx; ++i) dxI.push_back(rnd(20, 200));
    for (int j = 0; j < m.ny; ++j) dyJ.push_back(rnd(20, 200));
    for (int k = 0; k < m.nz; ++k) dzK.push_back(rnd(1, 20));
    for (int k = 0; k < m.nz; ++k) for (int j = 0; j < m.ny; ++j) for (int i = 0; i < m.nx; ++i) {
        m.dx.push_back(dxI[i]); m.dy.push_back(dyJ[j]); m.dz.push_back(dzK[k]);
        m.poro.push_back(rnd(0.05, 0.35)); m.permx.push_back(rnd(1e-15, 2e-12));
    }
    const double top = rnd(1500, 2500);
    for (int i = 0; i < m.nx * m.ny; ++i) m.tops.push_back(top);
    (void) n;
    m.datumDepth = rnd(1500, 2600); m.datumP = rnd(1e7, 4e7); m.owc = rnd(2000, 2700); m.pcowc = rnd(0, 1e5);
    m.goc = rnd(1000, 1500); m.pcgoc = rnd(0, 1e5);
    m.pvtwPref = rnd(1e7, 4e7); m.pvtwBw = rnd(1.0, 1.1); m.pvtwCw = rnd(1e-10, 1e-9); m.pvtwMuw = rnd(2e-4, 1e-3); m.pvtwCv = rnd(0, 1e-9);
    m.rhoO = rnd(700, 900); m.rhoW = rnd(990, 1100); m.rhoG = rnd(0.6, 1.3);
    m.rockPref = rnd(1e7, 4e7); m.rockC = rnd(1e-10, 1e-9);
    m.orat = rnd(1e-4, 1e-1); m.bhp = rnd(5e6, 2e7); m.wrat = rnd(1e-4, 1e-1);
    m.injRate = rnd(1e-4, 1e-1); m.injBhp = rnd(3e7, 6e7); m.vapoil = rnd(1e-5, 1e-3);
    m.refDepth = rnd(1500, 2500); m.diam = rnd(0.1, 0.4); m.tstepDays = rnd(0.5, 30) * 86400.0; m.rtemp = rnd(300, 400);
    m.oilInjector = oilInjector;
    return m;
}

// write SI value `si` of dimension `dim` in the units of `u`, with all 17 digits
std::string W(const UnitSystem& u, const std::string& dim, double si) { return g17(u.from_si(dim, si)); }

std::string writeDeck(const Model& m, const UnitSystem& u) {
    std::ostringstream o;
    auto arr = [&](const char* kw, const std::string& dim, const std::vector<double>& v) {
        o << kw << "\n";
        for (double x : v) o << " " << W(u, dim, x);
        o << " /\n";
    };
    o << "RUNSPEC\n" << u.deck_name() << "\nDIMENS\n " << m.nx << " " << m.ny << " " << m.nz << " /\nOIL\nWATER\nGAS\nDISGAS\nVAPOIL\n"
      << "START\n 1 'JAN' 2020 /\nWELLDIMS\n 4 3 2 4 /\nTABDIMS\n/\nEQLDIMS\n/\nGRID\n";
    arr("DX", "Length", m.dx); arr("DY", "Length", m.dy); arr("DZ", "Length", m.dz); arr("TOPS", "Length", m.tops);
    arr("PORO", "1", m.poro); arr("PERMX", "Permeability", m.permx);
    o << "COPY\n PERMX PERMY /\n PERMX PERMZ /\n/\nPROPS\n";
    o << "PVTW\n " << W(u, "Pressure", m.pvtwPref) << " " << g17(m.pvtwBw) << " " << W(u, "1/Pressure", m.pvtwCw) << " "
      << W(u, "Viscosity", m.pvtwMuw) << " " << W(u, "1/Pressure", m.pvtwCv) << " /\n";
    o << "DENSITY\n " << W(u, "Density", m.rhoO) << " " << W(u, "Density", m.rhoW) << " " << W(u, "Density", m.rhoG) << " /\n";
    o << "ROCK\n " << W(u, "Pressure", m.rockPref) << " " << W(u, "1/Pressure", m.rockC) << " /\n";
    o << "RTEMP\n " << W(u, "Temperature", m.rtemp) << " /\n";
    // tables: only their deck items are compared (pressure, FVF, viscosity, capillary pressure, depth/temperature)
    o << "PVDO\n";
    for (int i = 0; i < 3; ++i) o << " " << W(u, "Pressure", m.pvtwPref * (0.5 + i)) << " " << g17(1.2 - 0.05 * i) << " " << W(u, "Viscosity", m.pvtwMuw * (2 + i)) << "\n";
    o << "/\nPVDG\n";
    for (int i = 0; i < 3; ++i) o << " " << W(u, "Pressure", m.pvtwPref * (0.5 + i)) << " " << W(u, "ReservoirVolume/GasSurfaceVolume", 0.02 / (1 + i)) << " " << W(u, "Viscosity", m.pvtwMuw * 0.02 * (1 + i)) << "\n";
    o << "/\nSWOF\n";
    for (int i = 0; i < 3; ++i) o << " " << g17(0.2 + 0.4 * i) << " " << g17(0.5 * i) << " " << g17(1.0 - 0.5 * i) << " " << W(u, "Pressure", m.pcowc * (2 - i)) << "\n";
    o << "/\nSGOF\n";
    for (int i = 0; i < 3; ++i) o << " " << g17(0.4 * i) << " " << g17(0.5 * i) << " " << g17(1.0 - 0.5 * i) << " " << W(u, "Pressure", m.pcgoc * i) << "\n";
    o << "/\nRTEMPVD\n";
    for (int i = 0; i < 2; ++i) o << " " << W(u, "Length", m.datumDepth + 500.0 * i) << " " << W(u, "Temperature", m.rtemp + 15.0 * i) << "\n";
    o << "/\n";
    o << "SOLUTION\nEQUIL\n " << W(u, "Length", m.datumDepth) << " " << W(u, "Pressure", m.datumP) << " " << W(u, "Length", m.owc) << " "
      << W(u, "Pressure", m.pcowc) << " " << W(u, "Length", m.goc) << " " << W(u, "Pressure", m.pcgoc) << " 1* 1* 0 /\n";
    o << "SCHEDULE\nWELSPECS\n 'P1' 'G' 1 1 " << W(u, "Length", m.refDepth) << " 'OIL' /\n 'I1' 'G' 2 2 1* '" << (m.oilInjector ? "OIL" : "WATER") << "' /\n/\n";
    o << "COMPDAT\n 'P1' 1 1 1 2 'OPEN' 1* 1* " << W(u, "Length", m.diam) << " /\n 'I1' 2 2 1 2 'OPEN' 1* 1* " << W(u, "Length", m.diam) << " /\n/\n";
    // P2 leaves every limit it can to the defaults (UDA defaults must not depend on the deck units)
    o << "WELSPECS\n 'P2' 'G' 1 2 1* 'OIL' /\n/\nCOMPDAT\n 'P2' 1 2 1 1 'OPEN' 1* 1* " << W(u, "Length", m.diam) << " /\n/\n";
    o << "WCONPROD\n 'P2' 'OPEN' 'ORAT' " << W(u, "LiquidSurfaceVolume/Time", m.orat) << " /\n/\n";
    o << "WCONPROD\n 'P1' 'OPEN' 'ORAT' " << W(u, "LiquidSurfaceVolume/Time", m.orat) << " " << W(u, "LiquidSurfaceVolume/Time", m.wrat)
      << " 1* 1* 1* " << W(u, "Pressure", m.bhp) << " /\n/\n";
    o << "WCONINJE\n 'I1' '" << (m.oilInjector ? "OIL" : "WATER") << "' 'OPEN' 'RATE' " << W(u, "LiquidSurfaceVolume/Time", m.injRate) << " 1* "
      // item 10 is Rv (oil in injected gas, OilDissolutionFactor) for a gas/water injector but Rs (gas in
      // injected oil, GasDissolutionFactor) for an oil injector: the physical quantity decides the unit
      << W(u, "Pressure", m.injBhp) << " 1* 0 " << W(u, m.oilInjector ? "GasDissolutionFactor" : "OilDissolutionFactor", m.vapoil) << " /\n/\n";
    o << "TSTEP\n " << W(u, "Timestep", m.tstepDays) << " /\n";
    return o.str();
}

// every double deck item: "<kw>#<k>.<rec>.<item>[i]" -> SI value
void collectDeckSI(const Deck& deck, std::map<std::string, double>& out) {
    std::map<std::string, int> seen;
    for (const auto& kw : deck) {
        int k = seen[kw.name()]++;
        for (size_t r = 0; r < kw.size(); ++r) {
            const auto& rec = kw.getRecord(r);
            for (size_t j = 0; j < rec.size(); ++j) {
                const auto& item = rec.getItem(j);
                if (item.getType() != type_tag::fdouble) continue;
                try {
                    const auto& v = item.getSIDoubleData();
                    for (size_t i = 0; i < v.size(); ++i)
                        out[kw.name() + "#" + std::to_string(k) + "." + std::to_string(r) + "." + item.name() + "[" + std::to_string(i) + "]"] = v[i];
                } catch (const std::exception&) { /* no dimension: not an SI quantity */ }
            }
        }
    }
}

// state-level SI quantities
void collectStateSI(const Deck& deck, std::map<std::string, double>& out) {
    EclipseState es(deck);
    const auto& tm = es.getTableManager();
    const auto& pvtw = tm.getPvtwTable();
    if (pvtw.size() > 0) {
        out["PVTW.pref"] = pvtw[0].reference_pressure; out["PVTW.bw"] = pvtw[0].volume_factor;
        out["PVTW.cw"] = pvtw[0].compressibility; out["PVTW.muw"] = pvtw[0].viscosity; out["PVTW.cv"] = pvtw[0].viscosibility;
    }
    const auto& den = tm.getDensityTable();
    if (den.size() > 0) { out["DENSITY.oil"] = den[0].oil; out["DENSITY.water"] = den[0].water; out["DENSITY.gas"] = den[0].gas; }
    const auto& rock = tm.getRockTable();
    if (rock.size() > 0) { out["ROCK.pref"] = rock[0].reference_pressure; out["ROCK.c"] = rock[0].compressibility; }
    out["RTEMP"] = tm.rtemp();
    const auto& fp = es.fieldProps();
    for (const char* kw : { "PORO", "PERMX", "PERMY", "PERMZ" }) {
        const auto& v = fp.get_double(kw);
        for (size_t i = 0; i < v.size(); ++i) out[std::string("FP.") + kw + "[" + std::to_string(i) + "]"] = v[i];
    }
    const auto& grid = es.getInputGrid();
    for (size_t g = 0; g < grid.getCartesianSize(); ++g) {
        out["GRID.vol[" + std::to_string(g) + "]"] = grid.getCellVolume(g);
        out["GRID.depth[" + std::to_string(g) + "]"] = grid.getCellDepth(g);
    }
    const auto& eq = es.getInitConfig().getEquil();
    if (eq.size() > 0) {
        const auto& r = eq.getRecord(0);
        out["EQUIL.datum"] = r.datumDepth(); out["EQUIL.p"] = r.datumDepthPressure(); out["EQUIL.owc"] = r.waterOilContactDepth();
        out["EQUIL.pcow"] = r.waterOilContactCapillaryPressure(); out["EQUIL.goc"] = r.gasOilContactDepth();
        out["EQUIL.pcgo"] = r.gasOilContactCapillaryPressure();
    }
    auto python = std::make_shared<Python>();
    Schedule sched(deck, es, python);
    out["SCHED.t1"] = sched.seconds(1);
    SummaryState st(TimeService::now(), 0.0);
    const auto& p = sched.getWell("P1", 0);
    const auto pc = p.productionControls(st);
    out["P1.orat"] = pc.oil_rate; out["P1.wrat"] = pc.water_rate; out["P1.bhp"] = pc.bhp_limit;
    out["P1.refdepth"] = p.getRefDepth();
    const auto& conns = p.getConnections();
    for (size_t i = 0; i < conns.size(); ++i) {
        out["P1.conn" + std::to_string(i) + ".CF"] = conns.get(i).CF();
        out["P1.conn" + std::to_string(i) + ".Kh"] = conns.get(i).Kh();
        out["P1.conn" + std::to_string(i) + ".rw"] = conns.get(i).rw();
        out["P1.conn" + std::to_string(i) + ".depth"] = conns.get(i).depth();
    }
    {
        const auto& p2 = sched.getWell("P2", 0);
        const auto pc2 = p2.productionControls(st);
        out["P2.orat"] = pc2.oil_rate; out["P2.bhp_default"] = pc2.bhp_limit; out["P2.thp_default"] = pc2.thp_limit;
        out["P2.wrat_default"] = pc2.water_rate; out["P2.refdepth_default"] = p2.getRefDepth();
    }
    const auto& inj = sched.getWell("I1", 0);
    const auto ic = inj.injectionControls(st);
    out["I1.rate"] = ic.surface_rate; out["I1.bhp"] = ic.bhp_limit;
    out["I1.rsRvInj"] = inj.getInjectionProperties().rsRvInj;
}

} // namespace

int main(int argc, char** argv) {
    if (argc < 5) { std::cerr << "usage: units corr|prop <seed> <tier> <outdir>\n"; return 2; }
    const std::string mode = argv[1];
    const uint64_t seed = std::strtoull(argv[2], nullptr, 10);
    const std::string tier = argv[3];
    const std::string outdir = argv[4];
    fs::create_directories(outdir);
    // vh::Rng(seed) starts at seed*C + c and advances by C per draw, so seeds n and n+1 give the same
    // stream shifted by one draw; scramble the seed first so that different seeds give unrelated runs.
    auto mixSeed = [](uint64_t x) {
        x += 0x9E3779B97F4A7C15ull; x = (x ^ (x >> 30)) * 0xBF58476D1CE4E5B9ull; x = (x ^ (x >> 27)) * 0x94D049BB133111EBull;
        return x ^ (x >> 31);
    };
    vh::Rng rng(mixSeed(seed));
    const bool thorough = tier == "thorough";

    std::vector<UnitSystem> systems;
    for (auto t : ALL_TYPES) systems.emplace_back(t);
    const std::string trailingSlashProbe = probeTrailingSlash();
    g_trailingSlashRefused = trailingSlashProbe.empty();

    if (mode == "corr") {
        vh::Sink sink(outdir);
        sink.emit("units.nmeasure", std::to_string(NMEASURE));
        // (1) constants of Units.hpp: bit pattern and exact value
        for (const auto& c : CONSTS) {
            sink.emit("units.const " + c.first, fbits(c.second));
            sink.emit("units.constq " + c.first + " " + fbits(c.second), "ok");
            sink.count("const");
        }
        // (2) system names, unit names, measure tables at 1.0 (= the table entries) and at samples
        const int nsamples = thorough ? 40 : 6;
        for (const auto& u : systems) {
            std::string deckName = "-";
            try { deckName = hexs(u.deck_name()); } catch (const std::exception&) {}
            sink.emit("units.sys " + sysId(u), hexs(u.getName()) + " " + deckName);
            for (int m = 0; m < NMEASURE; ++m) {
                const auto mm = static_cast<M>(m);
                std::string nm = u.name(mm);
                sink.emit("units.name " + sysId(u) + " " + std::to_string(m), nm.empty() ? "-" : hexs(nm));
                sink.emit("units.mdim " + sysId(u) + " " + std::to_string(m), dimStr(u.getDimension(mm)));
                std::vector<double> xs = { 1.0, 0.0 };
                for (int k = 0; k < nsamples; ++k) xs.push_back(sampleValue(rng));
                for (double x : xs) {
                    const double t = u.to_si(mm, x), f = u.from_si(mm, x);
                    const std::string pre = sysId(u) + " " + std::to_string(m) + " " + fbits(x);
                    sink.emit("units.to_si " + pre, fbits(t));
                    sink.emit("units.from_si " + pre, fbits(f));
                    if (std::isfinite(t)) sink.emit("units.to_si_q " + pre + " " + fbits(t), "ok");
                    if (std::isfinite(f)) sink.emit("units.from_si_q " + pre + " " + fbits(f), "ok");
                    sink.count("measure_eval", 4);
                }
            }
            // (3) named dimensions
            for (const auto& n : DIM_NAMES) {
                std::string ans;
                try { ans = dimStr(u.getDimension(n)); } catch (const std::exception&) { ans = "none"; }
                sink.emit("units.dim " + sysId(u) + " " + hexs(n), ans);
                sink.count(ans == "none" ? "dim.unknown" : "dim.known");
            }
        }
        // (4) the dimension strings of the compiled parser == those of the keyword JSON files
        auto dims = compiledDimStrings();
        {
            std::string joined;
            for (const auto& d : dims) joined += (joined.empty() ? "" : ",") + hexs(d);
            sink.emit("units.kwdims", joined);
            sink.count("kwdims", (long) dims.size());
        }
        // (4b) per item: the dimension list the generated C++ attaches == the JSON's
        {
            auto items = compiledItemDims();
            sink.emit("units.kwitemcount", std::to_string(items.size()));
            for (const auto& kv : items) { sink.emit("units.kwitem " + kv.first, kv.second); sink.count("kwitem"); }
        }
        // (4c) data::Solution conversion sequences (output side)
        {
            const int nsol = thorough ? 2000 : 60;
            for (int k = 0; k < nsol; ++k) {
                const auto& u = systems[rng.below(systems.size())];
                data::Solution sol(true);
                int nc = rng.range(0, 5);
                for (int c = 0; c < nc; ++c) {
                    std::vector<double> v;
                    int n = rng.range(0, 4);
                    for (int i = 0; i < n; ++i) v.push_back(sampleValue(rng));
                    char nm[16]; std::snprintf(nm, sizeof nm, "K%03d", c);
                    sol.insert(nm, static_cast<M>(rng.coin(1, 6) ? 0 : rng.below(NMEASURE)), v, data::TargetType::RESTART_SOLUTION);
                }
                const std::string before = cellsStr(sol);
                std::string calls;
                int ncalls = rng.range(1, 5);
                for (int c = 0; c < ncalls; ++c) {
                    if (rng.coin()) { sol.convertFromSI(u); calls += "F"; } else { sol.convertToSI(u); calls += "T"; }
                }
                // the si flag is private: finish every sequence with convertToSI, so the final state is SI
                data::Solution probe = sol; probe.convertToSI(u);
                sink.emit("units.sol " + sysId(u) + " " + calls + "T " + before, "1 " + cellsStr(probe));
                sink.count("solution");
            }
        }
        // (5) parse / getNewDimension of every keyword string and of random composites, every system
        std::vector<std::string> strs = dims;
        const int nrand = thorough ? 20000 : 400;
        for (int k = 0; k < nrand; ++k) strs.push_back(randomComposite(rng, k % 3 != 0));
        strs.insert(strs.end(), { "", "*", "**", "Length*", "*Length", "Length**Time", "/Length", "1/1", "Length/Length/Length",
                                  "Temperature", "Temperature*Length", "Length/Temperature", "ContextDependent", "Pressure*ContextDependent",
                                  "Volume/Time", "Pressure*Time/Volume" });
        strs.insert(strs.end(), TRAILING_SLASH.begin(), TRAILING_SLASH.end());      // skipped below if the tree does not refuse them
        for (const auto& s : strs) {
            if (parseWouldBeUB(s)) { sink.count("parse.skipped_ub"); continue; }
            for (const auto& u : systems) {
                std::string ans;
                bool ok = false; double scale = 0;
                try { auto d = u.parse(s); ans = "ok " + dimStr(d); try { scale = d.getSIScaling(); ok = true; } catch (const std::exception&) {} }
                catch (const std::exception&) { ans = "err"; }
                sink.emit("units.parse " + sysId(u) + " " + (s.empty() ? "-" : hexs(s)), ans);
                sink.count(ans == "err" ? "parse.err" : "parse.ok");
                if (ok && std::isfinite(scale)) sink.emit("units.parse_q " + sysId(u) + " " + (s.empty() ? "-" : hexs(s)) + " " + fbits(scale), "ok");
                UnitSystem copy(u);
                try { ans = "ok " + dimStr(copy.getNewDimension(s)); } catch (const std::exception&) { ans = "err"; }
                sink.emit("units.newdim " + sysId(u) + " " + (s.empty() ? "-" : hexs(s)), ans);
            }
        }
        // (6) DeckItem call sequences
        const int nitems = thorough ? 30000 : 800;
        for (int k = 0; k < nitems; ++k) {
            ItemSpec sp = randomItem(rng, systems, true);
            if (k == 0) {   // fixed first case: 100 ft (default dimension metres), get<double> before/after getSIDouble
                sp = ItemSpec{};
                sp.active = { systems[1].getDimension("Length") }; sp.dflt = { systems[0].getDimension("Length") };
                sp.vals = { { 'v', 100.0 }, { 'd', 5.0 } };
                sp.calls = { "g0", "s0", "g0", "g1", "D", "g0", "S", "s1" };
            }
            // API-legal construction order only: a deck value after a dummy default throws in push_default
            bool dummySeen = false, legal = true;
            for (auto& v : sp.vals) { if (v.first == 'e') dummySeen = true; else if (v.first == 'd' && dummySeen) legal = false; }
            if (!legal) { for (auto& v : sp.vals) if (v.first == 'e') v.first = 'v'; }
            DeckItem it = buildItem(sp);
            sink.emit(itemOp(sp), runCalls(it, sp.calls));
            sink.count("item");
            sink.count("item.calls", (long) sp.calls.size());
        }
        // (7) UDA items: which dimension get<UDAValue>(i) attaches (stateless)
        const int nuda = thorough ? 10000 : 400;
        for (int k = 0; k < nuda; ++k) {
            ItemSpec sp = randomItem(rng, systems, true);
            for (auto& v : sp.vals) if (v.first == 'e') v.first = 'd';
            DeckItem it("X", UDAValue(), sp.active, sp.dflt);
            for (auto& v : sp.vals) { if (v.first == 'v') it.push_back(UDAValue(v.second)); else it.push_backDefault(UDAValue(v.second)); }
            const size_t i = rng.below(sp.vals.size() + 2);
            std::string ans;
            try {
                const auto u = it.get<UDAValue>(i);
                if (u.is_numeric()) ans = "x:" + fbits(u.getSI());
                else ans = "undef " + dimStr(u.get_dim());
            } catch (const std::exception&) { ans = "err"; }
            std::string v = sp.vals.empty() ? "-" : "";
            for (size_t j = 0; j < sp.vals.size(); ++j) { if (j) v += ","; v += std::string(1, sp.vals[j].first) + ":" + fbits(sp.vals[j].second); }
            sink.emit("units.uda " + dimSpec(sp.active) + " " + dimSpec(sp.dflt) + " " + v + " " + std::to_string(i), ans);
            sink.count("uda");
        }
        // (8) the string overloads to_si/from_si(string, x): keyword strings, FieldProps unit strings, offsets, errors
        {
            std::vector<std::string> sstrs = dims;
            for (const auto& e : fieldPropsUnits()) sstrs.push_back(std::get<2>(e));
            sstrs.insert(sstrs.end(), { "Temperature", "ContextDependent", "/Length", "", "Temperature*Length", "Length/Temperature", "Foo", "1/1/1" });
            const int nr = thorough ? 3000 : 150;
            for (int k = 0; k < nr; ++k) sstrs.push_back(randomComposite(rng, k % 2 == 0));
            for (const auto& s : sstrs) {
                sink.emit("units.ub " + (s.empty() ? std::string("-") : hexs(s)), parseWouldBeUB(s) ? "1" : "0");
                if (parseWouldBeUB(s)) { sink.count("strconv.skipped_ub"); continue; }
                for (const auto& u : systems) {
                    const double x = sampleValue(rng);
                    std::string a, b;
                    try { a = fbits(u.to_si(s, x)); } catch (const std::exception&) { a = "err"; }
                    try { b = fbits(u.from_si(s, x)); } catch (const std::exception&) { b = "err"; }
                    const std::string pre = sysId(u) + " " + (s.empty() ? std::string("-") : hexs(s)) + " " + fbits(x);
                    sink.emit("units.tosi_s " + pre, a);
                    sink.emit("units.fromsi_s " + pre, b);
                    sink.count(a == "err" ? "strconv.err" : "strconv.ok");
                }
            }
            for (const auto& ub : TRAILING_SLASH) {
                sink.emit("units.ub " + hexs(ub), g_trailingSlashRefused ? "0" : "1");
                if (!g_trailingSlashRefused) continue;
                for (const auto& u : systems) {
                    std::string a;
                    try { a = fbits(u.to_si(ub, 1.0)); } catch (const std::exception&) { a = "err"; }
                    sink.emit("units.tosi_s " + sysId(u) + " " + hexs(ub) + " " + fbits(1.0), a);
                    sink.count("strconv.trailing_slash");
                }
            }
        }
        // (9) uda_dim for every UDAControl enumerator
        for (const auto& u : systems)
            for (const auto& c : UDA_CONTROLS) {
                std::string ans;
                try { ans = dimStr(u.uda_dim(c.second)); } catch (const std::exception&) { ans = "err"; }
                sink.emit("units.udadim " + sysId(u) + " " + c.first, ans);
                sink.count(ans == "err" ? "udadim.err" : "udadim.ok");
            }
        // (10) FieldProps.hpp unit strings: the table itself, and the conversion getSIValue performs with it
        {
            const auto fp = fieldPropsUnits();
            std::string joined;
            for (const auto& e : fp) joined += (joined.empty() ? "" : ",") + std::get<0>(e) + "." + std::get<1>(e) + "=" + hexs(std::get<2>(e));
            sink.emit("units.fpunits", joined);
            for (const auto& e : fp)
                for (const auto& u : systems) {
                    const double x = sampleValue(rng);
                    std::string a;
                    try { a = fbits(u.parse(std::get<2>(e)).convertRawToSi(x)); } catch (const std::exception&) { a = "err"; }
                    sink.emit("units.fpsi " + sysId(u) + " " + std::get<0>(e) + " " + std::get<1>(e) + " " + fbits(x), a);
                    sink.count("fieldprops");
                }
        }
        // round 5: the hand-written quantity tables (harness/units_quantities.cpp).  The numbers of QUANTITIES
        // against the Lean specification's composition of each quantity (exact rational, 8 roundings allowed),
        // and the named item table against the translator's copy of it.
        {
            for (const auto& q : uq::QUANTITIES)
                for (int t = 0; t < 4; ++t) {
                    sink.emit("units.quant_q " + sysId(UnitSystem(ALL_TYPES[t])) + " " + q.name + " " + fbits(q.scale[t]) + " " + fbits(q.offset[t]), "ok");
                    sink.count("quantity");
                }
            sink.emit("units.quant_q 1 NoSuchQuantity " + fbits(1.0) + " " + fbits(0.0), "unknown");
            sink.emit("units.itemqcount", std::to_string(uq::ITEM_QUANTITIES.size()));
            for (const auto& e : uq::ITEM_QUANTITIES) {
                std::string j;
                for (const auto& q : e.q) j += (j.empty() ? "" : ",") + q;
                sink.emit("units.itemq " + e.key, j);
                sink.count("itemq");
            }
            sink.emit("units.itemq NOSUCH.0.ITEM", "none");
        }
        sink.writeStats(outdir + "/stats.json");
        return 0;
    }

    if (mode == "prop") {
        // at most one FAIL line per key reach prop.txt (all are counted)
        struct DedupLog {
            vh::PropLog inner; std::map<std::string, int> seen; long checked = 0, failed = 0;
            explicit DedupLog(const std::string& p) : inner(p) {}
            void ok() { ++checked; }
            std::string pendingPath; long pending = 0;
            void fail(const std::string& key, const std::string& detail) {
                if (PENDING.count(key)) {     // reported finding awaiting a decision: recorded, not failed
                    ++pending; ++checked;
                    if (seen[key]++ < 1) { std::ofstream f(pendingPath, std::ios::app); f << "PENDING " << key << " " << detail << "\n"; }
                    return;
                }
                ++failed; if (seen[key]++ < 1) inner.fail(key, detail);
            }
        } log(outdir + "/prop.txt");
        log.pendingPath = outdir + "/pending.txt";
        { std::ofstream f(log.pendingPath); }
        std::map<std::string, long> stats;
        const int nsamples = thorough ? 400 : 60;
        // (a) round trips on the real tables, scalar and vector overloads
        for (const auto& u : systems) {
            for (int m = 0; m < NMEASURE; ++m) {
                const auto mm = static_cast<M>(m);
                const double off = u.getDimension(mm).getSIOffset();
                const double f = u.getDimension(mm).getSIScaling();
                for (int k = 0; k < nsamples; ++k) {
                    const double x = sampleValue(rng);
                    const double a = u.to_si(mm, u.from_si(mm, x));
                    const double b = u.from_si(mm, u.to_si(mm, x));
                    const std::string key = "roundtrip." + u.getName() + "." + std::to_string(m);
                    if (!closeRel(a, x, 8, std::fabs(off))) log.fail(key, "to_si(from_si(x)) x=" + g17(x) + " got " + g17(a)); else log.ok();
                    if (!closeRel(b, x, 8, std::fabs(off / f))) log.fail(key, "from_si(to_si(x)) x=" + g17(x) + " got " + g17(b)); else log.ok();
                    std::vector<double> v{ x, x + 1 }, w{ x, x + 1 };
                    u.to_si(mm, v); u.from_si(mm, w);
                    if (v[0] != u.to_si(mm, x) || w[0] != u.from_si(mm, x)) log.fail("overload." + u.getName() + "." + std::to_string(m), "vector overload differs from scalar at x=" + g17(x)); else log.ok();
                    stats["roundtrip"] += 2;
                }
                // measure factor == the composite of named dimensions it is documented as
                for (const auto& sp : MEASURE_SPEC) if (sp.first == mm) {
                    if (u.getType() == UnitSystem::UnitType::UNIT_TYPE_INPUT && sp.second == "Ymodule") continue;
                    try {
                        const auto d = u.parse(sp.second);
                        if (!closeRel(d.getSIScaling(), f, 16) || !closeRel(d.getSIOffset(), off, 4))
                            log.fail("measure_vs_dimension." + u.getName() + "." + std::to_string(m), "measure factor " + g17(f) + " but parse(" + sp.second + ") = " + g17(d.getSIScaling()));
                        else log.ok();
                    } catch (const std::exception&) { log.fail("measure_vs_dimension." + u.getName() + "." + std::to_string(m), "parse(" + sp.second + ") throws"); }
                    stats["measure_vs_dimension"]++;
                }
            }
        }
        // (b) physical definitions
        for (const auto& p : PHYS) {
            UnitSystem u{ std::string(p.sys) };
            const auto& d = u.getDimension(p.dim);
            if (!closeRel(d.getSIScaling(), p.scale, 16) || !closeRel(d.getSIOffset(), p.offset, 4))
                log.fail(std::string("physical.") + p.sys + "." + p.dim, "factor " + g17(d.getSIScaling()) + " offset " + g17(d.getSIOffset()) + " expected " + g17(p.scale) + " / " + g17(p.offset));
            else log.ok();
            stats["physical"]++;
        }
        // (c) composite = product / quotient of the parts, on the real parse
        const int ncomp = thorough ? 60000 : 2000;
        for (int k = 0; k < ncomp; ++k) {
            const auto& u = systems[rng.below(systems.size())];
            std::string a, b;
            do { a = randomComposite(rng, false); } while (a.find('/') != std::string::npos);
            do { b = randomComposite(rng, false); } while (b.find('/') != std::string::npos);
            try {
                const double fa = u.parse(a).getSIScaling(), fb = u.parse(b).getSIScaling();
                const double fm = u.parse(a + "*" + b).getSIScaling(), fd = u.parse(a + "/" + b).getSIScaling();
                if (!closeRel(fm, fa * fb, 12)) log.fail("composite.mul", u.getName() + " " + a + " * " + b + ": " + g17(fm) + " vs " + g17(fa * fb)); else log.ok();
                if (!closeRel(fd, fa / fb, 12)) log.fail("composite.div", u.getName() + " " + a + " / " + b + ": " + g17(fd) + " vs " + g17(fa / fb)); else log.ok();
                // and conversion through the string overloads inverts
                const double x = sampleValue(rng);
                const double y = u.to_si(a + "/" + b, u.from_si(a + "/" + b, x));
                if (!closeRel(y, x, 8)) log.fail("composite.roundtrip", u.getName() + " " + a + "/" + b + " x=" + g17(x)); else log.ok();
            } catch (const std::exception& e) { log.fail("composite.throw", u.getName() + " " + a + " , " + b); }
            stats["composite"] += 3;
        }
        // (d) every dimension string of the compiled keywords resolves in the four deck systems
        {
            std::map<std::string, std::string> user;
            for (const auto& s : compiledDimStrings(&user))
                for (int t = 0; t < 4; ++t) {
                    UnitSystem u(ALL_TYPES[t]);
                    try { u.getNewDimension(s); log.ok(); }
                    catch (const std::exception&) { log.fail("keyword_dimension_unresolved." + s, u.getName() + " item " + user[s]); }
                    stats["keyword_dimension"]++;
                }
        }
        // (e) the lazy conversion of DeckItem: any interleaving of accessors shows the same raw / SI values
        const int nitems = thorough ? 60000 : 3000;
        for (int k = 0; k < nitems; ++k) {
            ItemSpec sp = randomItem(rng, systems, false);
            if (sp.active.empty() || sp.vals.empty()) continue;
            for (auto& v : sp.vals) if (v.first == 'e') v.first = 'd';
            DeckItem it = buildItem(sp);
            std::vector<double> raw, si;
            for (size_t i = 0; i < sp.vals.size(); ++i) {
                const auto& d = (sp.vals[i].first == 'd' ? sp.dflt : sp.active)[i % sp.active.size()];
                raw.push_back(sp.vals[i].second);
                si.push_back(sp.vals[i].second * d.getSIScaling() + d.getSIOffset());
            }
            int flips = 0;
            for (const auto& c : sp.calls) {
                const double tol = 4.0 * (flips + 2);
                if (c == "D" || c == "S") {
                    const auto& got = c == "D" ? it.getData<double>() : it.getSIDoubleData();
                    const auto& want = c == "D" ? raw : si;
                    ++flips;
                    for (size_t i = 0; i < want.size(); ++i) {
                        const auto& d = (sp.vals[i].first == 'd' ? sp.dflt : sp.active)[i % sp.active.size()];
                        const double absScale = c == "D" ? std::fabs(d.getSIOffset() / d.getSIScaling()) : std::fabs(d.getSIOffset());
                        if (!closeRel(got[i], want[i], tol, absScale))
                            log.fail(c == "D" ? "lazy.getData" : "lazy.getSIDoubleData", itemOp(sp) + " element " + std::to_string(i) + " got " + g17(got[i]) + " want " + g17(want[i]));
                        else log.ok();
                    }
                } else {
                    const size_t i = std::stoul(c.substr(1));
                    if (i >= raw.size()) continue;
                    const auto& d = (sp.vals[i].first == 'd' ? sp.dflt : sp.active)[i % sp.active.size()];
                    if (c[0] == 's') {
                        ++flips;
                        if (!closeRel(it.getSIDouble(i), si[i], tol, std::fabs(d.getSIOffset()))) log.fail("lazy.getSIDouble", itemOp(sp)); else log.ok();
                    } else {
                        // get<double>(i) is the raw deck value whatever was called before
                        const double got = it.get<double>(i);
                        if (!closeRel(got, raw[i], tol, std::fabs(d.getSIOffset() / d.getSIScaling())))
                            log.fail("lazy.get_after_si", itemOp(sp) + " get<double>(" + std::to_string(i) + ") = " + g17(got) + " but the deck value is " + g17(raw[i]));
                        else log.ok();
                    }
                }
                stats["lazy_calls"]++;
            }
        }
        // (f) deck level: one physical model written in the four unit systems gives the same SI values
        OpmLog::removeAllBackends();
        const int ndecks = thorough ? 150 : 6;
        double maxVolErrInCondUlps = 0;
        for (int k = 0; k < ndecks; ++k) {
            const Model model = randomModel(rng, k % 2 == 1);
            double geomCond = 0;
            {
                const double zmax = *std::max_element(model.tops.begin(), model.tops.end()) + model.nz * *std::max_element(model.dz.begin(), model.dz.end());
                const double xmax = model.nx * *std::max_element(model.dx.begin(), model.dx.end());
                const double ymax = model.ny * *std::max_element(model.dy.begin(), model.dy.end());
                geomCond = zmax / *std::min_element(model.dz.begin(), model.dz.end()) + xmax / *std::min_element(model.dx.begin(), model.dx.end())
                         + ymax / *std::min_element(model.dy.begin(), model.dy.end());
            }
            std::vector<std::map<std::string, double>> deckSI(4), stateSI(4);
            std::vector<std::string> text(4);
            bool allOk = true;
            for (int t = 0; t < 4; ++t) {
                UnitSystem u(ALL_TYPES[t]);
                text[t] = writeDeck(model, u);
                try {
                    Parser parser;
                    ParseContext pc; ErrorGuard eg;
                    auto deck = parser.parseString(text[t], pc, eg);
                    collectStateSI(deck, stateSI[t]);      // EclipseState/Schedule first: as a simulator does
                    collectDeckSI(deck, deckSI[t]);
                } catch (const std::exception& e) {
                    allOk = false;
                    vh::spit(outdir + "/deck_fail_" + std::to_string(k) + "_" + std::to_string(t) + ".DATA", text[t]);
                    log.fail("deck.exception." + UnitSystem(ALL_TYPES[t]).getName(), std::string("deck ") + std::to_string(k) + ": " + typeid(e).name());
                }
            }
            if (!allOk) continue;
            for (int t = 1; t < 4; ++t) {
                for (int lvl = 0; lvl < 2; ++lvl) {
                    const auto& ref = lvl ? stateSI[0] : deckSI[0];
                    const auto& oth = lvl ? stateSI[t] : deckSI[t];
                    if (ref.size() != oth.size()) { log.fail(lvl ? "deck.state.shape" : "deck.items.shape", "deck " + std::to_string(k)); continue; }
                    for (const auto& kv : ref) {
                        auto it = oth.find(kv.first);
                        std::string base = kv.first.substr(0, kv.first.find('['));
                        // context dependent item: its JSON dimension is the gas-injector one (see writeDeck)
                        if (!lvl && model.oilInjector && base.find("WCONINJE") == 0 && base.find("VAPOIL_C") != std::string::npos) continue;
                        const bool temp = base.find("RTEMP") != std::string::npos;
                        // cell volumes come from differences of corner coordinates: the 1-ulp differences of the
                        // inputs are amplified by depth/thickness (and x/dx, y/dy) — a derived bound, not slack
                        const double rel = base == "GRID.vol" ? 1e-12 + 64.0 * EPS * geomCond : 1e-12;
                        if (base == "GRID.vol" && it != oth.end() && kv.second != 0)
                            maxVolErrInCondUlps = std::max(maxVolErrInCondUlps, std::fabs(it->second - kv.second) / (std::fabs(kv.second) * EPS * geomCond));
                        if (it == oth.end() || !(std::fabs(it->second - kv.second) <= rel * std::max({ std::fabs(kv.second), std::fabs(it->second), temp ? 300.0 : 0.0 }))) {
                            vh::spit(outdir + "/deck_" + std::to_string(k) + "_METRIC.DATA", text[0]);
                            vh::spit(outdir + "/deck_" + std::to_string(k) + "_" + std::to_string(t) + ".DATA", text[t]);
                            log.fail(std::string(lvl ? "deck.state." : "deck.item.") + base, "deck " + std::to_string(k) + " METRIC " + g17(kv.second) + " vs " + UnitSystem(ALL_TYPES[t]).getName() + " " + (it == oth.end() ? "missing" : g17(it->second)) + " at " + kv.first);
                        } else log.ok();
                        stats[lvl ? "deck_state_values" : "deck_item_values"]++;
                    }
                }
            }
            stats["decks"]++;
        }
        // (g) output side: data::Solution / RestartValue convert with the same tables, idempotently, and back
        {
            const int nsol = thorough ? 300 : 40;
            for (int k = 0; k < nsol; ++k) {
                const auto& u = systems[rng.below(4)];
                data::Solution sol(true);
                RestartValue rv;
                std::vector<std::vector<double>> orig(NMEASURE);
                for (int m = 0; m < NMEASURE; ++m) {
                    int n = rng.range(1, 3);
                    for (int i = 0; i < n; ++i) orig[m].push_back(sampleValue(rng));
                    char nm[16]; std::snprintf(nm, sizeof nm, "K%03d", m);
                    sol.insert(nm, static_cast<M>(m), orig[m], data::TargetType::RESTART_SOLUTION);
                    rv.addExtra(nm, static_cast<M>(m), orig[m]);
                }
                rv.solution = sol;
                rv.convertFromSI(u);
                RestartValue twice = rv; twice.convertFromSI(u);
                RestartValue back = rv; back.convertToSI(u);
                for (int m = 0; m < NMEASURE; ++m) {
                    char nm[16]; std::snprintf(nm, sizeof nm, "K%03d", m);
                    const auto mm = static_cast<M>(m);
                    const double off = u.getDimension(mm).getSIOffset();
                    const auto& a = rv.solution.data<double>(nm); const auto& e = rv.getExtra(nm);
                    const auto& a2 = twice.solution.data<double>(nm);
                    const auto& b = back.solution.data<double>(nm); const auto& be = back.getExtra(nm);
                    for (size_t i = 0; i < orig[m].size(); ++i) {
                        const double want = m == 0 ? orig[m][i] : u.from_si(mm, orig[m][i]);
                        const std::string key = "output." + u.getName() + "." + std::to_string(m);
                        if (a[i] != want || e[i] != u.from_si(mm, orig[m][i])) log.fail(key, "convertFromSI differs from from_si at " + g17(orig[m][i])); else log.ok();
                        if (a2[i] != a[i]) log.fail(key + ".idempotent", "second convertFromSI changed the solution"); else log.ok();
                        if (!closeRel(b[i], orig[m][i], 8, std::fabs(off)) || !closeRel(be[i], orig[m][i], 8, std::fabs(off))) log.fail(key + ".roundtrip", "convertToSI(convertFromSI(x)) x=" + g17(orig[m][i]) + " got " + g17(b[i])); else log.ok();
                        stats["output_values"]++;
                    }
                }
            }
        }
        // (g2) a string that ends in its only '/' is refused with std::invalid_argument (no out-of-bounds parts[1])
        if (!g_trailingSlashRefused) log.fail("parse.trailing_slash", trailingSlashProbe);
        else {
            log.ok();
            for (const auto& s : TRAILING_SLASH) for (const auto& u : systems) {
                bool threw = false;
                try { (void) u.to_si(s, 1.0); } catch (const std::invalid_argument&) { threw = true; } catch (const std::exception&) {}
                if (!threw) log.fail("parse.trailing_slash", u.getName() + " to_si(\"" + s + "\", 1) did not throw std::invalid_argument"); else log.ok();
                stats["trailing_slash"]++;
            }
        }
        // (h) string overloads invert each other, offset dimensions included
        {
            std::vector<std::string> sstrs = compiledDimStrings();
            sstrs.push_back("Temperature"); sstrs.push_back("/Length");
            for (const auto& s : sstrs) for (const auto& u : systems) {
                if (s == "ContextDependent") continue;
                if (u.getType() == UnitSystem::UnitType::UNIT_TYPE_INPUT && s.find("Ymodule") != std::string::npos) continue;
                for (int k = 0; k < 4; ++k) {
                    const double x = sampleValue(rng);
                    try {
                        const auto d = u.parse(s);
                        const double a = u.to_si(s, u.from_si(s, x)), b = u.from_si(s, u.to_si(s, x));
                        if (!closeRel(a, x, 8, std::fabs(d.getSIOffset())) || !closeRel(b, x, 8, std::fabs(d.getSIOffset() / d.getSIScaling())))
                            log.fail("string_roundtrip." + s, u.getName() + " x=" + g17(x) + " got " + g17(a) + " / " + g17(b));
                        else log.ok();
                    } catch (const std::exception&) { log.fail("string_roundtrip.throw." + s, u.getName()); }
                    stats["string_roundtrip"]++;
                }
            }
        }
        // (i) every dimension of every item of the compiled parser: resolves in all five systems, a registered name to
        //     its table entry, a composite to the product/quotient of its parts (the harness's own reading of the string)
        {
            std::set<std::string> done;
            for (const auto& kv : compiledItemDims()) {
                std::stringstream ss(kv.second); std::string d;
                while (std::getline(ss, d, ',')) {
                    if (!done.insert(d).second) { stats["item_dimension_uses"]++; continue; }
                    stats["item_dimension_uses"]++;
                    if (parseWouldBeUB(d)) { log.fail("item_dimension.ub." + d, kv.first); continue; }
                    for (const auto& u0 : systems) {
                        if (u0.getType() == UnitSystem::UnitType::UNIT_TYPE_INPUT && d.find("Ymodule") != std::string::npos) continue;
                        UnitSystem u(u0);
                        try {
                            const Dimension got = u.getNewDimension(d);
                            if (u0.hasDimension(d)) {
                                if (!(got == u0.getDimension(d))) log.fail("item_dimension.named." + d, u.getName() + " " + kv.first); else log.ok();
                            } else {
                                double want = 0;
                                if (!ownComposite(u0, d, want) || got.getSIOffset() != 0.0 || !closeRel(got.getSIScaling(), want, 16))
                                    log.fail("item_dimension.composite." + d, u.getName() + " " + kv.first + " factor " + g17(got.getSIScaling()) + " product of parts " + g17(want));
                                else log.ok();
                            }
                        } catch (const std::exception&) { log.fail("item_dimension.unresolved." + d, u.getName() + " " + kv.first); }
                        stats["item_dimension"]++;
                    }
                }
            }
        }
        // (j) FieldProps unit strings (scalar of EQUALS/ADD/…): parse, and mean what the keyword's own item dimension means
        {
            const auto items = compiledItemDims();
            for (const auto& e : fieldPropsUnits()) {
                const std::string id = std::get<0>(e) + "." + std::get<1>(e);
                std::string itemDim;
                for (const auto& kv : items) if (kv.first.rfind(std::get<1>(e) + ".0.", 0) == 0) { itemDim = kv.second; break; }
                for (int t = 0; t < 4; ++t) {
                    UnitSystem u(ALL_TYPES[t]);
                    Dimension du;
                    try { du = u.parse(std::get<2>(e)); du.getSIScaling(); log.ok(); }
                    catch (const std::exception&) { log.fail("fieldprops.unit." + id, u.getName() + ": unit string '" + std::get<2>(e) + "' does not parse"); log.fail("fieldprops.unit_vs_keyword." + id, "unit string does not parse"); continue; }
                    if (itemDim.empty()) { log.fail("fieldprops.no_keyword_item." + id, "no dimensioned parser item"); continue; }
                    try {
                        const Dimension dk = u.getNewDimension(itemDim);
                        if (!closeRel(du.getSIScaling(), dk.getSIScaling(), 16) || du.getSIOffset() != dk.getSIOffset())
                            log.fail("fieldprops.unit_vs_keyword." + id, u.getName() + ": FieldProps unit '" + std::get<2>(e) + "' = " + g17(du.getSIScaling()) + " but keyword item dimension '" + itemDim + "' = " + g17(dk.getSIScaling()));
                        else log.ok();
                    } catch (const std::exception&) { log.fail("fieldprops.unit_vs_keyword." + id, "item dimension '" + itemDim + "' unresolved"); }
                    stats["fieldprops_units"]++;
                }
            }
        }
        // (k) uda_dim(control) == the dimension the parser attaches to the control's deck item
        {
            Parser parser;
            for (const auto& c : UDA_ITEM) {
                UDAControl ctl = UDAControl::WCONPROD_ORAT;
                for (const auto& p : UDA_CONTROLS) if (p.first == std::get<0>(c)) ctl = p.second;
                const auto& item = parser.getKeyword(std::get<1>(c)).getRecord(0).get(std::get<2>(c));
                for (int t = 0; t < 4; ++t) {
                    UnitSystem u(ALL_TYPES[t]);
                    double want = 1.0;
                    if (!item.dimensions().empty() && item.dimensions().front() != "ContextDependent") want = u.getNewDimension(item.dimensions().front()).getSIScaling();
                    try {
                        const auto d = u.uda_dim(ctl);
                        if (!closeRel(d.getSIScaling(), want, 16) || d.getSIOffset() != 0.0)
                            log.fail("uda_dim." + std::get<0>(c), u.getName() + ": uda_dim factor " + g17(d.getSIScaling()) + " but item " + std::get<1>(c) + "." + std::get<2>(c) + " converts with " + g17(want));
                        else log.ok();
                    } catch (const std::exception&) { log.fail("uda_dim.throw." + std::get<0>(c), u.getName()); }
                    stats["uda_dim"]++;
                }
            }
        }
        // (l) round 5: independent keyword item -> physical quantity knowledge.  Every template of
        // harness/units_quantities.cpp (a keyword as the manual lays it out, <Quantity> tokens) is written with
        // the SAME physical values in METRIC, FIELD, LAB and PVT-M using the harness's own factors, parsed by the
        // real parser, and every value that was given must come out of getSIDouble / UDAValue::getSI as
        // value x (independent factor) (+ offset) — hence equal in the four systems; the item the parser put the
        // value into must carry that quantity in the hand-written named table ITEM_QUANTITIES.
        {
            std::map<std::string, const uq::Quantity*> Q;
            for (const auto& q : uq::QUANTITIES) Q[q.name] = &q;
            std::map<std::string, const uq::ItemQ*> IQ;
            for (const auto& e : uq::ITEM_QUANTITIES) IQ[e.key] = &e;
            std::set<std::string> covered;
            const char* SECTIONS[] = { "GRID", "EDIT", "PROPS", "SOLUTION", "SCHEDULE" };
            const int ndraw = thorough ? 60 : 4;
            struct Tok { std::string q; double si; };
            struct Got { std::string key; size_t col; double si; };
            for (int k = 0; k < ndraw; ++k) {
                // draw the physical (SI) values once
                std::map<std::string, std::vector<Tok>> toks;
                bool templOk = true;
                for (const auto& tp : uq::TEMPLATES) {
                    auto& v = toks[tp.kw];
                    for (size_t p = tp.text.find('<'); p != std::string::npos; p = tp.text.find('<', p + 1)) {
                        const size_t e = tp.text.find('>', p);
                        const std::string qn = tp.text.substr(p + 1, e - p - 1);
                        if (!Q.count(qn)) { log.fail("quantity.template." + tp.kw, "unknown quantity " + qn); templOk = false; break; }
                        double si;
                        if (qn == "Temperature") si = 280.0 + 120.0 * rng.unit();
                        else if (qn == "Dimensionless") si = 0.05 + 0.9 * rng.unit();
                        else si = Q[qn]->scale[0] * std::exp(std::log(0.2) + std::log(500.0) * rng.unit());   // 0.2 .. 100 metric units
                        v.push_back({ qn, si });
                    }
                }
                if (!templOk) break;
                for (int t = 0; t < 4; ++t) {
                    UnitSystem u(ALL_TYPES[t]);
                    std::ostringstream o;
                    std::map<std::string, std::vector<std::string>> rawText;
                    o << "RUNSPEC\n" << u.deck_name() << "\nDIMENS\n 2 2 1 /\nOIL\nWATER\nGAS\nDISGAS\nVAPOIL\nTABDIMS\n/\nEQLDIMS\n/\nWELLDIMS\n 4 3 2 4 /\nAQUDIMS\n/\nVFPPDIMS\n/\nVFPIDIMS\n/\n";
                    for (const char* sec : SECTIONS) {
                        o << sec << "\n";
                        for (const auto& tp : uq::TEMPLATES) {
                            if (tp.section != sec) continue;
                            size_t n = 0, last = 0;
                            for (size_t p = tp.text.find('<'); p != std::string::npos; p = tp.text.find('<', p + 1)) {
                                const size_t e = tp.text.find('>', p);
                                const Tok& tk = toks[tp.kw][n++];
                                const uq::Quantity& q = *Q[tk.q];
                                const std::string raw = g17((tk.si - q.offset[t]) / q.scale[t]);
                                rawText[tp.kw].push_back(raw);
                                o << tp.text.substr(last, p - last) << raw;
                                last = e + 1;
                            }
                            o << tp.text.substr(last);
                        }
                    }
                    const std::string text = o.str();
                    const std::string dump = outdir + "/quantity_deck_" + std::to_string(k) + "_" + u.deck_name() + ".DATA";
                    try {
                        Parser parser;
                        ParseContext pc; ErrorGuard eg;
                        auto deck = parser.parseString(text, pc, eg);
                        for (const auto& tp : uq::TEMPLATES) {
                            std::vector<Got> got;
                            const ParserKeyword& pkw = parser.getKeyword(tp.kw);
                            const size_t npr = std::distance(pkw.begin(), pkw.end());
                            size_t occurrences = 0;
                            for (const auto& dkw : deck) {
                                if (dkw.name() != tp.kw) continue;
                                ++occurrences;
                                for (size_t r = 0; r < dkw.size(); ++r) {
                                    const auto& rec = dkw.getRecord(r);
                                    const size_t recIdx = npr <= 1 ? 0 : std::min(r, npr - 1);
                                    for (size_t j = 0; j < rec.size(); ++j) {
                                        const auto& item = rec.getItem(j);
                                        const bool isD = item.getType() == type_tag::fdouble, isU = item.getType() == type_tag::uda;
                                        if (!isD && !isU) continue;
                                        const size_t nd = pkw.getRecord(recIdx).get(item.name()).dimensions().size();
                                        const std::string key = tp.kw + "." + std::to_string(recIdx) + "." + item.name();
                                        for (size_t i = 0; i < item.data_size(); ++i) {
                                            if (item.defaultApplied(i)) continue;
                                            if (nd == 0) {            // a number was given to an item without dimension
                                                if (IQ.count(key)) got.push_back({ key, 0, std::nan("") });
                                                continue;
                                            }
                                            double si;
                                            if (isD) si = item.getSIDouble(i);
                                            else {
                                                const auto& uda = item.get<UDAValue>(i);
                                                if (!uda.is<double>()) continue;
                                                si = uda.getSI();
                                            }
                                            got.push_back({ key, i % nd, si });
                                        }
                                    }
                                }
                            }
                            const auto& want = toks[tp.kw];
                            if (occurrences != 1 || got.size() != want.size()) {
                                vh::spit(dump, text);
                                log.fail("quantity.shape." + tp.kw, u.getName() + ": the template gives " + std::to_string(want.size()) + " numbers, the parsed keyword (" +
                                         std::to_string(occurrences) + " occurrence(s)) has " + std::to_string(got.size()) + " given dimensioned values; deck " + dump);
                                continue;
                            }
                            for (size_t i = 0; i < got.size(); ++i) {
                                const auto& g = got[i];
                                const auto it = IQ.find(g.key);
                                const std::string named = it == IQ.end() ? "(not listed)" : g.col < it->second->q.size() ? it->second->q[g.col] : "(no such column)";
                                if (named != want[i].q) {
                                    log.fail("quantity.table." + g.key, "number " + std::to_string(i) + " of the " + tp.kw + " template is a " + want[i].q +
                                             " but lands in " + g.key + " column " + std::to_string(g.col) + ", which ITEM_QUANTITIES lists as " + named);
                                    continue;
                                }
                                covered.insert(g.key + "#" + std::to_string(g.col));
                                const uq::Quantity& q = *Q[want[i].q];
                                // derived tolerance: 17-digit text is exact; one division, the real factor (a few
                                // roundings in its constant expression), one multiplication, one addition
                                if (!closeRel(g.si, want[i].si, 64, std::fabs(q.offset[t]))) {
                                    vh::spit(dump, text);
                                    log.fail("quantity.si." + g.key + "." + std::to_string(g.col),
                                             u.getName() + ": " + want[i].q + " " + g17(want[i].si) + " (SI) written as " + rawText[tp.kw][i] + " comes out of the deck as " +
                                             g17(g.si) + " (independent factor " + g17(q.scale[t]) + ", offset " + g17(q.offset[t]) + "); deck " + dump);
                                } else log.ok();
                                stats["quantity_values"]++;
                            }
                        }
                    } catch (const std::exception& e) {
                        vh::spit(dump, text);
                        log.fail("quantity.deck_exception." + u.getName(), std::string(typeid(e).name()) + "; deck " + dump);
                    }
                    stats["quantity_decks"]++;
                }
            }
            // every column of the named table is reached by some template ("ContextDependent" has no SI value)
            long ncols = 0;
            for (const auto& e : uq::ITEM_QUANTITIES)
                for (size_t c = 0; c < e.q.size(); ++c) {
                    ++ncols;
                    if (e.q[c] == "ContextDependent") continue;
                    if (!covered.count(e.key + "#" + std::to_string(c))) log.fail("quantity.untested." + e.key, "column " + std::to_string(c) + " is reached by no template");
                    else log.ok();
                }
            stats["quantity_item_columns"] = ncols;
            stats["quantity_items"] = static_cast<long>(uq::ITEM_QUANTITIES.size());
        }
        stats["pending_findings"] = log.pending;
        std::ofstream f(outdir + "/prop_stats.json");
        f << "{\n  \"checked\": " << log.checked << ",\n  \"failed\": " << log.failed;
        for (auto& kv : stats) f << ",\n  \"" << kv.first << "\": " << kv.second;
        f << ",\n  \"max_cell_volume_error_in_units_of_eps_times_condition\": " << maxVolErrInCondUlps;
        f << "\n}\n";
        return 0;
    }
    std::cerr << "unknown mode\n";
    return 2;
}
