// C07 harness: drives the real EclOutput / EclFile of the working tree.
//
//   eclio corr <seed> <tier> <outdir>   correspondence: ops.txt / impl.txt / stats.json
//   eclio prop <seed> <tier> <outdir>   property mode on the implementation alone:
//                                       write -> read round trip + independent layout parse
//
// Elements cross the line protocol as the big-endian on-disk image (hex).
#include "common/vh.hpp"

#include <opm/io/eclipse/EclFile.hpp>
#include <opm/io/eclipse/EclOutput.hpp>
#include <opm/io/eclipse/EclUtil.hpp>
#include <opm/io/eclipse/EclIOdata.hpp>

#include <algorithm>
#include <cmath>
#include <climits>
#include <filesystem>
#include <iostream>
#include <limits>

using namespace Opm::EclIO;
namespace fs = std::filesystem;

namespace {

struct TArr {
    std::string name;            // <= 8 chars
    eclArrType type;
    int esz = 0;                 // C0NN element size as passed to write()
    std::vector<int> iv;
    std::vector<float> fv;
    std::vector<double> dv;
    std::vector<bool> bv;
    std::vector<std::string> sv;
    size_t size() const {
        switch (type) {
        case INTE: return iv.size(); case REAL: return fv.size(); case DOUB: return dv.size();
        case LOGI: return bv.size(); case CHAR: case C0NN: return sv.size(); default: return 0;
        }
    }
};

const char* tyName(eclArrType t) {
    switch (t) { case INTE: return "INTE"; case REAL: return "REAL"; case DOUB: return "DOUB";
    case CHAR: return "CHAR"; case LOGI: return "LOGI"; case MESS: return "MESS"; default: return "C0NN"; }
}

std::string be(uint32_t v) { unsigned char b[4] = { (unsigned char)(v >> 24), (unsigned char)(v >> 16), (unsigned char)(v >> 8), (unsigned char) v }; return std::string((char*) b, 4); }
std::string be64(uint64_t v) { return be((uint32_t)(v >> 32)) + be((uint32_t) v); }

// effective element size on disk
int diskEsz(const TArr& a) {
    switch (a.type) { case INTE: case REAL: case LOGI: return 4; case DOUB: case CHAR: return 8;
    case C0NN: return std::max(a.esz, 8); default: return 0; }
}

// raw on-disk image of the elements (what the model calls `elems`)
std::string rawElems(const TArr& a, bool ix) {
    std::string out;
    switch (a.type) {
    case INTE: for (int v : a.iv) out += be((uint32_t) v); break;
    case REAL: for (float v : a.fv) { uint32_t u; std::memcpy(&u, &v, 4); out += be(u); } break;
    case DOUB: for (double v : a.dv) { uint64_t u; std::memcpy(&u, &v, 8); out += be64(u); } break;
    case LOGI: for (bool v : a.bv) out += v ? (ix ? std::string("\x00\x00\x00\x01", 4) : std::string("\xff\xff\xff\xff", 4)) : std::string(4, '\0'); break;
    case CHAR: case C0NN: { int w = diskEsz(a); for (auto& s : a.sv) out += s + std::string(w - s.size(), ' '); } break;
    default: break;
    }
    return out;
}

std::string padName(const std::string& n) { return n + std::string(8 - n.size(), ' '); }

void writeArr(EclOutput& out, const TArr& a) {
    switch (a.type) {
    case INTE: out.write(a.name, a.iv); break;
    case REAL: out.write(a.name, a.fv); break;
    case DOUB: out.write(a.name, a.dv); break;
    case LOGI: out.write(a.name, a.bv); break;
    case CHAR: out.write(a.name, a.sv); break;
    case C0NN: out.write(a.name, a.sv, a.esz); break;
    case MESS: out.message(a.name); break;
    }
}

const std::vector<int> extremeInts = { 0, 1, -1, INT_MAX, INT_MIN, 16, 0x10000000, 255, 256, -256, 1000, 4000 };
std::vector<double> extremeDoubles() {
    return { 0.0, -0.0, 1.0, -1.0, 5e-324, -5e-324, 2.2250738585072014e-308, 1.7976931348623157e308,
             -1.7976931348623157e308, std::numeric_limits<double>::infinity(), -std::numeric_limits<double>::infinity(),
             std::numeric_limits<double>::quiet_NaN(), vh::f64FromBits(0x7ff8000000000123ull), vh::f64FromBits(0xfff0000000000001ull),
             1e-300, -1e-300, 1e300, -1e300, 1e-100, -1e100, 9.999999999999999e99, 1e99, 1e-99, 3.14159265358979 };
}
std::vector<float> extremeFloats() {
    return { 0.0f, -0.0f, 1.0f, -1.0f, 1e-45f, -1e-45f, 1.17549435e-38f, 3.4028235e38f, -3.4028235e38f,
             std::numeric_limits<float>::infinity(), -std::numeric_limits<float>::infinity(),
             std::numeric_limits<float>::quiet_NaN(), vh::f32FromBits(0x7fc00123u), 1e-10f, 1e10f, 9.9999999e9f };
}

std::string randName(vh::Rng& r) {
    static const std::string alpha = "ABCDEFGHIJKLMNOPQRSTUVWXYZ0123456789_";
    int n = r.range(1, 8);
    std::string s;
    for (int i = 0; i < n; ++i) s += alpha[r.below(alpha.size())];
    return s;
}

std::string randStr(vh::Rng& r, int maxLen) {
    static const std::string alpha = "ABCDEFGHIJKLMNOPQRSTUVWXYZabc0123456789_-+*/.:";
    int n = r.range(0, maxLen);
    std::string s;
    for (int i = 0; i < n; ++i) s += alpha[r.below(alpha.size())];
    // a trailing blank would be trimmed by the reader; interior blanks are fine
    if (n >= 3 && r.coin(1, 4)) s[n / 2] = ' ';
    return s;
}

TArr makeArr(vh::Rng& r, eclArrType t, size_t n, int esz) {
    TArr a; a.name = randName(r); a.type = t; a.esz = esz;
    auto ed = extremeDoubles(); auto ef = extremeFloats();
    switch (t) {
    case INTE: for (size_t i = 0; i < n; ++i) a.iv.push_back(r.coin(1, 4) ? r.pick(extremeInts) : (int) (uint32_t) r.next()); break;
    case REAL: for (size_t i = 0; i < n; ++i) a.fv.push_back(r.coin(1, 4) ? r.pick(ef) : (r.coin() ? vh::f32FromBits((uint32_t) r.next()) : (float) ((r.unit() - 0.5) * std::pow(10.0, r.range(-30, 30))))); break;
    case DOUB: for (size_t i = 0; i < n; ++i) a.dv.push_back(r.coin(1, 4) ? r.pick(ed) : (r.coin() ? vh::f64FromBits(r.next()) : (r.unit() - 0.5) * std::pow(10.0, r.range(-300, 300)))); break;
    case LOGI: for (size_t i = 0; i < n; ++i) a.bv.push_back(r.coin()); break;
    case CHAR: for (size_t i = 0; i < n; ++i) a.sv.push_back(r.coin(1, 5) ? std::string() : (r.coin(1, 5) ? std::string("12345678") : randStr(r, 8))); break;
    case C0NN: for (size_t i = 0; i < n; ++i) a.sv.push_back(randStr(r, esz)); break;
    default: break;
    }
    return a;
}

std::vector<size_t> lengthsFor(eclArrType t, const std::string& tier, vh::Rng& r) {
    size_t block = (t == CHAR || t == C0NN) ? 105 : 1000;
    std::vector<size_t> ls;
    if (tier == "thorough") {
        for (size_t n = 0; n <= 2 * block + 2; ++n) ls.push_back(n);
        for (int i = 0; i < 6; ++i) ls.push_back(2 * block + 3 + r.below(3 * block));
    } else {
        for (size_t n = 0; n <= 12; ++n) ls.push_back(n);
        for (size_t b : { block, 2 * block })
            for (size_t n = b - 2; n <= b + 2; ++n) ls.push_back(n);
        for (int i = 0; i < 4; ++i) ls.push_back(13 + r.below(block - 16));
        ls.push_back(2 * block + 3 + r.below(2 * block));
    }
    return ls;
}

std::string listing(EclFile& f, bool ix, bool formatted) {
    // canonical listing in the model's format: name:TYPE:esz:n:elems ; ...
    auto list = f.getList();
    std::string out = "ok ";
    for (size_t i = 0; i < list.size(); ++i) {
        auto& [name, type, num] = list[i];
        TArr a; a.name = name; a.type = type;
        int esz = 0;
        switch (type) {
        case INTE: a.iv = f.get<int>(i); esz = 4; break;
        case REAL: a.fv = f.get<float>(i); esz = 4; break;
        case DOUB: a.dv = f.get<double>(i); esz = 8; break;
        case LOGI: a.bv = f.get<bool>(i); esz = 4; break;
        case CHAR: a.sv = f.get<std::string>(i); esz = 8; break;
        case C0NN: a.sv = f.get<std::string>(i); break;
        default: break;
        }
        if (type == C0NN) { esz = f.getElementSizeList()[i]; a.esz = esz; }
        (void) formatted;
        if (i) out += ";";
        std::string raw = rawElems(a, ix);
        out += vh::hex(padName(name)) + ":" + tyName(type) + ":" + std::to_string(esz) + ":" + std::to_string(num) + ":" + vh::hex(raw);
    }
    return out;
}

bool sameArr(const TArr& a, EclFile& f, size_t i, std::string& why) {
    auto list = f.getList();
    auto& [name, type, num] = list[i];
    if (name != a.name) { why = "name '" + name + "' != '" + a.name + "'"; return false; }
    if (type != a.type && !(a.type == C0NN && type == C0NN)) { why = std::string("type ") + tyName(type) + " != " + tyName(a.type); return false; }
    if ((size_t) num != a.size()) { why = "length " + std::to_string(num) + " != " + std::to_string(a.size()); return false; }
    auto bits = [](double d) { uint64_t u; std::memcpy(&u, &d, 8); return u; };
    auto bitsf = [](float d) { uint32_t u; std::memcpy(&u, &d, 4); return u; };
    switch (a.type) {
    case INTE: if (f.get<int>(i) != a.iv) { why = "INTE values differ"; return false; } break;
    case REAL: { auto& v = f.get<float>(i); for (size_t k = 0; k < v.size(); ++k) if (bitsf(v[k]) != bitsf(a.fv[k])) { why = "REAL[" + std::to_string(k) + "] " + vh::hexF32(v[k]) + " != " + vh::hexF32(a.fv[k]); return false; } } break;
    case DOUB: { auto& v = f.get<double>(i); for (size_t k = 0; k < v.size(); ++k) if (bits(v[k]) != bits(a.dv[k])) { why = "DOUB[" + std::to_string(k) + "] " + vh::hexF64(v[k]) + " != " + vh::hexF64(a.dv[k]); return false; } } break;
    case LOGI: if (f.get<bool>(i) != a.bv) { why = "LOGI values differ"; return false; } break;
    case CHAR: case C0NN: if (f.get<std::string>(i) != a.sv) { why = "string values differ"; return false; } break;
    default: break;
    }
    return true;
}

// Independent reader of the published unformatted layout (not sharing code
// with opm): returns false when the bytes do not conform.
bool specParse(const std::string& bytes, const std::vector<TArr>& arrs, bool ix, std::string& why) {
    size_t p = 0;
    auto rd = [&](size_t& q) -> uint32_t {
        if (q + 4 > bytes.size()) throw std::runtime_error("eof");
        uint32_t v = ((unsigned char) bytes[q] << 24) | ((unsigned char) bytes[q+1] << 16) | ((unsigned char) bytes[q+2] << 8) | (unsigned char) bytes[q+3];
        q += 4; return v;
    };
    try {
        for (auto& a : arrs) {
            if (rd(p) != 16) { why = "header head != 16"; return false; }
            if (bytes.substr(p, 8) != padName(a.name)) { why = "name"; return false; }
            p += 8;
            if (rd(p) != a.size()) { why = "count"; return false; }
            std::string tg = bytes.substr(p, 4); p += 4;
            std::string want = tyName(a.type);
            if (a.type == C0NN) { char b[8]; std::snprintf(b, sizeof b, "C%03d", diskEsz(a)); want = b; }
            if (tg != want) { why = "tag '" + tg + "' != '" + want + "'"; return false; }
            if (rd(p) != 16) { why = "header tail != 16"; return false; }
            std::string raw = rawElems(a, ix);
            size_t w = diskEsz(a);
            size_t per = (a.type == CHAR || a.type == C0NN) ? 105 : 1000;
            size_t n = a.size(), done = 0;
            while (done < n) {
                size_t k = std::min(per, n - done);
                uint32_t h = rd(p);
                if (h != k * w) { why = "record head " + std::to_string(h) + " != " + std::to_string(k * w); return false; }
                if (bytes.substr(p, k * w) != raw.substr(done * w, k * w)) { why = "payload"; return false; }
                p += k * w;
                if (rd(p) != h) { why = "record tail != head"; return false; }
                done += k;
            }
        }
    } catch (const std::exception&) { why = "file shorter than layout"; return false; }
    if (p != bytes.size()) { why = "trailing bytes"; return false; }
    return true;
}

// listing of a formatted file through the real reader, array by array, in the format of
// Model/EclFmtReadIO.lean
std::string fmtListing(const std::string& path) {
    EclFile f(path);
    auto list = f.getList();
    auto esl = f.getElementSizeList();
    std::string out = "ok ";
    auto joinOr = [](const std::vector<std::string>& v) { if (v.empty()) return std::string("-"); std::string o; for (size_t i = 0; i < v.size(); ++i) { if (i) o += ","; o += v[i]; } return o; };
    for (size_t i = 0; i < list.size(); ++i) {
        auto& [name, type, num] = list[i];
        if (i) out += ";";
        out += vh::hex(padName(name)) + ":" + tyName(type) + (type == C0NN ? std::to_string(esl[i]) : std::string()) + ":" + std::to_string(num) + ":";
        std::string payload;
        try {
            std::vector<std::string> items;
            switch (type) {
            case INTE: for (int v : f.get<int>(i)) items.push_back(std::to_string(v)); payload = joinOr(items); break;
            case LOGI: { auto& v = f.get<bool>(i); std::string o; for (bool b : v) o += b ? 'T' : 'F'; payload = v.empty() ? "-" : o; } break;
            case CHAR: case C0NN: for (auto& v : f.get<std::string>(i)) items.push_back(vh::hex(v)); payload = joinOr(items); break;
            case REAL: for (float v : f.get<float>(i)) items.push_back(vh::hexF32(v)); payload = joinOr(items); break;
            case DOUB: for (double v : f.get<double>(i)) items.push_back(vh::hexF64(v)); payload = joinOr(items); break;
            default: payload = "-"; break;
            }
        } catch (const std::exception&) { payload = "err"; }
        out += payload;
    }
    return out;
}

std::string setw11(long v) { char b[32]; std::snprintf(b, sizeof b, "%11ld", v); return b; }

} // namespace

int main(int argc, char** argv) {
    if (argc < 5) { std::cerr << "usage: eclio corr|prop <seed> <tier> <outdir>\n"; return 2; }
    const std::string mode = argv[1];
    const uint64_t seed = std::strtoull(argv[2], nullptr, 10);
    const std::string tier = argv[3];
    const std::string outdir = argv[4];
    fs::create_directories(outdir);
    const std::string tmp = outdir + "/tmp";
    fs::create_directories(tmp);
    vh::Rng rng(seed);

    const std::vector<eclArrType> types = { INTE, REAL, DOUB, LOGI, CHAR, C0NN, MESS };

    if (mode == "corr") {
        vh::Sink sink(outdir);
        long fileNo = 0;
        // (1) single arrays: every type x length grid, ECL and IX flavours
        for (auto t : types) {
            std::vector<size_t> ls = (t == MESS) ? std::vector<size_t>{0} : lengthsFor(t, tier, rng);
            for (size_t n : ls) {
                for (int ixi = 0; ixi < 2; ++ixi) {
                    bool ix = ixi == 1;
                    if (ix && t != LOGI) continue;   // IX differs only for LOGI in unformatted files
                    int esz = (t == C0NN) ? rng.pick(std::vector<int>{ 4, 8, 9, 10, 17, 40, 77, 128, 999 }) : 0;
                    TArr a = makeArr(rng, t, n, esz);
                    std::string path = tmp + "/F" + std::to_string(fileNo++) + ".UNRST";
                    {
                        EclOutput out(path, false, std::ios::out);
                        if (ix) out.set_ix();
                        writeArr(out, a);
                    }
                    std::string bytes = vh::slurp(path);
                    std::string raw = rawElems(a, ix);
                    sink.emit(std::string("eclbin.encode ") + tyName(t) + " " + std::to_string(diskEsz(a)) + " " + vh::hex(padName(a.name)) + " " + std::to_string(n) + " " + vh::hex(raw),
                              vh::hex(bytes));
                    sink.count(std::string("encode.") + tyName(t));
                    // the real seek arithmetic
                    if (t != MESS) {
                        sink.emit(std::string("eclbin.size ") + tyName(t) + " " + std::to_string(diskEsz(a)) + " " + std::to_string(n),
                                  std::to_string(sizeOnDiskBinary((int64_t) n, t, diskEsz(a))));
                        sink.count("size");
                    }
                    // real reader on the real file
                    std::string ans;
                    try { EclFile f(path); f.loadData(); ans = listing(f, false, false); } catch (const std::exception&) { ans = "err"; }
                    sink.emit("eclbin.decode " + vh::hex(bytes), ans);
                    sink.count("decode.valid");
                    fs::remove(path);
                    // formatted layout of the same array: fixed-width fields taken from the real text,
                    // laid out by the model; the real sizeOnDiskFormatted vs the model
                    if (!ix && t != MESS) {
                        TArr b = a;
                        if (t == C0NN && rng.coin(1, 3)) b = makeArr(rng, C0NN, n, rng.pick(std::vector<int>{ 78, 99, 128 }));   // one column per line
                        std::string fpath = tmp + "/G" + std::to_string(fileNo++) + ".FUNRST";
                        { EclOutput out(fpath, true, std::ios::out); writeArr(out, b); }
                        std::string text = vh::slurp(fpath);
                        std::string body = text.size() >= 31 ? text.substr(31) : std::string();
                        std::string fields; for (char c : body) if (c != '\n') fields += c;
                        int w = (t == INTE) ? 12 : (t == REAL) ? 17 : (t == DOUB) ? 23 : (t == LOGI) ? 3 : (t == CHAR) ? 11 : diskEsz(b) + 3;
                        sink.emit(std::string("eclfmt.body ") + tyName(t) + " " + std::to_string(diskEsz(b)) + " " + std::to_string(w) + " " + vh::hex(fields), vh::hex(body));
                        sink.emit(std::string("eclfmt.size ") + tyName(t) + " " + std::to_string(diskEsz(b)) + " " + std::to_string(n),
                                  std::to_string(sizeOnDiskFormatted((int64_t) n, t, diskEsz(b))));
                        sink.count(std::string("fmtbody.") + tyName(t));
                        if (t == INTE) for (size_t q = 0; q < std::min<size_t>(n, 6); ++q) {
                            sink.emit("eclfmt.int " + std::to_string(b.iv[q]), vh::hex(fields.substr(q * 12, 12)));
                            sink.count("fmtint");
                        }
                        fs::remove(fpath);
                    }
                }
            }
        }
        // (2) multi-array files, then truncations and byte mutations of them through the real reader
        int nfiles = tier == "thorough" ? 60 : 12;
        for (int k = 0; k < nfiles; ++k) {
            std::string path = tmp + "/M" + std::to_string(k) + ".UNRST";
            int na = rng.range(1, 6);
            {
                EclOutput out(path, false, std::ios::out);
                for (int j = 0; j < na; ++j) {
                    auto t = rng.pick(types);
                    size_t n = t == MESS ? 0 : (rng.coin(1, 6) ? 0 : rng.below(t == DOUB ? 40 : 300) + (rng.coin(1, 8) ? 1000 : 0));
                    int esz = (t == C0NN) ? rng.range(1, 30) : 0;
                    writeArr(out, makeArr(rng, t, n, esz));
                }
            }
            std::string bytes = vh::slurp(path);
            int nmut = tier == "thorough" ? 40 : 12;
            for (int m = 0; m <= nmut; ++m) {
                std::string b = bytes;
                std::string kind = "valid";
                if (m > 0) {
                    int which = rng.range(0, 3);
                    if (which == 0 && !b.empty()) { b.resize(rng.below(b.size())); kind = "truncate"; }
                    else if (which == 1 && !b.empty()) { size_t p = rng.below(b.size()); b[p] = (char) rng.below(256); kind = "byteflip"; }
                    else if (which == 2 && b.size() >= 24) {
                        // header-directed mutation: hit a count / type / head field of the first header
                        size_t off = rng.pick(std::vector<size_t>{ 0, 3, 12, 15, 16, 17, 19, 20, 23 });
                        b[off] = (char) rng.pick(std::vector<int>{ 0, 1, 16, 0x30, 0x43, 0x7f, 0x80, 0xff });
                        kind = "header";
                    } else { b += std::string(rng.range(1, 7), (char) rng.below(256)); kind = "append"; }
                }
                std::string mp = tmp + "/X.UNRST";
                vh::spit(mp, b);
                std::string ans;
                try { EclFile f(mp); f.loadData(); ans = listing(f, false, false); } catch (const std::exception&) { ans = "err"; }
                sink.emit("eclbin.decode " + vh::hex(b), ans);
                sink.count("decode." + kind);
                sink.count(ans == "err" ? "decode.answer.err" : "decode.answer.ok");
            }
            fs::remove(path);
        }

        // (3) formatted files through the real reader, array by array: valid files, then
        // header-directed and body mutations (Model/EclFmtRead.lean answers the same text)
        {
            int nf = tier == "thorough" ? 80 : 16;
            static const std::string bodyAlpha = "0123456789+-.ED 'TF\n";
            for (int k = 0; k < nf; ++k) {
                int na = rng.range(1, 5);
                std::vector<TArr> arrs;
                for (int j = 0; j < na; ++j) {
                    auto t = rng.pick(types);
                    size_t n = t == MESS ? 0 : (rng.coin(1, 6) ? 0 : rng.below(t == DOUB ? 30 : 60) + (rng.coin(1, 10) ? (t == CHAR || t == C0NN ? 105 : 1000) : 0));
                    int esz = (t == C0NN) ? rng.pick(std::vector<int>{ 4, 8, 9, 13, 30, 77, 78, 120 }) : 0;
                    TArr a = makeArr(rng, t, n, esz);
                    // finite values only: inf/nan tokens are outside the strtod model
                    for (auto& v : a.dv) if (!std::isfinite(v)) v = 1.5;
                    for (auto& v : a.fv) if (!std::isfinite(v)) v = 1.5f;
                    arrs.push_back(a);
                }
                std::string path = tmp + "/FM" + std::to_string(k) + ".FUNRST";
                { EclOutput out(path, true, std::ios::out); if (rng.coin(1, 4)) out.set_ix(); for (auto& a : arrs) writeArr(out, a); }
                std::string text = vh::slurp(path);
                int nmut = tier == "thorough" ? 30 : 10;
                for (int m = 0; m <= nmut; ++m) {
                    std::string b = text;
                    std::string kind = "valid";
                    if (m > 0 && !b.empty()) {
                        int which = rng.range(0, 3);
                        // start of a random header line
                        std::vector<size_t> hdrs;
                        for (size_t p = 0; p + 31 <= b.size(); ++p) if ((p == 0 || b[p - 1] == '\n') && b[p] == ' ' && b[p + 1] == '\'' && b[p + 10] == '\'') hdrs.push_back(p);
                        if (which == 0 && !hdrs.empty()) {
                            size_t h = rng.pick(hdrs);
                            long cur = std::atol(b.substr(h + 12, 11).c_str());
                            long nv = rng.pick(std::vector<long>{ 0, 1, cur + 1, cur > 0 ? cur - 1 : 2, cur + 7, 1000, 1001, -1, -5, cur * 2 + 3 });
                            b.replace(h + 12, 11, setw11(nv)); kind = "count";
                        } else if (which == 1 && !hdrs.empty()) {
                            size_t h = rng.pick(hdrs);
                            static const std::vector<std::string> tags = { "INTE", "REAL", "DOUB", "LOGI", "CHAR", "MESS", "C008", "C004", "C013", "C0 8", "C-08", "C+09", "Cabc", "XXXX", "INT ", "C000" };
                            b.replace(h + 25, 4, rng.pick(tags)); kind = "type";
                        } else if (which == 2 && !hdrs.empty()) {
                            size_t h = rng.pick(hdrs);
                            size_t off = rng.pick(std::vector<size_t>{ 1, 10, 24, 29, 30, 2, 5, 11, 23 });
                            b[h + off] = rng.pick(std::vector<char>{ ' ', '\'', 'A', '\n', '1' }); kind = "hdrchar";
                        } else {
                            size_t p = rng.below(b.size());
                            b[p] = bodyAlpha[rng.below(bodyAlpha.size())]; kind = "bodychar";
                        }
                    }
                    std::string mp = tmp + "/Y.FUNRST";
                    vh::spit(mp, b);
                    std::string ans;
                    try { ans = fmtListing(mp); } catch (const std::exception&) { ans = "err"; }
                    sink.emit("eclfmtrd.read " + vh::hex(b), ans);
                    sink.count("fmtread." + kind);
                    sink.count(ans == "err" ? "fmtread.answer.err" : (ans.find(":err") != std::string::npos ? "fmtread.answer.some-array-err" : "fmtread.answer.ok"));
                }
                fs::remove(path);
            }

            // REAL / DOUB fields: the real writer's column text against Model/FmtReal.lean, which
            // gets the snprintf text and the sign as inputs
            {
                int nv = tier == "thorough" ? 3000 : 500;
                auto ed = extremeDoubles(); auto ef = extremeFloats();
                for (int ixi = 0; ixi < 2; ++ixi) {
                    std::vector<double> dv; std::vector<float> fv;
                    for (int k = 0; k < nv; ++k) {
                        double d = rng.coin(1, 5) ? rng.pick(ed) : (rng.coin(1, 3) ? vh::f64FromBits(rng.next()) : (rng.unit() - 0.5) * std::pow(10.0, rng.range(-320, 308)));
                        if (!std::isfinite(d)) d = -9.99999999999995e-101;     // rounds up into the next decade
                        float f = rng.coin(1, 5) ? rng.pick(ef) : (rng.coin(1, 3) ? vh::f32FromBits((uint32_t) rng.next()) : (float) ((rng.unit() - 0.5) * std::pow(10.0, rng.range(-44, 38))));
                        if (!std::isfinite(f)) f = 9.9999999e9f;
                        dv.push_back(d); fv.push_back(f);
                    }
                    for (double d : { 9.99999999999995e98, 9.9999999999999e98, 1e99, 1e-100, 9.99999999999995e-101, -1e-99, 1e100, 1e-101 }) dv.push_back(d);
                    std::string pd = tmp + "/RD.FUNRST", pr = tmp + "/RR.FUNRST";
                    { EclOutput out(pd, true, std::ios::out); if (ixi) out.set_ix(); out.write("D", dv); }
                    { EclOutput out(pr, true, std::ios::out); if (ixi) out.set_ix(); out.write("R", fv); }
                    std::string td = vh::slurp(pd).substr(31), tr = vh::slurp(pr).substr(31), fd, fr;
                    for (char c : td) if (c != '\n') fd += c;
                    for (char c : tr) if (c != '\n') fr += c;
                    for (size_t k = 0; k < dv.size(); ++k) {
                        char b[64]; std::snprintf(b, sizeof b, "%19.13E", dv[k]);
                        sink.emit(std::string("fmtreal.doub ") + (ixi ? "1 " : "0 ") + (dv[k] == 0.0 ? "1 " : "0 ") + (dv[k] < 0.0 ? "1 " : "0 ") + vh::hex(std::string(b)), vh::hex(fd.substr(k * 23, 23)));
                        sink.count("fmtreal.doub");
                    }
                    for (size_t k = 0; k < fv.size(); ++k) {
                        char b[64]; std::snprintf(b, sizeof b, "%10.7E", fv[k]);
                        sink.emit(std::string("fmtreal.real ") + (ixi ? "1 " : "0 ") + (fv[k] == 0.0f ? "1 " : "0 ") + (fv[k] < 0.0f ? "1 " : "0 ") + vh::hex(std::string(b)), vh::hex(fr.substr(k * 17, 17)));
                        sink.count("fmtreal.real");
                    }
                    fs::remove(pd); fs::remove(pr);
                }
            }
            // the DOUB token lambda on single tokens: printed doubles and damaged ones
            int nt = tier == "thorough" ? 6000 : 800;
            static const std::string tokAlpha = "0123456789+-.ED";
            auto ed = extremeDoubles();
            for (int k = 0; k < nt; ++k) {
                std::string tok;
                int how = rng.range(0, 3);
                if (how <= 1) {
                    double v = rng.coin(1, 3) ? rng.pick(ed) : (rng.coin() ? vh::f64FromBits(rng.next()) : (rng.unit() - 0.5) * std::pow(10.0, rng.range(-320, 308)));
                    if (!std::isfinite(v)) v = 0.1;
                    char buf[64];
                    const char* fmts[] = { "%.13E", "%.16E", "%.17g", "%.3f", "%.20E" };
                    std::snprintf(buf, sizeof buf, fmts[rng.below(5)], v);
                    tok = buf;
                    if (rng.coin(1, 3)) { auto p = tok.find('E'); if (p != std::string::npos) { if (rng.coin()) tok[p] = 'D'; else tok.erase(p, 1); } }
                    if (how == 1 && !tok.empty()) tok[rng.below(tok.size())] = tokAlpha[rng.below(tokAlpha.size())];
                } else {
                    int len = rng.range(1, 12);
                    for (int i = 0; i < len; ++i) tok += tokAlpha[rng.below(tokAlpha.size())];
                }
                std::string ans;
                try { auto v = readFormattedDoubArray(tok + " ", 1, 0); ans = vh::hexF64(v.at(0)); } catch (const std::exception&) { ans = "err"; }
                sink.emit("eclfmtrd.strtod " + vh::hex(tok), ans);
                sink.count(ans == "err" ? "strtod.err" : "strtod.value");
                try { auto v = readFormattedRealArray(tok + " ", 1, 0); ans = vh::hexF32(v.at(0)); } catch (const std::exception&) { ans = "err"; }
                sink.emit("eclfmtrd.stof " + vh::hex(tok), ans);
                sink.count(ans == "err" ? "stof.err" : "stof.value");
            }
        }
        sink.writeStats(outdir + "/stats.json");
        return 0;
    }

    if (mode == "prop") {
        vh::PropLog log(outdir + "/prop.txt");
        long fileNo = 0;
        std::map<std::string, long> stats;
        for (int fmt = 0; fmt < 2; ++fmt) {
            for (int ixi = 0; ixi < 2; ++ixi) {
                bool formatted = fmt == 1, ix = ixi == 1;
                for (auto t : types) {
                    std::vector<size_t> ls = (t == MESS) ? std::vector<size_t>{0} : lengthsFor(t, tier, rng);
                    for (size_t n : ls) {
                        int esz = (t == C0NN) ? rng.pick(std::vector<int>{ 4, 8, 9, 10, 17, 40, 77, 78, 99, 128 }) : 0;
                        // a file of two arrays so that the second one depends on the seek arithmetic
                        std::vector<TArr> arrs = { makeArr(rng, t, n, esz), makeArr(rng, INTE, 3, 0) };
                        if (formatted) {
                            // formatted reals are exact only to printed precision: keep REAL/DOUB
                            // to values that print exactly (checked separately below)
                            for (auto& a : arrs) {
                                for (auto& v : a.fv) v = (float) (int) (rng.below(2000)) - 1000.0f;
                                for (auto& v : a.dv) v = (double) (int64_t) (rng.below(2000000)) - 1000000.0;
                            }
                        }
                        std::string path = tmp + "/P" + std::to_string(fileNo++) + (formatted ? ".FUNRST" : ".UNRST");
                        {
                            EclOutput out(path, formatted, std::ios::out);
                            if (ix) out.set_ix();
                            for (auto& a : arrs) writeArr(out, a);
                        }
                        std::string key = std::string(formatted ? "fmt" : "bin") + (ix ? ".ix." : ".ecl.") + tyName(t) + ".n" + std::to_string(n);
                        try {
                            EclFile f(path);
                            f.loadData();
                            if (f.size() != arrs.size()) { log.fail(key, "array count " + std::to_string(f.size())); }
                            else {
                                bool good = true;
                                for (size_t i = 0; i < arrs.size(); ++i) { std::string why; if (!sameArr(arrs[i], f, i, why)) { log.fail(key, "roundtrip array " + std::to_string(i) + ": " + why); good = false; break; } }
                                if (good) log.ok();
                            }
                        } catch (const std::exception& e) { log.fail(key, std::string("reader threw: ") + e.what()); }
                        // the same file through the other access paths: arrays loaded by an index list in
                        // reverse order (the last array of the file first), then once more after clearData()
                        try {
                            EclFile f(path);
                            std::vector<int> idx; for (int i = (int) arrs.size() - 1; i >= 0; --i) idx.push_back(i);
                            f.loadData(idx);
                            bool good = f.size() == arrs.size();
                            for (size_t i = 0; good && i < arrs.size(); ++i) { std::string why; if (!sameArr(arrs[i], f, i, why)) { log.fail(key + ".reverse-index-load", "array " + std::to_string(i) + ": " + why); good = false; } }
                            if (good) log.ok();
                            f.clearData();
                            good = true;
                            for (size_t i = 0; good && i < arrs.size(); ++i) { std::string why; if (!sameArr(arrs[i], f, i, why)) { log.fail(key + ".after-clearData", "array " + std::to_string(i) + ": " + why); good = false; } }
                            if (good) log.ok();
                        } catch (const std::exception& e) { log.fail(key + ".access-paths", std::string("reader threw: ") + e.what()); }
                        if (!formatted) {
                            std::string why;
                            if (!specParse(vh::slurp(path), arrs, ix, why)) log.fail(key, "layout: " + why); else log.ok();
                        }
                        stats[std::string(formatted ? "fmt" : "bin") + "." + tyName(t)]++;
                        fs::remove(path);
                    }
                }
                // formatted REAL/DOUB to printed precision: each extreme value in a file of its
                // own (so a failure names the value), random values in bulk
                if (formatted) {
                    auto ed = extremeDoubles(); auto ef = extremeFloats();
                    int extra = tier == "thorough" ? 4000 : 400;
                    std::vector<TArr> files;
                    for (double v : ed) { TArr d; d.name = "DOUBX"; d.type = DOUB; d.dv = { v }; files.push_back(d); }
                    for (float v : ef) { TArr r; r.name = "REALX"; r.type = REAL; r.fv = { v }; files.push_back(r); }
                    TArr d; d.name = "DOUBR"; d.type = DOUB;
                    TArr r; r.name = "REALR"; r.type = REAL;
                    for (int i = 0; i < extra; ++i) {
                        d.dv.push_back((rng.unit() - 0.5) * std::pow(10.0, rng.range(-307, 307)));
                        r.fv.push_back((float) ((rng.unit() - 0.5) * std::pow(10.0, rng.range(-37, 37))));
                    }
                    files.push_back(d); files.push_back(r);
                    for (auto& a : files) {
                        std::string path = tmp + "/R" + std::to_string(fileNo++) + ".FUNRST";
                        { EclOutput out(path, true, std::ios::out); if (ix) out.set_ix(); writeArr(out, a); }
                        std::string fl = std::string("fmt") + (ix ? ".ix" : ".ecl");
                        try {
                            EclFile f(path); f.loadData();
                            if (a.type == DOUB) {
                                auto& dv = f.get<double>(0);
                                for (size_t i = 0; i < a.dv.size(); ++i) {
                                    double x = a.dv[i], b = dv[i];
                                    bool okv;
                                    if (std::isnan(x)) okv = std::isnan(b);
                                    else if (std::isinf(x)) okv = (x == b);
                                    else if (x == 0.0) okv = (b == 0.0);
                                    // 14 significant digits are printed; subnormals carry fewer bits than that
                                    else okv = std::fabs(b - x) <= 1e-13 * std::fabs(x) || std::fabs(b - x) <= 4.95e-324;
                                    if (!okv) log.fail(fl + ".DOUB.value." + vh::hexF64(x), "read back " + vh::hexF64(b)); else log.ok();
                                }
                            } else {
                                auto& fv = f.get<float>(0);
                                for (size_t i = 0; i < a.fv.size(); ++i) {
                                    float x = a.fv[i], b = fv[i];
                                    bool okv;
                                    if (std::isnan(x)) okv = std::isnan(b);
                                    else if (std::isinf(x)) okv = (x == b);
                                    else if (x == 0.0f) okv = (b == 0.0f);
                                    else okv = std::fabs((double) b - (double) x) <= 1.5e-7 * std::fabs((double) x) || std::fabs((double) b - (double) x) <= 1.5e-45;
                                    if (!okv) log.fail(fl + ".REAL.value." + vh::hexF32(x), "read back " + vh::hexF32(b)); else log.ok();
                                }
                            }
                        } catch (const std::exception& e) {
                            std::string which = a.size() == 1 ? (a.type == DOUB ? vh::hexF64(a.dv[0]) : vh::hexF32(a.fv[0])) : std::string("bulk");
                            log.fail(fl + (a.type == DOUB ? ".DOUB.value." : ".REAL.value.") + which, std::string("reader threw: ") + e.what());
                        }
                        fs::remove(path);
                    }
                }
            }
        }
        std::ofstream st(outdir + "/prop_stats.json");
        st << "{\n  \"checked\": " << log.checked << ",\n  \"failed\": " << log.failed;
        for (auto& kv : stats) st << ",\n  \"" << kv.first << "\": " << kv.second;
        st << "\n}\n";
        return 0;
    }
    std::cerr << "unknown mode\n";
    return 2;
}
