"""PvtxTable.cpp / TableManager.cpp (which table is in effect in which PVT region)
-> lean/OpmVerif/Gen/PvtRegion.lean

The hand-written model `Model/PvtRegion.lean` mirrors

  PvtxTable::recordRanges      cut the keyword's records at the records whose item 0 has no value,
                               push the range still open at the end
  PvtxTable::init              refuse tableIdx >= ranges.size(), refuse a defaulted region 1,
                               `while ((tableIdx > 0) && isempty(tableIdx)) --tableIdx;`,
                               then read the records of ranges[tableIdx]
  TableManager::initFullTables one PvtxTable per range, in order
  TableManager::initSimpleTableContainer
                               `lastComplete` = index of the last record with data; a record
                               without data takes the record at `lastComplete`; record 0 must have data

This translator checks that the sources still have exactly these shapes (TranslateError
otherwise: the model no longer describes the code) and emits as data the keywords that are
routed through each of the two mechanisms.
"""
import os, re
from .common import strip_comments, TranslateError

PVTX = "opm/input/eclipse/EclipseState/Tables/PvtxTable.cpp"
TM = "opm/input/eclipse/EclipseState/Tables/TableManager.cpp"


def squash(s):
    return re.sub(r"\s+", "", s)


def body_of(src, header_re, what):
    """Text of the brace-balanced body following the first match of header_re."""
    m = re.search(header_re, src)
    if not m:
        raise TranslateError(f"{what}: definition not found")
    i = src.index("{", m.end() - 1)
    depth, j = 0, i
    while j < len(src):
        if src[j] == "{":
            depth += 1
        elif src[j] == "}":
            depth -= 1
            if depth == 0:
                return src[i + 1:j]
        j += 1
    raise TranslateError(f"{what}: unbalanced braces")


def generate(repo):
    p1, p2 = os.path.join(repo, PVTX), os.path.join(repo, TM)
    pv = strip_comments(open(p1).read())
    tm = strip_comments(open(p2).read())

    # --- PvtxTable::init ---------------------------------------------------------------
    init = squash(body_of(pv, r"void\s+PvtxTable::init\s*\([^)]*\)\s*\{", "PvtxTable::init"))
    expected_head = (
        "constautoranges=recordRanges(keyword);autotableIdx=tableIdx0;"
        "if(tableIdx>=ranges.size())throwstd::invalid_argument(")
    if not init.startswith(expected_head):
        raise TranslateError(f"{PVTX}: init: range lookup / bound check not recognised")
    need = [
        "autoisempty=[&ranges](constsize_tix){constauto&[begin,end]=ranges[ix];returnbegin==end;};",
        "if((tableIdx==size_t{0})&&isempty(tableIdx)){throwOpmInputError{",
        "while((tableIdx>size_t{0})&&isempty(tableIdx)){--tableIdx;}",
        "autorange=ranges[tableIdx];for(size_trowIdx=range.first;rowIdx<range.second;rowIdx++){"
        "constauto&deckRecord=keyword.getRecord(rowIdx);",
    ]
    pos = 0
    for n in need:
        k = init.find(n, pos)
        if k < 0:
            raise TranslateError(f"{PVTX}: init: expected statement missing or out of order: {n[:90]}")
        pos = k + len(n)
    # nothing else may touch tableIdx between the first-region test and the use of the range
    between = init[init.find(need[1]):init.find(need[3])]
    if len(re.findall(r"tableIdx(?!0)", between)) != 5 or not between.endswith(need[2] + "{"):
        raise TranslateError(f"{PVTX}: init: tableIdx is used in an unexpected way between the checks and the range lookup")
    if "find_if" in init or "ranges.begin()" in init:
        raise TranslateError(f"{PVTX}: init: source-table search is not the backward while loop")

    # --- PvtxTable::recordRanges ---------------------------------------------------------
    rr = squash(body_of(pv, r"PvtxTable::recordRanges\s*\([^)]*\)\s*\{", "PvtxTable::recordRanges"))
    rr_expected = (
        "std::vector<std::pair<size_t,size_t>>ranges;size_tstartRecord=0;size_trecordIndex=0;"
        "while(recordIndex<keyword.size()){constauto&item=keyword.getRecord(recordIndex).getItem(0);"
        "if(!item.hasValue(0)){ranges.push_back(std::make_pair(startRecord,recordIndex));"
        "startRecord=recordIndex+1;}recordIndex++;}"
        "ranges.push_back(std::make_pair(startRecord,recordIndex));returnranges;")
    if rr != rr_expected:
        raise TranslateError(f"{PVTX}: recordRanges no longer has the modelled shape")

    # --- TableManager::initFullTables ------------------------------------------------------
    ift = squash(body_of(tm, r"void\s+TableManager::initFullTables\s*\([^)]*\)\s*\{", "TableManager::initFullTables"))
    if not ift.endswith("constauto&tableKeyword=deck[keywordName].back();intnumTables=TableType::numTables(tableKeyword);"
                        "for(inttableIdx=0;tableIdx<numTables;++tableIdx)tableVector.emplace_back(tableKeyword,tableIdx);"):
        raise TranslateError(f"{TM}: initFullTables no longer builds one table per range in order")
    nt = squash(body_of(pv, r"PvtxTable::numTables\s*\([^)]*\)\s*\{", "PvtxTable::numTables"))
    if nt != "autoranges=recordRanges(keyword);returnranges.size();":
        raise TranslateError(f"{PVTX}: numTables is no longer the number of record ranges")
    full = sorted(set(re.findall(r'initFullTables\s*\(\s*deck\s*,\s*"(\w+)"', tm)))
    for kw in ("PVTO", "PVTG"):
        if kw not in full:
            raise TranslateError(f"{TM}: {kw} is no longer initialised through initFullTables")

    # --- TableManager::initSimpleTableContainer -----------------------------------------------
    m = re.search(r"void\s+TableManager::initSimpleTableContainer\s*\(const Deck& deck,\s*const std::string& keywordName,\s*"
                  r"const std::string& tableName,\s*size_t numTables\)\s*\{", tm)
    if not m:
        raise TranslateError(f"{TM}: initSimpleTableContainer (4 arguments) not found")
    sc = squash(body_of(tm[m.start():], r"initSimpleTableContainer\s*\([^)]*\)\s*\{", "initSimpleTableContainer"))
    sc_need = [
        "autolastComplete=0*numTables;constauto&tableKeyword=deck[keywordName].back();"
        "for(size_ttableIdx=0;tableIdx<tableKeyword.size();++tableIdx){"
        "constauto&dataItem=tableKeyword.getRecord(tableIdx).getItem(\"DATA\");if(dataItem.data_size()>0){",
        "std::shared_ptr<TableType>table=std::make_shared<TableType>(dataItem,tableIdx);"
        "container.addTable(tableIdx,table);lastComplete=tableIdx;",
        "elseif(tableIdx>static_cast<size_t>(0)){constauto&item=tableKeyword.getRecord(lastComplete).getItem(\"DATA\");"
        "container.addTable(tableIdx,std::make_shared<TableType>(item,tableIdx));}else{throwOpmInputError{",
    ]
    pos = 0
    for n in sc_need:
        k = sc.find(n, pos)
        if k < 0:
            raise TranslateError(f"{TM}: initSimpleTableContainer: expected statement missing or out of order: {n[:90]}")
        pos = k + len(n)
    if sc.count("lastComplete") != 3:
        raise TranslateError(f"{TM}: initSimpleTableContainer: lastComplete is used in an unexpected way")
    simple = sorted(set(re.findall(r'initSimpleTableContainer<\w+>\s*\(\s*deck\s*,\s*"(\w+)"', tm)))
    for kw in ("PVDO", "PVDG"):
        if kw not in simple:
            raise TranslateError(f"{TM}: {kw} is no longer initialised through initSimpleTableContainer")

    def lst(xs):
        return "[" + ", ".join(f'"{x}"' for x in xs) + "]"

    text = "\n".join([
        f"/- GENERATED by translate/pvtregion.py from {PVTX} and {TM} — do not edit. -/",
        "namespace OpmVerif.Gen.PvtRegion", "",
        "/-- Keywords whose region tables are built by `initFullTables` (`PvtxTable::init`:",
        "backward search for the last non-defaulted table). -/",
        f"def fullTableKeywords : List String := {lst(full)}", "",
        "/-- Keywords whose region tables are built by `initSimpleTableContainer` (`lastComplete`). -/",
        f"def simpleContainerKeywords : List String := {lst(simple)}", "",
        "end OpmVerif.Gen.PvtRegion", ""])
    return {"module": "OpmVerif.Gen.PvtRegion", "file": "PvtRegion.lean", "text": text, "sources": [p1, p2]}
