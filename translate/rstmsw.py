"""AggregateMSWData.cpp, opm/io/eclipse/rst/segment.{cpp,hpp}, VectorItems/msw.hpp
->  lean/OpmVerif/Gen/RstMsw.lean

Multi-segment-well part of the restart slot tables (C05, second round).  The writer addresses one segment's window
through a running base index (`iSeg[iS + Ix::OutSeg]`, `rSeg[baseIndex + Ix::ValveLength]`, `iSeg[iS + 4]`):

  swriter   one entry per statement that stores into ISEG / RSEG with an index of the form  <base> + <item>
            (item = enumerator of VectorItems::ISeg::index / RSeg::index, or a number -> slot "#n"); anything else
            (`rSeg[8]`, the ordered-segment loop index, ILBS / ILBR) is computed-index and only counted
  sreader   one entry per read of iseg / rseg in the RstSegment constructor
Local constants `const auto volFromLengthUnitConv = units.from_si(M::length, units.from_si(M::length, units.from_si(M::length, 1.)))`
are recognised as k-fold unit factors (`fromSIUnitPow "length" 3`), `c * x` with such a constant as a shape of its own.
"""
import os, re
from .common import TranslateError
from . import rstslots as R

WRITER_FILE = "opm/output/eclipse/AggregateMSWData.cpp"
READER_FILE = "opm/io/eclipse/rst/segment.cpp"
READER_HPP = "opm/io/eclipse/rst/segment.hpp"

S_ARRAY_OF_NS = {"ISeg": "ISEG", "RSeg": "RSEG"}
S_ARRAY_TY = {"ISEG": "int", "RSEG": "double"}
S_WRITER_VARS = {"iSeg", "rSeg"}
S_READER_ARRAYS = {"iseg": "ISEG", "rseg": "RSEG"}
S_NS_OF_ARRAY = {v: k for k, v in S_ARRAY_OF_NS.items()}
BASES = {"iS", "baseIndex"}


def simple_or_difference(e):
    """simple source, or a sum / difference of simple sources (segment.totalLength() - outlet_segment.totalLength())"""
    e = R.strip_paren(e)
    if e[0] == "bin" and e[1] in "+-":
        return simple_or_difference(e[2]) and simple_or_difference(e[3])
    return ORIG_SIMPLE(e)


ORIG_SIMPLE = R.is_simple_source


class Patched:
    def __enter__(self):
        self.saved = (R.ARRAY_OF_NS, R.ARRAY_TY, R.WRITER_ARRAY_VARS, R.READER_ARRAYS, R.NS_OF_ARRAY, R.is_simple_source)
        R.ARRAY_OF_NS, R.ARRAY_TY, R.WRITER_ARRAY_VARS = S_ARRAY_OF_NS, S_ARRAY_TY, S_WRITER_VARS
        R.READER_ARRAYS, R.NS_OF_ARRAY = S_READER_ARRAYS, S_NS_OF_ARRAY
        R.is_simple_source = simple_or_difference
        return self

    def __exit__(self, *a):
        R.ARRAY_OF_NS, R.ARRAY_TY, R.WRITER_ARRAY_VARS, R.READER_ARRAYS, R.NS_OF_ARRAY, R.is_simple_source = self.saved


class MswWriter(R.WriterTranslator):
    def __init__(self, res, aliases, rel):
        super().__init__(res, aliases, rel)
        self.unitpow = {}       # per function: local constant -> (measure, k)

    def function(self, ns, name, body, header=()):
        # local constants that are k-fold unit factors
        self.unitpow = {}
        w = R.Walker()
        w.block(body, ())
        for kind, toks, guard in w.stmts:
            if kind != "simple":
                continue
            d = R.split_decl(list(toks))
            if not d:
                continue
            try:
                e = R.parse_expr(list(d[2]))
            except R.ParseFail:
                continue
            ch = R.from_si_chain(e)
            if ch and len(set(ch[0])) == 1 and R.num_value(ch[1]) == 1.0:
                self.unitpow[d[0]] = (ch[0][0], len(ch[0]))
        super().function(ns, name, body, header)

    def window_ref(self, e, aliases, refs):
        e = R.strip_paren(e)
        if e[0] == "index" and e[1][0] == "name" and e[1][1] in S_WRITER_VARS:
            arr = {"iSeg": "ISEG", "rSeg": "RSEG"}[e[1][1]]
            ix = R.strip_paren(e[2])
            if ix[0] == "bin" and ix[1] == "+" and ix[2][0] == "name" and ix[2][1] in BASES:
                inner = R.strip_paren(ix[3])
                v = R.num_value(inner)
                if isinstance(v, int):
                    return (arr, f"#{v}", v)
                if inner[0] == "name":
                    r = self.res.resolve(inner[1], aliases)
                    if r and r[0] == S_NS_OF_ARRAY[arr] + ".index":
                        return (arr, r[1], r[2])
            return ("computed", e[1][1], R.raw(e[2]))
        return None

    def classify(self, rhs, aliases, refs, lambdas, ty):
        e = R.strip_paren(rhs)
        if e[0] == "bin" and e[1] == "*" and e[2][0] == "name" and e[2][1] in self.unitpow and R.is_simple_source(e[3]):
            m, k = self.unitpow[e[2][1]]
            return f".fromSIUnitPow {R.lean_str(m)} {k}", R.raw(R.strip_paren(e[3]))
        # smry.get_well_var(wname, "WBHP", 0): a well level summary vector in output units
        if e[0] == "call" and e[1][0] == "member" and e[1][2] == "get_well_var" and len(e[2]) == 3 and e[2][1][0] == "str":
            return f".smry {R.lean_str(e[2][1][1][1:-1])} false", e[2][1][1][1:-1]
        return super().classify(rhs, aliases, refs, lambdas, ty)


class MswReader(R.ReaderTranslator):
    def ref(self, e, aliases):
        e = R.strip_paren(e)
        if e[0] == "index" and e[1][0] == "name" and e[1][1] in S_READER_ARRAYS:
            arr = S_READER_ARRAYS[e[1][1]]
            ix = R.strip_paren(e[2])
            if ix[0] == "name":
                r = self.res.resolve(ix[1], aliases)
                if r and r[0] == S_NS_OF_ARRAY[arr] + ".index":
                    return arr, r[1], r[2]
            v = R.num_value(ix)
            if isinstance(v, int):
                return arr, f"#{v}", v
            return arr, None, R.raw(ix)
        return None


def translate(repo):
    sources, enums = [], {}
    vi_dir = os.path.join(repo, R.VI_DIR)
    for fn in sorted(os.listdir(vi_dir)):
        if fn.endswith(".hpp"):
            path, toks = R.load(repo, os.path.join(R.VI_DIR, fn))
            if fn == "msw.hpp":
                sources.append(path)
            enums.update(R.parse_enums(toks, fn))
    for need in ("ISeg.index", "RSeg.index"):
        if need not in enums:
            raise TranslateError(f"VectorItems/msw.hpp: enum {need} not found")
    res = R.Resolver(enums)
    with Patched():
        path, toks = R.load(repo, WRITER_FILE)
        sources.append(path)
        wt = MswWriter(res, R.file_level_aliases(toks), WRITER_FILE)
        wt.helpers = R.single_return_helpers(toks)
        for ns, name, header, body, pidx in R.functions(toks):
            wt.function(ns, name, body, header)
        writer = wt.entries
        named = [w for w in writer if w["cls"] == "named"]
        if len(named) < 60:
            raise TranslateError(f"{WRITER_FILE}: only {len(named)} ISEG/RSEG window writes of the form base+item recognised (expected ≈ 90)")
        path, toks = R.load(repo, READER_FILE)
        sources.append(path)
        rt = MswReader(res, R.file_level_aliases(toks))
        rt.helpers = R.single_return_helpers(toks)
        rt.constructor(toks, "RstSegment", dict(rt.file_aliases, **R.collect_aliases(toks)), "segment.")
        hpath, htoks = R.load(repo, READER_HPP)
        sources.append(hpath)
        mt = R.member_types(htoks)
        for r in rt.entries:
            r["fty"] = mt.get(r["field"][len("segment."):].split(".")[0], "other")
        reader = rt.entries
        if len([r for r in reader if r["idx"] >= 0]) < 35:
            raise TranslateError(f"{READER_FILE}: only {len(reader)} window reads recognised (expected ≈ 45)")
    for i, w in enumerate(writer):
        w["rpre"], w["rsrc"] = w["pre"], w["src"]
        seen = 0
        while w["rpre"].startswith(".copyOf ") and seen < 4:
            slot = w["rpre"][len(".copyOf "):].strip('"')
            prev = [x for x in writer[:i] if x["fn"] == w["fn"] and x["arr"] == w["arr"] and x["slot"] == slot]
            if not prev:
                break
            w["rpre"], w["rsrc"] = prev[-1].get("rpre", prev[-1]["pre"]), prev[-1].get("rsrc", prev[-1]["src"])
            seen += 1
    return dict(enums=enums, writer=writer, reader=reader, sources=sources)


def render(d):
    L = R.lean_str
    o = ["/- GENERATED by translate/rstmsw.py from opm/output/eclipse/AggregateMSWData.cpp, opm/io/eclipse/rst/segment.{cpp,hpp}",
         "   and VectorItems/msw.hpp — do not edit. -/",
         "import OpmVerif.Model.RstSlot", "",
         "set_option linter.unusedVariables false", "namespace OpmVerif.Gen.RstMsw", "open OpmVerif.RstSlot", ""]
    o.append("def senums : List (String × List (String × Int)) := [")
    o.append(",\n".join(f"  ({L(q)}, [" + ", ".join(f"({L(n)}, {v})" for n, v in d["enums"][q]) + "])" for q in ("ISeg.index", "RSeg.index")) + "]")
    o.append("")
    o.append("/-- One entry per store into ISEG / RSEG at `<segment base> + <item>`. -/")
    o.append("def swriter : List WEntry := [")
    o.append(",\n".join(f"  ⟨{L(w['fn'])}, {L(w['arr'])}, {L(w['slot'])}, {w['idx']}, {L(w['src'])}, {w['pre']}, {w['rpre']}, {R.guard_lean(w['guard'])}, {L(w['cls'])}⟩" for w in d["writer"]) + "]")
    o.append("")
    o.append("/-- One entry per read of iseg / rseg in the RstSegment constructor. -/")
    o.append("def sreader : List REntry := [")
    o.append(",\n".join(f"  ⟨{L(r['field'])}, {L(r['arr'])}, {L(r['slot'])}, {r['idx']}, {r['post']}, [], {L(r.get('fty', 'other'))}⟩" for r in d["reader"]) + "]")
    o += ["", "end OpmVerif.Gen.RstMsw", ""]
    return "\n".join(o)


def summary(d):
    out = {"writer": {}, "reader": {}}
    for w in d["writer"]:
        k = w["arr"] if w["arr"] != "?" else "(computed/bulk)"
        s = out["writer"].setdefault(k, {"recognised": 0, "opaque": 0})
        s["opaque" if w["pre"].startswith(".opaque") else "recognised"] += 1
    for r in d["reader"]:
        s = out["reader"].setdefault(r["arr"], {"recognised": 0, "opaque": 0})
        s["opaque" if r["post"].startswith(".opaque") or r["idx"] < 0 else "recognised"] += 1
    out["opaque_writer_texts"] = sorted({f"{w['fn']}: {w['arr']}[{w['slot']}] {w['pre'][8:]}" for w in d["writer"] if w["pre"].startswith(".opaque")})
    out["opaque_reader_texts"] = sorted({f"{r['field']}: {r['arr']}[{r['slot']}] {r['post'][8:]}" for r in d["reader"] if r["post"].startswith(".opaque")})
    return out


def generate(repo):
    d = translate(repo)
    return {"module": "OpmVerif.Gen.RstMsw", "file": "RstMsw.lean", "text": render(d), "sources": d["sources"]}


if __name__ == "__main__":
    import json, sys
    d = translate(sys.argv[1] if len(sys.argv) > 1 else os.environ.get("VERIF_REPO", "/repo"))
    print(json.dumps(summary(d), indent=1))
