"""AggregateGroupData.{cpp,hpp}, opm/io/eclipse/rst/group.{cpp,hpp}, VectorItems/group.hpp, CreateInteHead.cpp
->  lean/OpmVerif/Gen/RstGroup.lean

Group part of the restart slot tables (C05, second round).  Built on the expression-level machinery of
translate/rstslots.py (tokeniser, Pratt parser, statement walker, enum resolver):

  gwriter   one entry per statement of AggregateGroupData.cpp that stores into an IGRP / SGRP / XGRP window:
              iGrp[nwgmax + IGroup::X] = rhs     named slot behind the well-list prefix (offset NWGMAX)
              iGrp[nwgmax + 88]        = rhs     numeric slot behind the prefix ("#88")
              sGrp[Ix::X] = rhs                  Ix = SGroup::{index, prod_index, inj_index} (alias resolved per function)
              xGrp[Ix::X] = xGrp[Ix::Y]          copies
            other index expressions (the child / well index loops) are emitted as computed-index and only counted
  xkeys     the two std::map<std::string, size_t> initialisers of AggregateGroupData.hpp: summary vector -> XGRP item
            (groupKeyToIndex for ordinary groups, fieldKeyToIndex for FIELD) and the two key lists the writer loops over
  greader   one entry per read of igrp / sgrp / xgrp in the RstGroup constructor (mem-initialisers)
  sizes     NIGRPZ / NSGRPZ / NXGRPZ as set by CreateInteHead.cpp (NIGRPZ as a function of max(NWGMAX, NGMAXZ))
"""
import os, re
from .common import TranslateError
from . import rstslots as R

WRITER_FILE = "opm/output/eclipse/AggregateGroupData.cpp"
WRITER_HPP = "opm/output/eclipse/AggregateGroupData.hpp"
READER_FILE = "opm/io/eclipse/rst/group.cpp"
READER_HPP = "opm/io/eclipse/rst/group.hpp"
INTEHEAD_FILE = "opm/output/eclipse/CreateInteHead.cpp"

G_ARRAY_OF_NS = {"IGroup": "IGRP", "SGroup": "SGRP", "XGroup": "XGRP"}
G_ARRAY_TY = {"IGRP": "int", "SGRP": "float", "XGRP": "double", "ZGRP": "str"}
G_WRITER_VARS = {"iGrp", "sGrp", "xGrp"}
G_READER_ARRAYS = {"igrp": "IGRP", "sgrp": "SGRP", "xgrp": "XGRP"}
G_NS_OF_ARRAY = {v: k for k, v in G_ARRAY_OF_NS.items()}
OFFSET_NAMES = {"nwgmax"}          # iGrp[nwgmax + ...]
READER_OFFSETS = {"header.nwgmax"}  # igrp[header.nwgmax + ...]


class Patched:
    """rstslots' translators read their array vocabulary from module globals; swap in the group vocabulary."""

    def __enter__(self):
        self.saved = (R.ARRAY_OF_NS, R.ARRAY_TY, R.WRITER_ARRAY_VARS, R.READER_ARRAYS, R.NS_OF_ARRAY)
        R.ARRAY_OF_NS, R.ARRAY_TY, R.WRITER_ARRAY_VARS = G_ARRAY_OF_NS, G_ARRAY_TY, G_WRITER_VARS
        R.READER_ARRAYS, R.NS_OF_ARRAY = G_READER_ARRAYS, G_NS_OF_ARRAY
        return self

    def __exit__(self, *a):
        R.ARRAY_OF_NS, R.ARRAY_TY, R.WRITER_ARRAY_VARS, R.READER_ARRAYS, R.NS_OF_ARRAY = self.saved


class GroupWriter(R.WriterTranslator):
    def __init__(self, res, aliases, rel, sgprop_ok):
        super().__init__(res, aliases, rel)
        self.sgprop_ok = sgprop_ok

    def window_ref(self, e, aliases, refs):
        e = R.strip_paren(e)
        if e[0] == "index" and e[1][0] == "name" and e[1][1] in G_WRITER_VARS:
            ix = R.strip_paren(e[2])
            if ix[0] == "bin" and ix[1] == "+" and ix[2][0] == "name" and ix[2][1] in OFFSET_NAMES and e[1][1] == "iGrp":
                inner = R.strip_paren(ix[3])
                v = R.num_value(inner)
                if isinstance(v, int):
                    return ("IGRP", f"#{v}", v)
                if inner[0] == "name":
                    r = self.res.resolve(inner[1], aliases)
                    if r and r[0] == "IGroup.index":
                        return ("IGRP", r[1], r[2])
                return ("computed", e[1][1], R.raw(e[2]))
            v = R.num_value(ix)
            if isinstance(v, int) and e[1][1] != "iGrp":
                return ({"sGrp": "SGRP", "xGrp": "XGRP"}[e[1][1]], f"#{v}", v)
        return super().window_ref(e, aliases, refs)

    def slot_of(self, ix, aliases):
        r = super().slot_of(ix, aliases)
        if r:
            # the enum decides the array (SGroup.prod_index / inj_index / index, XGroup.index); IGRP named slots only
            # come through the nwgmax-offset form above
            if r[0].split(".")[0] == "IGroup":
                return None
        return r

    def classify(self, rhs, aliases, refs, lambdas, ty):
        e = R.strip_paren(rhs)
        if e[0] == "call" and e[1] == ("name", "sgprop") and len(e[2]) == 2 and e[2][0][0] == "name" \
                and re.match(r"(M|Opm::UnitSystem::measure)::\w+$", e[2][0][1]) and self.sgprop_ok:
            m = e[2][0][1].split("::")[-1]
            if R.is_simple_source(e[2][1]):
                return f".fromSI {R.lean_str(m)}", R.raw(e[2][1])
        # helper that receives the converter itself (getGLORate(sgprop, ...)): conversion + thresholds inside, not a plain source
        if e[0] == "call" and any(a == ("name", "sgprop") for a in e[2]):
            return f".opaque {R.lean_str(R.raw(rhs))}", ""
        return super().classify(rhs, aliases, refs, lambdas, ty)


class GroupReader(R.ReaderTranslator):
    def ref(self, e, aliases):
        e = R.strip_paren(e)
        if e[0] == "index" and e[1][0] == "name" and e[1][1] == "igrp":
            ix = R.strip_paren(e[2])
            if ix[0] == "bin" and ix[1] == "+" and R.raw(ix[2]) in READER_OFFSETS:
                inner = R.strip_paren(ix[3])
                if inner[0] == "name":
                    r = self.res.resolve(inner[1], aliases)
                    if r and r[0] == "IGroup.index":
                        return "IGRP", r[1], r[2]
                v = R.num_value(inner)
                if isinstance(v, int):
                    return "IGRP", f"#{v}", v
            return "IGRP", None, R.raw(ix)
        if e[0] == "index" and e[1][0] == "name" and e[1][1] in ("sgrp", "xgrp"):
            arr = G_READER_ARRAYS[e[1][1]]
            ix = R.strip_paren(e[2])
            if ix[0] == "name":
                r = self.res.resolve(ix[1], aliases)
                if r and r[0].split(".")[0] == G_NS_OF_ARRAY[arr]:
                    return arr, r[1], r[2]
            v = R.num_value(ix)
            if isinstance(v, int):
                return arr, f"#{v}", v
            return arr, None, R.raw(ix)
        return None


def parse_key_tables(toks):
    """`const std::map<std::string, size_t> NAME = { {"KEY", N}, ... };` and
    `const std::vector<std::string> NAME = {"K1", ...};` of AggregateGroupData.hpp."""
    maps, lists = {}, {}
    for i, (k, t) in enumerate(toks):
        if t == "=" and toks[i + 1][1] == "{" and toks[i - 1][0] == "id":
            name = toks[i - 1][1]
            end = R.match_close(toks, i + 1, "{", "}")
            body = toks[i + 2:end]
            decl = R.text(toks[max(0, i - 12):i])
            if "std::map" in decl:
                items, j = [], 0
                while j < len(body):
                    if body[j][1] == "{":
                        e2 = R.match_close(body, j, "{", "}")
                        inner = [x for x in body[j + 1:e2] if x[1] != ","]
                        if len(inner) != 2 or inner[0][0] != "str" or inner[1][0] != "num":
                            raise TranslateError(f"{WRITER_HPP}: entry of {name} not of the form {{\"KEY\", N}}")
                        items.append((inner[0][1][1:-1], int(inner[1][1], 0)))
                        j = e2 + 1
                    else:
                        j += 1
                maps[name] = items
            elif "std::vector" in decl and "std::string" in decl:
                lists[name] = [x[1][1:-1] for x in body if x[0] == "str"]
    return maps, lists


def window_sizes(toks):
    """`.params_GRPZ({ a, b, c, d })` of CreateInteHead.cpp; NIGRPZ = 97 + max(nwgmax, ngmaxz) style expression."""
    hits = [i for i, (k, t) in enumerate(toks) if t == "params_GRPZ" and toks[i + 1][1] == "(" and toks[i - 1][1] == "."]
    if len(hits) != 1:
        raise TranslateError(f"{INTEHEAD_FILE}: expected one call .params_GRPZ(...), found {len(hits)}")
    i = hits[0]
    j = R.match_close(toks, i + 1, "(", ")")
    inner = toks[i + 2:j]
    # argument is a call: getNGRPZ(nwgmax, ngmax, rspec)  -> look the function up
    txt = R.text(inner)
    m = re.match(r"getNGRPZ\(", txt)
    if not m:
        raise TranslateError(f"{INTEHEAD_FILE}: params_GRPZ argument {txt[:60]} not understood")
    fns = [f for f in R.functions(toks) if f[1] == "getNGRPZ"]
    if len(fns) != 1:
        raise TranslateError(f"{INTEHEAD_FILE}: function getNGRPZ not found")
    body = R.text(fns[0][3])
    flat = body.replace(" ", "")
    if "constautonwgmax=std::max(grpsz,wd.maxWellsPerGroup());" not in flat or "constautongmax=std::max(ngrp,wd.maxGroupsInField());" not in flat:
        raise TranslateError(f"{INTEHEAD_FILE}: getNGRPZ no longer derives nwgmax / ngmax as expected")
    mi = re.search(r"nigrpz=(\d+)\+std::max\(nwgmax,ngmax\);", flat)
    ms = re.search(r"nsgrpz=(\d+);", flat)
    mx = re.search(r"nxgrpz=(\d+)\+4\*num_water_tracer;", flat)
    if not (mi and ms and mx):
        raise TranslateError(f"{INTEHEAD_FILE}: getNGRPZ body not of the expected shape")
    return {"NIGRPZ_base": int(mi.group(1)), "NSGRPZ": int(ms.group(1)), "NXGRPZ": int(mx.group(1))}


def translate(repo):
    sources = []
    enums = {}
    vi_dir = os.path.join(repo, R.VI_DIR)
    for fn in sorted(os.listdir(vi_dir)):
        if fn.endswith(".hpp"):
            path, toks = R.load(repo, os.path.join(R.VI_DIR, fn))
            if fn == "group.hpp":
                sources.append(path)
            enums.update(R.parse_enums(toks, fn))
    for need in ("IGroup.index", "SGroup.index", "SGroup.prod_index", "SGroup.inj_index", "XGroup.index"):
        if need not in enums:
            raise TranslateError(f"VectorItems/group.hpp: enum {need} not found")
    res = R.Resolver(enums)

    with Patched():
        path, toks = R.load(repo, WRITER_FILE)
        sources.append(path)
        flat = R.text(toks).replace(" ", "")
        sgprop_ok = "autosgprop=[&units](constMu,constdoublex)->float{returnstatic_cast<float>(units.from_si(u,x));}" in flat
        wt = GroupWriter(res, R.file_level_aliases(toks), WRITER_FILE, sgprop_ok)
        for ns, name, header, body, pidx in R.functions(toks):
            wt.function(ns, name, body, header)
        writer = wt.entries
        if not sgprop_ok:
            raise TranslateError(f"{WRITER_FILE}: lambda `sgprop = [&units](const M u, const double x) -> float {{ return static_cast<float>(units.from_si(u, x)); }}` not found")
        named = [w for w in writer if w["cls"] == "named"]
        if len(named) < 60:
            raise TranslateError(f"{WRITER_FILE}: only {len(named)} IGRP/SGRP/XGRP window writes recognised (expected ≈ 90)")

        path, toks = R.load(repo, WRITER_HPP)
        sources.append(path)
        maps, lists = parse_key_tables(toks)
        for need in ("groupKeyToIndex", "fieldKeyToIndex"):
            if need not in maps or len(maps[need]) < 20:
                raise TranslateError(f"{WRITER_HPP}: map {need} not recognised")
        for need in ("restart_group_keys", "restart_field_keys"):
            if need not in lists or len(lists[need]) < 20:
                raise TranslateError(f"{WRITER_HPP}: list {need} not recognised")

        path, toks = R.load(repo, READER_FILE)
        sources.append(path)
        rt = GroupReader(res, R.file_level_aliases(toks))
        rt.constructor(toks, "RstGroup", dict(rt.file_aliases, **R.collect_aliases(toks)), "group.")
        hpath, htoks = R.load(repo, READER_HPP)
        sources.append(hpath)
        mt = R.member_types(htoks)
        for r in rt.entries:
            r["fty"] = mt.get(r["field"][len("group."):].split(".")[0], "other")
        reader = rt.entries
        if len([r for r in reader if r["idx"] >= 0]) < 50:
            raise TranslateError(f"{READER_FILE}: only {len(reader)} window reads recognised (expected ≈ 60)")

    path, toks = R.load(repo, INTEHEAD_FILE)
    sources.append(path)
    sizes = window_sizes(toks)

    # copies resolved as in rstslots
    for i, w in enumerate(writer):
        w["rpre"], w["rsrc"] = w["pre"], w["src"]
        seen = 0
        while w["rpre"].startswith(".copyOf ") and seen < 4:
            slot = w["rpre"][len(".copyOf "):].strip('"')
            prev = [x for x in writer[:i] if x["fn"] == w["fn"] and x["arr"] == w["arr"] and x["slot"] == slot]
            if not prev:
                break
            w["rpre"], w["rsrc"] = prev[-1].get("rpre", prev[-1]["pre"]), prev[-1].get("rsrc", prev[-1]["src"])
            seen += 1
    return dict(enums=enums, writer=writer, reader=reader, maps=maps, lists=lists, sizes=sizes, sources=sources)


def render(d):
    L = R.lean_str
    o = ["/- GENERATED by translate/rstgroup.py from opm/output/eclipse/AggregateGroupData.{cpp,hpp}, opm/io/eclipse/rst/group.{cpp,hpp},",
         "   VectorItems/group.hpp and CreateInteHead.cpp — do not edit. -/",
         "import OpmVerif.Model.RstSlot", "",
         "set_option linter.unusedVariables false", "namespace OpmVerif.Gen.RstGroup", "open OpmVerif.RstSlot", ""]
    o.append("/-- The index enums of VectorItems/group.hpp. -/")
    o.append("def genums : List (String × List (String × Int)) := [")
    rows = []
    for q in sorted(d["enums"]):
        if q.split(".")[0] in ("IGroup", "SGroup", "XGroup"):
            rows.append(f"  ({L(q)}, [" + ", ".join(f"({L(n)}, {v})" for n, v in d["enums"][q]) + "])")
    o.append(",\n".join(rows) + "]")
    o.append("")
    o.append("/-- Window sizes set by CreateInteHead.cpp (`getNGRPZ`): NIGRPZ = base + max(NWGMAX, NGMAXZ). -/")
    o.append(f"def sizeNIGRPZ (nwgmax ngmaxz : Nat) : Nat := {d['sizes']['NIGRPZ_base']} + max nwgmax ngmaxz")
    o.append(f"def nigrpzBase : Nat := {d['sizes']['NIGRPZ_base']}")
    o.append(f"def sizeNSGRPZ : Nat := {d['sizes']['NSGRPZ']}")
    o.append(f"def sizeNXGRPZ : Nat := {d['sizes']['NXGRPZ']}")
    o.append("")
    o.append("/-- Summary vector -> XGRP item, ordinary groups / FIELD (AggregateGroupData.hpp). -/")
    for name, lean in (("groupKeyToIndex", "groupKeyToIndex"), ("fieldKeyToIndex", "fieldKeyToIndex")):
        o.append(f"def {lean} : List (String × Int) := [" + ", ".join(f"({L(k)}, {v})" for k, v in d["maps"][name]) + "]")
    for name, lean in (("restart_group_keys", "restartGroupKeys"), ("restart_field_keys", "restartFieldKeys")):
        o.append(f"def {lean} : List String := [" + ", ".join(L(k) for k in d["lists"][name]) + "]")
    o.append("")
    o.append("/-- One entry per statement that stores into an IGRP / SGRP / XGRP window (IGRP indices are relative to the")
    o.append("NWGMAX prefix that holds the child well / group indices). -/")
    o.append("def gwriter : List WEntry := [")
    rows = []
    for w in d["writer"]:
        rows.append(f"  ⟨{L(w['fn'])}, {L(w['arr'])}, {L(w['slot'])}, {w['idx']}, {L(w['src'])}, {w['pre']}, {w['rpre']}, {R.guard_lean(w['guard'])}, {L(w['cls'])}⟩")
    o.append(",\n".join(rows) + "]")
    o.append("")
    o.append("/-- One entry per read of igrp / sgrp / xgrp in the RstGroup constructor. -/")
    o.append("def greader : List REntry := [")
    o.append(",\n".join(f"  ⟨{L(r['field'])}, {L(r['arr'])}, {L(r['slot'])}, {r['idx']}, {r['post']}, [], {L(r.get('fty', 'other'))}⟩" for r in d["reader"]) + "]")
    o += ["", "end OpmVerif.Gen.RstGroup", ""]
    return "\n".join(o)


def summary(d):
    out = {"writer": {}, "reader": {}}
    for w in d["writer"]:
        k = w["arr"] if w["arr"] != "?" else "(computed/bulk)"
        s = out["writer"].setdefault(k, {"recognised": 0, "opaque": 0})
        s["opaque" if w["pre"].startswith(".opaque") else "recognised"] += 1
    for r in d["reader"]:
        s = out["reader"].setdefault(r["arr"], {"recognised": 0, "opaque": 0})
        s["opaque" if r["post"].startswith(".opaque") or r["idx"] < 0 else "recognised"] += 1
    out["xgrp_keys"] = {k: len(v) for k, v in d["maps"].items()}
    out["opaque_writer_texts"] = sorted({f"{w['fn']}: {w['arr']}[{w['slot']}] {w['pre'][8:]}" for w in d["writer"] if w["pre"].startswith(".opaque")})
    return out


def generate(repo):
    d = translate(repo)
    return {"module": "OpmVerif.Gen.RstGroup", "file": "RstGroup.lean", "text": render(d), "sources": d["sources"]}


if __name__ == "__main__":
    import json, sys
    d = translate(sys.argv[1] if len(sys.argv) > 1 else os.environ.get("VERIF_REPO", "/repo"))
    print(json.dumps(summary(d), indent=1))
