"""opm/input/eclipse/EclipseState/Grid/EclipseGrid.{cpp,hpp} -> lean/OpmVerif/Gen/GridCopy.lean

Effect table of the operations of the `EclipseGrid` object state machine
(`Model/GridState.lean`) on the two history-carrying members

    active_volume   (cache of per-active-cell volumes)
    m_input_zcorn / m_input_coord   (what save() writes)

read off the function bodies (comments stripped, brace matching):

  * `resetACTNUM()`                : `active_volume = std::nullopt;` directly in the body      -> drop
  * `resetACTNUM(const int*)`      : the same statement directly in the `else { ... }` block of
                                     `if (actnum == nullptr)`                                  -> drop
                                     nested under any further condition / loop                 -> conditional
                                     absent                                                    -> keep
  * `EclipseGrid(src, zcorn, actnum)`: delegates to the (implicit, member-wise) copy constructor,
                                     ends with `resetACTNUM(actnum);`, fixes up the new ZCORN; what it
                                     does with `m_input_zcorn` inside `if (zcorn != nullptr) { }`:
                                     nothing -> keep, `.reset()` / `= std::nullopt` -> reset,
                                     any other assignment -> store
  * shape checks (TranslateError otherwise): `EclipseGrid(src, actnum)` delegates to
    `EclipseGrid(src, nullptr, actnum)`; the header declares no copy constructor / copy
    assignment of its own; `activeVolume()` fills the cache only under
    `if (!this->active_volume.has_value())`; `getCellVolume` reads it under
    `cellActive(globalIndex) && active_volume.has_value()` at `activeIndex(globalIndex)`;
    `save()` writes `m_input_zcorn`/`m_input_coord` when they hold a value, else
    `m_zcorn`/`m_coord`, and resets both; no other function of EclipseGrid.cpp assigns
    `active_volume`.
"""
import os, re
from .common import strip_comments, TranslateError

CPP = "opm/input/eclipse/EclipseState/Grid/EclipseGrid.cpp"
HPP = "opm/input/eclipse/EclipseState/Grid/EclipseGrid.hpp"


def _norm(s):
    return re.sub(r"\s+", "", s)


def _match_brace(src, open_pos):
    depth = 0
    for p in range(open_pos, len(src)):
        if src[p] == "{":
            depth += 1
        elif src[p] == "}":
            depth -= 1
            if depth == 0:
                return p
    raise TranslateError(f"{CPP}: unbalanced braces")


def _function(src, sig_re, what):
    """Returns (text between the signature's ')' and '{', body without the outer braces)."""
    ms = list(re.finditer(sig_re, src))
    if len(ms) != 1:
        raise TranslateError(f"{CPP}: expected exactly one definition of {what}, found {len(ms)}")
    m = ms[0]
    ob = src.index("{", m.end())
    cb = _match_brace(src, ob)
    return src[m.end():ob], src[ob + 1:cb]


def _blocks(body):
    """Yield (statement text, [headers of the enclosing blocks, outermost first]) for every
    ';'-terminated statement of `body`."""
    out, stack, cur, paren = [], [], "", 0
    for ch in body:
        if ch in "([":
            paren += 1; cur += ch
        elif ch in ")]":
            paren -= 1; cur += ch
        elif paren > 0:
            cur += ch
        elif ch == "{":
            stack.append(_norm(cur)); cur = ""
        elif ch == "}":
            if stack:
                stack.pop()
            cur = ""
        elif ch == ";":
            out.append((_norm(cur), list(stack))); cur = ""
        else:
            cur += ch
    return out


NULLOPT = ("this->active_volume=std::nullopt", "active_volume=std::nullopt",
           "this->active_volume.reset()", "active_volume.reset()")


def _cache_effect(stmts, allowed_enclosing, what):
    hits = [(s, st) for s, st in stmts if "active_volume" in s]
    if not hits:
        return "keep"
    for s, st in hits:
        if s not in NULLOPT:
            raise TranslateError(f"{CPP}: {what}: unexpected statement on active_volume: '{s}'")
    # a statement that drops the cache on every path through the block we model
    for s, st in hits:
        if st == allowed_enclosing:
            return "drop"
    return "conditional"


def generate(repo):
    cpp_path, hpp_path = os.path.join(repo, CPP), os.path.join(repo, HPP)
    src = strip_comments(open(cpp_path).read())
    hpp = strip_comments(open(hpp_path).read())

    # -- header: implicit member-wise copy, the three members are what we think they are
    if re.search(r"EclipseGrid\s*\(\s*const\s+EclipseGrid\s*&\s*\w*\s*\)", hpp) or \
       re.search(r"operator=\s*\(\s*const\s+EclipseGrid\s*&", hpp):
        raise TranslateError(f"{HPP}: EclipseGrid declares its own copy constructor/assignment; the model assumes the implicit member-wise copy")
    for decl in ("mutable std::optional<std::vector<double>> active_volume;",
                 "mutable std::optional<std::vector<double>> m_input_zcorn;",
                 "mutable std::optional<std::vector<double>> m_input_coord;"):
        if _norm(decl) not in _norm(hpp):
            raise TranslateError(f"{HPP}: member declaration '{decl}' not found")

    # -- resetACTNUM()
    _, body = _function(src, r"void\s+EclipseGrid::resetACTNUM\s*\(\s*\)", "resetACTNUM()")
    reset_all = _cache_effect(_blocks(body), [], "resetACTNUM()")
    nb = _norm(body)
    for need in ("this->m_actnum.assign(global_size,1);", "this->m_nactive=global_size;",
                 "std::iota(this->m_global_to_active.begin(),this->m_global_to_active.end(),0);",
                 "this->m_active_to_global=this->m_global_to_active;"):
        if need not in nb:
            raise TranslateError(f"{CPP}: resetACTNUM(): statement '{need}' not found")

    # -- resetACTNUM(const int*)
    _, body = _function(src, r"void\s+EclipseGrid::resetACTNUM\s*\(\s*const\s+int\s*\*\s*\w+\s*\)", "resetACTNUM(const int*)")
    nb = _norm(body)
    if not nb.startswith("if(actnum==nullptr)this->resetACTNUM();else{"):
        raise TranslateError(f"{CPP}: resetACTNUM(const int*): expected 'if (actnum == nullptr) this->resetACTNUM(); else {{ ... }}'")
    reset_mask = _cache_effect(_blocks(body), ["else"], "resetACTNUM(const int*)")

    # -- resetACTNUM(const std::vector<int>&): size check, then the pointer form
    _, body = _function(src, r"void\s+EclipseGrid::resetACTNUM\s*\(\s*const\s+std::vector<int>\s*&\s*\w+\s*\)", "resetACTNUM(const std::vector<int>&)")
    nb = _norm(body)
    if not (nb.startswith("if(actnum.size()!=getCartesianSize())throw") and nb.endswith("this->resetACTNUM(actnum.data());")):
        raise TranslateError(f"{CPP}: resetACTNUM(const std::vector<int>&): expected size check followed by resetACTNUM(actnum.data())")

    # -- EclipseGrid(src, zcorn, actnum)
    init, body = _function(src, r"EclipseGrid::EclipseGrid\s*\(\s*const\s+EclipseGrid\s*&\s*src\s*,\s*const\s+double\s*\*\s*zcorn\s*,\s*const\s+std::vector<int>\s*&\s*actnum\s*\)",
                           "EclipseGrid(src, zcorn, actnum)")
    if _norm(init) != ":EclipseGrid(src)":
        raise TranslateError(f"{CPP}: EclipseGrid(src, zcorn, actnum): expected delegation ': EclipseGrid(src)', found '{init.strip()}'")
    stmts = _blocks(body)
    if not stmts or stmts[-1] != ("resetACTNUM(actnum)", []):
        raise TranslateError(f"{CPP}: EclipseGrid(src, zcorn, actnum): last statement is not 'resetACTNUM(actnum);'")
    if ("zcorn_fixed=mapper.fixupZCORN(m_zcorn)", ["if(zcorn!=nullptr)"]) not in stmts:
        raise TranslateError(f"{CPP}: EclipseGrid(src, zcorn, actnum): 'zcorn_fixed = mapper.fixupZCORN(m_zcorn);' inside 'if (zcorn != nullptr)' not found")
    if ("m_zcorn[n]=zcorn[n]", ["if(zcorn!=nullptr)", "for(std::size_tn=0;n<sizeZcorn;n++)"]) not in stmts:
        raise TranslateError(f"{CPP}: EclipseGrid(src, zcorn, actnum): ZCORN copy loop not found")
    if any("m_input_coord" in s or "active_volume" in s or "m_coord" in s for s, _ in stmts):
        raise TranslateError(f"{CPP}: EclipseGrid(src, zcorn, actnum): touches m_input_coord / m_coord / active_volume (not modelled)")
    zin = [(s, st) for s, st in stmts if "m_input_zcorn" in s]
    if not zin:
        copy_mode = "keep"
    elif len(zin) == 1 and zin[0][1] == ["if(zcorn!=nullptr)"]:
        s = zin[0][0].replace("this->", "")
        if s in ("m_input_zcorn.reset()", "m_input_zcorn=std::nullopt"):
            copy_mode = "reset"
        elif re.fullmatch(r"m_input_zcorn=std::vector<double>\(zcorn,zcorn\+sizeZcorn\)", s) or \
             re.fullmatch(r"m_input_zcorn\.emplace\(zcorn,zcorn\+sizeZcorn\)", s):
            copy_mode = "store"
        else:
            raise TranslateError(f"{CPP}: EclipseGrid(src, zcorn, actnum): unrecognised statement on m_input_zcorn: '{zin[0][0]}'")
    else:
        raise TranslateError(f"{CPP}: EclipseGrid(src, zcorn, actnum): m_input_zcorn handled outside 'if (zcorn != nullptr)' or more than once")
    # with `store` the stored array must precede the fix-up of m_zcorn (it is the raw input)

    # -- EclipseGrid(src, actnum)
    init, body = _function(src, r"EclipseGrid::EclipseGrid\s*\(\s*const\s+EclipseGrid\s*&\s*src\s*,\s*const\s+std::vector<int>\s*&\s*actnum\s*\)", "EclipseGrid(src, actnum)")
    if _norm(init) != ":EclipseGrid(src,nullptr,actnum)" or _norm(body) != "":
        raise TranslateError(f"{CPP}: EclipseGrid(src, actnum): expected pure delegation to EclipseGrid(src, nullptr, actnum)")

    # -- activeVolume / getCellVolume
    _, body = _function(src, r"const\s+std::vector<double>\s*&\s*EclipseGrid::activeVolume\s*\(\s*\)\s*const", "activeVolume()")
    nb = _norm(body)
    if not (nb.startswith("if(!this->active_volume.has_value()){std::vector<double>volume(this->m_nactive);")
            and nb.endswith("this->active_volume=std::move(volume);}returnthis->active_volume.value();")):
        raise TranslateError(f"{CPP}: activeVolume(): cache protocol changed")
    for need in ("for(std::size_tactive_index=0;active_index<this->m_active_to_global.size();active_index++)",
                 "autoglobal_index=this->m_active_to_global[active_index];",
                 "this->getCellCorners(global_index,X,Y,Z);",
                 "volume[active_index]=calculateCellVol(X,Y,Z);"):
        if need not in nb:
            raise TranslateError(f"{CPP}: activeVolume(): '{need}' not found")
    _, body = _function(src, r"double\s+EclipseGrid::getCellVolume\s*\(\s*std::size_t\s+globalIndex\s*\)\s*const", "getCellVolume(globalIndex)")
    nb = _norm(body)
    if not nb.startswith("assertGlobalIndex(globalIndex);if(this->cellActive(globalIndex)&&this->active_volume.has_value())"
                         "{autoactive_index=this->activeIndex(globalIndex);returnthis->active_volume.value()[active_index];}"):
        raise TranslateError(f"{CPP}: getCellVolume(globalIndex): cache read protocol changed")
    if "this->getCellCorners(globalIndex,X,Y,Z);" not in nb or not nb.endswith("else{returncalculateCellVol(X,Y,Z);}"):
        raise TranslateError(f"{CPP}: getCellVolume(globalIndex): uncached branch changed")

    # -- save
    _, body = _function(src, r"void\s+EclipseGrid::save\s*\(\s*const\s+std::string\s*&\s*filename\s*,\s*bool\s+formatted\s*,[^)]*\)\s*const", "save()")
    stmts = _blocks(body)
    for arr in ("coord", "zcorn"):
        if (f"m_input_{arr}.reset()", []) not in stmts:
            raise TranslateError(f"{CPP}: save(): 'm_input_{arr}.reset();' not found at function level")
        a = (f"std::transform(m_input_{arr}.value().begin(),m_input_{arr}.value().end(),{arr}_f.begin(),convert_length)", [f"if(m_input_{arr}.has_value())"])
        b = (f"std::transform(m_{arr}.begin(),m_{arr}.end(),{arr}_f.begin(),convert_length)", ["else"])
        if a not in stmts or b not in stmts:
            raise TranslateError(f"{CPP}: save(): choice between m_input_{arr} and m_{arr} changed")

    # -- nobody else writes the cache
    writers = re.findall(r"active_volume\s*(?:=|\.reset|\.emplace)", src)
    # constructor EclipseGrid(const GridDims&) [1], activeVolume [1], resetACTNUM() [0/1], resetACTNUM(const int*) [0/1]
    expected = 2 + (1 if reset_all != "keep" else 0) + (1 if reset_mask != "keep" else 0)
    if len(writers) != expected:
        raise TranslateError(f"{CPP}: {len(writers)} statements write active_volume, expected {expected} (GridDims constructor, activeVolume(), the two resetACTNUM)")

    o = ["/- GENERATED by translate/gridcopy.py from EclipseGrid.cpp / EclipseGrid.hpp — do not edit.",
         "   What the operations of the EclipseGrid object do with the cache `active_volume` and with",
         "   `m_input_zcorn` (see the translator's doc-string for the shapes that are checked). -/",
         "namespace OpmVerif.Gen.GridCopy", "",
         "/-- Effect of an operation on `active_volume`: `drop` = `= std::nullopt` on every path,",
         "`conditional` = only under some further condition, `keep` = untouched. -/",
         "inductive CacheEffect where", "  | drop", "  | conditional", "  | keep", "  deriving DecidableEq, Repr", "",
         "/-- What `EclipseGrid(src, zcorn, actnum)` does with the copied `m_input_zcorn` when `zcorn != nullptr`. -/",
         "inductive InputZcorn where", "  | keep", "  | reset", "  | store", "  deriving DecidableEq, Repr", "",
         f"def resetAllCache : CacheEffect := .{reset_all}",
         f"def resetMaskCache : CacheEffect := .{reset_mask}",
         f"def copyZInputZcorn : InputZcorn := .{copy_mode}", "",
         "end OpmVerif.Gen.GridCopy", ""]
    return {"module": "OpmVerif.Gen.GridCopy", "file": "GridCopy.lean", "text": "\n".join(o), "sources": [cpp_path, hpp_path]}
