"""opm/input/eclipse/Schedule/{Schedule,HandlerContext,*KeywordHandlers}.cpp -> Gen/HandlerEffects.lean

Scans the schedule handlers for every site that can write to something an EARLIER snapshot can
see (the copy-on-write convention of ScheduleState is only a convention):

  refShared     a non-const reference bound to an object behind a shared_ptr of a snapshot
                (`auto& w = <snapshot>.wells.get(name)`, `for (auto& w : <snapshot>.wells())`)
  innerShared   a call of an in-place mutator of the WellConnections inside a Well
                (applyWellProdIndexScaling, updateWellProductivityIndex, filterConnections); recv =
                fresh when an independent WellConnections copy was installed just before, else shared
  refValue      a non-const reference to a by-value member of a snapshot (`events()`,
                `wellgroup_events()`, `tuning()`, ...) — copied by create_next, not shared
  snapAlias     `auto& s = snapshots.back()` / `auto& s : snapshots` (alias of a whole snapshot)
  constCast     any const_cast
  snapIndexR/W  `snapshots[<expr>]` with an index expression other than the current step (read / written)
  globalWrite   a mutation of a Schedule data member other than `snapshots`

and classifies the receiver (which snapshot): cur (the step being processed: state(),
snapshots.back(), snapshots[currentStep|reportStep|report_step|timeStep], sched_state),
all (a loop over every snapshot), other:<expr>.

The table is data only; `Props/C03.lean` proves `handlers_cow_safe` by `decide` over it against
an explicit allow-list.  A new site (for instance a handler that binds `auto&` to
`state().wells.get(..)` and mutates it) changes the table and makes that theorem fail.
"""
import glob, os, re
from .common import TranslateError

SCHED = "opm/input/eclipse/Schedule"
# every data member of class Schedule; a new one must be looked at by a human
KNOWN_MEMBERS = ["m_treat_critical_as_non_critical", "m_static", "m_sched_deck", "action_wgnames",
                 "potential_wellopen_patterns", "exit_status", "snapshots", "restart_output",
                 "completed_cells", "m_lowActionParsingStrictness", "possibleFutureConnections",
                 "current_report_step", "simUpdateFromPython"]
GLOBALS = [m for m in KNOWN_MEMBERS if m != "snapshots"]
CUR_INDEX = {"currentStep", "reportStep", "report_step", "timeStep", "handlerContext.currentStep"}
MUTATORS = r"(?:insert|insert_or_assign|add\w*|push_back|emplace\w*|clear\w*|resize|update\w*|erase|append|reset|store\w*|handle\w*)"


def strip_comments_keep_lines(src):
    def blank(m):
        return re.sub(r"[^\n]", " ", m.group(0))
    src = re.sub(r"/\*.*?\*/", blank, src, flags=re.S)
    src = re.sub(r"//[^\n]*", blank, src)
    src = re.sub(r'R"\((.*?)\)"', blank, src, flags=re.S)
    return src


def files(repo):
    base = os.path.join(repo, SCHED)
    fs = [os.path.join(base, "Schedule.cpp"), os.path.join(base, "HandlerContext.cpp")]
    fs += sorted(glob.glob(os.path.join(base, "*KeywordHandlers.cpp")))
    fs += sorted(glob.glob(os.path.join(base, "*", "*KeywordHandlers.cpp")))
    out = []
    for f in fs:
        if f not in out:
            out.append(f)
    for f in out[:3]:
        if not os.path.exists(f):
            raise TranslateError(f"{f} missing")
    if len(out) < 8:
        raise TranslateError("fewer than 8 handler files found: layout changed")
    return out


def check_members(repo):
    hpp = open(os.path.join(repo, SCHED, "Schedule.hpp")).read()
    m = re.search(r"friend class HandlerContext;(.*?)\n\s*void load_rst\(", hpp, re.S)
    if not m:
        raise TranslateError("Schedule.hpp: data member block not found")
    body = strip_comments_keep_lines(m.group(1))
    found = re.findall(r"^\s*[\w:<>,\s\*]+?\s+(\w+)\s*(?:\{[^;]*\}|=[^;]*)?;", body, re.M)
    found = [f for f in found if f not in ("const", "HandlerContext")]
    unknown = [f for f in found if f not in KNOWN_MEMBERS]
    missing = [k for k in KNOWN_MEMBERS if k not in found]
    if unknown or missing:
        raise TranslateError(f"Schedule.hpp data members changed: new {unknown}, gone {missing}")


def receiver(expr, aliases):
    e = expr.replace(" ", "")
    m = re.search(r"snapshots\[([^\]]*)\]", e)
    if m:
        return "cur" if m.group(1) in CUR_INDEX else "other:" + m.group(1)
    if "snapshots.back()" in e or "state()" in e:
        return "cur"
    for a, r in aliases.items():
        if re.search(r"\b" + re.escape(a) + r"\b", e):
            return r
    return "other:?"


def enclosing_function(lines, i):
    for j in range(i, -1, -1):
        if lines[j].rstrip().endswith(";"):
            continue
        m = re.match(r"^\s{0,4}(?:[\w:<>&\*,]+\s+)*((?:Schedule|HandlerContext)::~?\w+|handle\w+)\s*\(", lines[j])
        if m:
            return m.group(1)
    return "?"


def scan_file(path, rel):
    src = strip_comments_keep_lines(open(path).read())
    lines = src.split("\n")
    sites = []
    aliases = {}

    def add(i, kind, recv, detail):
        sites.append({"file": rel, "line": i + 1, "fn": enclosing_function(lines, i), "kind": kind,
                      "recv": recv, "detail": re.sub(r"\s+", " ", detail.strip())[:90]})

    # statements may span lines: join a small window for the reference-binding patterns
    for i, line in enumerate(lines):
        stmt = line
        if "auto" in line and "&" in line and ";" not in line and ")" not in line[-3:]:
            stmt = " ".join(lines[i:i + 3])
        # alias of a whole snapshot
        m = re.search(r"(?<!const )\bauto\s*&\s*(\w+)\s*=\s*(?:this->)?snapshots\s*(\.back\(\)|\[[^\]]*\])\s*;", stmt)
        if m:
            r = receiver("snapshots" + m.group(2), aliases)
            aliases[m.group(1)] = r
            add(i, "snapAlias", r, m.group(0))
            continue
        m = re.search(r"for\s*\(\s*(?<!const )auto\s*&\s*(\w+)\s*:\s*(?:this->)?snapshots\s*\)", stmt)
        if m and "const auto" not in stmt:
            aliases[m.group(1)] = "all"
            add(i, "snapAlias", "all", m.group(0))
            continue
        # non-const reference to an object behind a shared_ptr
        m = re.search(r"\bauto\s*&\s*(\w+)\s*=\s*([^;]*?\.(wells|groups|vfpprod|vfpinj)\s*\.\s*get\s*\([^;]*)\s*;", stmt)
        if m and not re.search(r"const\s+auto\s*&\s*" + m.group(1), stmt):
            add(i, "refShared", receiver(m.group(2), aliases), m.group(0))
            continue
        m = re.search(r"for\s*\(\s*auto\s*&\s*(\w+)\s*:\s*([^)]*?\.(wells|groups|vfpprod|vfpinj)\s*\(\s*\))", stmt)
        if m and not re.search(r"const\s+auto\s*&", stmt):
            add(i, "refShared", receiver(m.group(2), aliases), m.group(0))
            continue
        # chained call on the T& of a map_member: <snapshot>.wells.get(x).mutator(
        m = re.search(r"([\w\.\(\)\[\]>\-]*?(?:snapshots|state\(\)|sched_state)[^;=]*?)\.(wells|groups)\s*\.\s*get\s*\([^;()]*\)\s*\.\s*(\w+)\s*\(", stmt)
        if m and re.match(r"(update|set|add|del|apply|handle|filter|switch|prepare)", m.group(3)):
            add(i, "refShared", receiver(m.group(1), aliases), m.group(0))
        # non-const references to by-value members
        for m in re.finditer(r"([\w\.\(\)\[\]>\-\s]*?)\.\s*(events|wellgroup_events|tuning|oilvap|geo_keywords|message_limits)\s*\(\s*\)\s*(\.\s*(\w+)\s*\(|;)", stmt):
            head = stmt[:m.start(2)]
            if re.search(r"const\s+auto\s*&[^=]*=\s*[^;]*$", head):
                continue
            method = m.group(4) or ""
            isref = bool(re.search(r"(?<!const )auto\s*&\s*\w+\s*=\s*[^;]*$", head))
            if isref or re.match(r"(add\w*|clear\w*|reset|push_back|emplace\w*|update\w*)$", method):
                add(i, "refValue", receiver(m.group(1) if m.group(1).strip() else head, aliases), stmt[max(0, m.start(1)):m.end()])
        # in-place mutators of the WellConnections object *inside* a Well: a copied Well shares it
        # (Well's copy constructor copies the shared_ptr), so these write through to every
        # snapshot holding the same connections unless an independent copy was installed first
        m = re.search(r"(\w+)\s*(?:\.|->)\s*(applyWellProdIndexScaling|updateWellProductivityIndex|filterConnections)\s*\(", line)
        if m and "::" + m.group(2) not in line:
            window = " ".join(lines[max(0, i - 8):i])
            fresh = bool(re.search(r"make_shared\s*<\s*WellConnections\s*>", window)) and bool(re.search(re.escape(m.group(1)) + r"\s*\.\s*updateConnections\s*\(", window))
            add(i, "innerShared", "fresh" if fresh else "shared", m.group(2) + " on " + m.group(1))
        if "const_cast" in line:
            add(i, "constCast", "other:?", line)
        for m in re.finditer(r"snapshots\s*\[\s*([^\]]+?)\s*\]", line):
            idx = m.group(1).replace(" ", "")
            if idx not in CUR_INDEX:
                tail = line[m.end():]
                mut = bool(re.match(r"\s*\.\s*(\w+\s*\.\s*)?(update\w*|" + MUTATORS + r")\s*\(", tail)) or \
                    bool(re.search(r"(?<!const )auto\s*&\s*\w+\s*=\s*[^;]*$", line[:m.start()]))
                add(i, "snapIndexW" if mut else "snapIndexR", idx, line)
        if rel.endswith("Schedule.cpp") or rel.endswith("HandlerContext.cpp"):
            for g in GLOBALS:
                for m in re.finditer(r"(?:this->|schedule_\.)" + g + r"\b(\s*\[[^\]]*\])?\s*(=(?!=)|(?:\.|->)\s*" + MUTATORS + r"\s*\()", line):
                    add(i, "globalWrite", g, line)
                # a non-const reference to the member escapes (ScheduleGrid keeps CompletedCells&; operator[] inserts)
                if re.search(r"ScheduleGrid\s+\w+\s*\([^;]*\b" + g + r"\b", line) or \
                        re.search(r"(?<!const )auto\s*&\s*\w+\s*=\s*(?:this->|schedule_\.)" + g + r"\b", line):
                    add(i, "globalWrite", g, line)
    return sites


def lean_str(s):
    return '"' + s.replace("\\", "\\\\").replace('"', '\\"') + '"'


def generate(repo):
    check_members(repo)
    fs = files(repo)
    sites = []
    for f in fs:
        sites += scan_file(f, os.path.relpath(f, os.path.join(repo, SCHED)))
    if not any(s["kind"] == "globalWrite" for s in sites) or not any(s["kind"] == "refValue" for s in sites):
        raise TranslateError("no globalWrite / refValue site recognised: the scanner no longer understands the sources")
    if len(sites) < 40:
        raise TranslateError(f"only {len(sites)} sites recognised")
    out = ["/- GENERATED by translate/handlers.py from opm/input/eclipse/Schedule/{Schedule,HandlerContext,*KeywordHandlers}.cpp — do not edit. -/",
           "namespace OpmVerif.Gen.HandlerEffects", "",
           "structure Site where", "  file : String", "  fn : String", "  kind : String", "  recv : String", "  detail : String",
           "deriving DecidableEq, Repr", "",
           f"def nFiles : Nat := {len(fs)}", "",
           "/-- Line numbers are deliberately not part of the table (they move with every edit). -/",
           "def sites : List Site := ["]
    rows = []
    for s in sites:
        rows.append("  { file := %s, fn := %s, kind := %s, recv := %s, detail := %s }" % (
            lean_str(s["file"]), lean_str(s["fn"]), lean_str(s["kind"]), lean_str(s["recv"]), lean_str(s["detail"])))
    out.append(",\n".join(rows))
    out += ["]", "", "end OpmVerif.Gen.HandlerEffects", ""]
    return {"module": "OpmVerif.Gen.HandlerEffects", "file": "HandlerEffects.lean", "text": "\n".join(out), "sources": fs,
            "_sites": sites}


if __name__ == "__main__":
    import sys
    r = generate(sys.argv[1] if len(sys.argv) > 1 else os.environ.get("VERIF_REPO", "/repo"))
    from collections import Counter
    c = Counter((s["kind"], s["recv"] if not s["kind"].startswith("snapIndex") else "") for s in r["_sites"])
    for k, v in sorted(c.items()):
        print(v, k)
    for s in r["_sites"]:
        if s["kind"] in ("refShared", "constCast", "globalWrite", "snapAlias", "innerShared") or s["kind"] == "snapIndexW" or (s["kind"] == "refValue" and s["recv"] != "cur"):
            print(s["file"], s["line"], s["fn"], s["kind"], s["recv"], "|", s["detail"])
