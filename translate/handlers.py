"""opm/input/eclipse/Schedule/{Schedule,HandlerContext,*KeywordHandlers}.cpp -> Gen/HandlerEffects.lean

Scans the schedule handlers for every site that can write to something an EARLIER snapshot can
see (the copy-on-write convention of ScheduleState is only a convention):

  refShared     a non-const reference bound to an object behind a shared_ptr of a snapshot
                (`auto& w = <snapshot>.wells.get(name)`, `for (auto& w : <snapshot>.wells())`)
  innerShared   a call of an in-place mutator of the WellConnections inside a Well
                (applyWellProdIndexScaling, updateWellProductivityIndex, filterConnections); recv =
                fresh when an independent WellConnections copy was installed just before, else shared
  refValue      a non-const reference to a by-value member of a snapshot (`events()`,
                `wellgroup_events()`, `tuning()`, ...) — copied by create_next, not shared
  snapAlias     `auto& s = snapshots.back()` / `auto& s : snapshots` (alias of a whole snapshot)
  constCast     any const_cast
  snapIndexR/W  `snapshots[<expr>]` with an index expression other than the current step (read / written)
  snapOtherR/W  any other selection of a snapshot that is not the current one: `snapshots.front()`,
                `.at(e)`, `.begin()`, `.end()[-k]`, `.rbegin()[k]`, `.data()`, `std::prev(snapshots.end(), k)`,
                `*snapshots.begin()`, a range-for over `snapshots`, `snapshots == ..`; recv = the selector
                (`front()`, `at(0)`, `begin()`, `all`, `compare`).  W = the selected snapshot is the receiver
                of a mutating call chain / an assignment / std::swap|move, or is bound to a non-const
                reference or pointer.  recv `alias:<selector>` / `copy:<selector>`: a mutating use (or a
                non-const re-binding) of a name that was bound (as reference, pointer, iterator / as a copy)
                to a non-current snapshot or to something inside it, within the scope of that name
  snapContainer a mutation of the vector `snapshots` itself; recv = the method (`resize`, `erase`, `clear`,
                `emplace_back`, ..), `operator=`, or `whole` (the vector passed on as a whole)
  globalWrite   a mutation of a Schedule data member other than `snapshots`

and classifies the receiver (which snapshot): cur (the step being processed: state(),
snapshots.back(), snapshots[currentStep|reportStep|report_step|timeStep], sched_state),
all (a loop over every snapshot), other:<expr>.  Everything that is not one of the `cur` forms is "other".

The table is data only; `Props/C03.lean` proves `handlers_cow_safe` by `decide` over it against
an explicit allow-list.  A new site (for instance a handler that binds `auto&` to
`state().wells.get(..)` and mutates it) changes the table and makes that theorem fail.
"""
import bisect, glob, os, re
from .common import TranslateError

SCHED = "opm/input/eclipse/Schedule"
# every data member of class Schedule; a new one must be looked at by a human
KNOWN_MEMBERS = ["m_treat_critical_as_non_critical", "m_static", "m_sched_deck", "action_wgnames",
                 "potential_wellopen_patterns", "exit_status", "snapshots", "restart_output",
                 "completed_cells", "m_lowActionParsingStrictness", "possibleFutureConnections",
                 "current_report_step", "simUpdateFromPython"]
GLOBALS = [m for m in KNOWN_MEMBERS if m != "snapshots"]
CUR_INDEX = {"currentStep", "reportStep", "report_step", "timeStep", "handlerContext.currentStep"}
MUTATORS = r"(?:insert|insert_or_assign|add\w*|push_back|emplace\w*|clear\w*|resize|update\w*|erase|append|reset|store\w*|handle\w*)"


def strip_comments_keep_lines(src):
    def blank(m):
        return re.sub(r"[^\n]", " ", m.group(0))
    src = re.sub(r"/\*.*?\*/", blank, src, flags=re.S)
    src = re.sub(r"//[^\n]*", blank, src)
    src = re.sub(r'R"\((.*?)\)"', blank, src, flags=re.S)
    return src


def files(repo):
    base = os.path.join(repo, SCHED)
    fs = [os.path.join(base, "Schedule.cpp"), os.path.join(base, "HandlerContext.cpp")]
    fs += sorted(glob.glob(os.path.join(base, "*KeywordHandlers.cpp")))
    fs += sorted(glob.glob(os.path.join(base, "*", "*KeywordHandlers.cpp")))
    out = []
    for f in fs:
        if f not in out:
            out.append(f)
    for f in out[:3]:
        if not os.path.exists(f):
            raise TranslateError(f"{f} missing")
    if len(out) < 8:
        raise TranslateError("fewer than 8 handler files found: layout changed")
    return out


def check_members(repo):
    hpp = open(os.path.join(repo, SCHED, "Schedule.hpp")).read()
    m = re.search(r"friend class HandlerContext;(.*?)\n\s*void load_rst\(", hpp, re.S)
    if not m:
        raise TranslateError("Schedule.hpp: data member block not found")
    body = strip_comments_keep_lines(m.group(1))
    found = re.findall(r"^\s*[\w:<>,\s\*]+?\s+(\w+)\s*(?:\{[^;]*\}|=[^;]*)?;", body, re.M)
    found = [f for f in found if f not in ("const", "HandlerContext")]
    unknown = [f for f in found if f not in KNOWN_MEMBERS]
    missing = [k for k in KNOWN_MEMBERS if k not in found]
    if unknown or missing:
        raise TranslateError(f"Schedule.hpp data members changed: new {unknown}, gone {missing}")


def receiver(expr, aliases):
    e = expr.replace(" ", "")
    m = re.search(r"snapshots\[([^\]]*)\]", e)
    if m:
        return "cur" if m.group(1) in CUR_INDEX else "other:" + m.group(1)
    if "snapshots.back()" in e or "state()" in e:
        return "cur"
    m = re.search(r"snapshots\.(\w+)\(([^()]*)\)", e)
    if m and m.group(1) in SNAP_ELEMENT | SNAP_ITER:
        return "other:" + m.group(1) + "(" + m.group(2) + ")"
    for a, r in aliases.items():
        if re.search(r"\b" + re.escape(a) + r"\b", e):
            return r
    return "other:?"


FUNCTION_HEADER = re.compile(r"^\s{0,4}(?:[\w:<>&\*,]+\s+)*((?:Schedule|HandlerContext)::(?:~?\w+|operator\s*(?:\(\)|\[\]|[^\s\w(]{1,3}))|handle\w+)\s*\(")


def function_header(line):
    """Name of the Schedule:: / HandlerContext:: method or handleXXX function whose definition starts on this line."""
    if line.rstrip().endswith(";"):
        return None
    m = FUNCTION_HEADER.match(line)
    return re.sub(r"\s+", "", m.group(1)) if m else None


def enclosing_function(lines, i):
    """Lambdas and nested blocks belong to the function they are written in: the search goes back
    to the nearest definition header at namespace indentation."""
    for j in range(i, -1, -1):
        fn = function_header(lines[j])
        if fn:
            return fn
    return "?"


# ---- every use of the vector `snapshots` itself ------------------------------------------------
#
# The pass below works on the whole text of a file (comments and the contents of literals
# blanked, positions preserved), so a statement may span any number of lines.

SNAP_CUR = {"back"}                                             # snapshots.back() is the current step
SNAP_NEUTRAL = {"size", "empty", "capacity", "max_size"}         # no snapshot selected
SNAP_APPEND = {"emplace_back", "push_back", "reserve"}           # container level: append only
SNAP_CONTAINER = {"resize", "erase", "clear", "pop_back", "insert", "assign", "swap", "emplace",
                  "shrink_to_fit"}                              # container level: may drop / replace snapshots
SNAP_ELEMENT = {"front", "at"}                                   # a reference to one snapshot
SNAP_ITER = {"begin", "end", "cbegin", "cend", "rbegin", "rend", "crbegin", "crend", "data"}
# calls whose value still denotes (an iterator / reference to) their first argument
TRANSPARENT = {"", "std::prev", "std::next", "prev", "next", "std::ref", "std::addressof", "std::forward",
               "std::launder", "std::to_address"}
# calls that modify the object passed to them
WRITE_CALLEES = {"std::swap", "swap", "std::move", "std::exchange", "std::iter_swap", "std::fill", "std::destroy_at"}
# standard algorithms that only read the range they are given
READONLY_CALLEES = {"std::" + n for n in ("distance", "find", "find_if", "find_if_not", "any_of", "all_of", "none_of", "count",
                                         "count_if", "accumulate", "lower_bound", "upper_bound", "max_element",
                                         "min_element", "is_sorted", "equal", "as_const", "cref", "size", "empty")}
CONTROL_PAREN = {"if", "while", "for", "switch", "catch", "sizeof", "decltype", "alignof", "noexcept"}  # kw ( .. )
GROUPING_KW = {"return", "else", "do", "throw", "case", "co_return", "co_yield"}     # kw (expr): a grouping parenthesis
CONTROL = CONTROL_PAREN | GROUPING_KW
NOT_A_TYPE = CONTROL | {"goto", "new", "delete", "typename", "using", "namespace", "operator"}
# a method of this name called on (something inside) a snapshot is taken to modify it
MUT_CALL = re.compile(r"(?:" + MUTATORS[3:-1] + r"|set\w*|del\w*|apply\w*|filter\w*|switch\w*|prepare\w*|remove\w*|rename\w*"
                      r"|init\w*|assign|swap|pop_back|pop_front|push_front|operator=)$")
ASSIGN_OP = re.compile(r"(=(?!=)|\+=|-=|\*=|/=|%=|\|=|&=(?!&)|\^=|<<=|>>=|\+\+|--)")
BIND_RE = re.compile(
    r"^\s*(?:else\s+)?(?:(?:for|if|while|switch)\s*\(\s*)?(?:(?:static|constexpr|thread_local|mutable)\s+)*"
    r"(?P<c1>const\s+)?(?P<ty>(?:\w+\s*::\s*)*\w+(?:\s*<[^;{}=]*?>)?(?:\s*::\s*\w+)*)(?P<c2>\s+const\b)?"
    r"(?:\s*(?P<rp>&&|&|\*)\s*(?P<c3>const\s+)?|\s+)(?P<name>[A-Za-z_]\w*)\s*(?P<op>=(?!=)|:(?!:))\s*(?P<rest>.*)$", re.S)
ASSIGN_RE = re.compile(r"(?:^|[\s;{}()])(?P<lhs>(?:\*\s*)?(?:[A-Za-z_]\w*\s*(?:\.|->)\s*)*(?P<name>[A-Za-z_]\w*))\s*=(?!=)\s*(?P<rest>[^=]*)$", re.S)
CAPTURE_RE = re.compile(r"\[(?:[^\[\]]*,)?\s*&\s*(?P<name>[A-Za-z_]\w*)\s*=\s*$", re.S)
TERNARY_PREFIX = re.compile(r"(?:.*(?<!:)[?:](?!:)\s*)?", re.S)
OBJ_PREFIX = re.compile(r"(?:(?:\bthis\s*->\s*)|(?:\b[A-Za-z_]\w*(?:\(\))?\s*(?:\.|->)\s*))+$")
CLOSER = {"(": ")", "[": "]", "{": "}"}


def blank_literals(src):
    """Blank the contents of string / character literals, keeping every position."""
    def blank(m):
        t = m.group(0)
        return t[0] + " " * (len(t) - 2) + t[-1]
    return re.sub(r'"(?:\\.|[^"\\\n])*"|\'(?:\\.|[^\'\\\n]){1,4}\'', blank, src)


def skip_ws(txt, j):
    while j < len(txt) and txt[j].isspace():
        j += 1
    return j


def match_close(txt, i, what):
    """Index of the bracket closing txt[i]."""
    stack = []
    for j in range(i, min(len(txt), i + 20000)):
        c = txt[j]
        if c in "([{":
            stack.append(c)
        elif c in ")]}":
            if not stack or CLOSER[stack.pop()] != c:
                break
            if not stack:
                return j
    raise TranslateError(f"{what}: unbalanced bracket")


def stmt_start(txt, p):
    """Start of the statement p lies in; the headers of enclosing brace-less `if (..)` / `for (..)` /
    `while (..)` / `else` are not part of it."""
    j = p - 1
    while j >= 0 and txt[j] not in ";{}":
        j -= 1
    s0 = j + 1
    for _ in range(20):
        m = re.compile(r"\s*(?:(?:else|do)\b\s*)*(?:(?:if|for|while|switch)\s*(?:constexpr\s*)?(\())?").match(txt, s0)
        if not m or m.end() == s0 or m.end() > p:
            break
        if m.group(1):
            close = match_close(txt, m.end() - 1, "statement header")
            if close >= p:
                break
            s0 = close + 1
        else:
            s0 = m.end()
    return s0


def stmt_end(txt, p):
    j = p
    while j < len(txt) and txt[j] not in ";{}":
        j += 1
    return j


def open_bracket_before(txt, s0, lo):
    """Innermost `(` / `[` that is open at lo, not looking further back than s0 (-1: none)."""
    depth = 0
    for j in range(lo - 1, s0 - 1, -1):
        c = txt[j]
        if c in ")]":
            depth += 1
        elif c in "([":
            if depth == 0:
                return j
            depth -= 1
    return -1


def callee_before(txt, j):
    """(name, start, is_method) of what is called by the `(` at j; name "" for a grouping parenthesis."""
    e = j
    while e > 0 and txt[e - 1].isspace():
        e -= 1
    if e > 0 and txt[e - 1] == ">":
        return "<template>", e, False
    k = e
    while k > 0 and (txt[k - 1].isalnum() or txt[k - 1] in "_:"):
        k -= 1
    name = txt[k:e]
    before = txt[:k].rstrip()
    if name == "" and e > 0 and txt[e - 1] in ")]":
        # `if (c) (expr)` is a grouping parenthesis, f(x)(..) / a[i](..) is a call
        depth = 0
        for b in range(e - 1, max(-1, e - 4000), -1):
            if txt[b] in ")]":
                depth += 1
            elif txt[b] in "([":
                depth -= 1
                if depth == 0:
                    if txt[b] == "(" and callee_before(txt, b)[0] in CONTROL_PAREN - {"sizeof", "decltype", "alignof", "noexcept"}:
                        return "", e, False
                    break
        return "<call>", e, False
    if name in GROUPING_KW:
        return "", e, False
    return name, k, before.endswith(".") or before.endswith("->")


def parse_chain(txt, h):
    """Follow `.m`, `->m`, `.m(args)`, `[i]` from h; returns (end, [(kind, name)])."""
    items = []
    while True:
        j = skip_ws(txt, h)
        if txt.startswith("->", j) or (txt.startswith(".", j) and not txt.startswith("..", j)):
            j = skip_ws(txt, j + (2 if txt[j] == "-" else 1))
            if txt.startswith("template ", j):
                j = skip_ws(txt, j + 9)
            m = re.compile(r"(?:operator\s*(?:=|\[\]|\(\)|->|\*)|~?[A-Za-z_]\w*)").match(txt, j)
            if not m:
                break
            name, j = re.sub(r"\s+", "", m.group(0)), skip_ws(txt, m.end())
            if j < len(txt) and txt[j] == "(":
                h = match_close(txt, j, "call of " + name) + 1
                items.append(("call", name))
            else:
                h = m.end()
                items.append(("member", name))
        elif j < len(txt) and txt[j] == "[":
            h = match_close(txt, j, "index") + 1
            items.append(("index", re.sub(r"\s+", "", txt[j + 1:h - 1])))
        else:
            break
    return h, items


def analyse(txt, s0, lo, hi, what):
    """txt[lo:hi] denotes (a reference / pointer / iterator to) a snapshot or an object inside one, in
    the statement starting at s0.  Follow its postfix chain - through dereferences, grouping
    parentheses and iterator helpers - and report how the object is used."""
    items, wrote, arg_of, addr, deref = [], None, None, False, False
    for _ in range(12):
        # unary * and & directly in front
        while True:
            k = lo
            while k > s0 and txt[k - 1].isspace():
                k -= 1
            if k > s0 and txt[k - 1] in "*&" and not (k - 1 > s0 and txt[k - 2] == txt[k - 1] == "&"):
                b = k - 1
                while b > s0 and txt[b - 1].isspace():
                    b -= 1
                prev = txt[b - 1] if b > s0 else ";"
                word = re.search(r"(\w+)$", txt[s0:b])
                if (prev.isalnum() or prev in "_)]") and not (word and word.group(1) in CONTROL):
                    break                               # binary operator (or `auto& x`, never directly in front)
                if txt[k - 1] == "&":
                    addr = True
                else:
                    deref = True
                lo = k - 1
            else:
                break
        hi, more = parse_chain(txt, hi)
        items += more
        j = skip_ws(txt, hi)
        c = txt[j] if j < len(txt) else ";"
        if c not in "),+-" or ASSIGN_OP.match(txt, j):
            break
        op = open_bracket_before(txt, s0, lo)
        if op < 0 or txt[op] == "[":
            break
        name, k, method = callee_before(txt, op)
        name = re.sub(r"\s+", "", name)
        if name in WRITE_CALLEES and not method:
            wrote = name
        elif method or name not in TRANSPARENT:
            if name not in CONTROL_PAREN:
                arg_of = ("." if method else "") + name
            break
        lo, hi = k, match_close(txt, op, what) + 1
    else:
        raise TranslateError(f"{what}: expression nested too deeply")
    j = skip_ws(txt, hi)
    m = ASSIGN_OP.match(txt, j)
    calls = [n for k, n in items if k == "call"]
    mut = next((n for n in calls if MUT_CALL.match(n)), None)
    ends = (txt[j] if j < len(txt) else ";") in ";:)]},?"
    return {"lo": lo, "hi": hi, "items": items, "mut": mut, "assign": m.group(1) if m else None, "wrote": wrote,
            "arg_of": arg_of, "addr": addr, "deref": deref, "ends": ends,
            "bind": binding(txt, s0, lo, addr) if (ends and arg_of is None and not m and not mut) else None}


def binding(txt, s0, lo, addr):
    """Is the expression starting at lo the initialiser of a declaration / the right-hand side of an
    assignment / a lambda init-capture?  Returns name, form (ref | ptr | val) and constness."""
    head = txt[s0:lo]
    m = CAPTURE_RE.search(head)
    if m:
        return {"name": m.group("name"), "form": "ref", "const": False, "decl": True}
    m = BIND_RE.match(head)
    if m and re.sub(r"\s+", "", m.group("ty")) not in NOT_A_TYPE and TERNARY_PREFIX.fullmatch(m.group("rest")):
        rp = m.group("rp")
        form = "ref" if rp in ("&", "&&") else "ptr" if (rp == "*" or addr) else "val"
        const = bool(m.group("c1") or m.group("c2")) or (bool(m.group("c3")) and rp != "*")
        return {"name": m.group("name"), "form": form, "const": const, "decl": True, "range": m.group("op") == ":"}
    m = None
    for m in ASSIGN_RE.finditer(head):
        pass
    if m and TERNARY_PREFIX.fullmatch(m.group("rest")) and m.group("name") not in NOT_A_TYPE:
        name = m.group("name")
        simple = re.sub(r"\s+", "", m.group("lhs")) == name
        # constness from the declaration of the name, if it is a local declared a little earlier
        decl = re.search(r"(const\s+)?[\w:]+(?:\s*<[^;{}]*>)?(\s+const)?\s*([&*])\s*" + re.escape(name) + r"\s*[;={]",
                         txt[max(0, s0 - 4000):s0])
        const = bool(simple and decl and (decl.group(1) or decl.group(2)))
        return {"name": name, "form": "ptr" if addr else "val", "const": const, "decl": False, "simple": simple}
    return None


def scan_snapshots(txt, rel, emit, header_between=lambda a, b: False):
    """Rows for every use of `snapshots` that is not a use of the current snapshot, and for every
    mutating use of a name bound to a non-current snapshot.  Returns the alias list
    [(name, recv, from, to)] for the line-oriented patterns of scan_file."""
    blank = blank_literals(txt)
    n_occ = 0
    aliases = []                                   # dicts: name, sel, form, const, start, end

    def where(p):
        return f"{rel}:{txt.count(chr(10), 0, p) + 1}"

    def scope_end(p):
        """End of the innermost block that is open at p."""
        depth = 0
        for j in range(p, len(blank)):
            if blank[j] == "{":
                depth += 1
            elif blank[j] == "}":
                depth -= 1
                if depth < 0:
                    return j
        return len(blank)

    def body_end(k, what):
        """End of the statement (simple or compound) that starts at k."""
        while k < len(blank):
            c = blank[k]
            if c == "{":
                return match_close(blank, k, what)
            if c in ";}":
                return k
            k = match_close(blank, k, what) + 1 if c in "([" else k + 1
        return len(blank)

    def new_alias(b, sel, info, p, iterlike):
        form = b["form"]
        if form == "val":
            form = "iter" if (iterlike and not info["deref"]) else "copy"
        end_stmt = stmt_end(blank, info["hi"])
        start, end = end_stmt, scope_end(end_stmt)
        if b.get("range"):                         # for (T x : <expr>) body
            op = open_bracket_before(blank, stmt_start(blank, p), p)
            if op >= 0 and blank[op] == "(":
                close = match_close(blank, op, where(p))
                j = skip_ws(blank, close + 1)
                start = close
                end = body_end(j, where(p))
        if not b["decl"]:
            # assignment to an existing name: visible until the end of the function-level block
            end = scope_end(end_stmt)
            for _ in range(12):
                wider = scope_end(end + 1) if end + 1 < len(blank) else len(blank)
                if wider >= len(blank) or header_between(end, wider):
                    break
                end = wider
        aliases.append({"name": b["name"], "sel": sel, "form": form, "const": b["const"], "start": start, "end": end})

    def row_kind(sel_kind, sel, w):
        if sel_kind == "index":
            return ("snapIndexW" if w else "snapIndexR"), sel
        return ("snapOtherW" if w else "snapOtherR"), sel

    for m in re.finditer(r"\bsnapshots\b", blank):
        p, q = m.start(), m.end()
        n_occ += 1
        s0 = stmt_start(blank, p)
        pre = OBJ_PREFIX.search(blank[s0:p])
        lo = s0 + pre.start() if pre else p
        j = skip_ws(blank, q)
        c = blank[j] if j < len(blank) else ";"
        sel_kind = sel = None
        iterlike = False
        if c == "[":
            close = match_close(blank, j, where(p))
            idx = re.sub(r"\s+", "", txt[j + 1:close])
            if idx in CUR_INDEX:
                continue
            sel_kind, sel, hi = "index", idx, close + 1
        elif c == "." and not blank.startswith("..", j):
            mm = re.compile(r"\.\s*(\w+)\s*\(").match(blank, j)
            if not mm:
                raise TranslateError(f"{where(p)}: `snapshots.` not followed by a method call")
            name = mm.group(1)
            close = match_close(blank, mm.end() - 1, where(p))
            args = re.sub(r"\s+", "", txt[mm.end():close])
            if name in SNAP_CUR:
                if args:
                    raise TranslateError(f"{where(p)}: snapshots.{name}({args})")
                continue
            if name in SNAP_NEUTRAL:
                continue
            if name in SNAP_APPEND or name in SNAP_CONTAINER:
                emit(p, "snapContainer", name)
                continue
            if name in SNAP_ELEMENT or name in SNAP_ITER:
                sel_kind, sel, hi = "method", f"{name}({args})", close + 1
                iterlike = name in SNAP_ITER
            else:
                raise TranslateError(f"{where(p)}: snapshots.{name}(..): unknown use of the snapshot vector")
        elif blank.startswith("->", j):
            raise TranslateError(f"{where(p)}: snapshots-> : unknown use of the snapshot vector")
        elif ASSIGN_OP.match(blank, j):
            emit(p, "snapContainer", "operator=")
            continue
        else:
            # the vector as a whole
            before = blank[s0:lo].rstrip()
            if blank.startswith("==", j) or blank.startswith("!=", j) or before.endswith("==") or before.endswith("!="):
                emit(p, "snapOtherR", "compare")
                continue
            b = binding(blank, s0, lo, False) if c == ")" else None
            if b and b.get("range"):
                new_alias(b, "all", {"hi": q, "deref": True}, p, False)
                emit(p, "snapOtherR" if (b["const"] or b["form"] != "ref") else "snapOtherW", "all")
                continue
            emit(p, "snapContainer", "whole")
            continue
        info = analyse(blank, s0, lo, hi, where(p))
        b = info["bind"]
        w = None
        if info["mut"]:
            w = info["mut"]
        elif info["assign"] or info["wrote"]:
            w = info["assign"] or info["wrote"]
        elif b and b["form"] in ("ref", "ptr") and not b["const"]:
            w = "bound"
        elif info["arg_of"] and info["arg_of"] not in READONLY_CALLEES and \
                (info["addr"] or not (info["items"] or info["arg_of"].startswith("."))):
            w = "escapes"                              # f(&snapshots[k]..), f(snapshots.front()): callee unknown
        kind, recv = row_kind(sel_kind, sel, w)
        emit(p, kind, recv)
        if b:
            new_alias(b, ("[" + sel + "]") if sel_kind == "index" else sel, info, p, iterlike and not any(k == "index" for k, _ in info["items"]))

    # uses of the names bound to a non-current snapshot (aliases of aliases are appended on the way)
    done = 0
    while done < len(aliases):
        a = aliases[done]
        done += 1
        if done > 400:
            raise TranslateError(f"{rel}: alias propagation does not terminate")
        tag = ("copy:" if a["form"] == "copy" else "alias:") + a["sel"]
        for m in re.compile(r"\b" + re.escape(a["name"]) + r"\b").finditer(blank, a["start"], a["end"]):
            p, q = m.start(), m.end()
            before = blank[:p].rstrip()
            if before.endswith(".") or before.endswith("->") or before.endswith("::"):
                continue
            info = analyse(blank, stmt_start(blank, p), p, q, where(p))
            b = info["bind"]
            chained = bool(info["items"]) or info["deref"]
            w = None
            if info["mut"]:
                w = info["mut"]
            elif info["wrote"] and a["form"] != "copy":
                w = info["wrote"]
            elif info["assign"] and (chained or a["form"] == "ref"):
                w = info["assign"]
            elif b and b["form"] in ("ref", "ptr") and not b["const"] and b["name"] != a["name"]:
                w = "bound"
            elif info["addr"] and info["arg_of"] and not a["const"]:
                w = "escapes"                          # v.push_back(&alias)
            if w:
                emit(p, "snapOtherW", tag)
            if b and b["name"] != a["name"] and not any(x["name"] == b["name"] and x["start"] == stmt_end(blank, info["hi"]) for x in aliases):
                new_alias(b, a["sel"], info, p, a["form"] == "iter" and not info["items"])
    return n_occ, [(a["name"], "all" if a["sel"] == "all" else "other:" + a["sel"][1:-1] if a["sel"].startswith("[") else "other:" + a["sel"],
                    a["start"], a["end"]) for a in aliases]


def scan_file(path, rel):
    src = strip_comments_keep_lines(open(path).read())
    lines = src.split("\n")
    sites = []
    aliases = {}
    line_start = [0]
    for ln in lines:
        line_start.append(line_start[-1] + len(ln) + 1)

    def add(i, kind, recv, detail):
        sites.append({"file": rel, "line": i + 1, "fn": enclosing_function(lines, i), "kind": kind,
                      "recv": recv, "detail": re.sub(r"\s+", " ", detail.strip())[:90]})

    def emit(p, kind, recv):
        i = bisect.bisect_right(line_start, p) - 1
        detail = lines[i]
        if ";" not in detail:
            detail = src[line_start[i]:stmt_end(src, p) + 1]
        if not any(s["line"] == i + 1 and s["kind"] == kind and s["recv"] == recv for s in sites):
            add(i, kind, recv, detail)

    # every use of `snapshots` itself, and of names bound to a non-current snapshot
    def header_between(a, b):
        la, lb = bisect.bisect_right(line_start, a) - 1, bisect.bisect_right(line_start, b) - 1
        return any(function_header(lines[k]) for k in range(la + 1, min(lb, len(lines) - 1) + 1))

    n_occ, scoped = scan_snapshots(src, rel, emit, header_between)
    if rel == "Schedule.cpp" and n_occ < 40:
        raise TranslateError(f"Schedule.cpp: only {n_occ} uses of `snapshots` seen")

    # statements may span lines: join a small window for the reference-binding patterns
    for i, line in enumerate(lines):
        stmt = line
        if "auto" in line and "&" in line and ";" not in line and ")" not in line[-3:]:
            stmt = " ".join(lines[i:i + 3])
        # names bound to a non-current snapshot that are in scope on this line come first
        view = {n: r for n, r, a, b in scoped if a <= line_start[i + 1] and line_start[i] < b}
        view.update({n: r for n, r in aliases.items() if n not in view})
        # alias of a whole snapshot
        m = re.search(r"(?<!const )\bauto\s*&\s*(\w+)\s*=\s*(?:this->)?snapshots\s*(\.back\(\)|\[[^\]]*\])\s*;", stmt)
        if m:
            r = receiver("snapshots" + m.group(2), view)
            aliases[m.group(1)] = r
            add(i, "snapAlias", r, m.group(0))
            continue
        m = re.search(r"for\s*\(\s*(?<!const )auto\s*&\s*(\w+)\s*:\s*(?:this->)?snapshots\s*\)", stmt)
        if m and "const auto" not in stmt:
            aliases[m.group(1)] = "all"
            add(i, "snapAlias", "all", m.group(0))
            continue
        # non-const reference to an object behind a shared_ptr
        m = re.search(r"\bauto\s*&\s*(\w+)\s*=\s*([^;]*?\.(wells|groups|vfpprod|vfpinj)\s*\.\s*get\s*\([^;]*)\s*;", stmt)
        if m and not re.search(r"const\s+auto\s*&\s*" + m.group(1), stmt):
            add(i, "refShared", receiver(m.group(2), view), m.group(0))
            continue
        m = re.search(r"for\s*\(\s*auto\s*&\s*(\w+)\s*:\s*([^)]*?\.(wells|groups|vfpprod|vfpinj)\s*\(\s*\))", stmt)
        if m and not re.search(r"const\s+auto\s*&", stmt):
            add(i, "refShared", receiver(m.group(2), view), m.group(0))
            continue
        # chained call on the T& of a map_member: <snapshot>.wells.get(x).mutator(
        m = re.search(r"([\w\.\(\)\[\]>\-]*?(?:snapshots|state\(\)|sched_state)[^;=]*?)\.(wells|groups)\s*\.\s*get\s*\([^;()]*\)\s*\.\s*(\w+)\s*\(", stmt)
        if m and re.match(r"(update|set|add|del|apply|handle|filter|switch|prepare)", m.group(3)):
            add(i, "refShared", receiver(m.group(1), view), m.group(0))
        # non-const references to by-value members
        for m in re.finditer(r"([\w\.\(\)\[\]>\-\s]*?)\.\s*(events|wellgroup_events|tuning|oilvap|geo_keywords|message_limits)\s*\(\s*\)\s*(\.\s*(\w+)\s*\(|;)", stmt):
            head = stmt[:m.start(2)]
            if re.search(r"const\s+auto\s*&[^=]*=\s*[^;]*$", head):
                continue
            method = m.group(4) or ""
            isref = bool(re.search(r"(?<!const )auto\s*&\s*\w+\s*=\s*[^;]*$", head))
            if isref or re.match(r"(add\w*|clear\w*|reset|push_back|emplace\w*|update\w*)$", method):
                add(i, "refValue", receiver(m.group(1) if m.group(1).strip() else head, view), stmt[max(0, m.start(1)):m.end()])
        # in-place mutators of the WellConnections object *inside* a Well: a copied Well shares it
        # (Well's copy constructor copies the shared_ptr), so these write through to every
        # snapshot holding the same connections unless an independent copy was installed first
        m = re.search(r"(\w+)\s*(?:\.|->)\s*(applyWellProdIndexScaling|updateWellProductivityIndex|filterConnections)\s*\(", line)
        if m and "::" + m.group(2) not in line:
            window = " ".join(lines[max(0, i - 8):i])
            fresh = bool(re.search(r"make_shared\s*<\s*WellConnections\s*>", window)) and bool(re.search(re.escape(m.group(1)) + r"\s*\.\s*updateConnections\s*\(", window))
            add(i, "innerShared", "fresh" if fresh else "shared", m.group(2) + " on " + m.group(1))
        if "const_cast" in line:
            add(i, "constCast", "other:?", line)
        if rel.endswith("Schedule.cpp") or rel.endswith("HandlerContext.cpp"):
            for g in GLOBALS:
                for m in re.finditer(r"(?:this->|schedule_\.)" + g + r"\b(\s*\[[^\]]*\])?\s*(=(?!=)|(?:\.|->)\s*" + MUTATORS + r"\s*\()", line):
                    add(i, "globalWrite", g, line)
                # a non-const reference to the member escapes (ScheduleGrid keeps CompletedCells&; operator[] inserts)
                if re.search(r"ScheduleGrid\s+\w+\s*\([^;]*\b" + g + r"\b", line) or \
                        re.search(r"(?<!const )auto\s*&\s*\w+\s*=\s*(?:this->|schedule_\.)" + g + r"\b", line):
                    add(i, "globalWrite", g, line)
    sites.sort(key=lambda s: s["line"])                      # stable: rows of one line keep their order
    return sites


def lean_str(s):
    return '"' + s.replace("\\", "\\\\").replace('"', '\\"') + '"'


def generate(repo):
    check_members(repo)
    fs = files(repo)
    sites = []
    for f in fs:
        sites += scan_file(f, os.path.relpath(f, os.path.join(repo, SCHED)))
    if not any(s["kind"] == "globalWrite" for s in sites) or not any(s["kind"] == "refValue" for s in sites):
        raise TranslateError("no globalWrite / refValue site recognised: the scanner no longer understands the sources")
    if len(sites) < 40:
        raise TranslateError(f"only {len(sites)} sites recognised")
    # `state()` is classified as the current snapshot: that is what it must be
    hc = strip_comments_keep_lines(open(os.path.join(repo, SCHED, "HandlerContext.cpp")).read())
    if not re.search(r"ScheduleState\s*&\s*HandlerContext::state\s*\(\s*\)\s*\{\s*return\s+schedule_\s*\.\s*snapshots\s*\[\s*currentStep\s*\]\s*;\s*\}", hc):
        raise TranslateError("HandlerContext::state() is no longer `return schedule_.snapshots[currentStep];`")
    if not any(s["kind"] == "snapContainer" and s["recv"] in SNAP_APPEND and s["fn"].startswith("Schedule::create_") for s in sites):
        raise TranslateError("no append to `snapshots` seen in Schedule::create_first / create_next")
    out = ["/- GENERATED by translate/handlers.py from opm/input/eclipse/Schedule/{Schedule,HandlerContext,*KeywordHandlers}.cpp — do not edit. -/",
           "namespace OpmVerif.Gen.HandlerEffects", "",
           "structure Site where", "  file : String", "  fn : String", "  kind : String", "  recv : String", "  detail : String",
           "deriving DecidableEq, Repr", "",
           f"def nFiles : Nat := {len(fs)}", "",
           "/-- Line numbers are deliberately not part of the table (they move with every edit). -/",
           "def sites : List Site := ["]
    rows = []
    for s in sites:
        rows.append("  { file := %s, fn := %s, kind := %s, recv := %s, detail := %s }" % (
            lean_str(s["file"]), lean_str(s["fn"]), lean_str(s["kind"]), lean_str(s["recv"]), lean_str(s["detail"])))
    out.append(",\n".join(rows))
    out += ["]", "", "end OpmVerif.Gen.HandlerEffects", ""]
    return {"module": "OpmVerif.Gen.HandlerEffects", "file": "HandlerEffects.lean", "text": "\n".join(out), "sources": fs,
            "_sites": sites}


if __name__ == "__main__":
    import sys
    r = generate(sys.argv[1] if len(sys.argv) > 1 else os.environ.get("VERIF_REPO", "/repo"))
    from collections import Counter
    c = Counter((s["kind"], s["recv"] if not s["kind"].startswith("snapIndex") else "") for s in r["_sites"])
    for k, v in sorted(c.items()):
        print(v, k)
    for s in r["_sites"]:
        if s["kind"] in ("refShared", "constCast", "globalWrite", "snapAlias", "innerShared", "snapIndexW", "snapOtherW", "snapContainer") or (s["kind"] == "refValue" and s["recv"] != "cur"):
            print(s["file"], s["line"], s["fn"], s["kind"], s["recv"], "|", s["detail"])
