"""Units.hpp + UnitSystem.{hpp,cpp} + keyword JSON  ->  lean/OpmVerif/Gen/Units.lean

What is read, and how it appears in Lean (namespace OpmVerif.Gen.Units):

* every `constexpr [const] double NAME = <expr>;` of opm/input/eclipse/Units/Units.hpp, in
  its namespace (prefix -> `pfx`, Field -> `FieldU`, others unchanged), as
  `def <ns>.<NAME> (α) [Num α] : α := <the same expression, same association>`;
  every `constexpr double f(params) { return <expr>; }` as a Lean function; decimal
  literals become `Num.lit m e` (= m·10^e exactly);  `constTable` lists all of them
  under their C++ qualified names;
* every `static const double X[] = {...}` and `static constexpr const char* X[...] = {...}`
  of UnitSystem.cpp as `tab.X : List α` / `tab.X : List String`;
* every `void UnitSystem::initXXX()`: m_name, which array is which measure table, and the
  `addDimension(name, factor[, offset])` calls in source order (quiet_NaN -> `none`);
  the `init()` switch ties UnitType enumerators to the init functions; `deck_name()` gives
  the deck names; result `systems : List (SysDef α)` in UnitType order;
* `enum class measure` of UnitSystem.hpp -> `measureNames` (without `_count`);
* DeckItem.cpp: whether `get<double>` has a specialisation that honours `raw_data`
  (`deckItemGetHonoursRawData`), and tripwires on the shape of getData<double>/getSIDoubleData;
* the distinct "dimension" strings of the keyword JSON files: `keywordDimStrings` (files
  listed in keyword_list.cmake, i.e. compiled into the parser) and
  `unlistedOnlyDimStrings` (strings that occur only in files that are not listed).

C++ semantics respected: `*` and `/` associate to the left; an integer literal combined with
a double is converted exactly; integer (op) integer would be integer arithmetic in C++ and is
refused (TranslateError), as is anything outside  literal | name | f(args) | (e) | e*e | e/e.
"""
import os, re
from .common import TranslateError

NS_MAP = {"prefix": "pfx", "Field": "FieldU"}


def strip_comments_keep_strings(src):
    out, i, n = [], 0, len(src)
    while i < n:
        c = src[i]
        if c == '"':
            j = i + 1
            while j < n and src[j] != '"':
                j += 2 if src[j] == '\\' else 1
            out.append(src[i:j + 1])
            i = j + 1
        elif src.startswith("//", i):
            j = src.find("\n", i)
            i = n if j < 0 else j
        elif src.startswith("/*", i):
            j = src.find("*/", i + 2)
            if j < 0:
                raise TranslateError("unterminated comment")
            out.append(" ")
            i = j + 2
        else:
            out.append(c)
            i += 1
    return "".join(out)


# ----------------------------------------------------------------------------
# expressions

TOK = re.compile(r"\s*(?:(?P<num>(?:\d+\.?\d*|\.\d+)(?:[eE][+-]?\d+)?)|(?P<id>[A-Za-z_][\w]*(?:\s*::\s*[A-Za-z_~][\w]*)*(?:<[^<>()]*>)?(?:\s*::\s*[A-Za-z_]\w*)*)|(?P<op>[*/(),]))")


def tokenize(text, where):
    toks, i = [], 0
    text = text.strip()
    while i < len(text):
        m = TOK.match(text, i)
        if not m or m.end() == i:
            raise TranslateError(f"{where}: cannot tokenize '{text[i:i+30]}' in '{text}'")
        if m.group("num") is not None:
            toks.append(("num", m.group("num")))
        elif m.group("id") is not None:
            toks.append(("id", re.sub(r"\s+", "", m.group("id"))))
        else:
            toks.append(("op", m.group("op")))
        i = m.end()
    return toks


def parse_literal(txt, where):
    m = re.fullmatch(r"(\d*)(?:\.(\d*))?(?:[eE]([+-]?\d+))?", txt)
    if not m or (not m.group(1) and not m.group(2)):
        raise TranslateError(f"{where}: bad numeric literal '{txt}'")
    ip, fp, ex = m.group(1) or "", m.group(2), m.group(3)
    is_int = fp is None and ex is None and "." not in txt
    fp = fp or ""
    mant = int((ip + fp) or "0")
    e = (int(ex) if ex else 0) - len(fp)
    if mant == 0:
        e = 0
    while mant != 0 and mant % 10 == 0 and e < 0:
        mant //= 10
        e += 1
    return ("lit", mant, e, is_int)


class ExprParser:
    """expr := unary (('*'|'/') unary)* ; unary := num | name | name '(' expr,* ')' | '(' expr ')'"""

    def __init__(self, toks, where):
        self.t, self.i, self.where = toks, 0, where

    def peek(self):
        return self.t[self.i] if self.i < len(self.t) else (None, None)

    def take(self):
        tok = self.peek()
        self.i += 1
        return tok

    def expr(self):
        left = self.unary()
        while self.peek() in (("op", "*"), ("op", "/")):
            op = self.take()[1]
            right = self.unary()
            if left[0] == "lit" and left[3] and right[0] == "lit" and right[3]:
                raise TranslateError(f"{self.where}: integer {op} integer is integer arithmetic in C++; not supported")
            left = ("mul" if op == "*" else "div", left, right)
        return left

    def unary(self):
        kind, v = self.take()
        if kind == "num":
            return parse_literal(v, self.where)
        if kind == "id":
            if self.peek() == ("op", "("):
                self.take()
                args = []
                if self.peek() != ("op", ")"):
                    args.append(self.expr())
                    while self.peek() == ("op", ","):
                        self.take()
                        args.append(self.expr())
                if self.take() != ("op", ")"):
                    raise TranslateError(f"{self.where}: ')' expected")
                return ("call", v, args)
            return ("ref", v)
        if (kind, v) == ("op", "("):
            e = self.expr()
            if self.take() != ("op", ")"):
                raise TranslateError(f"{self.where}: ')' expected")
            return ("paren", e)
        raise TranslateError(f"{self.where}: unexpected token {v!r}")


def parse_expr(text, where):
    p = ExprParser(tokenize(text, where), where)
    e = p.expr()
    if p.i != len(p.t):
        raise TranslateError(f"{where}: trailing tokens in '{text}'")
    return e


class Scope:
    """Symbol table of Units.hpp: qualified C++ name (without Opm::) -> ('const'|'fun', lean name, arity)."""

    def __init__(self):
        self.sym = {}
        self.using = {}     # namespace path -> list of namespaces made visible by `using namespace`
        self.order = []

    @staticmethod
    def lean_name(qual):
        parts = qual.split("::")
        return ".".join(NS_MAP.get(p, p) if k < len(parts) - 1 else p for k, p in enumerate(parts))

    def add(self, qual, kind, arity=0):
        if qual in self.sym:
            raise TranslateError(f"Units.hpp: duplicate definition of {qual}")
        self.sym[qual] = (kind, self.lean_name(qual), arity)
        self.order.append(qual)

    def resolve(self, name, ns, where, params=()):
        """C++ unqualified / partially qualified lookup from namespace path `ns` (list)."""
        name = re.sub(r"^(::)?Opm::", "", name)
        if name in params:
            return ("param", name)
        cands = []
        for k in range(len(ns), -1, -1):
            cands.append("::".join(ns[:k] + [name]))
            for u in self.using.get("::".join(ns[:k]), []):
                cands.append(u + "::" + name)
        for c in cands:
            if c in self.sym:
                return ("sym", c)
        raise TranslateError(f"{where}: unknown identifier '{name}' (looked up from namespace {'::'.join(ns) or '<global>'})")


def emit(e, scope, ns, where, params=()):
    k = e[0]
    if k == "lit":
        ex = f"({e[2]})" if e[2] < 0 else str(e[2])
        return f"(Num.lit {e[1]} {ex} : α)"
    if k == "paren":
        return emit(e[1], scope, ns, where, params)
    if k in ("mul", "div"):
        return f"({emit(e[1], scope, ns, where, params)} {'*' if k == 'mul' else '/'} {emit(e[2], scope, ns, where, params)})"
    if k == "ref":
        if e[1] == "std::numeric_limits<double>::quiet_NaN":
            raise TranslateError(f"{where}: NaN outside addDimension")
        r = scope.resolve(e[1], ns, where, params)
        if r[0] == "param":
            return r[1]
        kind, lean, _ = scope.sym[r[1]]
        if kind != "const":
            raise TranslateError(f"{where}: {e[1]} is a function used as a value")
        return f"({lean} α)"
    if k == "call":
        r = scope.resolve(e[1], ns, where)
        kind, lean, arity = scope.sym[r[1]]
        if kind != "fun" or arity != len(e[2]):
            raise TranslateError(f"{where}: bad call of {e[1]}")
        return "(" + lean + " α " + " ".join("(" + emit(a, scope, ns, where, params) + ")" for a in e[2]) + ")"
    raise TranslateError(f"{where}: internal: node {k}")


# ----------------------------------------------------------------------------
# Units.hpp

def walk_namespaces(src, where):
    """Yield (namespace path, statement text) for every top-level statement inside namespaces."""
    i, n, ns, stack = 0, len(src), [], []
    buf = []
    out = []
    while i < n:
        m = re.compile(r"\s*namespace\s+(\w+)\s*\{").match(src, i)
        if m:
            ns.append(m.group(1))
            stack.append("ns")
            i = m.end()
            continue
        c = src[i]
        if c == "{":
            # function body: copy to matching brace as part of the statement
            depth, j = 1, i + 1
            while j < n and depth:
                depth += {"{": 1, "}": -1}.get(src[j], 0)
                j += 1
            buf.append(src[i:j])
            out.append((list(ns), "".join(buf).strip()))
            buf = []
            i = j
            continue
        if c == "}":
            if not stack:
                raise TranslateError(f"{where}: unbalanced braces")
            stack.pop()
            ns.pop()
            i += 1
            continue
        if c == ";":
            st = "".join(buf).strip()
            if st:
                out.append((list(ns), st))
            buf = []
            i += 1
            continue
        buf.append(c)
        i += 1
    return out


def read_units_hpp(path):
    src = strip_comments_keep_strings(open(path).read())
    src = "\n".join(l for l in src.split("\n") if not l.lstrip().startswith("#"))
    scope, defs = Scope(), []
    for ns, st in walk_namespaces(src, "Units.hpp"):
        ns = [x for x in ns if x != "Opm"]
        m = re.fullmatch(r"using\s+namespace\s+([\w:]+)", st)
        if m:
            scope.using.setdefault("::".join(ns), []).append(re.sub(r"^Opm::", "", m.group(1)))
            continue
        m = re.fullmatch(r"constexpr\s+(?:const\s+)?double\s+(\w+)\s*=\s*(.+)", st, re.S)
        if m:
            qual = "::".join(ns + [m.group(1)])
            where = f"Units.hpp:{qual}"
            ast = parse_expr(m.group(2), where)
            body = emit(ast, scope, ns, where)
            scope.add(qual, "const")
            defs.append(("const", qual, scope.sym[qual][1], body, ast))
            continue
        m = re.fullmatch(r"constexpr\s+double\s+(\w+)\s*\(([^)]*)\)\s*\{\s*return\s+([^;]+);\s*\}", st, re.S)
        if m:
            qual = "::".join(ns + [m.group(1)])
            where = f"Units.hpp:{qual}()"
            params = []
            for p in m.group(2).split(","):
                pm = re.fullmatch(r"\s*(?:const\s+)?double\s+(\w+)\s*", p)
                if not pm:
                    raise TranslateError(f"{where}: parameter '{p}' is not a double")
                params.append(pm.group(1))
            ast = parse_expr(m.group(3), where)
            body = emit(ast, scope, ns, where, tuple(params))
            scope.add(qual, "fun", len(params))
            defs.append(("fun", qual, scope.sym[qual][1], body, params))
            continue
        if "double" in st:
            raise TranslateError(f"Units.hpp: statement with 'double' not understood: {st[:80]!r}")
    if not any(d[1] == "unit::meter" for d in defs):
        raise TranslateError("Units.hpp: unit::meter not found — file shape changed")
    return scope, defs


# ----------------------------------------------------------------------------
# UnitSystem.cpp / .hpp

def split_top(text):
    parts, depth, cur, i = [], 0, [], 0
    while i < len(text):
        c = text[i]
        if c == '"':
            j = i + 1
            while text[j] != '"':
                j += 2 if text[j] == '\\' else 1
            cur.append(text[i:j + 1])
            i = j + 1
            continue
        if c in "([{":
            depth += 1
        elif c in ")]}":
            depth -= 1
        if c == "," and depth == 0:
            parts.append("".join(cur).strip())
            cur = []
        else:
            cur.append(c)
        i += 1
    last = "".join(cur).strip()
    if last:
        parts.append(last)
    return parts


def cstring(tok, where):
    m = re.fullmatch(r'"((?:[^"\\]|\\.)*)"', tok.strip())
    if not m:
        raise TranslateError(f"{where}: string literal expected, got {tok!r}")
    if "\\" in m.group(1):
        raise TranslateError(f"{where}: escape sequences in {tok!r} not supported")
    return m.group(1)


def lean_str(s):
    return '"' + s.replace("\\", "\\\\").replace('"', '\\"') + '"'


def function_body(src, header_re, where):
    m = re.search(header_re, src)
    if not m:
        raise TranslateError(f"{where}: not found")
    i = src.index("{", m.end() - 1)
    depth, j = 1, i + 1
    while depth:
        depth += {"{": 1, "}": -1}.get(src[j], 0)
        j += 1
    return src[i + 1:j - 1]


def read_unit_system(cpp_path, hpp_path, scope):
    hpp = strip_comments_keep_strings(open(hpp_path).read())
    m = re.search(r"enum\s+class\s+measure\s*:\s*int\s*\{([^}]*)\}", hpp)
    if not m:
        raise TranslateError("UnitSystem.hpp: enum class measure not found")
    measures = [x.strip() for x in m.group(1).split(",") if x.strip()]
    if any("=" in x for x in measures) or measures[-1] != "_count":
        raise TranslateError("UnitSystem.hpp: measure enum has explicit values or does not end in _count")
    measures = measures[:-1]
    m = re.search(r"enum\s+class\s+UnitType\s*\{([^}]*)\}", hpp)
    if not m:
        raise TranslateError("UnitSystem.hpp: enum class UnitType not found")
    unit_types = []
    for k, x in enumerate(y.strip() for y in m.group(1).split(",") if y.strip()):
        mm = re.fullmatch(r"(\w+)\s*(?:=\s*(\d+))?", x)
        if not mm:
            raise TranslateError(f"UnitSystem.hpp: UnitType enumerator {x!r}")
        val = int(mm.group(2)) if mm.group(2) else (unit_types[-1][1] + 1 if unit_types else 0)
        unit_types.append((mm.group(1), val))

    src = strip_comments_keep_strings(open(cpp_path).read())
    dtabs, stabs = {}, {}
    for m in re.finditer(r"static\s+const\s+double\s+(\w+)\s*\[\s*\]\s*=\s*\{(.*?)\}\s*;", src, re.S):
        name = m.group(1)
        entries = []
        for k, t in enumerate(split_top(m.group(2))):
            where = f"UnitSystem.cpp:{name}[{k}]"
            entries.append(emit(parse_expr(t, where), scope, [], where))
        if len(entries) != len(measures):
            raise TranslateError(f"UnitSystem.cpp: {name} has {len(entries)} entries, measure enum has {len(measures)}")
        dtabs[name] = entries
    for m in re.finditer(r"static\s+constexpr\s+const\s+char\s*\*\s*(\w+)\s*\[[^\]]*\]\s*=\s*\{(.*?)\}\s*;", src, re.S):
        name = m.group(1)
        entries = [cstring(t, f"UnitSystem.cpp:{name}") for t in split_top(m.group(2))]
        if len(entries) != len(measures):
            raise TranslateError(f"UnitSystem.cpp: {name} has {len(entries)} entries, measure enum has {len(measures)}")
        stabs[name] = entries
    if not dtabs:
        raise TranslateError("UnitSystem.cpp: no measure tables found")

    # init(): UnitType -> init function
    body = function_body(src, r"void\s+UnitSystem::init\s*\(\s*\)\s*\{", "UnitSystem::init()")
    init_of = dict(re.findall(r"case\s*\(?\s*UnitType::(\w+)\s*\)?\s*:\s*this->(\w+)\s*\(\s*\)", body))
    body = function_body(src, r"std::string\s+UnitSystem::deck_name\s*\(\s*\)\s*const\s*\{", "UnitSystem::deck_name()")
    deck_names = dict(re.findall(r"case\s*\(?\s*UnitType::(\w+)\s*\)?\s*:\s*return\s*\"([^\"]*)\"", body))

    systems = []
    for ut, val in unit_types:
        if ut not in init_of:
            raise TranslateError(f"UnitSystem::init(): no case for {ut}")
        fn = init_of[ut]
        body = function_body(src, r"void\s+UnitSystem::" + fn + r"\s*\(\s*\)\s*\{", f"UnitSystem::{fn}()")
        sysd = {"unitType": ut, "typeId": val, "init": fn, "deckName": deck_names.get(ut), "dims": []}
        for st in (s.strip() for s in body.split(";")):
            if not st:
                continue
            st = re.sub(r"^this->", "", st)
            m = re.fullmatch(r"m_name\s*=\s*(\".*\")", st)
            if m:
                sysd["name"] = cstring(m.group(1), fn)
                continue
            m = re.fullmatch(r"(measure_table_from_si|measure_table_to_si|measure_table_to_si_offset|unit_name_table)\s*=\s*(\w+)", st)
            if m:
                tabs = stabs if m.group(1) == "unit_name_table" else dtabs
                if m.group(2) not in tabs:
                    raise TranslateError(f"{fn}: table {m.group(2)} not found")
                sysd[m.group(1)] = m.group(2)
                continue
            m = re.fullmatch(r"addDimension\s*\((.*)\)", st, re.S)
            if m:
                args = split_top(m.group(1))
                if len(args) not in (2, 3):
                    raise TranslateError(f"{fn}: addDimension with {len(args)} arguments")
                dname = cstring(args[0], fn)
                where = f"UnitSystem.cpp:{fn}:addDimension({dname})"
                if re.sub(r"\s+", "", args[1]) == "std::numeric_limits<double>::quiet_NaN()":
                    fac = "none"
                else:
                    fac = "some " + emit(parse_expr(args[1], where), scope, [], where)
                off = emit(parse_expr(args[2], where), scope, [], where) if len(args) == 3 else "(Num.lit 0 0 : α)"
                sysd["dims"].append((dname, fac, off))
                continue
            raise TranslateError(f"UnitSystem::{fn}(): statement not understood: {st[:80]!r}")
        for k in ("name", "measure_table_from_si", "measure_table_to_si", "measure_table_to_si_offset", "unit_name_table"):
            if k not in sysd:
                raise TranslateError(f"UnitSystem::{fn}(): {k} is not set")
        systems.append(sysd)
    return measures, dtabs, stabs, systems


# ----------------------------------------------------------------------------
# keyword JSON

DIM_RE = re.compile(r'"dimension"\s*:\s*(\[[^\]]*\]|"[^"]*")')


def load_json_lenient(text):
    """cJSON accepts what strict JSON does not: raw control characters inside strings and numbers such as
    `35.` / `1.e-01`.  Returns None when the text still cannot be read."""
    import json
    text = re.sub(r"(\d)\.(?=[\s,}\]eE])", r"\1.0", text)
    try:
        return json.loads(text, strict=False)
    except ValueError:
        return None


def item_dims_of(j):
    """[(record index, item name, [dims])] of one keyword JSON object, as ParserKeyword reads it."""
    out = []

    def dims(it):
        d = it.get("dimension")
        if d is None:
            return []
        return [d] if isinstance(d, str) else list(d)

    def record(r, items):
        for it in items:
            if isinstance(it, dict) and dims(it):
                out.append((r, it.get("name", "?"), dims(it)))
    if isinstance(j.get("items"), list):
        record(0, j["items"])
    for key in ("records", "alternating_records", "records_set"):
        if isinstance(j.get(key), list):
            for r, items in enumerate(j[key]):
                if isinstance(items, list):
                    record(r, items)
    if isinstance(j.get("data"), dict) and dims(j["data"]):
        out.append((0, "data", dims(j["data"])))
    return out


def read_keyword_dims(repo):
    root = os.path.join(repo, "opm/input/eclipse/share/keywords")
    listing = os.path.join(root, "keyword_list.cmake")
    txt = re.sub(r"#[^\n]*", "", open(listing).read())
    m = re.search(r"set\s*\(\s*keywords\b(.*?)\)", txt, re.S)
    if not m:
        raise TranslateError("keyword_list.cmake: set(keywords ...) not found")
    listed = set(m.group(1).split())
    uses_listed, uses_unlisted, nfiles, nlisted = {}, {}, 0, 0
    item_dims, unreadable = {}, []
    sources = [listing]
    for d, _, fs in sorted(os.walk(root)):
        for f in sorted(fs):
            p = os.path.join(d, f)
            rel = os.path.relpath(p, root)
            if rel == "keyword_list.cmake" or rel.count("/") != 2:
                continue
            nfiles += 1
            is_listed = rel in listed
            nlisted += is_listed
            try:
                body = open(p, encoding="utf-8", errors="replace").read()
            except OSError as ex:
                raise TranslateError(f"cannot read {p}: {ex}")
            tgt = uses_listed if is_listed else uses_unlisted
            for dm in DIM_RE.finditer(body):
                for s in re.findall(r'"([^"]*)"', dm.group(1)):
                    tgt.setdefault(s, []).append(rel.split("/")[-1])
            if is_listed:
                sources.append(p)
                j = load_json_lenient(body)
                found = []
                if isinstance(j, dict) and "name" in j:
                    found = item_dims_of(j)
                    for r, iname, ds in found:
                        item_dims[f"{j['name']}.{r}.{iname}"] = ds
                # the structured reading must account for every "dimension" occurrence of the file
                n_regex = sum(len(re.findall(r'"([^"]*)"', dm.group(1))) for dm in DIM_RE.finditer(body))
                if n_regex != sum(len(ds) for _, _, ds in found):
                    unreadable.append(rel)
    missing = [x for x in listed if not os.path.exists(os.path.join(root, x))]
    if missing:
        raise TranslateError(f"keyword_list.cmake lists missing files: {missing[:5]}")
    if not uses_listed:
        raise TranslateError("no dimension strings found in keyword JSON")
    if len(unreadable) > 5:
        raise TranslateError(f"keyword JSON: {len(unreadable)} listed files could not be read item by item: {unreadable[:8]}")
    return uses_listed, uses_unlisted, nfiles, nlisted, sources, item_dims, unreadable


# ----------------------------------------------------------------------------
# DeckItem.cpp: shape of the lazy conversion

def read_deck_item(path):
    src = strip_comments_keep_strings(open(path).read())

    def body_after(header_re, where):
        m = re.search(header_re, src)
        if not m:
            return None
        i = src.index("{", m.end() - 1)
        depth, j = 1, i + 1
        while depth:
            depth += {"{": 1, "}": -1}.get(src[j], 0)
            j += 1
        return src[i + 1:j - 1]

    generic = body_after(r"template\s*<\s*typename\s+T\s*>\s*T\s+DeckItem::get\s*\(\s*size_t\s+index\s*\)\s*const\s*\{", "get<T>")
    if generic is None or "value_ref" not in generic:
        raise TranslateError("DeckItem.cpp: generic DeckItem::get<T>(index) not found in the expected shape")
    if "raw_data" in generic:
        raise TranslateError("DeckItem.cpp: generic get<T> now mentions raw_data — model of get<double> must be reviewed")
    spec = body_after(r"template\s*<\s*>\s*double\s+DeckItem::get\s*\(\s*size_t\s+\w+\s*\)\s*const\s*\{", "get<double>")
    honours = spec is not None
    if honours and not ("raw_data" in spec and "convertSiToRaw" in spec and "getData" not in spec and "getSIDouble" not in spec):
        raise TranslateError("DeckItem.cpp: get<double> specialisation does not have the shape `raw_data ? data[i] : dim.convertSiToRaw(data[i])`")
    gd = body_after(r"template\s*<\s*>\s*const\s+std::vector\s*<\s*double\s*>\s*&\s*DeckItem::getData\s*\(\s*\)\s*const\s*\{", "getData<double>")
    if gd is None or "convertSiToRaw" not in gd or not re.search(r"raw_data\s*=\s*true", gd) or "default_dimensions" not in gd:
        raise TranslateError("DeckItem.cpp: getData<double>() no longer has the modelled shape (convertSiToRaw loop, raw_data = true)")
    gs = body_after(r"DeckItem::getSIDoubleData\s*\(\s*\)\s*const\s*\{", "getSIDoubleData")
    if gs is None or "convertRawToSi" not in gs or not re.search(r"raw_data\s*=\s*false", gs) or "default_dimensions" not in gs:
        raise TranslateError("DeckItem.cpp: getSIDoubleData() no longer has the modelled shape (convertRawToSi loop, raw_data = false)")
    return honours



# ----------------------------------------------------------------------------
# users of the unit machinery outside UnitSystem.cpp (-> Gen/UnitsUse.lean)

def read_fieldprops_units(path):
    """FieldProps.hpp: {"KW", keyword_info<double>{}...unit_string("...")...} -> [(section, kw, unit)]"""
    src = strip_comments_keep_strings(open(path).read())
    out = []
    # namespaces GRID / EDIT / PROPS / SOLUTION / SCHEDULE ... enclose the tables
    ns_pos = [(m.start(), m.group(1)) for m in re.finditer(r"namespace\s+(\w+)\s*\{", src)]
    for m in re.finditer(r'\{\s*"(\w+)"\s*,\s*keyword_info\s*<\s*double\s*>\s*\{\s*\}((?:\s*\.\s*\w+\s*\((?:[^()"]|"[^"]*")*\))*)\s*\}', src):
        kw, chain = m.group(1), m.group(2)
        us = re.findall(r'\.\s*unit_string\s*\(\s*"([^"]*)"\s*\)', chain)
        if len(us) > 1:
            raise TranslateError(f"FieldProps.hpp: {kw} has two unit_string() calls")
        if us:
            sec = [n for p, n in ns_pos if p < m.start()]
            out.append((sec[-1] if sec else "", kw, us[0]))
    n_calls = len(re.findall(r'\.\s*unit_string\s*\(\s*"', src))
    if n_calls != len(out) or not out:
        raise TranslateError(f"FieldProps.hpp: {n_calls} unit_string(\"...\") calls but {len(out)} table entries read")
    return out


def read_uda_dim(cpp_path, measures):
    src = strip_comments_keep_strings(open(cpp_path).read())
    body = function_body(src, r"Dimension\s+UnitSystem::uda_dim\s*\(\s*const\s+UDAControl\s+\w+\s*\)\s*const\s*\{", "uda_dim")
    sw = re.search(r"switch\s*\(\s*\w+\s*\)\s*\{", body)
    if not sw:
        raise TranslateError("UnitSystem::uda_dim: no switch")
    rest = body[sw.end():]
    out, pending = [], []
    pos = 0
    tok = re.compile(r"case\s+UDAControl::(\w+)\s*:|return\s+this->getDimension\s*\(\s*UnitSystem::measure::(\w+)\s*\)\s*;|default\s*:")
    for m in tok.finditer(rest):
        gap = rest[pos:m.start()].strip()
        if gap:
            raise TranslateError(f"UnitSystem::uda_dim: unexpected code in switch: {gap[:60]!r}")
        pos = m.end()
        if m.group(1):
            pending.append(m.group(1))
        elif m.group(2):
            if m.group(2) not in measures or not pending:
                raise TranslateError("UnitSystem::uda_dim: return without case / unknown measure " + m.group(2))
            out += [(c, m.group(2)) for c in pending]
            pending = []
        else:
            if pending:
                raise TranslateError("UnitSystem::uda_dim: case labels fall through to default")
            break
    else:
        raise TranslateError("UnitSystem::uda_dim: no default label")
    if not re.match(r"\s*throw\b", rest[pos:]):
        raise TranslateError("UnitSystem::uda_dim: default no longer throws")
    if not out:
        raise TranslateError("UnitSystem::uda_dim: no cases read")
    return out


def read_summary_unit_algebra(path, measures):
    """Summary.cpp mul_unit / div_unit: (a, b, result) rules, in source order"""
    src = strip_comments_keep_strings(open(path).read())
    res = {}
    for fn, a, b in (("mul_unit", "lhs", "rhs"), ("div_unit", "denom", "div")):
        body = function_body(src, r"measure\s+" + fn + r"\s*\(\s*measure\s+" + a + r"\s*,\s*measure\s+" + b + r"\s*\)\s*\{", fn)
        rules = []
        for seg in re.split(r";", body):
            r = re.search(r"return\s+measure::(\w+)\s*$", seg.strip())
            conj = re.findall(r"(\w+)\s*==\s*measure::(\w+)\s*&&\s*(\w+)\s*==\s*measure::(\w+)", seg)
            if conj and not r:
                raise TranslateError(f"Summary.cpp {fn}: condition without `return measure::X`")
            for (v1, m1, v2, m2) in conj:
                d = {v1: m1, v2: m2}
                if set(d) != {a, b}:
                    raise TranslateError(f"Summary.cpp {fn}: condition on unexpected variables {v1}, {v2}")
                for mm in (m1, m2, r.group(1)):
                    if mm not in measures:
                        raise TranslateError(f"Summary.cpp {fn}: unknown measure {mm}")
                rules.append((d[a], d[b], r.group(1)))
        if not rules:
            raise TranslateError(f"Summary.cpp {fn}: no rules read")
        res[fn] = rules
    return res["mul_unit"], res["div_unit"]


def read_parse_guard(cpp_path):
    """does UnitSystem::parse refuse a string that ends in its only '/' before it indexes parts[1]?"""
    src = strip_comments_keep_strings(open(cpp_path).read())
    body = function_body(src, r"Dimension\s+UnitSystem::parse\s*\(\s*const\s+std::string\s*&\s*dimension\s*\)\s*const\s*\{", "parse")
    if not re.search(r"parts\s*\[\s*1\s*\]", body) or "split_string" not in body:
        raise TranslateError("UnitSystem::parse: no longer `split_string(dimension, '/')` + `parts[1]` — review parseUB")
    head = body[:re.search(r"parts\s*\[\s*1\s*\]", body).start()]
    guard = re.search(r"if\s*\(\s*divCount\s*==\s*1\s*&&\s*dimension\s*\.\s*back\s*\(\s*\)\s*==\s*'/'\s*\)\s*throw\b", head)
    if not guard and re.search(r"\.size\s*\(\s*\)|\.back\s*\(|\.empty\s*\(", head):
        raise TranslateError("UnitSystem::parse: an unrecognised size/back/empty test precedes parts[1] — review parseUB")
    return bool(guard)


def read_item_quantities(path):
    """harness/units_quantities.cpp: the HAND-WRITTEN keyword item -> physical quantity table and the
    quantity names (copied verbatim; nothing here looks at the keyword JSON)."""
    src = open(path).read()
    def region(tag):
        m = re.search(r"// BEGIN " + tag + r"\n(.*?)// END " + tag + r"\n", src, re.S)
        if not m:
            raise TranslateError(f"units_quantities.cpp: markers of {tag} not found")
        return strip_comments_keep_strings(m.group(1))
    qnames = re.findall(r'^\s*\{\s*"(\w+)"\s*,\s*\{', region("QUANTITIES"), re.M)
    body = region("ITEM_QUANTITIES")
    items = []
    for m in re.finditer(r'^\s*\{\s*"([\w.]+)"\s*,\s*\{([^{}]*)\}\s*\}\s*,\s*$', body, re.M):
        qs = re.findall(r'"(\w+)"', m.group(2))
        if not qs or len(qs) != m.group(2).count('"') // 2:
            raise TranslateError(f"units_quantities.cpp: entry {m.group(1)} not readable")
        items.append((m.group(1), qs))
    n_lines = len([l for l in body.splitlines() if re.match(r'\s*\{\s*"', l)])
    if not qnames or not items or n_lines != len(items):
        raise TranslateError(f"units_quantities.cpp: {n_lines} entry lines but {len(items)} entries read")
    if len(set(k for k, _ in items)) != len(items):
        raise TranslateError("units_quantities.cpp: duplicate item key")
    return qnames, items


def generate_quant(verif_root):
    path = os.path.join(verif_root, "harness", "units_quantities.cpp")
    qnames, items = read_item_quantities(path)
    o = ["/- GENERATED by translate/units.py — verbatim copy of the hand-written tables of",
         "   harness/units_quantities.cpp (keyword item -> physical quantity of each column; quantity names).",
         "   Do not edit.  Pure data. -/",
         "namespace OpmVerif.Gen.UnitsQuant", "",
         "/-- names of the physical quantities the harness has independent factors for -/",
         "def quantityNames : List String := [" + ", ".join(lean_str(x) for x in qnames) + "]", "",
         "/-- `KEYWORD.record.ITEM` -> physical quantity of each column (ECLIPSE reference manual) -/",
         "def itemQuantities : List (String × List String) := ["]
    o += [f"  ({lean_str(k)}, [" + ", ".join(lean_str(q) for q in qs) + "])" + ("," if n + 1 < len(items) else "") for n, (k, qs) in enumerate(items)]
    o += ["]", "", "end OpmVerif.Gen.UnitsQuant", ""]
    return {"module": "OpmVerif.Gen.UnitsQuant", "file": "UnitsQuant.lean", "text": "\n".join(o), "sources": [path]}


def generate_use(repo, measures, listed, item_dims):
    fp = os.path.join(repo, "opm/input/eclipse/EclipseState/Grid/FieldProps.hpp")
    us_cpp = os.path.join(repo, "opm/input/eclipse/Units/UnitSystem.cpp")
    summ = os.path.join(repo, "opm/output/eclipse/Summary.cpp")
    fprops = read_fieldprops_units(fp)
    uda = read_uda_dim(us_cpp, measures)
    mul, div = read_summary_unit_algebra(summ, measures)
    guard = read_parse_guard(us_cpp)
    ks = sorted(listed)
    pos = {x: i for i, x in enumerate(ks)}
    ik = sorted(item_dims)
    o = ["/- GENERATED by translate/units.py — users of the unit machinery: keyword items (as indices into",
         "   `Gen.Units.keywordDimStrings`), FieldProps.hpp unit strings, UnitSystem::uda_dim, Summary.cpp",
         "   mul_unit/div_unit.  Do not edit.  Pure data. -/",
         "import OpmVerif.Gen.Units",
         "namespace OpmVerif.Gen.UnitsUse", "",
         "/-- per entry of `Gen.Units.keywordItemDims` (same order): positions of its dimension strings in",
         "`Gen.Units.keywordDimStrings` -/",
         "def keywordItemDimIdx : List (List Nat) := ["]
    o += ["  [" + ", ".join(str(pos[d]) for d in item_dims[k]) + "]" + ("," if n + 1 < len(ik) else "") for n, k in enumerate(ik)]
    o += ["]", "",
          "/-- FieldProps.hpp: (section namespace, keyword, unit string) of every `keyword_info<double>` with a unit -/",
          "def fieldPropsUnits : List (String × String × String) := ["]
    o += [f"  ({lean_str(a)}, {lean_str(b)}, {lean_str(c)})" + ("," if n + 1 < len(fprops) else "") for n, (a, b, c) in enumerate(fprops)]
    o += ["]", "",
          "/-- `UnitSystem::uda_dim`: (UDAControl, measure); every other control throws -/",
          "def udaDim : List (String × String) := ["]
    o += [f"  ({lean_str(a)}, {lean_str(b)})" + ("," if n + 1 < len(uda) else "") for n, (a, b) in enumerate(uda)]
    o += ["]", "",
          "/-- Summary.cpp `mul_unit`: (lhs, rhs, result) -/",
          "def summaryMulUnit : List (String × String × String) := [" + ", ".join(f"({lean_str(a)}, {lean_str(b)}, {lean_str(c)})" for a, b, c in mul) + "]", "",
          "/-- Summary.cpp `div_unit`: (numerator, denominator, result) -/",
          "def summaryDivUnit : List (String × String × String) := [" + ", ".join(f"({lean_str(a)}, {lean_str(b)}, {lean_str(c)})" for a, b, c in div) + "]", "",
          "/-- does `UnitSystem::parse` throw for a string that ends in its only `/` BEFORE it indexes `parts[1]`?",
          "`false`: `parts[1]` of a one-element vector is read (undefined behaviour). -/",
          f"def parseRejectsTrailingSlash : Bool := {'true' if guard else 'false'}", "",
          "end OpmVerif.Gen.UnitsUse", ""]
    return {"module": "OpmVerif.Gen.UnitsUse", "file": "UnitsUse.lean", "text": "\n".join(o), "sources": [fp, us_cpp, summ]}

# ----------------------------------------------------------------------------

def generate(repo):
    hpp = os.path.join(repo, "opm/input/eclipse/Units/Units.hpp")
    us_cpp = os.path.join(repo, "opm/input/eclipse/Units/UnitSystem.cpp")
    us_hpp = os.path.join(repo, "opm/input/eclipse/Units/UnitSystem.hpp")
    scope, defs = read_units_hpp(hpp)
    measures, dtabs, stabs, systems = read_unit_system(us_cpp, us_hpp, scope)
    listed, unlisted, nfiles, nlisted, kw_sources, item_dims, unreadable = read_keyword_dims(repo)
    deck_item_cpp = os.path.join(repo, "opm/input/eclipse/Deck/DeckItem.cpp")
    honours = read_deck_item(deck_item_cpp)

    o = ["/- GENERATED by translate/units.py from opm/input/eclipse/Units/{Units.hpp,UnitSystem.hpp,UnitSystem.cpp}",
         "   and opm/input/eclipse/share/keywords/** — do not edit.  Pure data: every expression has the shape",
         "   (operators, association, literals) it has in the C++ source. -/",
         "import OpmVerif.Model.UnitsNum",
         "set_option linter.unusedVariables false",
         "namespace OpmVerif.Gen.Units",
         "open OpmVerif.Units (Num SysDef)", "",
         "/-! ## Units.hpp -/", ""]
    for d in defs:
        if d[0] == "const":
            o.append(f"def {d[2]} (α : Type) [Num α] : α := {d[3]}")
        else:
            o.append(f"def {d[2]} (α : Type) [Num α] " + " ".join(f"({p} : α)" for p in d[4]) + f" : α := {d[3]}")
    o += ["", "/-- every constant of Units.hpp under its C++ qualified name -/",
          "def constTable (α : Type) [Num α] : List (String × α) := ["]
    consts = [d for d in defs if d[0] == "const"]
    o += [f"  ({lean_str(d[1])}, {d[2]} α)" + ("," if k + 1 < len(consts) else "") for k, d in enumerate(consts)]
    o += ["]", "", "/-! ## UnitSystem.hpp -/", "",
          "def measureNames : List String := [" + ", ".join(lean_str(x) for x in measures) + "]", "",
          "/-! ## UnitSystem.cpp: measure tables -/", ""]
    for name, entries in dtabs.items():
        o.append(f"def tab.{name} (α : Type) [Num α] : List α := [")
        o += [f"  {e}" + ("," if k + 1 < len(entries) else "") for k, e in enumerate(entries)]
        o += ["]", ""]
    for name, entries in stabs.items():
        o.append(f"def tab.{name} : List String := [" + ", ".join(lean_str(x) for x in entries) + "]")
        o.append("")
    o += ["/-! ## UnitSystem.cpp: init functions -/", ""]
    for s in systems:
        o.append(f"def sys.{s['unitType']} (α : Type) [Num α] : SysDef α where")
        o.append(f"  unitType := {lean_str(s['unitType'])}")
        o.append(f"  typeId := {s['typeId']}")
        o.append(f"  name := {lean_str(s['name'])}")
        o.append("  deckName := " + (f"some {lean_str(s['deckName'])}" if s["deckName"] is not None else "none"))
        o.append(f"  fromSI := tab.{s['measure_table_from_si']} α")
        o.append(f"  toSI := tab.{s['measure_table_to_si']} α")
        o.append(f"  toSIOffset := tab.{s['measure_table_to_si_offset']} α")
        o.append(f"  unitNames := tab.{s['unit_name_table']}")
        o.append("  dims := [")
        o += [f"    ({lean_str(n)}, {f}, {off})" + ("," if k + 1 < len(s["dims"]) else "") for k, (n, f, off) in enumerate(s["dims"])]
        o += ["  ]", ""]
    o.append("/-- all unit systems in `UnitType` order -/")
    o.append("def systems (α : Type) [Num α] : List (SysDef α) := [" + ", ".join(f"sys.{s['unitType']} α" for s in systems) + "]")
    o += ["", "/-! ## keyword JSON dimension strings -/",
          f"-- {nfiles} keyword files, {nlisted} listed in keyword_list.cmake; {len(listed)} distinct strings in listed files", ""]
    ks = sorted(listed)
    o.append("def keywordDimStrings : List String := [")
    o += [f"  {lean_str(x)}" + ("," if k + 1 < len(ks) else "") + f"  -- {len(listed[x])}× e.g. {listed[x][0]}" for k, x in enumerate(ks)]
    o += ["]", ""]
    us = sorted(x for x in unlisted if x not in listed)
    o.append("/-- strings that occur only in keyword files NOT listed in keyword_list.cmake (with one user) -/")
    o.append("def unlistedOnlyDimStrings : List (String × String) := [" + ", ".join(f"({lean_str(x)}, {lean_str(unlisted[x][0])})" for x in us) + "]")
    o += ["", "/-- per keyword item (`KEYWORD.record.ITEM`) of the listed files: its dimension list -/",
          "def keywordItemDims : List (String × List String) := ["]
    ik = sorted(item_dims)
    o += [f"  ({lean_str(k)}, [" + ", ".join(lean_str(d) for d in item_dims[k]) + "])" + ("," if n + 1 < len(ik) else "") for n, k in enumerate(ik)]
    o += ["]", "", "/-- listed keyword files whose items could not be read one by one (only their strings are known) -/",
          "def keywordFilesNotItemised : List String := [" + ", ".join(lean_str(x) for x in unreadable) + "]"]
    o += ["", "/-! ## DeckItem.cpp -/", "",
          "/-- does `DeckItem::get<double>(i)` consult `raw_data` (an explicit specialisation that converts an",
          "SI-state element back)?  `false`: the generic `get<T>` returns `dval[i]` as it is. -/",
          f"def deckItemGetHonoursRawData : Bool := {'true' if honours else 'false'}"]
    o += ["", "end OpmVerif.Gen.Units", ""]
    return [{"module": "OpmVerif.Gen.Units", "file": "Units.lean", "text": "\n".join(o),
             "sources": [hpp, us_hpp, us_cpp, deck_item_cpp] + kw_sources[:1]},
            generate_use(repo, measures, listed, item_dims),
            generate_quant(os.path.dirname(os.path.dirname(os.path.abspath(__file__))))]
