"""Shared helpers for the source -> Lean translators.

Every translator is a function `generate(repo) -> dict` that returns
{"module": "OpmVerif.Gen.X", "text": <lean source>, "sources": [paths]}.
`write_if_changed` keeps mtimes stable so Lake only rebuilds when the
generated text really changed.
"""
import hashlib, os, re

VERIF = os.path.dirname(os.path.dirname(os.path.abspath(__file__)))
GEN_DIR = os.path.join(VERIF, "lean", "OpmVerif", "Gen")


def sha256_file(path):
    h = hashlib.sha256()
    with open(path, "rb") as f:
        h.update(f.read())
    return h.hexdigest()


def strip_comments(src):
    src = re.sub(r"/\*.*?\*/", " ", src, flags=re.S)
    src = re.sub(r"//[^\n]*", " ", src)
    return src


def write_if_changed(path, text):
    os.makedirs(os.path.dirname(path), exist_ok=True)
    try:
        with open(path) as f:
            if f.read() == text:
                return False
    except FileNotFoundError:
        pass
    with open(path, "w") as f:
        f.write(text)
    return True


class TranslateError(Exception):
    """The source no longer has the shape the translator understands."""
