"""opm/input/eclipse/Parser/raw/RawConsts.hpp -> lean/OpmVerif/Gen/RawConsts.lean

The two 128-entry lookup tables `sep_table` / `q_table` become `List Bool`s, the character
constants `slash`, `quote` and `maxKeywordLength` become `Nat`s; the index expression of
`is_separator`/`is_quote` (`ch & 0x7f`) is checked to be present.  `Proofs/RawConsts.lean`
proves that the model's `isSep`/`isQuote` are exactly these tables.  DeckOutput's layout
constants (item_sep, columns, record_indent) are taken from DeckOutput.hpp.
"""
import os, re
from .common import strip_comments, TranslateError


def table(src, name):
    m = re.search(r"constexpr\s+bool\s+" + name + r"\s*\[\s*128\s*\]\s*=\s*\{([^}]*)\}", src)
    if not m:
        raise TranslateError(f"RawConsts.hpp: table {name}[128] not found")
    vals = [x.strip() for x in m.group(1).split(",") if x.strip()]
    if len(vals) != 128 or any(v not in ("0", "1") for v in vals):
        raise TranslateError(f"RawConsts.hpp: {name} does not have 128 entries of 0/1")
    return [v == "1" for v in vals]


def char_const(src, name):
    m = re.search(r"const\s+char\s+" + name + r"\s*=\s*'(\\?.)'\s*;", src)
    if not m:
        raise TranslateError(f"RawConsts.hpp: const char {name} not found")
    c = m.group(1)
    return ord(c[-1]) if not c.startswith("\\") or c == "\\'" or c == "\\\\" else {"n": 10, "t": 9}[c[1]]


def generate(repo):
    path = os.path.join(repo, "opm/input/eclipse/Parser/raw/RawConsts.hpp")
    src = strip_comments(open(path).read())
    sep = table(src, "sep_table")
    q = table(src, "q_table")
    for fn, tab in (("is_separator", "sep_table"), ("is_quote", "q_table")):
        if not re.search(r"struct\s+" + fn + r"\s*\{.*?return\s+" + tab + r"\s*\[\s*ch\s*&\s*0x7f\s*\]\s*;", src, re.S):
            raise TranslateError(f"RawConsts.hpp: {fn} is no longer `{tab}[ch & 0x7f]`")
    slash, quote = char_const(src, "slash"), char_const(src, "quote")
    m = re.search(r"const\s+unsigned\s+int\s+maxKeywordLength\s*=\s*(\d+)\s*;", src)
    if not m:
        raise TranslateError("RawConsts.hpp: maxKeywordLength not found")
    maxlen = int(m.group(1))

    opath = os.path.join(repo, "opm/input/eclipse/Deck/DeckOutput.hpp")
    osrc = strip_comments(open(opath).read())

    def ofield(pat, what):
        mm = re.search(pat, osrc)
        if not mm:
            raise TranslateError(f"DeckOutput.hpp: format field {what} not found")
        return mm.group(1)
    item_sep = ofield(r'std::string\s+item_sep\s*=\s*"([^"]*)"\s*;', "item_sep")
    record_indent = ofield(r'std::string\s+record_indent\s*=\s*"([^"]*)"\s*;', "record_indent")
    keyword_sep = ofield(r'std::string\s+keyword_sep\s*=\s*"([^"]*)"\s*;', "keyword_sep")
    columns = int(ofield(r'size_t\s+columns\s*=\s*(\d+)\s*;', "columns"))

    # What happens to defaults still pending at the end of an item / a record?  Three shapes of
    # DeckOutput::end_record (+ flush_defaults) and DeckItem::write_vector are understood; anything
    # else is a TranslateError.
    #   0  the original code: end_record writes " /" only (pending defaults dropped, counter kept)
    #   1  452487d0e: end_record writes the pending `n*` when the record holds an explicit value, clears the counter
    #   2  14c7867b0: DeckOutput::flush_defaults() does that, called by DeckItem::write_vector behind an item
    #      holding more than one value; end_record only clears the counter
    cpath = os.path.join(repo, "opm/input/eclipse/Deck/DeckOutput.cpp")
    csrc = strip_comments(open(cpath).read())
    ipath = os.path.join(repo, "opm/input/eclipse/Deck/DeckItem.cpp")
    isrc = strip_comments(open(ipath).read())
    mm = re.search(r"void\s+DeckOutput::end_record\s*\(\s*\)\s*\{(.*?)\n    \}", csrc, re.S)
    if not mm:
        raise TranslateError("DeckOutput.cpp: end_record() not found")
    body = re.sub(r"\s+", "", mm.group(1))
    mf = re.search(r"void\s+DeckOutput::flush_defaults\s*\(\s*\)\s*\{(.*?)\n    \}", csrc, re.S)
    fbody = re.sub(r"\s+", "", mf.group(1)) if mf else None
    mw = re.search(r"void\s+DeckItem::write_vector\s*\(.*?\)\s*const\s*\{(.*?)\n\}", isrc, re.S)
    if not mw:
        raise TranslateError("DeckItem.cpp: write_vector() not found")
    wbody = re.sub(r"\s+", "", mw.group(1))
    wloop = ("for(size_tindex=0;index<this->data_size();index++){if(this->defaultApplied(index))stream.stash_default();"
             "elsestream.write(data[index]);}")
    tail = 'this->os<<"/"<<std::endl;this->record_on=false;'
    flush_block1 = 'if(default_count>0&&row_count>0){write_sep();os<<default_count<<"*";row_count++;}default_count=0;'
    flush_fn2 = 'if(default_count>0&&row_count>0){write_sep();os<<default_count<<"*";default_count=0;row_count++;}'
    if body == tail and fbody is None and wbody == wloop:
        shape = 0
    elif body == flush_block1 + tail and fbody is None and wbody == wloop:
        shape = 1
    elif body == "default_count=0;" + tail and fbody == flush_fn2 and wbody == wloop + "if(this->data_size()>1)stream.flush_defaults();":
        shape = 2
    else:
        raise TranslateError("DeckOutput.cpp/DeckItem.cpp: end_record()/flush_defaults()/write_vector() have a shape the writer model "
                             "does not know: " + body[:160] + " | " + str(fbody)[:160] + " | " + wbody[:260])

    # code keywords: every keyword definition under share/keywords with a "code": {"end": ...} entry
    import json, glob
    code_kws, code_sources = [], []
    kwroot = os.path.join(repo, "opm/input/eclipse/share/keywords")
    for fn in sorted(glob.glob(os.path.join(kwroot, "*", "*", "*"))):
        try:
            txt = open(fn).read()
        except (IsADirectoryError, UnicodeDecodeError):
            continue
        if '"code"' not in txt:
            continue
        try:
            js = json.loads(txt)
        except ValueError:
            raise TranslateError(f"{fn}: keyword definition with a code entry is not valid JSON")
        if "code" in js:
            end = js["code"].get("end")
            if not isinstance(end, str):
                raise TranslateError(f"{fn}: code keyword without an end string")
            code_kws.append((js["name"], end))
            code_sources.append(fn)
    if not code_kws:
        raise TranslateError("no code keyword found under share/keywords (PYINPUT, DYNAMICR expected)")

    # str::clean (Parser.cpp), slow path: after a copied code-keyword block, is the text behind it
    # tested for a code keyword again (candidate repair design.d/C01.code_block.fix.patch) or
    # cleaned as an ordinary line (the code as it is)?  Two shapes are understood.
    ppath = os.path.join(repo, "opm/input/eclipse/Parser/Parser.cpp")
    psrc = strip_comments(open(ppath).read())
    mm = re.search(r"inline\s+std::string\s+clean\s*\(.*?\)\s*\{(.*?)\n\}\n", psrc, re.S)
    if not mm:
        raise TranslateError("Parser.cpp: str::clean() not found")
    cbody = re.sub(r"\s+", "", mm.group(1))
    head = ("autocount=std::count_if(code_keywords.begin(),code_keywords.end(),[&str](conststd::pair<std::string,std::string>&code_pair)"
            "{returnstr.find(code_pair.first)!=std::string::npos;});if(count==0)returnfast_clean(str);else{std::stringdst;"
            "dst.resize(str.size());std::string_viewinput(str),line;autodsti=dst.begin();while(true){")
    loop = ("for(constauto&code_pair:code_keywords){constauto&keyword=code_pair.first;if(starts_with(input,keyword)){"
            "std::stringend_string=code_pair.second;autoend_pos=input.find(end_string);%sif(end_pos==std::string::npos){"
            "std::copy(input.begin(),input.end(),dsti);dsti+=std::distance(input.begin(),input.end());"
            "input=std::string_view(input.end(),0);break;}else{end_pos+=end_string.size();"
            "std::copy(input.begin(),input.begin()+end_pos,dsti);dsti+=end_pos;*dsti++='\\n';"
            "input=std::string_view(input.begin()+end_pos+1,input.end()-(input.begin()+end_pos+1));break;}}}")
    tail = ("if(getline(input,line)){line=trim(strip_comments(line));std::copy(line.begin(),line.end(),dsti);"
            "dsti+=std::distance(line.begin(),line.end());*dsti++='\\n';}elsebreak;}dst.resize(std::distance(dst.begin(),dsti));returndst;}")
    if cbody == head + (loop % "") + tail:
        retest = False
    elif cbody == head + "boolcode_block=false;" + (loop % "code_block=true;") + "if(code_block)continue;" + tail:
        retest = True
    else:
        raise TranslateError("Parser.cpp: str::clean() has a shape the lexer model does not know: " + cbody[:300])

    def blist(t):
        return "[" + ", ".join("true" if b else "false" for b in t) + "]"

    def bytes_of(s):
        return "[" + ", ".join(str(b) for b in s.encode()) + "]"
    out = ["/- GENERATED by translate/rawconsts.py from opm/input/eclipse/Parser/raw/RawConsts.hpp and",
           "   opm/input/eclipse/Deck/DeckOutput.hpp — do not edit. -/",
           "namespace OpmVerif.Gen.RawConsts", "",
           f"def sepTable : List Bool := {blist(sep)}", "",
           f"def qTable : List Bool := {blist(q)}", "",
           f"def slash : Nat := {slash}", f"def quote : Nat := {quote}", f"def maxKeywordLength : Nat := {maxlen}", "",
           f"def outItemSep : List UInt8 := {bytes_of(item_sep)}",
           f"def outRecordIndent : List UInt8 := {bytes_of(record_indent)}",
           f"def outKeywordSep : List UInt8 := {bytes_of(keyword_sep)}",
           f"def outColumns : Nat := {columns}",
           "/-- shape of the writer's handling of pending defaults: 0 dropped (original), 1 written by end_record",
           "(452487d0e), 2 written behind an item holding several values (14c7867b0) -/",
           f"def outFlushShape : Nat := {shape}",
           "",
           "/-- `str::clean`: the text behind a copied code-keyword block is tested for a code keyword again -/",
           f"def cleanRetestsCodeKeyword : Bool := {'true' if retest else 'false'}",
           "",
           "/-- (keyword, end string) of every code keyword defined under share/keywords -/",
           "def codeKeywords : List (List UInt8 × List UInt8) := [" +
           ", ".join(f"({bytes_of(a)}, {bytes_of(b)})" for a, b in code_kws) + "]",
           "", "end OpmVerif.Gen.RawConsts", ""]
    return {"module": "OpmVerif.Gen.RawConsts", "file": "RawConsts.lean", "text": "\n".join(out), "sources": [path, opath, cpath, ipath, ppath] + code_sources}
