"""opm/common/utility/numeric/calculateCellVol.cpp -> lean/OpmVerif/Gen/CellVol.lean

Translated (token level, comments stripped, whitespace-insensitive):

  * `int g = i1 + i2 * 2 + i3 * 4;` and the `if (g == n) return <expr>;` chain of `C`
    (each <expr> a left-associated +/- chain of `r[k]`) -> `def C`, same operation order;
  * `struct pqr_t { int ...; }` field order, the `permutation` table (6 x 3) and the
    `pqr_array` table (64 x 6) -> `permutation`, `pqrArray`;
  * the three `C(vect[n], a, b, c)` factors of `cprod` and the three factors of `denom`
    -> `cprodOf`, `denom`;
  * the accumulation statements (`volume = 0.0`, `perm_sign = 1`, `volume += perm_sign *
    cprod / denom`, `perm_sign *= -1`, `vect[perm_index] = data[perm[perm_index]]`, `data =
    {{X, Y, Z}}`, `return std::fabs(volume)`) are *shape-checked*: if any of them changes,
    TranslateError is raised (the fold in `signedVolOf` below hard-codes exactly this order).

The output is a definition over any type with + - * / unary-minus and a Nat cast (core Lean
classes only) so it runs at `Float` in the driver with the C++ operation order and is reasoned
about over a field in Proofs/Grid.lean.
"""
import os, re
from .common import strip_comments, TranslateError

SRC = "opm/common/utility/numeric/calculateCellVol.cpp"


def _norm(s):
    return re.sub(r"\s+", "", s)


def _parse_chain(expr):
    """'r[3] + r[0] - r[2] - r[1]' -> [('+',3),('+',0),('-',2),('-',1)]"""
    e = _norm(expr)
    toks = re.findall(r"([+-]?)r\[(\d+)\]", e)
    if not toks or "".join((s or "") + f"r[{k}]" for s, k in toks) != e:
        raise TranslateError(f"{SRC}: C(): cannot parse return expression '{expr.strip()}'")
    if toks[0][0] == "-":
        raise TranslateError(f"{SRC}: C(): leading minus not supported in '{expr.strip()}'")
    out = [("+", int(toks[0][1]))]
    for s, k in toks[1:]:
        if s not in "+-" or s == "":
            raise TranslateError(f"{SRC}: C(): bad operator in '{expr.strip()}'")
        out.append((s, int(k)))
    for _, k in out:
        if k > 7:
            raise TranslateError(f"{SRC}: C(): index r[{k}] out of the 8 corners")
    return out


def _chain_lean(ch):
    s = f"r {ch[0][1]}"
    for op, k in ch[1:]:
        s += f" {op} r {k}"
    return s


def _int_rows(body, width, what):
    rows = re.findall(r"\{([^{}]*)\}", body)
    out = []
    for r in rows:
        try:
            vals = [int(x) for x in r.split(",") if x.strip() != ""]
        except ValueError:
            raise TranslateError(f"{SRC}: {what}: non-integer entry in '{{{r}}}'")
        if len(vals) != width:
            raise TranslateError(f"{SRC}: {what}: row '{{{r}}}' has {len(vals)} entries, expected {width}")
        out.append(vals)
    return out


def generate(repo):
    path = os.path.join(repo, SRC)
    src = strip_comments(open(path).read())

    # ---- C ------------------------------------------------------------------------------
    m = re.search(r"double\s+C\s*\(\s*const\s+double\s*\*\s*r\s*,\s*int\s+i1\s*,\s*int\s+i2\s*,\s*int\s+i3\s*\)\s*\{(.*?)\n\}", src, re.S)
    if not m:
        raise TranslateError(f"{SRC}: function C(const double* r, int i1, int i2, int i3) not found")
    cbody = m.group(1)
    mg = re.search(r"int\s+g\s*=\s*([^;]+);", cbody)
    if not mg or _norm(mg.group(1)) != "i1+i2*2+i3*4":
        raise TranslateError(f"{SRC}: C(): expected `int g = i1 + i2 * 2 + i3 * 4;`")
    branches = {}
    for mb in re.finditer(r"if\s*\(\s*g\s*==\s*(\d+)\s*\)\s*return\s+([^;]+);", cbody):
        g = int(mb.group(1))
        if g in branches:
            raise TranslateError(f"{SRC}: C(): duplicate branch g == {g}")
        branches[g] = _parse_chain(mb.group(2))
    rest = re.sub(r"if\s*\(\s*g\s*==\s*\d+\s*\)\s*return\s+[^;]+;", "", cbody)
    rest = re.sub(r"int\s+g\s*=[^;]+;", "", rest)
    mdef = re.fullmatch(r"\s*return\s+([^;]+);\s*", rest)
    if not mdef:
        raise TranslateError(f"{SRC}: C(): unexpected statements besides the g-chain: '{rest.strip()[:80]}'")
    default = _parse_chain(mdef.group(1))
    if sorted(branches) != list(range(7)):
        raise TranslateError(f"{SRC}: C(): expected branches g == 0..6 and a default, got {sorted(branches)}")

    # ---- struct pqr_t -------------------------------------------------------------------
    ms = re.search(r"struct\s+pqr_t\s*\{([^}]*)\}", src)
    if not ms:
        raise TranslateError(f"{SRC}: struct pqr_t not found")
    fields = re.findall(r"int\s+(\w+)\s*;", ms.group(1))
    if sorted(fields) != sorted(["pb", "pg", "qa", "qg", "ra", "rb"]) or len(fields) != 6:
        raise TranslateError(f"{SRC}: struct pqr_t fields {fields} (expected pb pg qa qg ra rb in some order)")

    # ---- tables ---------------------------------------------------------------------------
    mp = re.search(r"std::array\s*<\s*std::array\s*<\s*std::size_t\s*,\s*3\s*>\s*,\s*6\s*>\s*permutation\s*=\s*\{\{(.*?)\}\}\s*;", src, re.S)
    if not mp:
        raise TranslateError(f"{SRC}: permutation table not found")
    perms = _int_rows(mp.group(1), 3, "permutation")
    if len(perms) != 6:
        raise TranslateError(f"{SRC}: permutation has {len(perms)} rows, expected 6")
    for p in perms:
        if any(x > 2 for x in p):
            raise TranslateError(f"{SRC}: permutation entry {p} out of range")
    mq = re.search(r"std::array\s*<\s*pqr_t\s*,\s*64\s*>\s*pqr_array\s*=\s*\{\{(.*?)\}\}\s*;", src, re.S)
    if not mq:
        raise TranslateError(f"{SRC}: pqr_array table not found")
    pqr = _int_rows(mq.group(1), 6, "pqr_array")
    if len(pqr) != 64:
        raise TranslateError(f"{SRC}: pqr_array has {len(pqr)} rows, expected 64")

    # ---- loop body --------------------------------------------------------------------------
    mf = re.search(r"double\s+calculateCellVol\s*\([^)]*\)\s*\{(.*?)\n\}", src, re.S)
    if not mf:
        raise TranslateError(f"{SRC}: calculateCellVol not found")
    fbody = mf.group(1)
    sig = re.search(r"double\s+calculateCellVol\s*\(([^)]*)\)", src).group(1)
    if [x for x in re.findall(r"&\s*(\w+)", sig)] != ["X", "Y", "Z"]:
        raise TranslateError(f"{SRC}: calculateCellVol parameters are not (X, Y, Z)")
    nb = _norm(fbody)
    for must in ["doublevolume=0.0;", "doubleperm_sign=1;", "data={{X,Y,Z}};",
                 "for(constauto&perm:permutation){", "for(constauto&pqr:pqr_array){",
                 "vect[perm_index]=data[perm[perm_index]].data();",
                 "volume+=perm_sign*cprod/denom;", "perm_sign*=-1;", "returnstd::fabs(volume);"]:
        if must not in nb:
            raise TranslateError(f"{SRC}: calculateCellVol: expected statement `{must}` not found")
    # order: inner loop, then sign flip, then return
    if not (nb.index("volume+=perm_sign*cprod/denom;") < nb.index("perm_sign*=-1;") < nb.index("returnstd::fabs(volume);")):
        raise TranslateError(f"{SRC}: calculateCellVol: statement order changed")
    mc = re.search(r"const\s+double\s+cprod\s*=\s*([^;]+);", fbody)
    if not mc:
        raise TranslateError(f"{SRC}: cprod definition not found")
    calls = re.findall(r"C\s*\(\s*vect\[(\d)\]\s*,\s*([\w.]+)\s*,\s*([\w.]+)\s*,\s*([\w.]+)\s*\)", mc.group(1))
    if len(calls) != 3 or _norm(mc.group(1)) != "*".join(f"C(vect[{v}],{a},{b},{c})" for v, a, b, c in calls):
        raise TranslateError(f"{SRC}: cprod is not a product of three C(vect[n], ., ., .) calls")

    def arg(a):
        if a == "1" or a == "0":
            return a
        mm = re.fullmatch(r"pqr\.(\w+)", a)
        if not mm or mm.group(1) not in fields:
            raise TranslateError(f"{SRC}: cprod argument '{a}' not understood")
        return "t." + mm.group(1)
    factors = []
    for v, a, b, c in calls:
        if int(v) > 2:
            raise TranslateError(f"{SRC}: vect[{v}] out of range")
        factors.append(f"c{v} {arg(a)} {arg(b)} {arg(c)}")
    if [v for v, *_ in calls] != ["0", "1", "2"]:
        raise TranslateError(f"{SRC}: cprod factors are not vect[0], vect[1], vect[2] in this order")
    md = re.search(r"const\s+double\s+denom\s*=\s*([^;]+);", fbody)
    if not md:
        raise TranslateError(f"{SRC}: denom definition not found")
    dparts = re.findall(r"\(([^()]*)\)", md.group(1))
    if len(dparts) != 3 or _norm(md.group(1)) != "*".join("(" + _norm(p) + ")" for p in dparts):
        raise TranslateError(f"{SRC}: denom is not a product of three parenthesised sums")
    dl = []
    for p in dparts:
        terms = []
        for tkn in _norm(p).split("+"):
            if re.fullmatch(r"\d+", tkn):
                terms.append(tkn)
            else:
                mm = re.fullmatch(r"pqr\.(\w+)", tkn)
                if not mm or mm.group(1) not in fields:
                    raise TranslateError(f"{SRC}: denom term '{tkn}' not understood")
                terms.append("t." + mm.group(1))
        dl.append("(" + " + ".join(terms) + ")")

    # ---- emit -----------------------------------------------------------------------------
    o = []
    o.append(f"/- GENERATED by translate/cellvol.py from {SRC} — do not edit. -/")
    o.append("namespace OpmVerif.Gen.CellVol")
    o.append("")
    o.append("/-- `permutation` (rows in source order). -/")
    o.append("def permutation : List (Nat × Nat × Nat) :=")
    o.append("  [" + ", ".join(f"({a}, {b}, {c})" for a, b, c in perms) + "]")
    o.append("")
    o.append("/-- `struct pqr_t` (fields in source order). -/")
    o.append("structure PQR where")
    for f in fields:
        o.append(f"  {f} : Nat")
    o.append("  deriving DecidableEq, Repr")
    o.append("")
    o.append("/-- `pqr_array` (rows in source order). -/")
    o.append("def pqrArray : List PQR :=")
    rows = ["⟨" + ", ".join(str(x) for x in r) + "⟩" for r in pqr]
    o.append("  [" + ",\n   ".join(", ".join(rows[i:i + 4]) for i in range(0, 64, 4)) + "]")
    o.append("")
    o.append("section")
    o.append("variable {α : Type} [Add α] [Sub α] [Mul α] [Div α] [Neg α] [NatCast α]")
    o.append("")
    o.append("/-- `double C(const double* r, int i1, int i2, int i3)`; `r` is the 8-element corner array. -/")
    o.append("def C (r : Nat → α) (i1 i2 i3 : Nat) : α :=")
    o.append("  match i1 + i2 * 2 + i3 * 4 with")
    for g in range(7):
        o.append(f"  | {g} => {_chain_lean(branches[g])}")
    o.append(f"  | _ => {_chain_lean(default)}")
    o.append("")
    o.append("/-- `cprod` with the three coefficient functions `C(vect[n], ·, ·, ·)` abstracted. -/")
    o.append("def cprodOf (c0 c1 c2 : Nat → Nat → Nat → α) (t : PQR) : α :=")
    o.append("  " + " * ".join(factors))
    o.append("")
    o.append("/-- `denom` (an `int` product in the source, converted to `double`). -/")
    o.append("def denom (t : PQR) : Nat :=")
    o.append("  " + " * ".join(dl))
    o.append("")
    o.append("/-- `for (pqr : pqr_array) volume += perm_sign * cprod / denom;` -/")
    o.append("def innerLoop (sign : α) (c0 c1 c2 : Nat → Nat → Nat → α) (vol : α) : α :=")
    o.append("  pqrArray.foldl (fun vol t => vol + sign * cprodOf c0 c1 c2 t / ((denom t : Nat) : α)) vol")
    o.append("")
    o.append("/-- The two nested loops of `calculateCellVol` before `std::fabs`, for three abstract")
    o.append("coefficient functions (index 0, 1, 2 = X, Y, Z). -/")
    o.append("def signedVolOf (cX cY cZ : Nat → Nat → Nat → α) : α :=")
    o.append("  let data : Nat → (Nat → Nat → Nat → α) := fun n => match n with | 0 => cX | 1 => cY | _ => cZ")
    o.append("  (permutation.foldl (fun (acc : α × α) p =>")
    o.append("      (innerLoop acc.2 (data p.1) (data p.2.1) (data p.2.2) acc.1, acc.2 * (-((1 : Nat) : α))))")
    o.append("    (((0 : Nat) : α), ((1 : Nat) : α))).1")
    o.append("")
    o.append("/-- `calculateCellVol(X, Y, Z)` without the final `std::fabs`. -/")
    o.append("def signedVol (X Y Z : Nat → α) : α := signedVolOf (C X) (C Y) (C Z)")
    o.append("")
    o.append("end")
    o.append("")
    o.append("end OpmVerif.Gen.CellVol")
    o.append("")
    return {"module": "OpmVerif.Gen.CellVol", "file": "CellVol.lean", "text": "\n".join(o), "sources": [path]}
