"""opm/material/densead/{Evaluation.hpp, Evaluation1..12.hpp, DynamicEvaluation.hpp, Math.hpp}
   -> lean/OpmVerif/Gen/DenseAd.lean

A small C++ front end (tokenizer, recursive-descent expression parser, statement parser) and a
*symbolic executor* for the straight-line / single-loop bodies of the dense-AD classes.

Every Evaluation object is a map  slot -> symbolic expression  over the inputs
    a k  (slot k of `*this` / first Evaluation argument), b k (second Evaluation argument),
    c (scalar argument).
For the twelve unrolled specialisations the slots are the concrete indices 0..N.  For the loop
forms (Evaluation.hpp, DynamicEvaluation.hpp, Math.hpp) the executor runs the loop body once per
*abstract* slot: slot 0 (the value) and slot `i` (an arbitrary derivative slot i >= 1); this is
sound because the executor insists that a loop body only touches `data_[loopvar]` /
`derivative(loopvar)` of the objects involved (anything else raises TranslateError).
Compound operators inside bodies (`result += other`, `-(b - a)`, `tmp /= b`, `ret = x1`,
constructors) are executed by *calling* the member function of the class under translation, so
the friend `scalar o Evaluation` templates of Evaluation.hpp are translated once per class.

Reference semantics: `T& u = <lvalue>` is an alias (re-read at each use, writable),
`const T v = e` / a reference bound to a temporary is a copy taken at the declaration.

Output: Lean definitions over any type with + - * / neg, literals 0 1 2, `<`, `==` and a record
`Fns` of libm functions, in the C++ operation order (so the Float instance is bit-comparable).
"""
import os, re, sys
from fractions import Fraction
from .common import strip_comments, TranslateError

DD = "opm/material/densead"
NMAX = 12

# ---------------------------------------------------------------------------------------------
# tokenizer / parser

TOK = re.compile(r"\s*(?:(\d+\.\d*(?:[eE][-+]?\d+)?|\.\d+|\d+)|([A-Za-z_]\w*(?:::[A-Za-z_]\w*)*)|"
                 r"(->|\+=|-=|\*=|/=|==|!=|<=|>=|\+\+|--|&&|\|\||[-+*/=<>(){}\[\];,.?:!&]))")


def tokenize(src):
    out, pos = [], 0
    src = src.rstrip()
    while pos < len(src):
        m = TOK.match(src, pos)
        if not m:
            if src[pos:].strip() == "":
                break
            raise TranslateError(f"cannot tokenize near: {src[pos:pos+40]!r}")
        if m.group(1) is not None:
            out.append(("num", m.group(1)))
        elif m.group(2) is not None:
            out.append(("id", m.group(2)))
        else:
            out.append(("op", m.group(3)))
        pos = m.end()
    return out


class Parser:
    def __init__(self, toks):
        self.t, self.p = toks, 0

    def peek(self, k=0):
        return self.t[self.p + k] if self.p + k < len(self.t) else ("eof", "")

    def next(self):
        tok = self.peek()
        self.p += 1
        return tok

    def accept(self, val):
        if self.peek()[1] == val and self.peek()[0] in ("op", "id"):
            self.p += 1
            return True
        return False

    def expect(self, val):
        if not self.accept(val):
            raise TranslateError(f"expected {val!r}, found {self.peek()[1]!r} (token {self.p})")

    # expressions -------------------------------------------------------------------------
    def expr(self):
        c = self.binary(0)
        if self.accept("?"):
            a = self.expr()
            self.expect(":")
            b = self.expr()
            return ("tern", c, a, b)
        return c

    LEVELS = [["==", "!="], ["<", ">", "<=", ">="], ["+", "-"], ["*", "/"]]

    def binary(self, lvl):
        if lvl == len(self.LEVELS):
            return self.unary()
        l = self.binary(lvl + 1)
        while self.peek()[0] == "op" and self.peek()[1] in self.LEVELS[lvl]:
            op = self.next()[1]
            r = self.binary(lvl + 1)
            l = ("bin", op, l, r)
        return l

    def unary(self):
        if self.accept("-"):
            return ("neg", self.unary())
        if self.accept("+"):
            return self.unary()
        if self.accept("*"):
            return ("deref", self.unary())
        if self.accept("!"):
            return ("not", self.unary())
        return self.postfix()

    def postfix(self):
        e = self.primary()
        while True:
            if self.accept("["):
                i = self.expr()
                self.expect("]")
                e = ("index", e, i)
            elif self.accept(".") or self.accept("->"):
                name = self.next()
                e = ("member", e, name[1])
            elif self.accept("("):
                args = []
                if not self.accept(")"):
                    while True:
                        args.append(self.expr())
                        if self.accept(")"):
                            break
                        self.expect(",")
                e = ("call", e, args)
            else:
                return e

    def primary(self):
        k, v = self.next()
        if k == "num":
            return ("num", v)
        if k == "id":
            return ("id", v)
        if v == "(":
            e = self.expr()
            self.expect(")")
            return e
        raise TranslateError(f"unexpected token {v!r} in expression")

    # statements ----------------------------------------------------------------------------
    def skip_template_args(self):
        depth = 0
        while True:
            k, v = self.next()
            if v == "<":
                depth += 1
            elif v == ">":
                depth -= 1
                if depth == 0:
                    return
            elif k == "eof":
                raise TranslateError("unterminated template argument list")

    def block(self):
        self.expect("{")
        out = []
        while not self.accept("}"):
            out.append(self.stmt())
        return out

    def stmt_or_block(self):
        if self.peek()[1] == "{":
            return self.block()
        return [self.stmt()]

    TYPES = ("ValueType", "Evaluation", "int", "unsigned", "double", "Scalar", "RhsValueType")

    def stmt(self):
        k, v = self.peek()
        if v == ";":
            self.next()
            return ("nop",)
        if v == "{":
            return ("block", self.block())
        if v == "typedef":
            while self.next()[1] != ";":
                pass
            return ("nop",)
        if v == "assert":
            self.next()
            self.expr_paren_skip()
            self.expect(";")
            return ("nop",)
        if v == "throw":
            self.next()
            self.expect(";")
            return ("throw",)
        if v == "return":
            self.next()
            e = self.expr()
            self.expect(";")
            return ("return", e)
        if v == "for":
            self.next()
            self.expect("(")
            self.expect("int")
            var = self.next()[1]
            self.expect("=")
            lo = self.expr()
            self.expect(";")
            cond = self.expr()
            self.expect(";")
            if not (self.accept("++") and self.next()[1] == var):
                raise TranslateError("for loop: increment is not ++var")
            self.expect(")")
            body = self.stmt_or_block()
            if not (cond[0] == "bin" and cond[1] == "<" and cond[2] == ("id", var)):
                raise TranslateError("for loop: condition is not var < bound")
            return ("for", var, lo, cond[3], body)
        if v == "if":
            self.next()
            self.expect("(")
            c = self.expr()
            self.expect(")")
            th = self.stmt_or_block()
            el = []
            if self.accept("else"):
                el = self.stmt_or_block()
            return ("if", c, th, el)
        # declaration?
        save = self.p
        is_const = self.accept("const")
        k, v = self.peek()
        if k == "id" and v in self.TYPES:
            self.next()
            if self.peek()[1] == "<":
                self.skip_template_args()
            is_ref = self.accept("&")
            nk, name = self.next()
            if nk != "id":
                raise TranslateError(f"declaration: expected a name, found {name!r}")
            init = None
            if self.accept("="):
                init = ("assign", self.expr())
            elif self.accept("("):
                args = []
                if not self.accept(")"):
                    while True:
                        args.append(self.expr())
                        if self.accept(")"):
                            break
                        self.expect(",")
                init = ("ctor", args)
            self.expect(";")
            return ("decl", v, is_ref, name, init)
        self.p = save
        lhs = self.expr()
        for op in ("=", "+=", "-=", "*=", "/="):
            if self.accept(op):
                rhs = self.expr()
                self.expect(";")
                return ("set", op, lhs, rhs)
        self.expect(";")
        return ("expr", lhs)

    def expr_paren_skip(self):
        self.expect("(")
        depth = 1
        while depth:
            k, v = self.next()
            if v == "(":
                depth += 1
            elif v == ")":
                depth -= 1
            elif k == "eof":
                raise TranslateError("unterminated assert")


def parse_body(text):
    p = Parser(tokenize(text))
    body = p.block()
    if p.peek()[0] != "eof":
        raise TranslateError("trailing tokens after function body")
    return body


# ---------------------------------------------------------------------------------------------
# locating function bodies

def match_brace(src, start):
    """src[start] == '{' -> index after the matching '}'"""
    depth = 0
    for k in range(start, len(src)):
        if src[k] == "{":
            depth += 1
        elif src[k] == "}":
            depth -= 1
            if depth == 0:
                return k + 1
    raise TranslateError("unbalanced braces")


def find_function(src, header_re, what, all_matches=False):
    """Body text `{...}` following the header regex (which must end right before the body,
    initializer lists are skipped)."""
    found = []
    for m in re.finditer(header_re, src):
        k = m.end()
        # skip `const`, initializer list
        rest = re.match(r"\s*(?:const\s*)?(?::\s*[\w_]+\s*(?:\([^)]*\)|\{[^}]*\})\s*)?", src[k:])
        k += rest.end()
        if k >= len(src) or src[k] != "{":
            continue
        found.append(src[k:match_brace(src, k)])
    if not found:
        raise TranslateError(f"{what}: function not found")
    if all_matches:
        return found
    if len(found) > 1:
        raise TranslateError(f"{what}: {len(found)} candidates, expected one")
    return found[0]


def clean(src):
    src = strip_comments(src)
    src = re.sub(r"#ifndef NDEBUG.*?#endif", " ", src, flags=re.S)
    src = re.sub(r"\bOPM_HOST_DEVICE\b|\bconstexpr\b|\binline\b", " ", src)
    src = re.sub(r"\bthrow\b[^;]*;", "throw;", src)
    return src


# ---------------------------------------------------------------------------------------------
# symbolic values

def num(text):
    return ("num", Fraction(text) if "e" not in text.lower() else Fraction(float(text)))


ZERO, ONE = ("num", Fraction(0)), ("num", Fraction(1))
UNDEF = ("undef",)


class Obj:
    """An Evaluation object: slot -> expression.  `slots` is the slot universe of the class."""

    def __init__(self, slots, data=None, const=False, name="?"):
        self.slots, self.const, self.name = slots, const, name
        self.data = dict(data) if data is not None else {s: UNDEF for s in slots}

    def copy(self, name="copy"):
        return Obj(self.slots, self.data, False, name)


class Ret(Exception):
    def __init__(self, value):
        self.value = value


class EvalClass:
    """One Evaluation class (one header): parsed member functions + symbolic execution."""

    MEMBERS = {
        "clearDerivatives": r"void\s+clearDerivatives\s*\(\s*\)",
        "copyDerivatives": r"void\s+copyDerivatives\s*\(\s*const\s+Evaluation\s*&\s*other\s*\)",
        "neg": r"Evaluation\s+operator-\s*\(\s*\)",
        "assignS": r"Evaluation\s*&\s*operator=\s*\(\s*const\s+RhsValueType\s*&\s*other\s*\)",
    }
    for _o, _n in (("+", "add"), ("-", "sub"), ("*", "mul"), ("/", "div")):
        MEMBERS[_n + "AssignE"] = r"Evaluation\s*&\s*operator" + re.escape(_o) + r"=\s*\(\s*const\s+Evaluation\s*&\s*other\s*\)"
        MEMBERS[_n + "AssignS"] = r"Evaluation\s*&\s*operator" + re.escape(_o) + r"=\s*\(\s*const\s+RhsValueType\s*&\s*other\s*\)"
        MEMBERS[_n + "E"] = r"Evaluation\s+operator" + re.escape(_o) + r"\s*\(\s*const\s+Evaluation\s*&\s*other\s*\)"
        MEMBERS[_n + "S"] = r"Evaluation\s+operator" + re.escape(_o) + r"\s*\(\s*const\s+RhsValueType\s*&\s*other\s*\)"

    BOOL_MEMBERS = {
        "eqS": r"bool\s+operator==\s*\(\s*const\s+RhsValueType\s*&\s*other\s*\)",
        "eqE": r"bool\s+operator==\s*\(\s*const\s+Evaluation\s*&\s*other\s*\)",
    }
    for _o, _n in ((">", "gt"), ("<", "lt"), (">=", "ge"), ("<=", "le")):
        BOOL_MEMBERS[_n + "S"] = r"bool\s+operator" + re.escape(_o) + r"\s*\(\s*RhsValueType\s+other\s*\)"
        BOOL_MEMBERS[_n + "E"] = r"bool\s+operator" + re.escape(_o) + r"\s*\(\s*const\s+Evaluation\s*&\s*other\s*\)"
    _V = r"const\s+RhsValueType\s*&\s*(?:value)?"
    _X = r"const\s+Evaluation\s*&\s*(?:x)?"
    FACTORIES = {
        "createBlank": r"static\s+Evaluation\s+createBlank\s*\(\s*" + _X + r"\s*\)",
        "createConstantZero": r"static\s+Evaluation\s+createConstantZero\s*\(\s*" + _X + r"\s*\)",
        "createConstantOne": r"static\s+Evaluation\s+createConstantOne\s*\(\s*" + _X + r"\s*\)",
        "createVariable2": r"static\s+Evaluation\s+createVariable\s*\(\s*" + _V + r"\s*,\s*int\s*(?:varPos)?\s*\)",
        "createVariableN": r"static\s+Evaluation\s+createVariable\s*\(\s*int\s+nVars\s*,\s*" + _V + r"\s*,\s*int\s+varPos\s*\)",
        "createVariableX": r"static\s+Evaluation\s+createVariable\s*\(\s*" + _X + r"\s*,\s*" + _V + r"\s*,\s*int\s+varPos\s*\)",
        "createConstantN": r"static\s+Evaluation\s+createConstant\s*\(\s*int\s+nVars\s*,\s*" + _V + r"\s*\)",
        "createConstant1": r"static\s+Evaluation\s+createConstant\s*\(\s*" + _V + r"\s*\)",
        "createConstantX": r"static\s+Evaluation\s+createConstant\s*\(\s*" + _X + r"\s*,\s*" + _V + r"\s*\)",
    }

    def __init__(self, path, kind, n=None):
        """kind: 'unrolled' (n = number of derivatives), 'loop', 'dynamic'"""
        self.path, self.kind, self.n = path, kind, n
        self.fname = os.path.basename(path)
        src = clean(open(path).read())
        if kind == "unrolled":
            m = re.search(r"class\s+Evaluation\s*<\s*ValueT\s*,\s*(\d+)\s*>", src)
            if not m or int(m.group(1)) != n:
                raise TranslateError(f"{self.fname}: class Evaluation<ValueT, {n}> not found")
            m = re.search(r"int\s+size\s*\(\s*\)\s*const\s*\{\s*return\s+(\d+)\s*;", src)
            if not m or int(m.group(1)) != n:
                raise TranslateError(f"{self.fname}: size() does not return {n}")
            m = re.search(r"std::array\s*<\s*ValueT\s*,\s*(\d+)\s*>\s*data_", src)
            if not m or int(m.group(1)) != n + 1:
                raise TranslateError(f"{self.fname}: data_ is not std::array<ValueT, {n + 1}>")
            self.slots = list(range(n + 1))
        else:
            self.slots = [0, "i"]
            if kind == "loop":
                if not re.search(r"int\s+size\s*\(\s*\)\s*const\s*\{\s*return\s+numDerivs\s*;", src):
                    raise TranslateError(f"{self.fname}: size() does not return numDerivs")
                if not re.search(r"std::array\s*<\s*ValueT\s*,\s*numDerivs\s*\+\s*1\s*>\s*data_", src):
                    raise TranslateError(f"{self.fname}: data_ is not std::array<ValueT, numDerivs + 1>")
            else:
                if not re.search(r"int\s+size\s*\(\s*\)\s*const\s*\{\s*return\s+data_\.size\(\)\s*-\s*1\s*;", src):
                    raise TranslateError(f"{self.fname}: size() is not data_.size() - 1")
                if not re.search(r"int\s+length_\s*\(\s*\)\s*const\s*\{\s*return\s+data_\.size\(\)\s*;", src):
                    raise TranslateError(f"{self.fname}: length_() is not data_.size()")
        # index helpers and accessors: fixed shapes
        shapes = [
            (r"int\s+valuepos_\s*\(\s*\)\s*const\s*\{\s*return\s+0\s*;", "valuepos_() returns 0"),
            (r"int\s+dstart_\s*\(\s*\)\s*const\s*\{\s*return\s+1\s*;", "dstart_() returns 1"),
            (r"int\s+dend_\s*\(\s*\)\s*const\s*\{\s*return\s+length_\(\)\s*;", "dend_() returns length_()"),
            (r"const\s+ValueType\s*&\s*value\s*\(\s*\)\s*const\s*\{\s*return\s+data_\[valuepos_\(\)\]\s*;", "value() returns data_[valuepos_()]"),
            (r"void\s+setValue\s*\(\s*const\s+RhsValueType\s*&\s*val\s*\)\s*\{\s*data_\[valuepos_\(\)\]\s*=\s*val\s*;", "setValue"),
            (r"const\s+ValueType\s*&\s*derivative\s*\(\s*int\s+varIdx\s*\)\s*const\s*\{\s*(?:assert\([^;]*\);\s*)?return\s+data_\[dstart_\(\)\s*\+\s*varIdx\]\s*;", "derivative(i) returns data_[dstart_() + i]"),
            (r"void\s+setDerivative\s*\(\s*int\s+varIdx\s*,\s*const\s+ValueType\s*&\s*derVal\s*\)\s*\{\s*(?:assert\([^;]*\);\s*)?data_\[dstart_\(\)\s*\+\s*varIdx\]\s*=\s*derVal\s*;", "setDerivative"),
        ]
        if kind != "dynamic":
            shapes.append((r"int\s+length_\s*\(\s*\)\s*const\s*\{\s*return\s+size\(\)\s*\+\s*1\s*;", "length_() returns size() + 1"))
        for rx, what in shapes:
            if not re.search(rx, src):
                raise TranslateError(f"{self.fname}: unexpected shape: {what}")
        self.body = {}
        for key, rx in self.MEMBERS.items():
            self.body[key] = parse_body(find_function(src, rx, f"{self.fname}: {key}"))
        for key, rx in list(self.BOOL_MEMBERS.items()) + list(self.FACTORIES.items()):
            self.body[key] = parse_body(find_function(src, rx, f"{self.fname}: {key}"))
        for what in ("const\\s+Evaluation\\s*&", "const\\s+RhsValueType\\s*&"):
            if not re.search(r"bool\s+operator!=\s*\(\s*" + what.replace("\\\\", "\\") + r"\s*other\s*\)\s*const\s*\{\s*return\s*!\s*operator==\s*\(\s*other\s*\)\s*;", src):
                raise TranslateError(f"{self.fname}: operator!= is not `!operator==(other)`")
        # constructors
        if kind == "dynamic":
            self.body["ctorNS"] = parse_body(find_function(
                src, r"Evaluation\s*\(\s*int\s+numDerivatives\s*,\s*const\s+RhsValueType\s*&\s*c\s*\)", f"{self.fname}: ctor(n, c)"))
            if not re.search(r"Evaluation\s*\(\s*int\s+numDerivatives\s*,\s*const\s+RhsValueType\s*&\s*c\s*\)\s*:\s*data_\(\s*1\s*\+\s*numDerivatives\s*,\s*0\.0\s*\)", src):
                raise TranslateError(f"{self.fname}: ctor(n, c) does not zero-fill data_")
            self.body["ctorVar"] = parse_body(find_function(
                src, r"Evaluation\s*\(\s*int\s+nVars\s*,\s*const\s+RhsValueType\s*&\s*c\s*,\s*int\s+varPos\s*\)", f"{self.fname}: ctor(n, c, varPos)"))
            if not re.search(r"int\s+varPos\s*\)\s*:\s*data_\(\s*1\s*\+\s*nVars\s*,\s*0\.0\s*\)", src):
                raise TranslateError(f"{self.fname}: ctor(n, c, varPos) does not zero-fill data_")
            # is there a converting constructor from a bare scalar?  (there is `explicit Evaluation(int)`)
            self.has_scalar_ctor = bool(re.search(r"Evaluation\s*\(\s*const\s+RhsValueType\s*&\s*c\s*\)", src))
            self.int_ctor = bool(re.search(r"explicit\s+Evaluation\s*\(\s*int\s+numDerivatives\s*\)", src))
        else:
            self.body["ctorS"] = parse_body(find_function(
                src, r"Evaluation\s*\(\s*const\s+RhsValueType\s*&\s*c\s*\)", f"{self.fname}: ctor(c)"))
            self.body["ctorVar"] = parse_body(find_function(
                src, r"Evaluation\s*\(\s*const\s+RhsValueType\s*&\s*c\s*,\s*int\s+varPos\s*\)", f"{self.fname}: ctor(c, varPos)"))
            self.has_scalar_ctor = True

    # -- execution ---------------------------------------------------------------------------
    def fresh(self, name, fill=UNDEF):
        return Obj(self.slots, {s: fill for s in self.slots}, False, name)

    def call(self, key, this, arg=None):
        """Run member `key` on object `this` (mutated in place) with argument `arg`
        (Obj or scalar expression).  Returns the returned object (for value-returning members)."""
        if key not in self.body:
            raise TranslateError(f"{self.fname}: no member {key}")
        env = Env(self, this)
        if arg is not None:
            env.vars["other"] = ("obj", arg) if isinstance(arg, Obj) else ("val", arg)
            env.vars["c"] = env.vars["other"]
        try:
            env.run(self.body[key])
        except Ret as r:
            return r.value
        return None

    def call_bool(self, key, this, arg):
        """Run the boolean member `key` (comparison operator) -> boolean expression."""
        env = Env(self, this)
        env.member_cmp = True
        env.vars["other"] = ("obj", arg) if isinstance(arg, Obj) else ("val", arg)
        return env.run_bool(self.body[key])

    def call_factory(self, key):
        """Run a static factory on (x = inputs a, value = c, varPos, nVars)
        -> ("throws",) | (guards, Obj)"""
        env = Env(self, None)
        env.vars["x"] = ("obj", inputs(self.slots, "a"))
        env.vars["value"] = ("val", ("sc", "c"))
        env.vars["varPos"] = ("int", "varPos")
        env.vars["nVars"] = ("int", "nVars")
        try:
            env.run(self.body[key])
        except Ret as r:
            if not isinstance(r.value, Obj):
                raise TranslateError(f"{self.fname}: {key} does not return an Evaluation")
            return (list(env.guards), r.value)
        except Throw:
            return ("throws",)
        raise TranslateError(f"{self.fname}: {key} does not return")

    def construct_from_scalar(self, val, like=None):
        if self.kind == "dynamic":
            if not self.has_scalar_ctor:
                raise Untranslatable(
                    f"{self.fname}: `Evaluation tmp(scalar)` selects explicit Evaluation(int numDerivatives): "
                    "the scalar is truncated to a derivative count and value/derivatives are indeterminate")
        o = self.fresh("tmp", ZERO if self.kind != "dynamic" else UNDEF)   # data_{} value-initialises
        self.call("ctorS", o, val)
        return o

    def construct_var(self, val):
        """Evaluation(c, varPos): returns (slot map) with the varPos slot symbolic:
        slot 'i' gets `1 if i = varPos+1 else 0`; only the shape is checked here."""
        o = self.fresh("v", ZERO)
        env = Env(self, o)
        env.vars["c"] = ("val", val)
        env.vars["varPos"] = ("int", "varPos")
        if self.kind == "dynamic":
            env.vars["nVars"] = ("int", "nVars")
        try:
            env.run(self.body["ctorVar"])
        except Ret:
            pass
        return o, env.onehot


class Untranslatable(Exception):
    pass


class Throw(Exception):
    """the function body throws unconditionally"""


class Env:
    def __init__(self, cls, this):
        self.cls, self.this = cls, this
        self.vars = {}          # name -> ("obj", Obj) | ("val", expr) | ("alias", node, env) | ("slot", s) | ("der", s) | ("int", sym)
        self.onehot = None      # set by `data_[varPos + dstart_()] = 1.0`
        self.guards = []        # conditions of `if (c) throw …;` passed so far (factories)

    # ---- expressions
    def slot_of(self, node):
        """Index expression of data_[...] -> slot."""
        if node[0] == "num":
            k = int(node[1])
            if k not in self.cls.slots:
                raise TranslateError(f"{self.cls.fname}: data_[{k}] outside 0..{self.cls.slots[-1]}")
            return k
        if node[0] == "call" and node[1] == ("id", "valuepos_") and not node[2]:
            return 0
        if node[0] == "id" and node[1] in self.vars and self.vars[node[1]][0] == "slot":
            return self.vars[node[1]][1]
        raise TranslateError(f"{self.cls.fname}: unsupported data_ index {node}")

    def der_slot(self, node):
        if node[0] == "id" and node[1] in self.vars and self.vars[node[1]][0] == "der":
            return self.vars[node[1]][1]
        raise TranslateError(f"{self.cls.fname}: unsupported derivative index {node}")

    def obj_of(self, node):
        if node == ("deref", ("id", "this")) or node == ("id", "this"):
            return self.this
        if node[0] == "id" and node[1] in self.vars and self.vars[node[1]][0] == "obj":
            return self.vars[node[1]][1]
        return None

    def lvalue(self, node):
        """-> (Obj, slot) for element lvalues, or None."""
        if node[0] == "index":
            base = node[1]
            if base == ("id", "data_"):
                return (self.this, self.slot_of(node[2]))
            if base[0] == "member" and base[2] == "data_":
                o = self.obj_of(base[1])
                if o is None:
                    raise TranslateError(f"{self.cls.fname}: unknown object in {node}")
                return (o, self.slot_of(node[2]))
        if node[0] == "call" and node[1][0] == "member" and node[1][2] == "value" and not node[2]:
            o = self.obj_of(node[1][1])
            if o is not None:
                return (o, 0)
        if node[0] == "call" and node[1] == ("id", "value") and not node[2]:
            return (self.this, 0)
        if node[0] == "call" and node[1][0] == "member" and node[1][2] == "derivative" and len(node[2]) == 1:
            o = self.obj_of(node[1][1])
            if o is not None:
                return (o, self.der_slot(node[2][0]))
        if node[0] == "id" and node[1] in self.vars and self.vars[node[1]][0] == "alias":
            _, n2, e2 = self.vars[node[1]]
            return e2.lvalue(n2)
        return None

    def ev(self, node):
        """-> scalar expression, or Obj for object-valued expressions."""
        t = node[0]
        if t == "num":
            return num(node[1])
        lv = self.lvalue(node)
        if lv is not None:
            o, s = lv
            v = o.data[s]
            if v == UNDEF:
                raise Untranslatable(f"{self.cls.fname}: read of indeterminate slot {s} of {o.name}")
            return v
        if t == "id":
            name = node[1]
            if name in self.vars:
                kind = self.vars[name]
                if kind[0] == "val":
                    return kind[1]
                if kind[0] == "obj":
                    return kind[1]
                if kind[0] == "int":
                    return ("intv", kind[1])
            if name in ("true", "false"):
                return ("bool", name == "true")
            if name == "numDerivs" and self.cls.kind == "loop":
                return ("intv", "n")
            raise TranslateError(f"{self.cls.fname}: unknown identifier {name}")
        if t == "not":
            v = self.ev(node[1])
            if isinstance(v, Obj):
                raise TranslateError(f"{self.cls.fname}: `!` applied to an Evaluation")
            return ("not", v)
        if t == "call" and not node[2] and (node[1] == ("id", "size") or (
                node[1][0] == "member" and node[1][2] == "size" and self.obj_of(node[1][1]) is not None)):
            return ("intv", "n")            # size() of an object of the class under translation
        if t == "call" and node[1] == ("id", "Evaluation"):
            return self.construct([self.ev(a) for a in node[2]])
        if t == "deref" and node[1] == ("id", "this"):
            return self.this
        if t == "neg":
            v = self.ev(node[1])
            if isinstance(v, Obj):
                return self.cls.call("neg", v.copy("negarg"))
            return ("neg", v)
        if t == "bin":
            op = node[1]
            l, r = self.ev(node[2]), self.ev(node[3])
            if op in ("+", "-", "*", "/"):
                nm = {"+": "add", "-": "sub", "*": "mul", "/": "div"}[op]
                if isinstance(l, Obj):
                    return self.cls.call(nm + ("E" if isinstance(r, Obj) else "S"), l.copy("lhs"), r)
                if isinstance(r, Obj):
                    return friend_call(self.cls, nm, l, r)
                return (nm, l, r)
            return self.compare(op, l, r)
        if t == "tern":
            c = self.ev(node[1])
            a, b = self.ev(node[2]), self.ev(node[3])
            return merge(c, a, b)
        if t == "call":
            f = node[1]
            if f[0] == "id" and f[1].split("::")[0] == "InnerToolbox" and f[1].split("::")[1] in ("isnan", "isfinite"):
                return ("pcall", f[1].split("::")[1], [self.scalar(a) for a in node[2]])
            if f[0] == "id" and f[1] == "ValueTypeToolbox::isSame":
                return ("pcall", "isSame", [self.scalar(a) for a in node[2]])
            if f[0] == "id" and f[1].startswith("ValueTypeToolbox::"):
                return ("call", f[1].split("::")[1], [self.scalar(a) for a in node[2]])
            if f[0] == "member" and f[2] == "value" and not node[2]:
                # .value() on a non-object (e.g. Math.hpp atan2(scalar, Evaluation)): does not compile
                raise Untranslatable(f"{self.cls.fname}: `.value()` applied to a scalar ({f[1]})")
        raise TranslateError(f"{self.cls.fname}: unsupported expression {node}")

    def scalar(self, node):
        v = self.ev(node)
        if isinstance(v, Obj):
            raise TranslateError(f"{self.cls.fname}: Evaluation used where a scalar is expected: {node}")
        return v

    def construct(self, args):
        """`Evaluation(args…)` as an expression (factories)."""
        cls = self.cls
        isint = lambda v: not isinstance(v, Obj) and v[0] == "intv"
        if cls.kind != "dynamic":
            if len(args) == 0:
                return cls.fresh("blank", ZERO)              # data_() value-initialises
            if len(args) == 1 and isinstance(args[0], Obj):
                return args[0].copy("copy")
            if len(args) == 1 and not isint(args[0]):
                return cls.construct_from_scalar(args[0])
            if len(args) == 2 and not isint(args[0]) and not isinstance(args[0], Obj) and isint(args[1]):
                o, onehot = cls.construct_var(args[0])
                o.onehot = onehot
                return o
            raise Untranslatable(f"{cls.fname}: no constructor Evaluation({', '.join('int' if isint(a) else 'value' for a in args)}) "
                                 "in a statically sized class (does not compile when instantiated)")
        if len(args) == 1 and isinstance(args[0], Obj):
            return args[0].copy("copy")
        if len(args) == 1 and isint(args[0]):
            return cls.fresh("blank", UNDEF)                 # FastSmallVector(size): content not specified
        if len(args) == 2 and isint(args[0]) and not isinstance(args[1], Obj):
            o = cls.fresh("k", ZERO)
            cls.call("ctorNS", o, args[1])
            o.sized_by = args[0][1]
            return o
        if len(args) == 3 and isint(args[0]) and not isinstance(args[1], Obj) and isint(args[2]):
            o, onehot = cls.construct_var(args[1])
            o.onehot = onehot
            o.sized_by = args[0][1]
            return o
        raise Untranslatable(f"{cls.fname}: no constructor for Evaluation({len(args)} arguments) of these kinds")

    def run_bool(self, stmts, cont=None):
        """Boolean-valued member (comparison operators): statements -> boolean expression.
        `cont()` is the value when the statement list falls off its end (loop bodies)."""
        stmts = list(stmts)
        if not stmts:
            if cont is None:
                raise TranslateError(f"{self.cls.fname}: boolean function falls off its end")
            return cont()
        st, rest = stmts[0], stmts[1:]
        t = st[0]
        if t == "nop":
            return self.run_bool(rest, cont)
        if t == "return":
            v = self.ev(st[1])
            if isinstance(v, Obj):
                raise TranslateError(f"{self.cls.fname}: boolean function returns an Evaluation")
            return v
        if t == "block":
            return self.child().run_bool(list(st[1]), lambda: self.run_bool(rest, cont))
        if t == "if":
            c = self.ev(st[1])
            a = self.child().run_bool(st[2], lambda: self.run_bool(rest, cont))
            b = self.child().run_bool(st[3], lambda: self.run_bool(rest, cont))
            return a if a == b else ("bite", c, a, b)
        if t == "for":
            _, var, lo, hi, body = st
            kind, slots = self.loop_range(lo, hi, concrete_ok=True)
            per, exits = {}, set()
            for sl in slots:
                sub = self.child()
                sub.vars[var] = (kind, sl)
                r = sub.run_bool(body, lambda: ("cont",))
                # shape: if (c) return <false|true>;  (early exit), otherwise continue
                if not (r[0] == "bite" and r[2][0] == "bool" and r[3] == ("cont",)):
                    raise TranslateError(f"{self.cls.fname}: loop in a boolean function is not `if (c) return false/true;`")
                exits.add(r[2][1])
                per[sl] = ("not", r[1])
            if len(exits) != 1:
                raise TranslateError(f"{self.cls.fname}: loop in a boolean function exits with both truth values")
            # exit value false: all slots pass && rest;  exit value true: some slot exits || rest
            return ("all" if not exits.pop() else "nall", per, self.run_bool(rest, cont))
        if t in ("decl", "set", "expr"):
            self.step(st)
            return self.run_bool(rest, cont)
        raise TranslateError(f"{self.cls.fname}: unsupported statement in a boolean function: {t}")

    def compare(self, op, l, r):
        if getattr(self, "member_cmp", False) and (isinstance(l, Obj) or isinstance(r, Obj)):
            nm = {"==": "eq", "!=": "ne", "<": "lt", ">": "gt", "<=": "le", ">=": "ge"}[op]
            if isinstance(l, Obj):
                return self.cls.call_bool(nm + ("E" if isinstance(r, Obj) else "S"), l, r)
            return friend_cmp(self.cls, nm, l, r)
        if op == "!=":
            lv = l.data[0] if isinstance(l, Obj) else l
            rv = r.data[0] if isinstance(r, Obj) else r
            if isinstance(l, Obj) and isinstance(r, Obj):
                raise TranslateError(f"{self.cls.fname}: Evaluation != Evaluation outside the comparison members")
            return ("ne", lv, rv)
        # Evaluation comparisons look at value() only (checked shapes of operator< etc. are
        # `return value() < other(.value())`)
        lv = l.data[0] if isinstance(l, Obj) else l
        rv = r.data[0] if isinstance(r, Obj) else r
        if op == "==":
            return ("eq", lv, rv)
        if op in ("<", ">", "<=", ">="):
            return ({"<": "lt", ">": "gt", "<=": "le", ">=": "ge"}[op], lv, rv)
        raise TranslateError(f"{self.cls.fname}: unsupported comparison {op}")

    # ---- statements
    def assign(self, lhs, op, rhs_node):
        o = self.obj_of(lhs)
        if o is not None:                      # object-level: result += other, ret = x1, ...
            r = self.ev(rhs_node)
            nm = {"=": "assign", "+=": "addAssign", "-=": "subAssign", "*=": "mulAssign", "/=": "divAssign"}[op]
            if op == "=" and isinstance(r, Obj):
                o.data = dict(r.data)
            else:
                self.cls.call(nm + ("E" if isinstance(r, Obj) else "S"), o, r)
            return
        lv = self.lvalue(lhs)
        if lv is None:
            raise TranslateError(f"{self.cls.fname}: unsupported assignment target {lhs}")
        o, s = lv
        if o.const:
            raise TranslateError(f"{self.cls.fname}: assignment to const object {o.name}")
        # special: data_[varPos + dstart_()] = 1.0
        r = self.scalar(rhs_node)
        if op == "=":
            o.data[s] = r
        else:
            cur = o.data[s]
            if cur == UNDEF:
                raise Untranslatable(f"{self.cls.fname}: read-modify-write of indeterminate slot {s}")
            o.data[s] = ({"+=": "add", "-=": "sub", "*=": "mul", "/=": "div"}[op], cur, r)

    def run(self, stmts):
        for st in stmts:
            self.step(st)

    def step(self, st):
        t = st[0]
        if t == "nop":
            return
        if t == "block":
            sub = self.child()
            sub.run(st[1])
            return
        if t == "return":
            raise Ret(self.ev(st[1]))
        if t == "throw":
            raise Throw()
        if t == "if" and st[2] == [("throw",)] and not st[3]:
            self.guards.append(self.ev(st[1]))
            return
        if t == "set":
            _, op, lhs, rhs = st
            if (lhs[0] == "index" and lhs[1] == ("id", "data_") and lhs[2][0] == "bin" and lhs[2][1] == "+"
                    and sorted([repr(lhs[2][2]), repr(lhs[2][3])]) == sorted([repr(("id", "varPos")), repr(("call", ("id", "dstart_"), []))])):
                if op != "=" or self.scalar(rhs) != ONE:
                    raise TranslateError(f"{self.cls.fname}: variable constructor does not set the slot to 1.0")
                self.onehot = "varPos+1"
                return
            self.assign(lhs, op, rhs)
            return
        if t == "expr":
            e = st[1]
            if e[0] == "call":
                f, args = e[1], e[2]
                tgt, name = self.this, None
                if f[0] == "id":
                    name = f[1]
                elif f[0] == "member":
                    tgt, name = self.obj_of(f[1]), f[2]
                    if tgt is None:
                        raise TranslateError(f"{self.cls.fname}: call on unknown object {f[1]}")
                if name == "checkDefined_":
                    return
                if name == "setValue" and len(args) == 1:
                    tgt.data[0] = self.scalar(args[0])
                    return
                if name == "setDerivative" and len(args) == 2:
                    tgt.data[self.der_slot(args[0])] = self.scalar(args[1])
                    return
                if name == "clearDerivatives" and not args:
                    self.cls.call("clearDerivatives", tgt)
                    return
                if name == "copyDerivatives" and len(args) == 1:
                    self.cls.call("copyDerivatives", tgt, self.ev(args[0]))
                    return
            raise TranslateError(f"{self.cls.fname}: unsupported statement {e}")
        if t == "decl":
            _, ty, is_ref, name, init = st
            if ty == "Evaluation":
                if init is None:
                    # `Evaluation result;`  data_() value-initialises (static) — treat as zeros
                    self.vars[name] = ("obj", self.cls.fresh(name, ZERO if self.cls.kind != "dynamic" else UNDEF))
                    return
                args = init[1] if init[0] == "ctor" else [init[1]]
                if len(args) != 1:
                    raise TranslateError(f"{self.cls.fname}: unsupported Evaluation constructor call with {len(args)} arguments")
                v = self.ev(args[0])
                if isinstance(v, Obj):
                    self.vars[name] = ("obj", v.copy(name))
                else:
                    self.vars[name] = ("obj", self.cls.construct_from_scalar(v))
                return
            if init is None or init[0] != "assign":
                raise TranslateError(f"{self.cls.fname}: unsupported declaration of {name}")
            node = init[1]
            if is_ref and self.is_lvalue_node(node):
                self.vars[name] = ("alias", node, self)
            else:
                self.vars[name] = ("val", self.scalar(node))
            return
        if t == "for":
            _, var, lo, hi, body = st
            kind, slots = self.loop_range(lo, hi)
            for s in slots:
                sub = self.child()
                sub.vars[var] = (kind, s)
                sub.run(body)
            return
        if t == "if":
            _, c, th, el = st
            cond = self.ev(c)
            objs = self.all_objs()
            before = {id(o): dict(o.data) for o in objs}
            ra = rb = None
            try:
                self.child().run(th)
            except Ret as r:
                ra = r.value
            after_a = {id(o): dict(o.data) for o in objs}
            for o in objs:
                o.data = dict(before[id(o)])
            try:
                self.child().run(el)
            except Ret as r:
                rb = r.value
            if (ra is None) != (rb is None):
                raise TranslateError(f"{self.cls.fname}: if/else where only one branch returns")
            if ra is not None:
                raise Ret(merge(cond, ra, rb))
            for o in objs:
                a, b = after_a[id(o)], o.data
                o.data = {s: (a[s] if a[s] == b[s] else ("ite", cond, a[s], b[s])) for s in o.slots}
            return
        raise TranslateError(f"{self.cls.fname}: unsupported statement kind {t}")

    def is_lvalue_node(self, node):
        try:
            return self.lvalue(node) is not None
        except TranslateError:
            return False

    def all_objs(self):
        out, seen = [], set()
        e = self
        while e is not None:
            for o in [e.this] + [v[1] for v in e.vars.values() if v[0] == "obj"]:
                if o is not None and id(o) not in seen and not o.const:
                    seen.add(id(o))
                    out.append(o)
            e = getattr(e, "parent", None)
        return out

    def child(self):
        sub = Env(self.cls, self.this)
        sub.vars = ChainMap(self.vars)
        sub.parent = self
        sub.member_cmp = getattr(self, "member_cmp", False)
        sub.guards = self.guards
        return sub

    def loop_range(self, lo, hi, concrete_ok=False):
        """-> (binding kind, [abstract slots])"""
        call = lambda n: ("call", ("id", n), [])
        if self.cls.kind == "unrolled":
            if concrete_ok and lo == ("num", "0") and hi == call("length_"):
                return "slot", list(self.cls.slots)
            if concrete_ok and lo == call("dstart_") and hi == call("dend_"):
                return "slot", list(self.cls.slots)[1:]
            raise TranslateError(f"{self.cls.fname}: loop in an unrolled specialisation")
        if lo == ("num", "0") and hi == call("length_"):
            return "slot", [0, "i"]
        if lo == call("dstart_") and hi == call("dend_"):
            return "slot", ["i"]
        if lo == ("num", "0") and hi[0] == "call" and hi[1][0] == "member" and hi[1][2] == "size" and self.obj_of(hi[1][1]) is not None:
            return "der", ["i"]
        raise TranslateError(f"{self.cls.fname}: unsupported loop bounds {lo} .. {hi}")


class ChainMap(dict):
    """dict with fallback to a parent scope (declarations stay local, lookups see outer names)."""

    def __init__(self, parent):
        super().__init__()
        self.parent = parent

    def __contains__(self, k):
        return dict.__contains__(self, k) or k in self.parent

    def __getitem__(self, k):
        if dict.__contains__(self, k):
            return dict.__getitem__(self, k)
        return self.parent[k]

    def values(self):
        return list(dict.values(self)) + list(self.parent.values())


def merge(cond, a, b):
    if isinstance(a, Obj) and isinstance(b, Obj):
        return Obj(a.slots, {s: (a.data[s] if a.data[s] == b.data[s] else ("ite", cond, a.data[s], b.data[s])) for s in a.slots}, False, "ite")
    if isinstance(a, Obj) or isinstance(b, Obj):
        raise TranslateError("conditional mixes Evaluation and scalar")
    return a if a == b else ("ite", cond, a, b)


# friend templates of Evaluation.hpp ( scalar o Evaluation ), shared by every class ------------------

FRIENDS = {}


def load_friends(repo):
    src = clean(open(os.path.join(repo, DD, "Evaluation.hpp")).read())
    for op, nm in (("+", "add"), ("-", "sub"), ("*", "mul"), ("/", "div")):
        rx = (r"Evaluation\s*<\s*ValueType\s*,\s*numVars\s*,\s*staticSize\s*>\s*operator" + re.escape(op) +
              r"\s*\(\s*const\s+RhsValueType\s*&\s*a\s*,\s*const\s+Evaluation\s*<\s*ValueType\s*,\s*numVars\s*,\s*staticSize\s*>\s*&\s*b\s*\)")
        FRIENDS[nm] = parse_body(find_function(src, rx, f"Evaluation.hpp: friend operator{op}(scalar, Evaluation)"))
    # comparison operators used by Math.hpp: value() only
    for op in ("<", ">"):
        if not re.search(r"bool\s+operator" + re.escape(op) + r"\s*\(\s*const\s+Evaluation\s*&\s*other\s*\)\s*const\s*\{\s*(?:assert\([^;]*\);\s*)?return\s+value\(\)\s*" + re.escape(op) + r"\s*other\.value\(\)\s*;", src):
            raise TranslateError(f"Evaluation.hpp: operator{op}(Evaluation) is not a comparison of value()")
        if not re.search(r"bool\s+operator" + re.escape(op) + r"\s*\(\s*RhsValueType\s+other\s*\)\s*const\s*\{\s*return\s+value\(\)\s*" + re.escape(op) + r"\s*other\s*;", src):
            raise TranslateError(f"Evaluation.hpp: operator{op}(scalar) is not a comparison of value()")
    for op, rev in (("<", ">"), (">", "<")):
        if not re.search(r"bool\s+operator" + re.escape(op) + r"\s*\(\s*const\s+RhsValueType\s*&\s*a\s*,[^)]*&\s*b\s*\)\s*\{\s*return\s+b\s*" + re.escape(rev) + r"\s*a\s*;", src):
            raise TranslateError(f"Evaluation.hpp: friend operator{op}(scalar, Evaluation) is not `b {rev} a`")
    if not re.search(r"bool\s+operator==\s*\(\s*const\s+RhsValueType\s*&\s*other\s*\)\s*const\s*\{\s*return\s+value\(\)\s*==\s*other\s*;", src):
        raise TranslateError("Evaluation.hpp: operator==(scalar) is not value() == other")


FRIEND_CMP = {}


def load_friend_cmps(repo):
    src = clean(open(os.path.join(repo, DD, "Evaluation.hpp")).read())
    for op, nm in (("<", "lt"), (">", "gt"), ("<=", "le"), (">=", "ge"), ("!=", "ne")):
        rx = (r"bool\s+operator" + re.escape(op) +
              r"\s*\(\s*const\s+RhsValueType\s*&\s*a\s*,\s*const\s+Evaluation\s*<\s*ValueType\s*,\s*numVars\s*,\s*staticSize\s*>\s*&\s*b\s*\)")
        FRIEND_CMP[nm] = parse_body(find_function(src, rx, f"Evaluation.hpp: friend operator{op}(scalar, Evaluation)"))


def friend_cmp(cls, nm, a_scalar, b_obj):
    if nm not in FRIEND_CMP:
        raise TranslateError(f"Evaluation.hpp: no friend comparison operator for `scalar {nm} Evaluation`")
    env = Env(cls, None)
    env.member_cmp = True
    bb = b_obj.copy("b")
    bb.const = True
    env.vars["a"] = ("val", a_scalar)
    env.vars["b"] = ("obj", bb)
    return env.run_bool(FRIEND_CMP[nm])


def friend_call(cls, nm, a_scalar, b_obj):
    env = Env(cls, None)
    bb = b_obj.copy("b")
    bb.const = True
    env.vars["a"] = ("val", a_scalar)
    env.vars["b"] = ("obj", bb)
    try:
        env.run(FRIENDS[nm])
    except Ret as r:
        return r.value
    raise TranslateError(f"friend operator {nm} does not return")


# ---------------------------------------------------------------------------------------------
# Lean rendering

def lean_num(q):
    if q.denominator == 1 and q >= 0:
        return str(q.numerator)
    if q.denominator == 1:
        return f"(-{-q.numerator})"
    d = q.denominator
    if d & (d - 1):
        raise TranslateError(f"literal {q} is not a dyadic rational")
    if q.numerator in (1,) and d == 2:
        return "(1 / 2)"
    raise TranslateError(f"unsupported literal {q}")


def R(e, ix):
    """render expression; ix: slot -> Lean index text (e.g. 7 -> '7', 'i' -> 'i')"""
    t = e[0]
    if t == "num":
        return lean_num(e[1])
    if t == "in":
        return f"{e[1]} {ix(e[2])}"
    if t == "sc":
        return e[1]
    if t in ("add", "sub", "mul", "div"):
        op = {"add": "+", "sub": "-", "mul": "*", "div": "/"}[t]
        return f"({R(e[1], ix)} {op} {R(e[2], ix)})"
    if t == "neg":
        return f"(-{R(e[1], ix)})"
    if t == "call":
        return "(F." + e[1] + "".join(" " + (x if x[0] == "(" or " " not in x else f"({x})") for x in (R(a, ix) for a in e[2])) + ")"
    if t == "ite":
        return f"(if {R(e[1], ix)} then {R(e[2], ix)} else {R(e[3], ix)})"
    if t == "eq":
        return f"({R(e[1], ix)} == {R(e[2], ix)}) = true"
    if t in ("lt", "gt", "le", "ge"):
        op = {"lt": "<", "gt": ">", "le": "≤", "ge": "≥"}[t]
        return f"{R(e[1], ix)} {op} {R(e[2], ix)}"
    if t == "undef":
        raise Untranslatable("result has an indeterminate slot")
    raise TranslateError(f"cannot render {e}")


def inputs(slots, name):
    return Obj(slots, {s: ("in", name, s) for s in slots}, True, name)


def ix_concrete(s):
    return str(s)


def ix_abstract(s):
    return "0" if s == 0 else "i"


def render_unrolled(name, n, params, obj):
    ty = f"Fin {n + 1} → α"
    lines = [f"def {name} {params} : {ty} := fun i =>", "  match i.val with"]
    for s in range(n + 1):
        pat = str(s) if s < n else "_"
        lines.append(f"  | {pat} => {R(obj.data[s], ix_concrete)}")
    return "\n".join(lines)


def render_abstract(name, params, obj):
    return (f"def {name} {{n : Nat}} {params} : Fin (n + 1) → α := fun i =>\n"
            f"  if i.val = 0 then {R(obj.data[0], ix_abstract)} else {R(obj.data['i'], ix_abstract)}")


# operator catalogue: key -> (lean name, argument kinds) ------------------------------------------
#   E = Evaluation argument (a, b), S = scalar c
OPS = [
    ("addAssignE", "add", "EE"), ("subAssignE", "sub", "EE"), ("mulAssignE", "mul", "EE"), ("divAssignE", "div", "EE"),
    ("addAssignS", "adds", "ES"), ("subAssignS", "subs", "ES"), ("mulAssignS", "muls", "ES"), ("divAssignS", "divs", "ES"),
    ("neg", "neg", "E"), ("assignS", "assign", "ES"), ("clearDerivatives", "clearDerivatives", "E"),
    ("copyDerivatives", "copyDerivatives", "EE"),
]
BINARY = [("addE", "add"), ("subE", "sub"), ("mulE", "mul"), ("divE", "div"),
          ("addS", "adds"), ("subS", "subs"), ("mulS", "muls"), ("divS", "divs")]
FRIEND_NAMES = [("add", "sadd"), ("sub", "ssub"), ("mul", "smul"), ("div", "sdiv")]


ALL_OPS = {"add": "EE", "sub": "EE", "mul": "EE", "div": "EE", "copyDerivatives": "EE",
           "adds": "ES", "subs": "ES", "muls": "ES", "divs": "ES", "assign": "ES",
           "neg": "E", "clearDerivatives": "E",
           "sadd": "SE", "ssub": "SE", "smul": "SE", "sdiv": "SE", "const": "S", "varBase": "S"}


def bundle(prefix, n_txt, fns, fname):
    missing = [k for k in ALL_OPS if k not in fns]
    if missing:
        raise TranslateError(f"{fname}: operators without a meaning: {missing}")
    fields = ", ".join(f"{k} := {prefix}.{k}" for k in ALL_OPS)
    return f"/-- all operators of {fname} -/\ndef {prefix}.ops : ADOps α {n_txt} :=\n  {{ {fields} }}\n"


def translate_class(cls):
    """-> dict leanname -> (argkinds, Obj) ; plus notes for untranslatable members"""
    out, notes = {}, []
    S = cls.slots
    for key, nm, kinds in OPS:
        this = inputs(S, "a").copy("this")
        arg = None
        if kinds == "EE":
            arg = inputs(S, "b")
        elif kinds == "ES":
            arg = ("sc", "c")
        r = cls.call(key, this, arg)
        out[nm] = (kinds, r if isinstance(r, Obj) else this)
    # binary operators must be `copy; compound; return copy`: execute and compare with the compound form
    for key, nm in BINARY:
        kinds = "EE" if key.endswith("E") else "ES"
        this = inputs(S, "a").copy("this")
        arg = inputs(S, "b") if kinds == "EE" else ("sc", "c")
        r = cls.call(key, this, arg)
        if not isinstance(r, Obj) or r.data != out[nm][1].data:
            raise TranslateError(f"{cls.fname}: binary operator {key} differs from its compound form")
        if this.data != inputs(S, "a").data:
            raise TranslateError(f"{cls.fname}: binary operator {key} modifies *this")
    # constructors
    try:
        out["const"] = ("S", cls.construct_from_scalar(("sc", "c")))
    except Untranslatable as ex:
        if cls.kind != "dynamic":
            raise TranslateError(str(ex))
        # dynamic: Evaluation(n, c)
        o = cls.fresh("k", ZERO)
        cls.call("ctorNS", o, ("sc", "c"))
        out["const"] = ("S", o)
    o, onehot = cls.construct_var(("sc", "c"))
    if onehot != "varPos+1":
        raise TranslateError(f"{cls.fname}: variable constructor does not set data_[varPos + dstart_()]")
    out["varBase"] = ("S", o)          # before the one-hot store
    # friends
    for fn, nm in FRIEND_NAMES:
        try:
            r = friend_call(cls, fn, ("sc", "c"), inputs(S, "a"))
            # render check (may raise Untranslatable for indeterminate slots)
            for s in S:
                R(r.data[s], str)
            out[nm] = ("SE", r)
        except Untranslatable as ex:
            notes.append((nm, str(ex)))
    return out, notes


# second operator set: self-aliased compound assignment, comparisons, factories -----------------------

SELF_OPS = [("addAssignE", "addSelf"), ("subAssignE", "subSelf"), ("mulAssignE", "mulSelf"), ("divAssignE", "divSelf")]
CMP_E = ["eqE", "neE", "ltE", "gtE", "leE", "geE"]
CMP_S = ["eqS", "neS", "ltS", "gtS", "leS", "geS"]
CMP_F = [("ne", "sne"), ("lt", "slt"), ("gt", "sgt"), ("le", "sle"), ("ge", "sge")]
OPS2 = {"addSelf": "E", "subSelf": "E", "mulSelf": "E", "divSelf": "E",
        **{k: "EEb" for k in CMP_E}, **{k: "ESb" for k in CMP_S}, **{k: "SEb" for _, k in CMP_F},
        "constZero": "", "constOne": "", "constX": "S", "varXBase": "S"}


def RB(e, ix, K):
    """render a boolean expression as a Lean `Bool`"""
    t = e[0]
    if t == "bool":
        return "true" if e[1] else "false"
    if t in ("lt", "gt", "le", "ge"):
        return f"decide ({R(e, ix)})"
    if t == "eq":
        return f"({R(e[1], ix)} == {R(e[2], ix)})"
    if t == "ne":
        return f"({R(e[1], ix)} != {R(e[2], ix)})"
    if t == "not":
        return f"(!{RB(e[1], ix, K)})"
    if t == "bite":
        return f"(if {RP(e[1], ix)} then {RB(e[2], ix, K)} else {RB(e[3], ix, K)})"
    if t == "pcall":
        return "(P." + e[1] + "".join(" " + (x if x[0] == "(" or " " not in x else f"({x})") for x in (R(a, ix) for a in e[2])) + ")"
    if t in ("all", "nall"):
        per = e[1]
        if set(per.keys()) == {"i"} and K is None:
            per = {0: ("bool", True), "i": per["i"]}          # a loop over the derivatives only
        if t == "nall":
            return f"((!{RB(('all', per, ('bool', True)), ix, K)}) || {RB(e[2], ix, K)})"
        if set(per.keys()) == {0, "i"}:
            fn = f"fun i => if i.val = 0 then {RB(per[0], ix, K)} else {RB(per['i'], ix, K)}"
            k = "(n + 1)"
        elif "i" in per and 0 not in per:
            raise TranslateError("loop of a comparison operator does not visit the value slot")   # cannot be expressed: report
        else:
            slots = sorted(per.keys())
            if slots != list(range(K + 1)):
                # a loop that skips slots: unvisited slots are vacuously fine
                per = {sl: per.get(sl, ("bool", True)) for sl in range(K + 1)}
                slots = list(range(K + 1))
            arms = "".join(f" | {sl if sl < K else '_'} => {RB(per[sl], ix, K)}" for sl in slots)
            fn = f"fun i => match i.val with{arms}"
            k = str(K + 1)
        return f"(allSlots {k} ({fn}) && {RB(e[2], ix, K)})"
    raise TranslateError(f"cannot render boolean {e}")


def RP(e, ix):
    if e[0] in ("pcall", "not"):
        return f"{RB(e, ix, None)} = true"
    if e[0] == "ne":
        return f"({R(e[1], ix)} != {R(e[2], ix)}) = true"
    return R(e, ix)


def arity_text(guards, fname, what):
    """guards of `create*(int nVars, …)` -> Lean text of the accepted nVars (`Option Int`)"""
    if not guards:
        return "none"
    if len(guards) != 1 or guards[0][0] != "ne" or guards[0][1] != ("intv", "nVars"):
        raise TranslateError(f"{fname}: {what}: unexpected throw condition {guards}")
    g = guards[0][2]
    if g[0] == "num" and g[1].denominator == 1:
        return f"some {g[1].numerator}"
    if g == ("intv", "n"):
        return "some (n : Int)"
    raise TranslateError(f"{fname}: {what}: unexpected throw condition {guards}")


def translate_class2(cls, fns1):
    """-> (dict leanname -> (kinds, Obj | bool expr), extras dict, notes)"""
    out, notes = {}, []
    S = cls.slots
    for key, nm in SELF_OPS:
        this = inputs(S, "a").copy("this")
        cls.call(key, this, this)                      # `x op= x`: other aliases *this
        out[nm] = ("E", this)
    a, b, c = inputs(S, "a"), inputs(S, "b"), ("sc", "c")
    for nm in CMP_E:
        out[nm] = ("EEb", ("not", cls.call_bool("eqE", a, b)) if nm == "neE" else cls.call_bool(nm, a, b))
    for nm in CMP_S:
        out[nm] = ("ESb", ("not", cls.call_bool("eqS", a, c)) if nm == "neS" else cls.call_bool(nm, a, c))
    for fn, nm in CMP_F:
        out[nm] = ("SEb", friend_cmp(cls, fn, c, a))
    # factories
    const_data = fns1["const"][1].data
    var_data = fns1["varBase"][1].data
    extras = {}
    res = {}
    for key in cls.FACTORIES:
        try:
            res[key] = cls.call_factory(key)
        except Untranslatable as ex:
            res[key] = ("untranslatable", str(ex))
            notes.append((key, str(ex)))

    def plain(key, want_onehot=False, allow_guard=False):
        r = res[key]
        if r[0] in ("throws", "untranslatable"):
            return None
        guards, o = r
        if guards and not allow_guard:
            raise TranslateError(f"{cls.fname}: {key}: unexpected conditional throw")
        if want_onehot != (getattr(o, "onehot", None) == "varPos+1"):
            raise TranslateError(f"{cls.fname}: {key}: {'does not set' if want_onehot else 'sets'} the varPos slot")
        return o
    for key, nm in (("createConstantZero", "constZero"), ("createConstantOne", "constOne")):
        o = plain(key)
        if o is None:
            raise TranslateError(f"{cls.fname}: {key} has no meaning: {res[key]}")
        out[nm] = ("", o)
    o = plain("createConstantX")
    if o is None or o.data != const_data:
        raise TranslateError(f"{cls.fname}: createConstant(x, value) is not the constant constructor")
    out["constX"] = ("S", o)
    o = plain("createVariableX", want_onehot=True)
    if o is None or o.data != var_data:
        raise TranslateError(f"{cls.fname}: createVariable(x, value, varPos) is not the variable constructor")
    out["varXBase"] = ("S", o)
    # createBlank: statically sized = value-initialised, dynamic = content not specified
    o = plain("createBlank")
    if o is None:
        raise TranslateError(f"{cls.fname}: createBlank has no meaning")
    extras["blankZero"] = all(v == ZERO for v in o.data.values())
    # one-argument forms: usable (static) or throwing (dynamic)
    for key, ref, oh in (("createConstant1", const_data, False), ("createVariable2", var_data, True)):
        if res[key] == ("throws",):
            extras[key] = False
        else:
            o = plain(key, want_onehot=oh)
            if o is None or o.data != ref:
                raise TranslateError(f"{cls.fname}: {key} is not the corresponding constructor")
            extras[key] = True
    # nVars forms
    r = res["createConstantN"]
    if r[0] in ("throws", "untranslatable"):
        raise TranslateError(f"{cls.fname}: createConstant(nVars, value) has no meaning: {r}")
    if r[1].data != const_data:
        raise TranslateError(f"{cls.fname}: createConstant(nVars, value) is not the constant constructor")
    extras["arity"] = arity_text(r[0], cls.fname, "createConstant(nVars, value)")
    if cls.kind == "dynamic" and getattr(r[1], "sized_by", None) != "nVars":
        raise TranslateError(f"{cls.fname}: createConstant(nVars, value) does not size the result by nVars")
    r = res["createVariableN"]
    if r[0] == "untranslatable":
        extras["createVariableN"] = False
    elif r[0] == "throws":
        raise TranslateError(f"{cls.fname}: createVariable(nVars, value, varPos) always throws")
    else:
        if r[1].data != var_data or getattr(r[1], "onehot", None) != "varPos+1":
            raise TranslateError(f"{cls.fname}: createVariable(nVars, value, varPos) is not the variable constructor")
        if arity_text(r[0], cls.fname, "createVariable(nVars, value, varPos)") != extras["arity"]:
            raise TranslateError(f"{cls.fname}: createVariable(nVars, …) and createConstant(nVars, …) accept different nVars")
        extras["createVariableN"] = True
    return out, extras, notes


def render2(prefix, nm, kinds, val, cls):
    n = cls.n
    unrolled = cls.kind == "unrolled"
    ty = f"Fin {n + 1} → α" if unrolled else "Fin (n + 1) → α"
    imp = "" if unrolled else " {n : Nat}"
    par = {"E": f"(a : {ty})", "EEb": f"(a b : {ty})", "ESb": f"(a : {ty}) (c : α)", "SEb": f"(c : α) (a : {ty})",
           "": "", "S": "(c : α)"}[kinds]
    if kinds.endswith("b"):
        ix = ix_concrete if unrolled else ix_abstract
        return f"def {prefix}.{nm}{imp} {par} : Bool :=\n  {RB(val, ix, n if unrolled else None)}\n"
    if unrolled:
        return render_unrolled(f"{prefix}.{nm}", n, par, val) + "\n"
    return render_abstract(f"{prefix}.{nm}", par, val) + "\n"


def bundle2(prefix, n_txt, imp):
    fields = ", ".join(f"{k} := {prefix}.{k}" for k in OPS2)
    return f"def {prefix}.ops2{imp} : ADOps2 α {n_txt} :=\n  {{ {fields} }}\n"


def params_of(kinds, ty):
    if kinds == "EE":
        return f"(a b : {ty})"
    if kinds == "E":
        return f"(a : {ty})"
    if kinds == "ES":
        return f"(a : {ty}) (c : α)"
    if kinds == "SE":
        return f"(c : α) (a : {ty})"
    if kinds == "S":
        return "(c : α)"
    raise ValueError(kinds)


# ---------------------------------------------------------------------------------------------
# Math.hpp

UNARY_FUNS = ["abs", "tan", "atan", "sin", "asin", "sinh", "asinh", "cos", "acos", "cosh", "acosh",
              "sqrt", "exp", "log", "log10"]
EV = r"const\s+Evaluation\s*<\s*ValueType\s*,\s*numVars\s*,\s*staticSize\s*>\s*&\s*"
RET = r"Evaluation\s*<\s*ValueType\s*,\s*numVars\s*,\s*staticSize\s*>\s+"


def translate_math(repo, loopcls):
    """Math.hpp functions executed over the abstract slots of the generic class."""
    path = os.path.join(repo, DD, "Math.hpp")
    src = clean(open(path).read())
    S = loopcls.slots
    out, notes = {}, []

    def run(name, header, binds, kinds):
        body = parse_body(find_function(src, header, f"Math.hpp: {name}"))
        env = Env(loopcls, None)
        for var, val in binds.items():
            env.vars[var] = val
        try:
            try:
                env.run(body)
            except Ret as r:
                v = r.value
                if not isinstance(v, Obj):
                    raise TranslateError(f"Math.hpp: {name} does not return an Evaluation")
                for s in S:
                    R(v.data[s], str)
                out[name] = (kinds, v)
                return
            raise TranslateError(f"Math.hpp: {name} does not return")
        except Untranslatable as ex:
            notes.append((name, str(ex)))

    def E(n):
        o = inputs(S, n)
        return ("obj", o)

    for f in UNARY_FUNS:
        run(f, RET + f + r"\s*\(\s*" + EV + r"x\s*\)", {"x": E("a")}, "E")
    run("atan2", RET + r"atan2\s*\(\s*" + EV + r"x\s*,\s*" + EV + r"y\s*\)", {"x": E("a"), "y": E("b")}, "EE")
    run("atan2s", RET + r"atan2\s*\(\s*" + EV + r"x\s*,\s*const\s+ValueType\s*&\s*y\s*\)", {"x": E("a"), "y": ("val", ("sc", "c"))}, "ES")
    run("satan2", RET + r"atan2\s*\(\s*const\s+ValueType\s*&\s*x\s*,\s*" + EV + r"y\s*\)", {"x": ("val", ("sc", "c")), "y": E("a")}, "SE")
    run("pow", RET + r"pow\s*\(\s*" + EV + r"base\s*,\s*" + EV + r"exp\s*\)", {"base": E("a"), "exp": E("b")}, "EE")
    run("pows", RET + r"pow\s*\(\s*" + EV + r"base\s*,\s*const\s+ExpType\s*&\s*exp\s*\)", {"base": E("a"), "exp": ("val", ("sc", "c"))}, "ES")
    run("spow", RET + r"pow\s*\(\s*const\s+BaseType\s*&\s*base\s*,\s*" + EV + r"exp\s*\)", {"base": ("val", ("sc", "c")), "exp": E("a")}, "SE")
    for f in ("min", "max"):
        run(f, RET + f + r"\s*\(\s*" + EV + r"x1\s*,\s*" + EV + r"x2\s*\)", {"x1": E("a"), "x2": E("b")}, "EE")
        run("s" + f, RET + f + r"\s*\(\s*const\s+Arg1ValueType\s*&\s*x1\s*,\s*" + EV + r"x2\s*\)", {"x1": ("val", ("sc", "c")), "x2": E("a")}, "SE")
        # (Evaluation, scalar) forwards to (scalar, Evaluation)
        if not re.search(RET + f + r"\s*\(\s*" + EV + r"x1\s*,\s*const\s+Arg2ValueType\s*&\s*x2\s*\)\s*\{\s*return\s+" + f + r"\s*\(\s*x2\s*,\s*x1\s*\)\s*;", src):
            raise TranslateError(f"Math.hpp: {f}(Evaluation, scalar) does not forward to {f}(scalar, Evaluation)")
    return out, notes, path


def translate_predicates(repo, loopcls):
    """`MathToolbox<Evaluation>::isSame / isfinite / isnan` (Math.hpp), executed over the abstract slots of the
    generic class (the struct is one template for all variants; it only uses value(), derivative(i), size())."""
    src = clean(open(os.path.join(repo, DD, "Math.hpp")).read())
    S = loopcls.slots
    out = {}
    for name, rx, binds in (
            ("isSame", r"static\s+bool\s+isSame\s*\(\s*const\s+Evaluation\s*&\s*a\s*,\s*const\s+Evaluation\s*&\s*b\s*,\s*Scalar\s+tolerance\s*\)",
             {"a": ("obj", inputs(S, "a")), "b": ("obj", inputs(S, "b")), "tolerance": ("val", ("sc", "c"))}),
            ("isfinite", r"static\s+bool\s+isfinite\s*\(\s*const\s+Evaluation\s*&\s*arg\s*\)", {"arg": ("obj", inputs(S, "a"))}),
            ("isnan", r"static\s+bool\s+isnan\s*\(\s*const\s+Evaluation\s*&\s*arg\s*\)", {"arg": ("obj", inputs(S, "a"))})):
        body = parse_body(find_function(src, rx, f"Math.hpp: MathToolbox<Evaluation>::{name}"))
        env = Env(loopcls, None)
        for k, v in binds.items():
            env.vars[k] = v
        out[name] = env.run_bool(body)
    L = ["/-! ### MathToolbox<Evaluation>::isSame / isfinite / isnan (Math.hpp; `P` = the scalar toolbox predicates) -/\n"]
    L.append("def M.isSame {n : Nat} (P : Preds α) (a b : Fin (n + 1) → α) (c : α) : Bool :=\n  " + RB(out["isSame"], ix_abstract, None) + "\n")
    L.append("def M.isfinite {n : Nat} (P : Preds α) (a : Fin (n + 1) → α) : Bool :=\n  " + RB(out["isfinite"], ix_abstract, None) + "\n")
    L.append("def M.isnan {n : Nat} (P : Preds α) (a : Fin (n + 1) → α) : Bool :=\n  " + RB(out["isnan"], ix_abstract, None) + "\n")
    return "\n".join(L)


# ---------------------------------------------------------------------------------------------

HEADER = """/- GENERATED by translate/densead.py from opm/material/densead/{Evaluation,Evaluation1..12,
   DynamicEvaluation,Math}.hpp — do not edit.
   Slot 0 of an Evaluation is the value, slot k >= 1 the derivative k-1 (data_[k]).
   `a`, `b`: Evaluation operands (`*this`, `other`), `c`: scalar operand.  Expressions keep the
   C++ operation order.  -/
import OpmVerif.Model.Dual

set_option linter.unusedVariables false

namespace OpmVerif.DenseAd.Gen

variable {α : Type} [Add α] [Sub α] [Mul α] [Div α] [Neg α] [OfNat α 0] [OfNat α 1] [OfNat α 2]
  [LT α] [DecidableLT α] [LE α] [DecidableLE α] [BEq α]
"""


def generate(repo):
    load_friends(repo)
    load_friend_cmps(repo)
    extras_all = {}
    sources = [os.path.join(repo, DD, "Evaluation.hpp")]
    out = [HEADER]
    table = {}          # (variant, leanname) present
    notes_all = []
    # unrolled
    for n in range(1, NMAX + 1):
        path = os.path.join(repo, DD, f"Evaluation{n}.hpp")
        if not os.path.exists(path):
            raise TranslateError(f"Evaluation{n}.hpp missing")
        sources.append(path)
        cls = EvalClass(path, "unrolled", n)
        fns, notes = translate_class(cls)
        if notes:
            raise TranslateError(f"Evaluation{n}.hpp: {notes}")
        out.append(f"/-! ### Evaluation{n}.hpp -/\n")
        for nm, (kinds, obj) in fns.items():
            out.append(render_unrolled(f"U{n}.{nm}", n, params_of(kinds, f"Fin {n + 1} → α"), obj) + "\n")
        out.append(bundle(f"U{n}", str(n), fns, f"Evaluation{n}.hpp"))
        table[n] = list(fns.keys())
        fns2, extras, notes2 = translate_class2(cls, fns)
        for nm, (kinds, val) in fns2.items():
            out.append(render2(f"U{n}", nm, kinds, val, cls))
        out.append(bundle2(f"U{n}", str(n), ""))
        out.append(f"/-- `nVars` accepted by `createConstant(nVars, c)` / `createVariable(nVars, c, varPos)` -/\ndef U{n}.factoryArity : Option Int := {extras['arity']}\n")
        extras_all[f"U{n}"] = extras
    # loop forms
    for variant, fname, kind in (("L", "Evaluation.hpp", "loop"), ("D", "DynamicEvaluation.hpp", "dynamic")):
        path = os.path.join(repo, DD, fname)
        if path not in sources:
            sources.append(path)
        cls = EvalClass(path, kind)
        fns, notes = translate_class(cls)
        out.append(f"/-! ### {fname} (loop form, every n) -/\n")
        for nm, (kinds, obj) in fns.items():
            out.append(render_abstract(f"{variant}.{nm}", params_of(kinds, "Fin (n + 1) → α"), obj) + "\n")
        for nm, why in notes:
            out.append(f"/- NOT TRANSLATABLE {variant}.{nm}: {why} -/\n")
            notes_all.append((f"{variant}.{nm}", why))
        if notes:
            raise TranslateError(f"{fname}: " + "; ".join(f"{nm}: {why}" for nm, why in notes))
        out.append(f"def {variant}.ops {{n : Nat}} : ADOps α n :=\n  {{ " + ", ".join(f"{k} := {variant}.{k}" for k in ALL_OPS) + " }\n")
        table[variant] = list(fns.keys())
        fns2, extras, notes2 = translate_class2(cls, fns)
        for nm, (kinds, val) in fns2.items():
            out.append(render2(variant, nm, kinds, val, cls))
        out.append(bundle2(variant, "n", " {n : Nat}"))
        out.append(f"def {variant}.factoryArity (n : Nat) : Option Int := {extras['arity']}\n")
        extras_all[variant] = extras
        if variant == "L":
            loopcls = cls
    # math
    mfns, mnotes, mpath = translate_math(repo, loopcls)
    sources.append(mpath)
    out.append("/-! ### Math.hpp (generic in n; `F` = the scalar MathToolbox) -/\n")
    for nm, (kinds, obj) in mfns.items():
        out.append(render_abstract(f"M.{nm}", "(F : Fns α) " + params_of(kinds, "Fin (n + 1) → α"), obj) + "\n")
    for nm, why in mnotes:
        out.append(f"/- NOT TRANSLATABLE M.{nm}: {why} -/\n")
        notes_all.append((f"M.{nm}", why))
    out.append(translate_predicates(repo, loopcls))
    # createVariable(int nVars, value, varPos) of the statically sized classes
    un = [k for k in extras_all if k.startswith("U")]
    flags = {extras_all[k]["createVariableN"] for k in un}
    if len(flags) != 1:
        raise TranslateError("createVariable(nVars, value, varPos): the unrolled specialisations disagree on whether it compiles")
    if not flags.pop():
        notes_all.append(("U.createVariableN", "no constructor Evaluation(int, value, int) in the statically sized specialisations"))
    if not extras_all["L"]["createVariableN"]:
        notes_all.append(("L.createVariableN", "no constructor Evaluation(int, value, int) in the generic statically sized class"))
    if not extras_all["D"]["createVariableN"]:
        notes_all.append(("D.createVariableN", "untranslatable"))
    # presence table for the driver / harness
    out.append("/-- functions the translator could not give a meaning (indeterminate reads, ill-typed bodies) -/")
    out.append("def notTranslatable : List String := [" + ", ".join(f'"{k}"' for k, _ in notes_all) + "]\n")
    out.append(dispatchers(table, mfns))
    out.append(dispatchers2(extras_all))
    out.append("end OpmVerif.DenseAd.Gen\n")
    return {"module": "OpmVerif.Gen.DenseAd", "file": "DenseAd.lean", "text": "\n".join(out), "sources": sources}


def dispatchers(table, mfns):
    """Array-level dispatch on variant / operator name / number of derivatives, used by the
    compiled driver (`v` = "U" unrolled specialisation, "L" generic loop form, "D" dynamic)."""
    L = ["/-! ### dispatch by variant, operator and size for the line-protocol driver -/\n"]
    shapes = {
        "EE": ("(a b : Array α)", "(toFn a) (toFn b)"),
        "E": ("(a : Array α)", "(toFn a)"),
        "ES": ("(a : Array α) (c : α)", "(toFn a) c"),
        "SE": ("(c : α) (a : Array α)", "c (toFn a)"),
        "S": ("(c : α)", "c"),
    }
    kinds_of = {}
    for nm in table["L"]:
        pass
    allk = {"add": "EE", "sub": "EE", "mul": "EE", "div": "EE", "copyDerivatives": "EE",
            "adds": "ES", "subs": "ES", "muls": "ES", "divs": "ES", "assign": "ES",
            "neg": "E", "clearDerivatives": "E",
            "sadd": "SE", "ssub": "SE", "smul": "SE", "sdiv": "SE", "const": "S", "varBase": "S"}
    for kinds, (sig, app) in shapes.items():
        L.append(f"def apply{kinds} (v op : String) (n : Nat) {sig} : Option (Array α) :=")
        L.append("  match v, op, n with")
        for nm, k in allk.items():
            if k != kinds:
                continue
            for n in range(1, NMAX + 1):
                if nm in table[n]:
                    L.append(f'  | "U", "{nm}", {n} => some (ofFn (U{n}.{nm} {app}))')
            for v in ("L", "D"):
                if nm in table[v]:
                    L.append(f'  | "{v}", "{nm}", n => some (ofFn ({v}.{nm} (n := n) {app}))')
        L.append("  | _, _, _ => none\n")
    for kinds, (sig, app) in shapes.items():
        fs = [nm for nm, (k, _) in mfns.items() if k == kinds]
        if not fs:
            continue
        L.append(f"def math{kinds} (F : Fns α) (op : String) (n : Nat) {sig} : Option (Array α) :=")
        L.append("  match op with")
        for nm in fs:
            L.append(f'  | "{nm}" => some (ofFn (M.{nm} (n := n) F {app}))')
        L.append("  | _ => none\n")
    return "\n".join(L)


def dispatchers2(extras_all):
    L = ["/-! ### second operator set: dispatch for the driver -/\n"]
    def rows(fmt_u, fmt_l):
        r = []
        for n in range(1, NMAX + 1):
            r.append(f'  | "U", {n} => ' + fmt_u(n))
        for v in ("L", "D"):
            r.append(f'  | "{v}", n => ' + fmt_l(v))
        r.append("  | _, _ => none\n")
        return r
    L.append("def applySelf (v op : String) (n : Nat) (a : Array α) : Option (Array α) :=\n  match op with")
    for _, nm in SELF_OPS:
        L.append(f'  | "{nm}" => (match v, n with')
        L += ["  " + x.rstrip("\n") for x in rows(lambda n: f"some (ofFn (U{n}.{nm} (toFn a)))", lambda v: f"some (ofFn ({v}.{nm} (n := n) (toFn a)))")]
        L[-1] += ")"
    L.append("  | _ => none\n")
    for kinds, names, sig, app in (("EEb", CMP_E, "(a b : Array α)", "(toFn a) (toFn b)"), ("ESb", CMP_S, "(a : Array α) (c : α)", "(toFn a) c"),
                                   ("SEb", [k for _, k in CMP_F], "(c : α) (a : Array α)", "c (toFn a)")):
        L.append(f"def cmp{kinds[:2]} (v op : String) (n : Nat) {sig} : Option Bool :=\n  match op with")
        for nm in names:
            L.append(f'  | "{nm}" => (match v, n with')
            L += ["  " + x.rstrip("\n") for x in rows(lambda n: f"some (U{n}.{nm} {app})", lambda v: f"some ({v}.{nm} (n := n) {app})")]
            L[-1] += ")"
        L.append("  | _ => none\n")
    L.append("def factory0 (v op : String) (n : Nat) : Option (Array α) :=\n  match op with")
    for nm in ("constZero", "constOne"):
        L.append(f'  | "{nm}" => (match v, n with')
        L += ["  " + x.rstrip("\n") for x in rows(lambda n: f"some (ofFn (U{n}.{nm} (α := α)))", lambda v: f"some (ofFn ({v}.{nm} (α := α) (n := n)))")]
        L[-1] += ")"
    L.append("  | _ => none\n")
    L.append("def factory1 (v op : String) (n : Nat) (c : α) : Option (Array α) :=\n  match op with")
    for nm in ("constX", "varXBase"):
        L.append(f'  | "{nm}" => (match v, n with')
        L += ["  " + x.rstrip("\n") for x in rows(lambda n: f"some (ofFn (U{n}.{nm} c))", lambda v: f"some (ofFn ({v}.{nm} (n := n) c))")]
        L[-1] += ")"
    L.append("  | _ => none\n")
    L.append("/-- accepted `nVars` of `createConstant(nVars, c)` (`none`: any, the result is sized by nVars) -/")
    L.append("def factoryArity (v : String) (n : Nat) : Option Int :=\n  match v, n with")
    for n in range(1, NMAX + 1):
        L.append(f'  | "U", {n} => U{n}.factoryArity')
    L.append('  | "L", n => L.factoryArity n\n  | "D", n => D.factoryArity n\n  | _, _ => none\n')
    def flag(key):
        un = {extras_all[f"U{n}"][key] for n in range(1, NMAX + 1)}
        if len(un) != 1:
            raise TranslateError(f"{key}: the unrolled specialisations disagree")
        t = lambda b: "true" if b else "false"
        return f'  match v with\n  | "U" => {t(un.pop())}\n  | "L" => {t(extras_all["L"][key])}\n  | "D" => {t(extras_all["D"][key])}\n  | _ => false\n'
    L.append("/-- `createConstant(c)` / `createVariable(c, varPos)` return (true) or throw (false) -/")
    L.append("def hasCreateConstant1 (v : String) : Bool :=\n" + flag("createConstant1"))
    L.append("def hasCreateVariable2 (v : String) : Bool :=\n" + flag("createVariable2"))
    L.append("/-- `createBlank(x)` is value-initialised (statically sized) / unspecified (dynamic) -/")
    L.append("def blankIsZero (v : String) : Bool :=\n" + flag("blankZero"))
    return "\n".join(L)


def obligations():
    """The one template behind lean/OpmVerif/Proofs/DenseAdGen.lean (a committed, static file:
    `python3 -m translate.densead --obligations > lean/OpmVerif/Proofs/DenseAdGen.lean`).
    For every specialisation N = 1..12 and every operator: the unrolled definition is the loop
    form at n = N, slot by slot, *as an expression* (`rfl` after case split on the slot) — for
    every carrier type, hence also for IEEE doubles; and the dynamic class equals the loop form."""
    L = ["/- Instantiated from the template `obligations()` of translate/densead.py — regenerate with",
         "   `python3 -m translate.densead --obligations`.  One obligation per (size, operator):",
         "   the unrolled specialisation Evaluation<N>.hpp computes, slot by slot, the very expression of the",
         "   generic loop form (Evaluation.hpp) at n = N.  A wrong index / sign / operand in one slot of one",
         "   header makes exactly that `rfl` fail. -/",
         "import OpmVerif.Gen.DenseAd", "import Mathlib.Tactic.FinCases", "import Mathlib.Data.Fintype.Basic",
         "import Mathlib.Tactic.Ring", "import Mathlib.Tactic.FieldSimp", "import Mathlib.Algebra.Field.Basic", "",
         "set_option linter.unusedSectionVars false", "set_option linter.unusedTactic false",
         "set_option linter.unreachableTactic false", "set_option linter.unusedSimpArgs false", "",
         "namespace OpmVerif.DenseAd.GenProofs", "open OpmVerif.DenseAd.Gen", "",
         "variable {α : Type} [Add α] [Sub α] [Mul α] [Div α] [Neg α] [OfNat α 0] [OfNat α 1] [OfNat α 2]", ""]
    args = {"EE": ("(a b : Fin (NN) → α)", "a b"), "E": ("(a : Fin (NN) → α)", "a"), "ES": ("(a : Fin (NN) → α) (c : α)", "a c"),
            "SE": ("(c : α) (a : Fin (NN) → α)", "c a"), "S": ("(c : α)", "c")}
    for n in range(1, NMAX + 1):
        L.append(f"/-! ### Evaluation{n}.hpp -/")
        for op, k in ALL_OPS.items():
            sig, app = args[k]
            sig = sig.replace("NN", str(n + 1))
            L.append(f"theorem U{n}_{op}_eq_loop {sig} : U{n}.{op} {app} = L.{op} (n := {n}) {app} := by")
            L.append("  funext i; fin_cases i <;> rfl")
        L.append(f"theorem U{n}_ops_eq_loop : (U{n}.ops : ADOps α {n}) = L.ops := by")
        L.append(f"  unfold U{n}.ops L.ops")
        L.append("  congr 1 <;> (repeat (apply funext; intro)) <;> rename_i i <;> fin_cases i <;> rfl")
        L.append("")
    L.append("/-! ### the same over a field, robust against algebraically neutral rewrites of a header:")
    L.append("    slot by slot `rfl`, else `ring` after unfolding -/")
    L.append("section field")
    L.append("variable {K : Type} [Field K]")
    unf = ", ".join(f"L.{op}" for op in ALL_OPS)
    L.append("macro \"slot_eq\" : tactic => `(tactic| first | rfl | (simp [" + unf + "] <;> ring1) | (field_simp [" + unf + "] <;> ring1))")
    for n in range(1, NMAX + 1):
        unfU = ", ".join(f"U{n}.{op}" for op in ALL_OPS)
        L.append(f"theorem U{n}_ops_eq_loop_field : (U{n}.ops : ADOps K {n}) = L.ops := by")
        L.append(f"  unfold U{n}.ops L.ops")
        L.append(f"  congr 1 <;> (repeat (apply funext; intro)) <;> rename_i i <;> fin_cases i <;>")
        L.append(f"    first | rfl | (simp [{unfU}, {unf}] <;> ring1)")
    L.append("theorem D_ops_eq_loop_field {n : Nat} : (D.ops : ADOps K n) = L.ops := by")
    unfD = ", ".join(f"D.{op}" for op in ALL_OPS)
    L.append("  unfold D.ops L.ops")
    L.append("  congr 1 <;> (repeat (apply funext; intro)) <;> rename_i i <;>")
    L.append(f"    first | rfl | (by_cases h : i.val = 0 <;> simp [{unfD}, {unf}, h] <;> ring1)")
    L.append("end field")
    L.append("")
    L.append("/-! ### DynamicEvaluation.hpp: the same expressions as the generic loop form, for every n -/")
    for op, k in ALL_OPS.items():
        sig, app = args[k]
        sig = sig.replace("NN", "n + 1")
        L.append(f"theorem D_{op}_eq_loop {{n : Nat}} {sig} : D.{op} (n := n) {app} = L.{op} {app} := rfl")
    L.append("theorem D_ops_eq_loop {n : Nat} : (D.ops : ADOps α n) = L.ops := rfl")
    L += ["", "/-! ### second operator set (`x op= x`, comparison operators, factories): every specialisation and the",
          "    dynamic class compute the expressions of the generic loop form, for every carrier type -/",
          "section second",
          "variable [LT α] [DecidableLT α] [LE α] [DecidableLE α] [BEq α]", ""]
    sig2 = {"E": ("(a : Fin (NN) → α)", "a"), "EEb": ("(a b : Fin (NN) → α)", "a b"), "ESb": ("(a : Fin (NN) → α) (c : α)", "a c"),
            "SEb": ("(c : α) (a : Fin (NN) → α)", "c a"), "": ("", ""), "S": ("(c : α)", "c")}
    fe = {"E": "funext fun a => {T} a", "EEb": "funext fun a => funext fun b => {T} a b", "ESb": "funext fun a => funext fun c => {T} a c",
          "SEb": "funext fun c => funext fun a => {T} c a", "": "{T}", "S": "funext fun c => {T} c"}
    def ob(prefix, n_txt, size_txt, tac_fn, tac_all):
        for op, k in OPS2.items():
            sig, app = sig2[k]
            sig = sig.replace("NN", size_txt)
            if k.endswith("b"):
                L.append(f"theorem {prefix}_{op}_eq_loop {sig} : {prefix}.{op} {app} = L.{op} (n := {n_txt}) {app} := by")
                L.append(f"  first | rfl | (unfold {prefix}.{op} L.{op}; congr 2; funext i; {tac_all}) | (unfold {prefix}.{op} L.{op}; congr 3; funext i; {tac_all})")
            elif k == "":
                L.append(f"theorem {prefix}_{op}_eq_loop : ({prefix}.{op} : Fin ({size_txt}) → α) = L.{op} (n := {n_txt}) := by")
                L.append(f"  {tac_fn}")
            else:
                L.append(f"theorem {prefix}_{op}_eq_loop {sig} : {prefix}.{op} {app} = L.{op} (n := {n_txt}) {app} := by")
                L.append(f"  {tac_fn}")
        L.append(f"theorem {prefix}_ops2_eq_loop : ({prefix}.ops2 : ADOps2 α {n_txt}) = L.ops2 :=")
        L.append("  ADOps2.ext " + " ".join("(" + fe[k].replace("{T}", f"{prefix}_{op}_eq_loop") + ")" for op, k in OPS2.items()))
        L.append("")
    for n in range(1, NMAX + 1):
        L.append(f"/-! #### Evaluation{n}.hpp -/")
        ob(f"U{n}", str(n), str(n + 1), "funext i; fin_cases i <;> rfl", "fin_cases i <;> rfl")
    L.append("/-! #### DynamicEvaluation.hpp -/")
    L.append("variable {n : Nat}")
    ob("D", "n", "n + 1", "rfl", "rfl")
    L.append("/-! #### `x op= x` (the argument aliases `*this`) computes `x op x`, in the loop form -/")
    for op in ("add", "sub", "mul", "div"):
        L.append(f"theorem L_{op}Self_eq (a : Fin (n + 1) → α) : L.{op}Self a = L.{op} a a := rfl")
    L.append("end second")
    L += ["", "end OpmVerif.DenseAd.GenProofs", ""]
    return "\n".join(L)


if __name__ == "__main__":
    if "--obligations" in sys.argv:
        sys.stdout.write(obligations())
        sys.exit(0)
    repo = os.environ.get("VERIF_REPO", "/repo")
    r = generate(repo)
    sys.stdout.write(r["text"])
