"""AggregateMSWData.cpp (writer), LoadRestart.cpp and opm/io/eclipse/rst/well.cpp (readers)
->  lean/OpmVerif/Gen/RstSegWin.lean

The segment -> ISEG / RSEG window arithmetic of multi-segment wells (C05, third round).  The writer stores segment
`segNumber` of a well at the hand-written base index `auto iS = (segNumber - 1)*noElmSeg;` inside the well's window
(`entriesPerMSW = inteHead[176] * inteHead[17x]` elements, window `mswID`); the two readers compute flat offsets
by hand as well:

  LoadRestart.cpp   restoreSegmentQuantities:  segData.rseg(mswID, segNumber - 1)
                    -> SegmentVectors::rseg -> getDataWindow: off = windowSize * (subEntity + maxSubEntitiesPerEntity*entity)
                    called as restoreSegmentQuantities(mswID - 1, ...)
  rst/well.cpp      rseg_offset = header.nrsegz * (is + (this->msw_index - 1)*header.nsegmx),  segment_number = is + 1

Every one of these index expressions is parsed (Pratt parser of rstslots.py) and emitted as an `IExpr` tree over the C++
variable names; calls are composed by substituting the argument expressions for the parameters.  What the variables
mean (segNumber = one-based segment number, segID / ind = zero-based storage position, ...) is the hand-written binding
of Model/RstSegWin.lean; the theorems (Proofs/RstSegWin.lean) say that writer and readers select the same flat position
for every segment number, and the correspondence (harness/rstdyn.cpp corr) compares the evaluated expressions with the
positions the real code used.
"""
import os
from .common import TranslateError
from . import rstslots as R

WRITER_FILE = "opm/output/eclipse/AggregateMSWData.cpp"
LOADER_FILE = "opm/output/eclipse/LoadRestart.cpp"
RST_FILE = "opm/io/eclipse/rst/well.cpp"


def to_iexpr(e, where):
    e = R.strip_paren(e)
    k = e[0]
    if k == "num":
        v = R.num_value(e)
        if isinstance(v, int):
            return f"(.lit {v})"
        raise TranslateError(f"{where}: non-integer literal {e[1]} in an index expression")
    if k == "name":
        return f"(.var {R.lean_str(e[1])})"
    if k in ("member", "index"):
        return f"(.var {R.lean_str(R.raw(e))})"
    if k == "bin" and e[1] in ("+", "-", "*"):
        op = {"+": "add", "-": "sub", "*": "mul"}[e[1]]
        return f"(.{op} {to_iexpr(e[2], where)} {to_iexpr(e[3], where)})"
    if k == "tcall" and e[1] == "static_cast" and len(e[3]) == 1:
        return to_iexpr(e[3][0], where)
    raise TranslateError(f"{where}: index expression of an unexpected shape: {R.raw(e)}")


def find_function(funcs, name, ns_last=None, rel=""):
    hits = [f for f in funcs if f[1] == name and (ns_last is None or (f[0] and f[0][-1] == ns_last))]
    if len(hits) != 1:
        raise TranslateError(f"{rel}: expected exactly one function {ns_last or ''}::{name}, found {len(hits)}")
    return hits[0]


def simple_statements(body):
    w = R.Walker()
    w.block(body, ())
    return w.stmts


def decls(body, name):
    """initialiser expression trees of every declaration of `name` in the function body"""
    out = []
    for kind, toks, guard in simple_statements(body):
        if kind != "simple":
            continue
        d = R.split_decl(list(toks))
        if d and d[0] == name:
            out.append(R.parse_expr(list(d[2])))
    return out


def param_names(header, pidx):
    """parameter names of a function header (identifier before each top-level ',' / ')' / '=')"""
    toks = header[pidx:]
    end = R.match_close(toks, 0, "(", ")")
    inner, names, depth, last_id, skipping = toks[1:end], [], 0, None, False
    for k, t in inner:
        if t in "(<[{" and k == "op":
            depth += 1
        elif t in ")>]}" and k == "op":
            depth -= 1
        elif t == "," and depth == 0:
            names.append(last_id)
            last_id, skipping = None, False
        elif t == "=" and depth == 0:
            skipping = True
        elif k == "id" and depth == 0 and not skipping:
            last_id = t
    names.append(last_id)
    return names


def find_calls(e, pred, acc):
    if not isinstance(e, tuple):
        return
    if e[0] == "call" and pred(e):
        acc.append(e)
    if e[0] == "lambda":
        return
    for x in e:
        if isinstance(x, tuple):
            find_calls(x, pred, acc)
        elif isinstance(x, list):
            for y in x:
                if isinstance(y, tuple):
                    find_calls(y, pred, acc)


def all_exprs(body):
    out = []
    for kind, toks, guard in simple_statements(body):
        if kind not in ("simple", "return", "cond"):
            continue
        toks = list(toks)
        d = R.split_decl(toks) if kind == "simple" else None
        try:
            out.append(R.parse_expr(list(d[2]) if d else toks))
        except R.ParseFail:
            continue
    return out


def other_indices(body, arrays):
    """index texts of `iSeg[...]` / `rSeg[...]` whose index is not `<base> + item` with base iS / baseIndex"""
    out = []

    def visit(e):
        if not isinstance(e, tuple):
            return
        if e[0] == "lambda":
            return
        if e[0] == "index" and e[1][0] == "name" and e[1][1] in arrays:
            ix = R.strip_paren(e[2])
            ok = ix[0] == "bin" and ix[1] == "+" and ix[2][0] == "name" and ix[2][1] in ("iS", "baseIndex")
            if not ok:
                out.append((e[1][1], R.raw(ix)))
        for x in e:
            if isinstance(x, tuple):
                visit(x)
            elif isinstance(x, list):
                for y in x:
                    if isinstance(y, tuple):
                        visit(y)

    for kind, toks, guard in simple_statements(body):
        if kind not in ("simple", "return", "cond"):
            continue
        try:
            visit(R.parse_expr(list(toks)))
        except R.ParseFail:
            d = R.split_decl(list(toks))
            if d:
                try:
                    visit(R.parse_expr(list(d[2])))
                except R.ParseFail:
                    pass
    return sorted(set(out))


def translate(repo):
    sources = []
    d = {}
    # ---- writer
    path, toks = R.load(repo, WRITER_FILE)
    sources.append(path)
    funcs = R.functions(toks)
    for ns, arr in (("ISeg", "iSeg"), ("RSeg", "rSeg")):
        f = find_function(funcs, "staticContrib", ns, WRITER_FILE)
        bases = decls(f[3], "iS")
        want = 1 if ns == "ISeg" else 2
        if len(bases) != want:
            raise TranslateError(f"{WRITER_FILE}: {ns}::staticContrib declares the segment base `iS` {len(bases)} times (expected {want})")
        d[f"writer{ns}Bases"] = [to_iexpr(b, f"{ns}::staticContrib iS") for b in bases]
        segnos = decls(f[3], "segNumber")
        if len(segnos) != want:
            raise TranslateError(f"{WRITER_FILE}: {ns}::staticContrib declares `segNumber` {len(segnos)} times (expected {want})")
        d[f"writer{ns}SegNumberSrc"] = [R.raw(s) for s in segnos]
        elm = decls(f[3], "noElmSeg")
        if len(elm) != 1:
            raise TranslateError(f"{WRITER_FILE}: {ns}::staticContrib: `noElmSeg` not declared exactly once")
        d[f"writer{ns}ElemsSrc"] = R.raw(elm[0])
        d[f"writer{ns}Other"] = other_indices(f[3], {arr})
        e = find_function(funcs, "entriesPerMSW", ns, WRITER_FILE)
        rets = [t for k, t, g in simple_statements(e[3]) if k == "return"]
        if len(rets) != 1:
            raise TranslateError(f"{WRITER_FILE}: {ns}::entriesPerMSW is not a single return")
        d[f"writer{ns}EntriesPerMSW"] = to_iexpr(R.parse_expr(list(rets[0])), f"{ns}::entriesPerMSW")
    # the per-well window: this->iSeg_[mswID] / this->rSeg_[mswID] inside MSWLoop, mswID zero-based
    cap = find_function(funcs, "captureDeclaredMSWData", None, WRITER_FILE)
    cap_txt = R.text(cap[3])
    for need in ("this->iSeg_[mswID]", "this->rSeg_[mswID]"):
        if need.replace(" ", "") not in cap_txt.replace(" ", ""):
            raise TranslateError(f"{WRITER_FILE}: captureDeclaredMSWData no longer selects the well window as {need}")

    # ---- LoadRestart
    path, toks = R.load(repo, LOADER_FILE)
    sources.append(path)
    funcs = R.functions(toks)
    gdw = find_function(funcs, "getDataWindow", None, LOADER_FILE)
    gparams = param_names(gdw[2], gdw[4])
    off = decls(gdw[3], "off")
    if len(off) != 1 or len(gparams) != 5:
        raise TranslateError(f"{LOADER_FILE}: getDataWindow: expected 5 parameters and one `off` (found {len(gparams)}, {len(off)})")
    for arr in ("iseg", "rseg"):
        acc = [f for f in funcs if f[1] == arr and "SegmentVectors" in R.text(f[2])]
        if len(acc) != 1:
            raise TranslateError(f"{LOADER_FILE}: SegmentVectors::{arr} not found")
        aparams = param_names(acc[0][2], acc[0][4])
        calls = []
        for ex in all_exprs(acc[0][3]):
            find_calls(ex, lambda c: c[1][0] == "name" and c[1][1] == "getDataWindow", calls)
        if len(calls) != 1 or len(calls[0][2]) != 5:
            raise TranslateError(f"{LOADER_FILE}: SegmentVectors::{arr}: expected one getDataWindow call with 5 arguments")
        env = {p: a for p, a in zip(gparams[1:], calls[0][2][1:])}
        d[f"loader{arr}Params"] = aparams
        d[f"loader{arr}Off"] = R.substitute(off[0], env)
        d[f"loader{arr}Array"] = R.raw(calls[0][2][0])
    rsq = find_function(funcs, "restoreSegmentQuantities", None, LOADER_FILE)
    rparams = param_names(rsq[2], rsq[4])
    calls = []
    for ex in all_exprs(rsq[3]):
        find_calls(ex, lambda c: c[1][0] == "member" and c[1][2] in ("rseg", "iseg") and R.raw(c[1][1]) == "segData", calls)
    if len(calls) != 1 or calls[0][1][2] != "rseg" or len(calls[0][2]) != 2:
        raise TranslateError(f"{LOADER_FILE}: restoreSegmentQuantities: expected exactly one segData.rseg(msw, segment) call")
    env = {p: a for p, a in zip(d["loaderrsegParams"], calls[0][2])}
    inner = R.substitute(d["loaderrsegOff"], env)
    segno = decls(rsq[3], "segNumber")
    if len(segno) != 1:
        raise TranslateError(f"{LOADER_FILE}: restoreSegmentQuantities: `segNumber` not declared exactly once")
    d["loaderSegNumberSrc"] = R.raw(segno[0])
    txt = R.text(rsq[3]).replace(" ", "")
    if "xw.segments[segNumber]" not in txt:
        raise TranslateError(f"{LOADER_FILE}: restoreSegmentQuantities no longer keys the result as xw.segments[segNumber]")
    d["loaderKey"] = "(.var \"segNumber\")"
    # call site: restoreSegmentQuantities(mswID - 1, ...) with mswID = iwel[MsWID] (one-based)
    rw = find_function(funcs, "restore_well", None, LOADER_FILE)
    calls = []
    for kind, stoks, guard in simple_statements(rw[3]):
        if kind != "simple":
            continue
        try:
            find_calls(R.parse_expr(list(stoks)), lambda c: c[1][0] == "name" and c[1][1] == "restoreSegmentQuantities", calls)
        except R.ParseFail:
            continue
    if len(calls) != 1:
        raise TranslateError(f"{LOADER_FILE}: restore_well: expected one call of restoreSegmentQuantities")
    msw_src = decls(rw[3], "mswID")
    if len(msw_src) != 1:
        raise TranslateError(f"{LOADER_FILE}: restore_well: `mswID` not declared exactly once")
    d["loaderMswSrc"] = R.raw(msw_src[0])
    outer = R.substitute(inner, {rparams[0]: calls[0][2][0]})
    d["loaderRsegOff"] = to_iexpr(outer, "LoadRestart rseg offset")
    # member initialisers of SegmentVectors
    ltxt = R.text(toks).replace(" ", "")
    for need in ("maxSegPerWell_(intehead[VI::intehead::NSEGMX])", "numISegElm_(intehead[VI::intehead::NISEGZ])", "numRSegElm_(intehead[VI::intehead::NRSEGZ])"):
        if need not in ltxt:
            raise TranslateError(f"{LOADER_FILE}: SegmentVectors constructor: {need} not found")

    # ---- rst/well.cpp
    path, toks = R.load(repo, RST_FILE)
    sources.append(path)
    # the delegating constructor `RstWell::RstWell(..., iseg, rseg) : RstWell { ... } { body }`
    bodies = []
    for i in range(len(toks) - 3):
        if toks[i][1] == "RstWell" and toks[i + 1][1] == "::" and toks[i + 2][1] == "RstWell" and toks[i + 3][1] == "(":
            close = R.match_close(toks, i + 3, "(", ")")
            if "rseg" not in [t[1] for t in toks[i + 3:close]]:
                continue
            j = close + 1
            if toks[j][1] != ":" or toks[j + 1][1] != "RstWell" or toks[j + 2][1] not in ("{", "("):
                raise TranslateError(f"{RST_FILE}: the RstWell constructor taking iseg / rseg no longer delegates")
            j = R.match_close(toks, j + 2, toks[j + 2][1], "}" if toks[j + 2][1] == "{" else ")") + 1
            if toks[j][1] != "{":
                raise TranslateError(f"{RST_FILE}: body of the RstWell constructor taking iseg / rseg not found")
            bodies.append(toks[j + 1:R.match_close(toks, j, "{", "}")])
    if len(bodies) != 1:
        raise TranslateError(f"{RST_FILE}: the RstWell constructor taking iseg / rseg not found")
    body = bodies[0]
    for nm in ("iseg_offset", "rseg_offset", "segment_number"):
        v = decls(body, nm)
        if len(v) != 1:
            raise TranslateError(f"{RST_FILE}: `{nm}` not declared exactly once in the RstWell constructor")
        d["rst_" + nm] = v[0]
    # the element whose value decides whether candidate window `is` holds a segment: the one local variable
    # initialised from iseg[iseg_offset + <item>]
    flags = []
    for kind, stoks, guard in simple_statements(body):
        if kind != "simple":
            continue
        dd = R.split_decl(list(stoks))
        if not dd:
            continue
        try:
            ex = R.strip_paren(R.parse_expr(list(dd[2])))
        except R.ParseFail:
            continue
        if ex[0] == "index" and R.raw(ex[1]) == "iseg" and R.raw(ex[2]).startswith("iseg_offset+"):
            flags.append(ex)
    if len(flags) != 1:
        raise TranslateError(f"{RST_FILE}: expected exactly one local initialised from iseg[iseg_offset + item] (the segment-exists test), found {len(flags)}")
    d["rst_other_segment_number"] = flags[0]
    d["rstIsegOff"] = to_iexpr(d["rst_iseg_offset"], "rst iseg_offset")
    d["rstRsegOff"] = to_iexpr(d["rst_rseg_offset"], "rst rseg_offset")
    d["rstSegNumber"] = to_iexpr(d["rst_segment_number"], "rst segment_number")
    d["rstExistsSrc"] = R.raw(d["rst_other_segment_number"])
    loops = [R.text(t).replace(" ", "") for k, t, g in simple_statements(body) if k == "loop"]
    if not any(l.startswith("intis=0;is<header.nsegmx;") for l in loops):
        raise TranslateError(f"{RST_FILE}: the RstWell constructor no longer loops `for (int is = 0; is < header.nsegmx; ++is)`")
    d["sources"] = sources
    return d


def render(d):
    L = R.lean_str
    o = ["/- GENERATED by translate/rstsegwin.py from opm/output/eclipse/AggregateMSWData.cpp, opm/output/eclipse/LoadRestart.cpp",
         "   and opm/io/eclipse/rst/well.cpp — do not edit. -/",
         "import OpmVerif.Model.RstSegWin", "",
         "namespace OpmVerif.Gen.RstSegWin", "open OpmVerif.RstSegWin", ""]

    def lst(xs):
        return "[" + ", ".join(xs) + "]"
    o.append("/-- `auto iS = …` of ISeg::staticContrib: base index of a segment inside the well's ISEG window. -/")
    o.append(f"def writerIsegBases : List IExpr := {lst(d['writerISegBases'])}")
    o.append("/-- `auto iS = …` of RSeg::staticContrib (top segment, other segments). -/")
    o.append(f"def writerRsegBases : List IExpr := {lst(d['writerRSegBases'])}")
    o.append(f"def writerIsegSegNumberSrc : List String := {lst(L(s) for s in d['writerISegSegNumberSrc'])}")
    o.append(f"def writerRsegSegNumberSrc : List String := {lst(L(s) for s in d['writerRSegSegNumberSrc'])}")
    o.append(f"def writerIsegElemsSrc : String := {L(d['writerISegElemsSrc'])}")
    o.append(f"def writerRsegElemsSrc : String := {L(d['writerRSegElemsSrc'])}")
    o.append("/-- `entriesPerMSW`: size of one well's window. -/")
    o.append(f"def writerIsegEntriesPerMSW : IExpr := {d['writerISegEntriesPerMSW']}")
    o.append(f"def writerRsegEntriesPerMSW : IExpr := {d['writerRSegEntriesPerMSW']}")
    o.append("/-- Accesses of iSeg / rSeg in the two staticContrib functions whose index is not `<segment base> + item`. -/")
    o.append(f"def writerIsegOther : List (String × String) := {lst(f'({L(a)}, {L(t)})' for a, t in d['writerISegOther'])}")
    o.append(f"def writerRsegOther : List (String × String) := {lst(f'({L(a)}, {L(t)})' for a, t in d['writerRSegOther'])}")
    o.append("")
    o.append("/-- LoadRestart.cpp: flat RSEG offset of the window restoreSegmentQuantities reads for a segment")
    o.append("(getDataWindow ∘ SegmentVectors::rseg ∘ the call in restoreSegmentQuantities ∘ the call in restore_well). -/")
    o.append(f"def loaderRsegOff : IExpr := {d['loaderRsegOff']}")
    o.append(f"def loaderSegNumberSrc : String := {L(d['loaderSegNumberSrc'])}")
    o.append(f"def loaderMswSrc : String := {L(d['loaderMswSrc'])}")
    o.append("/-- key under which the restored segment is filed in data::Well::segments -/")
    o.append(f"def loaderKey : IExpr := {d['loaderKey']}")
    o.append("")
    o.append("/-- rst/well.cpp: flat offsets of candidate window `is` and the segment number it is given. -/")
    o.append(f"def rstIsegOff : IExpr := {d['rstIsegOff']}")
    o.append(f"def rstRsegOff : IExpr := {d['rstRsegOff']}")
    o.append(f"def rstSegNumber : IExpr := {d['rstSegNumber']}")
    o.append("/-- the element whose being non-zero makes window `is` a segment -/")
    o.append(f"def rstExistsSrc : String := {L(d['rstExistsSrc'])}")
    o += ["", "end OpmVerif.Gen.RstSegWin", ""]
    return "\n".join(o)


def summary(d):
    return {"writer_iseg_bases": d["writerISegBases"], "writer_rseg_bases": d["writerRSegBases"], "loader_rseg_offset": d["loaderRsegOff"],
            "rst_rseg_offset": d["rstRsegOff"], "rst_segment_number": d["rstSegNumber"],
            "writer_other_indices": d["writerISegOther"] + d["writerRSegOther"]}


def generate(repo):
    d = translate(repo)
    return {"module": "OpmVerif.Gen.RstSegWin", "file": "RstSegWin.lean", "text": render(d), "sources": d["sources"]}


if __name__ == "__main__":
    import json, sys
    d = translate(sys.argv[1] if len(sys.argv) > 1 else os.environ.get("VERIF_REPO", "/repo"))
    print(render(d))
