"""VectorItems/*.hpp, AggregateWellData.cpp, AggregateConnectionData.cpp, CreateInteHead.cpp,
rst/well.cpp, rst/connection.cpp, LoadRestart.cpp  ->  lean/OpmVerif/Gen/RstSlots.lean

What is generated (all of it Lean *data*; the theorems live in Proofs/RstSlots.lean):

  enums        every enum of opm/output/eclipse/VectorItems/*.hpp  (qualified name -> [(enumerator, value)])
  window sizes the arguments of params_NWELZ / params_NCON in CreateInteHead.cpp as functions of the
               number of water tracers
  writer       one entry per *statement that stores into a restart window* in the Aggregate{Well,Connection}Data
               writer functions: function, array, slot name, slot index, source expression, pre-map shape,
               guard path (ids of the enclosing if/else/case branches)
  encTables    the `switch` functions that encode a C++ enum as a restart integer (case label -> value)
  reader       one entry per read of a restart window in the RstWell / RstConnection constructors
  loader       one entry per read of XWEL/XCON/IWEL/ICON in LoadRestart.cpp (data::Wells and cumulatives)

Right-hand sides / read expressions are parsed with a small C++ *expression parser* (tokens -> tree), so
the translation is insensitive to line breaks, spacing and comments.  Shapes that are not recognised are
emitted as `opaque "<text>"`; they are excluded from the proved set and counted (see `summary`).
"""
import os, re
from .common import strip_comments, TranslateError

VI_DIR = "opm/output/eclipse/VectorItems"
VI_PREFIX = ["Opm", "RestartIO", "Helpers", "VectorItems"]

# ---------------------------------------------------------------------------------------------
# tokens

TOKEN_RE = re.compile(r"""
    (?P<ws>\s+)
  | (?P<num>(?:0[xX][0-9a-fA-F]+|(?:\d+\.\d*|\.\d+|\d+)(?:[eE][-+]?\d+)?)[fFuUlL]*)
  | (?P<id>[A-Za-z_]\w*)
  | (?P<str>R"~\(.*?\)~"|"(?:\\.|[^"\\])*")
  | (?P<chr>'(?:\\.|[^'\\])')
  | (?P<op>::|->|\+\+|--|<<=|>>=|<=|>=|==|!=|&&|\|\||\+=|-=|\*=|/=|%=|&=|\|=|\^=|\.\.\.|[-+*/%<>=!&|^~?:;,.(){}\[\]\#])
""", re.X | re.S)


def tokenize(src):
    src = strip_comments(src)
    out, pos = [], 0
    while pos < len(src):
        m = TOKEN_RE.match(src, pos)
        if not m:
            raise TranslateError(f"cannot tokenize at {src[pos:pos+30]!r}")
        pos = m.end()
        k = m.lastgroup
        if k == "ws":
            continue
        out.append((k, m.group(k)))
    # drop preprocessor lines' tokens:  '#' ... up to end of line cannot be seen after whitespace removal,
    # so they are removed textually before tokenizing (see load()).
    return out


def load(repo, rel):
    path = os.path.join(repo, rel)
    if not os.path.exists(path):
        raise TranslateError(f"{rel}: file not found")
    txt = open(path).read()
    txt = re.sub(r"^\s*#[^\n]*(?:\\\n[^\n]*)*", "", txt, flags=re.M)
    return path, tokenize(txt)


def match_close(toks, i, open_, close):
    """toks[i] is `open_`; return index of the matching `close`."""
    depth = 0
    for j in range(i, len(toks)):
        t = toks[j][1]
        if toks[j][0] in ("str", "chr"):
            continue
        if t == open_:
            depth += 1
        elif t == close:
            depth -= 1
            if depth == 0:
                return j
    raise TranslateError(f"unbalanced {open_}{close}")


def text(toks):
    out = ""
    for k, t in toks:
        if out and (out[-1].isalnum() or out[-1] == "_") and (t[0].isalnum() or t[0] == "_"):
            out += " "
        out += t
    return out


# ---------------------------------------------------------------------------------------------
# expression parser (Pratt).  Trees are tuples; `raw(e)` gives back normalised text.

TEMPLATE_NAMES = {"static_cast", "from_int", "std::optional", "decltype", "std::size_t", "dynamic_cast",
                  "reinterpret_cast", "const_cast", "std::vector", "std::pair", "std::max", "std::min"}
BINPREC = {"*": 12, "/": 12, "%": 12, "+": 11, "-": 11, "<<": 10, ">>": 10, "<": 9, ">": 9, "<=": 9, ">=": 9,
           "==": 8, "!=": 8, "&": 7, "^": 6, "|": 5, "&&": 4, "||": 3}
ASSIGN = {"=", "+=", "-=", "*=", "/="}


class ParseFail(Exception):
    pass


class P:
    def __init__(self, toks):
        self.t, self.i = toks, 0

    def peek(self, k=0):
        return self.t[self.i + k][1] if self.i + k < len(self.t) else None

    def kind(self, k=0):
        return self.t[self.i + k][0] if self.i + k < len(self.t) else None

    def eat(self, s=None):
        if self.i >= len(self.t) or (s is not None and self.t[self.i][1] != s):
            raise ParseFail(f"expected {s} got {self.peek()}")
        self.i += 1
        return self.t[self.i - 1][1]

    def done(self):
        return self.i >= len(self.t)

    def expr(self):              # assignment level, right associative
        lhs = self.ternary()
        if self.peek() in ASSIGN:
            op = self.eat()
            rhs = self.expr()
            return ("assign", op, lhs, rhs)
        return lhs

    def ternary(self):
        c = self.binary(0)
        if self.peek() == "?":
            self.eat()
            a = self.expr()
            self.eat(":")
            b = self.expr()
            return ("tern", c, a, b)
        return c

    def binary(self, minp):
        l = self.unary()
        while True:
            op = self.peek()
            if op in BINPREC and BINPREC[op] > minp:
                self.eat()
                r = self.binary(BINPREC[op])
                l = ("bin", op, l, r)
            else:
                return l

    def unary(self):
        op = self.peek()
        if op in ("-", "+", "!", "~", "*", "&", "++", "--") and self.kind() == "op":
            self.eat()
            return ("unary", op, self.unary())
        return self.postfix(self.primary())

    def args(self, close):
        out = []
        if self.peek() == close:
            self.eat()
            return out
        while True:
            out.append(self.expr())
            if self.peek() == ",":
                self.eat()
                continue
            self.eat(close)
            return out

    def qname(self):
        parts = []
        if self.peek() == "::":
            self.eat()
        while True:
            if self.kind() != "id":
                raise ParseFail("identifier expected")
            parts.append(self.eat())
            if self.peek() == "::" and self.kind(1) == "id":
                self.eat()
                continue
            return "::".join(parts)

    def primary(self):
        k, t = self.kind(), self.peek()
        if t is None:
            raise ParseFail("unexpected end")
        if k == "num":
            self.eat()
            return ("num", t)
        if k == "str":
            self.eat()
            return ("str", t)
        if k == "chr":
            self.eat()
            return ("chr", t)
        if t == "(":
            self.eat()
            e = self.expr()
            self.eat(")")
            return ("paren", e)
        if t == "{":
            self.eat()
            return ("init", self.args("}"))
        if t == "[":             # lambda
            start = self.i
            j = match_close(self.t, self.i, "[", "]")
            self.i = j + 1
            params = []
            if self.peek() == "(":
                j = match_close(self.t, self.i, "(", ")")
                params = self.t[self.i + 1:j]
                self.i = j + 1
            while self.peek() != "{":      # mutable / -> type
                if self.peek() is None:
                    raise ParseFail("lambda without body")
                self.eat()
            j = match_close(self.t, self.i, "{", "}")
            body = self.t[self.i + 1:j]
            self.i = j + 1
            return ("lambda", params, body, self.t[start:self.i])
        if k == "id" or t == "::":
            if t in ("const", "typename"):
                raise ParseFail("declaration")
            name = self.qname()
            if name in TEMPLATE_NAMES and self.peek() == "<":
                j = match_close(self.t, self.i, "<", ">")
                targ = text(self.t[self.i + 1:j])
                self.i = j + 1
                if self.peek() == "(":
                    self.eat()
                    return ("tcall", name, targ, self.args(")"))
                if self.peek() == "{":
                    self.eat()
                    return ("tcall", name, targ, self.args("}"))
                return ("name", name + "<" + targ + ">")
            return ("name", name)
        raise ParseFail(f"unexpected token {t}")

    def postfix(self, e):
        while True:
            t = self.peek()
            if t == "(":
                self.eat()
                e = ("call", e, self.args(")"))
            elif t == "[":
                self.eat()
                ix = self.expr()
                self.eat("]")
                e = ("index", e, ix)
            elif t in (".", "->"):
                self.eat()
                if self.peek() == "template":
                    self.eat()
                e = ("member", e, self.qname())
            elif t == "{" and e[0] == "name" and e[1][:1].isupper():
                self.eat()
                e = ("call", e, self.args("}"))
            elif t in ("++", "--"):
                self.eat()
                e = ("post", t, e)
            else:
                return e


def parse_expr(toks):
    p = P(toks)
    e = p.expr()
    if not p.done():
        raise ParseFail("trailing tokens " + text(toks[p.i:p.i + 4]))
    return e


def raw(e):
    k = e[0]
    if k in ("num", "str", "chr", "name"):
        return e[1]
    if k == "paren":
        return "(" + raw(e[1]) + ")"
    if k == "init":
        return "{" + ",".join(raw(a) for a in e[1]) + "}"
    if k == "lambda":
        return text(e[3])
    if k == "tcall":
        return f"{e[1]}<{e[2]}>(" + ",".join(raw(a) for a in e[3]) + ")"
    if k == "call":
        return raw(e[1]) + "(" + ",".join(raw(a) for a in e[2]) + ")"
    if k == "index":
        return raw(e[1]) + "[" + raw(e[2]) + "]"
    if k == "member":
        return raw(e[1]) + "." + e[2]
    if k == "unary":
        return e[1] + raw(e[2])
    if k == "post":
        return raw(e[2]) + e[1]
    if k == "bin":
        return raw(e[2]) + e[1] + raw(e[3])
    if k == "tern":
        return raw(e[1]) + "?" + raw(e[2]) + ":" + raw(e[3])
    if k == "assign":
        return raw(e[2]) + e[1] + raw(e[3])
    return "?"


def strip_paren(e):
    while e[0] == "paren":
        e = e[1]
    return e


# ---------------------------------------------------------------------------------------------
# enums of VectorItems/*.hpp

def parse_enums(toks, rel):
    """Return {qualified enum name (dot separated, relative to VectorItems): [(enumerator, value)]}."""
    enums = {}
    ns, stack = [], []           # stack of ('ns', n_components) | ('other',)
    i = 0
    while i < len(toks):
        k, t = toks[i]
        if t == "namespace" and toks[i + 1][0] == "id":
            j, parts = i + 1, []
            while toks[j][0] == "id":
                parts.append(toks[j][1])
                if toks[j + 1][1] == "::":
                    j += 2
                else:
                    j += 1
                    break
            if toks[j][1] == "{":
                ns += parts
                stack.append(("ns", len(parts)))
                i = j + 1
                continue
            i = j
            continue
        if t == "enum":
            j = i + 1
            if toks[j][1] in ("class", "struct"):
                j += 1
            name = toks[j][1]
            j += 1
            while toks[j][1] != "{":
                if toks[j][1] == ";":
                    break
                j += 1
            if toks[j][1] == ";":
                i = j + 1
                continue
            end = match_close(toks, j, "{", "}")
            body = toks[j + 1:end]
            items, cur, seen = [], -1, {}
            parts, acc = [], []
            for tk in body:
                if tk[1] == ",":
                    parts.append(acc)
                    acc = []
                else:
                    acc.append(tk)
            if acc:
                parts.append(acc)
            for part in parts:
                if not part:
                    continue
                ename = part[0][1]
                if len(part) == 1:
                    cur += 1
                elif part[1][1] == "=":
                    cur = eval_const(part[2:], seen, f"{rel}: {name}::{ename}")
                else:
                    raise TranslateError(f"{rel}: enumerator {text(part)} not understood")
                seen[ename] = cur
                items.append((ename, cur))
            rel_ns = ns[len(VI_PREFIX):] if ns[:len(VI_PREFIX)] == VI_PREFIX else ns
            q = ".".join(rel_ns + [name])
            if q in enums:
                raise TranslateError(f"{rel}: enum {q} defined twice")
            enums[q] = items
            i = end + 1
            continue
        if t == "{":
            stack.append(("other",))
        elif t == "}":
            if not stack:
                raise TranslateError(f"{rel}: unbalanced braces")
            top = stack.pop()
            if top[0] == "ns":
                del ns[len(ns) - top[1]:]
        i += 1
    return enums


def eval_const(toks, env, where):
    """Integer constant expression over + - * ( ) and earlier enumerators."""
    try:
        e = parse_expr(list(toks))
    except ParseFail as ex:
        raise TranslateError(f"{where}: {ex}")

    def ev(e):
        k = e[0]
        if k == "num":
            return int(re.sub(r"[uUlL]+$", "", e[1]), 0)
        if k == "name" and e[1] in env:
            return env[e[1]]
        if k == "paren":
            return ev(e[1])
        if k == "unary" and e[1] in "+-":
            return ev(e[2]) if e[1] == "+" else -ev(e[2])
        if k == "bin" and e[1] in "+-*":
            a, b = ev(e[2]), ev(e[3])
            return a + b if e[1] == "+" else a - b if e[1] == "-" else a * b
        raise TranslateError(f"{where}: constant expression {raw(e)} not understood")
    return ev(e)


# ---------------------------------------------------------------------------------------------
# name resolution against the enum tables

class Resolver:
    def __init__(self, enums):
        self.enums = enums

    def resolve(self, qname, aliases):
        """qname like 'Ix::Status', 'VI::IWell::index::Status', 'VI::IWell::IHead', 'Value::WGrupCon::Controllable::Yes'
        -> (enum qualified name, enumerator, value) or None."""
        parts = [p for p in qname.split("::") if p]
        for _ in range(4):
            if parts and parts[0] in aliases:
                parts = aliases[parts[0]] + parts[1:]
            else:
                break
        if parts[:len(VI_PREFIX)] == VI_PREFIX:
            parts = parts[len(VI_PREFIX):]
        if len(parts) < 2:
            return None
        en, item = ".".join(parts[:-1]), parts[-1]
        if en in self.enums:
            for n, v in self.enums[en]:
                if n == item:
                    return en, item, v
            return None
        # unscoped access through the enclosing namespace
        hits = []
        for q, items in self.enums.items():
            if ".".join(q.split(".")[:-1]) == en:
                for n, v in items:
                    if n == item:
                        hits.append((q, item, v))
        return hits[0] if len(hits) == 1 else None


def collect_aliases(toks):
    """`using A = B::C;` and `namespace A = B::C;` anywhere in the token range."""
    al = {}
    for i, (k, t) in enumerate(toks):
        if t in ("using", "namespace") and i + 2 < len(toks) and toks[i + 1][0] == "id" and toks[i + 2][1] == "=":
            j, parts = i + 3, []
            while j < len(toks) and toks[j][1] != ";":
                if toks[j][0] == "id":
                    parts.append(toks[j][1])
                elif toks[j][1] != "::":
                    parts = None
                    break
                j += 1
            if parts:
                al[toks[i + 1][1]] = parts
    return al


# ---------------------------------------------------------------------------------------------
# function bodies at namespace level

def functions(toks):
    """Yield (namespace path, function name, header tokens, body tokens) for every function defined at
    namespace level."""
    out = []
    ns, stack, i, stmt_start = [], [], 0, 0
    while i < len(toks):
        t = toks[i][1]
        if t == "namespace" and i + 1 < len(toks) and toks[i + 1][1] == "{":
            stack.append("ns")
            ns.append("")
            i += 2
            stmt_start = i
            continue
        if t == "namespace" and toks[i + 1][0] == "id" and toks[i + 2][1] == "{":
            stack.append("ns")
            ns.append(toks[i + 1][1])
            i += 3
            stmt_start = i
            continue
        if t == ";":
            stmt_start = i + 1
        elif t == "}":
            if stack:
                stack.pop()
                ns.pop()
            stmt_start = i + 1
        elif t == "{":
            header = toks[stmt_start:i]
            end = match_close(toks, i, "{", "}")
            htxt = [x[1] for x in header]
            if "(" in htxt and not any(x in htxt[:2] for x in ("struct", "class", "enum")):
                # name = identifier before the first top-level '(' of the header
                depth, name, pidx = 0, None, None
                for j, x in enumerate(htxt):
                    if x in ("<",):
                        depth += 1
                    elif x == ">":
                        depth -= 1
                    elif x == "(" and depth <= 0:
                        name, pidx = htxt[j - 1], j
                        break
                out.append(([n for n in ns if n], name, header, toks[i + 1:end], pidx))
            i = end + 1
            stmt_start = i
            continue
        i += 1
    return out


# ---------------------------------------------------------------------------------------------
# statements with guard paths

class Walker:
    """Walks a function body; calls on_expr(expr_tokens, guard) for every expression statement and every
    declaration initialiser, with guard = tuple of (id, branch)."""

    def __init__(self):
        self.next_id = 0
        self.stmts = []          # (kind, tokens, guard)   kind in expr|decl|return|cond

    def fresh(self):
        self.next_id += 1
        return self.next_id

    def block(self, toks, guard):
        i = 0
        while i < len(toks):
            i = self.stmt(toks, i, guard)

    def stmt(self, toks, i, guard):
        t = toks[i][1]
        if t == ";":
            return i + 1
        if t == "{":
            j = match_close(toks, i, "{", "}")
            self.block(toks[i + 1:j], guard)
            return j + 1
        if t == "if":
            j = i + 1
            if toks[j][1] == "constexpr":
                j += 1
            e = match_close(toks, j, "(", ")")
            cid = self.fresh()
            self.stmts.append(("cond", toks[j + 1:e], guard + ((cid, -1),)))
            k = self.stmt(toks, e + 1, guard + ((cid, 1),))
            if k < len(toks) and toks[k][1] == "else":
                k = self.stmt(toks, k + 1, guard + ((cid, 0),))
            return k
        if t in ("for", "while"):
            e = match_close(toks, i + 1, "(", ")")
            cid = self.fresh()
            self.stmts.append(("loop", toks[i + 2:e], guard + ((cid, -1),)))
            return self.stmt(toks, e + 1, guard + ((cid, 1),))
        if t == "switch":
            e = match_close(toks, i + 1, "(", ")")
            b = e + 1
            j = match_close(toks, b, "{", "}")
            sid = self.fresh()
            self.stmts.append(("switch", toks[i + 2:e], guard + ((sid, -1),)))
            body, k, case_no, cur = toks[b + 1:j], 0, 1, None
            while k < len(body):
                if body[k][1] in ("case", "default"):
                    c = k
                    depth = 0
                    while not (body[c][1] == ":" and depth == 0):
                        if body[c][1] == "?":
                            depth += 1
                        c += 1
                    case_no += 1
                    cur = guard + ((sid, case_no),)
                    self.stmts.append(("case", body[k + 1:c], cur))
                    k = c + 1
                    continue
                k = self.stmt(body, k, cur if cur is not None else guard)
            return j + 1
        if t in ("break", "continue"):
            return i + 2
        # simple statement up to the ';' at depth 0
        depth, j = 0, i
        while j < len(toks):
            x = toks[j][1]
            if x in "([{" and toks[j][0] == "op":
                depth += 1
            elif x in ")]}" and toks[j][0] == "op":
                depth -= 1
            elif x == ";" and depth == 0:
                break
            j += 1
        s = toks[i:j]
        if t == "return":
            self.stmts.append(("return", s[1:], guard))
        elif t == "throw":
            self.stmts.append(("throw", s[1:], guard))
        elif t in ("using", "namespace", "typedef", "static_assert"):
            pass
        else:
            self.stmts.append(("simple", s, guard))
        return j + 1


def split_decl(toks):
    """`const auto& x = expr` / `auto x = expr` / `std::size_t x = expr` -> (name, is_ref, expr tokens) or None."""
    depth = 0
    for j, (k, t) in enumerate(toks):
        if t in "([{<" and k == "op":
            depth += 1
        elif t in ")]}>" and k == "op":
            depth -= 1
        elif t == "=" and depth == 0:
            lhs = toks[:j]
            if len(lhs) >= 2 and lhs[-1][0] == "id" and all(x[0] == "id" or x[1] in ("::", "&", "*", "<", ">", ",") for x in lhs) \
                    and (lhs[0][1] in ("const", "auto", "int", "double", "float", "bool", "std", "static", "constexpr", "unsigned") ):
                return lhs[-1][1], any(x[1] == "&" for x in lhs), toks[j + 1:]
            return None
    return None


# ---------------------------------------------------------------------------------------------
# helper functions of the form `T f(params) { [using ...;] return EXPR; }` are inlined (second round)

def substitute(e, env):
    if not isinstance(e, tuple):
        return e
    if e[0] == "name" and e[1] in env:
        return ("paren", env[e[1]])
    if e[0] == "lambda":
        return e
    out = []
    for x in e:
        if isinstance(x, tuple):
            out.append(substitute(x, env))
        elif isinstance(x, list):
            out.append([substitute(y, env) if isinstance(y, tuple) else y for y in x])
        else:
            out.append(x)
    return tuple(out)


def single_return_helpers(toks):
    """{name: (param names, expr tree)} for namespace-level functions whose body is exactly one return statement."""
    out = {}
    for ns, name, header, body, pidx in functions(toks):
        if name is None or pidx is None:
            continue
        w = Walker()
        try:
            w.block(body, ())
        except (TranslateError, IndexError):
            continue
        stmts = [st for st in w.stmts]
        if len(stmts) != 1 or stmts[0][0] != "return":
            continue
        try:
            e = parse_expr(list(stmts[0][1]))
        except ParseFail:
            continue
        try:
            close = match_close(header, pidx, "(", ")")
        except TranslateError:
            continue
        params, acc, depth = [], [], 0
        for t in header[pidx + 1:close]:
            if t[1] in "(<[{" and t[0] == "op":
                depth += 1
            elif t[1] in ")>]}" and t[0] == "op":
                depth -= 1
            if t[1] == "," and depth == 0:
                params.append(acc)
                acc = []
            else:
                acc.append(t)
        if acc:
            params.append(acc)
        names = [[t[1] for t in pr if t[0] == "id"][-1] for pr in params if any(t[0] == "id" for t in pr)]
        if name in out:
            out[name] = None          # overloaded: do not inline
        else:
            out[name] = (names, e)
    return {k: v for k, v in out.items() if v is not None}


def measure_of(e):
    e = strip_paren(e)
    if e[0] == "name" and re.match(r"(M|Opm::UnitSystem::measure|UnitSystem::measure)::\w+$", e[1]):
        return e[1].split("::")[-1]
    return None


def from_si_chain(e):
    """X.from_si(M::m1, X.from_si(M::m2, … inner)) -> ([m1, m2, …], inner) | None"""
    e = strip_paren(e)
    if e[0] == "call" and e[1][0] == "member" and e[1][2] == "from_si" and len(e[2]) == 2 and measure_of(e[2][0]):
        rest = from_si_chain(e[2][1])
        if rest:
            return [measure_of(e[2][0])] + rest[0], rest[1]
        return [measure_of(e[2][0])], e[2][1]
    return None


def to_si_chain(e):
    e = strip_paren(e)
    if e[0] == "call" and e[1][0] == "member" and e[1][2] == "to_si" and len(e[2]) == 2 and measure_of(e[2][0]):
        rest = to_si_chain(e[2][1])
        if rest:
            return [measure_of(e[2][0])] + rest[0], rest[1]
        return [measure_of(e[2][0])], e[2][1]
    return None


# ---------------------------------------------------------------------------------------------
# writer side

ARRAY_OF_NS = {"IWell": "IWEL", "SWell": "SWEL", "XWell": "XWEL", "ZWell": "ZWEL",
               "IConn": "ICON", "SConn": "SCON", "XConn": "XCON"}
ARRAY_TY = {"IWEL": "int", "SWEL": "float", "XWEL": "double", "ZWEL": "str",
            "ICON": "int", "SCON": "float", "XCON": "double"}
WRITER_ARRAY_VARS = {"iWell", "sWell", "xWell", "zWell", "iConn", "sConn", "xConn"}


def lean_str(s):
    return '"' + s.replace("\\", "\\\\").replace('"', '\\"') + '"'


def is_simple_source(e):
    """x, x.y, x.f(), x.f().g(), f(x) with simple args: a value taken from the source object."""
    e = strip_paren(e)
    k = e[0]
    if k == "name":
        return True
    if k == "member":
        return e[2] not in ("from_si", "to_si") and is_simple_source(e[1])
    if k == "paren":
        return is_simple_source(e[1])
    if k == "call":
        return is_simple_source(e[1]) and all(no_window(a) for a in e[2])
    if k == "unary" and e[1] == "*":
        return is_simple_source(e[2])
    return False


def no_window(e):
    """expression that does not mention a restart window (method arguments such as conn.size()-1)"""
    return not any(v in WRITER_ARRAY_VARS for v in re.findall(r"\w+", raw(e)))


def is_constant_expr(e):
    """literals combined with * / + - and the physical constants of Opm::unit / Opm::prefix"""
    e = strip_paren(e)
    k = e[0]
    if k == "num":
        return True
    if k == "name":
        parts = [p for p in e[1].split("::") if p]
        return len(parts) >= 2 and parts[-2] in ("unit", "prefix")
    if k == "unary" and e[1] in "+-":
        return is_constant_expr(e[2])
    if k == "bin" and e[1] in "+-*/":
        return is_constant_expr(e[2]) and is_constant_expr(e[3])
    return False


def num_value(e):
    """literal integer / float constant (with sign) -> python number or None"""
    e = strip_paren(e)
    if e[0] == "unary" and e[1] in "+-":
        v = num_value(e[2])
        return None if v is None else (-v if e[1] == "-" else v)
    if e[0] == "num":
        s = re.sub(r"[fFuUlL]+$", "", e[1])
        try:
            return int(s, 0)
        except ValueError:
            try:
                return float(s)
            except ValueError:
                return None
    return None


class WriterTranslator:
    def __init__(self, res, file_aliases, rel):
        self.res, self.file_aliases, self.rel = res, file_aliases, rel
        self.entries = []        # dicts
        self.enc_tables = {}     # fn -> [(label, value)]
        self.swprop_params = []  # functions taking `swprop` as a parameter
        self.swprop_lambda_ok = False
        self.helpers = {}        # single-return helper functions of the file (inlined)
        self.depth = 0

    # -- enum valued helper functions:  switch (x) { case A: return V; ... }
    def try_enc_table(self, name, body):
        w = Walker()
        w.block(body, ())
        aliases = dict(self.file_aliases)
        aliases.update(collect_aliases(body))
        cases, cur = [], None
        for kind, toks, guard in w.stmts:
            if kind == "case":
                cur = text(toks)
            elif kind == "return" and cur is not None and guard and guard[-1][1] >= 2:
                try:
                    e = strip_paren(parse_expr(list(toks)))
                except ParseFail:
                    return
                if e[0] == "name":
                    r = self.res.resolve(e[1], aliases)
                    if r is None:
                        return
                    cases.append((cur.split("::")[-1], r[2], r[0]))
                    cur = None
        if len(cases) >= 2 and any(k == "switch" for k, _, _ in w.stmts):
            self.enc_tables[name] = cases

    def const_int(self, e, aliases):
        """integer literal or enumerator (possibly static_cast<int>) -> int or None"""
        e = strip_paren(e)
        if e[0] == "tcall" and e[1] == "static_cast" and len(e[3]) == 1:
            return self.const_int(e[3][0], aliases)
        v = num_value(e)
        if isinstance(v, int):
            return v
        if e[0] == "name":
            r = self.res.resolve(e[1], aliases)
            if r:
                return r[2]
        return None

    def slot_of(self, ix, aliases):
        ix = strip_paren(ix)
        if ix[0] == "name":
            r = self.res.resolve(ix[1], aliases)
            if r and r[0].endswith(".index") or (r and r[0].split(".")[-1].endswith("index")):
                return r
        return None

    def window_ref(self, e, aliases, refs):
        """e = arr[Ix::Slot]  or an alias of it -> (array, slot, idx) | ('computed', var, text) | None"""
        e = strip_paren(e)
        if e[0] == "name" and e[1] in refs:
            return refs[e[1]]
        if e[0] == "index" and e[1][0] == "name" and e[1][1] in WRITER_ARRAY_VARS:
            r = self.slot_of(e[2], aliases)
            if r:
                arr = ARRAY_OF_NS.get(r[0].split(".")[0])
                if arr:
                    return (arr, r[1], r[2])
            return ("computed", e[1][1], raw(e[2]))
        return None

    def classify(self, rhs, aliases, refs, lambdas, ty):
        """-> (pre constructor text, source text)"""
        e = strip_paren(rhs)
        # narrowing casts are implied by the element type
        if e[0] == "tcall" and e[1] == "static_cast" and e[2] in ("float", "double") and len(e[3]) == 1:
            e = strip_paren(e[3][0])
        v = num_value(e)
        if v is not None:
            return f".const {lean_str(raw(e))}", ""
        ci = self.const_int(e, aliases) if ty == "int" else None
        if ci is not None:
            return f".const {lean_str(str(ci))}", ""
        wr = self.window_ref(e, aliases, refs)
        if wr and wr[0] != "computed":
            return f".copyOf {lean_str(wr[1])}", ""
        if e[0] == "tcall" and e[1] == "static_cast" and e[2] == "int" and len(e[3]) == 1 and is_simple_source(e[3][0]):
            return ".castInt", raw(e[3][0])
        if is_simple_source(e) and not (e[0] == "call" and e[1][0] == "name"):
            return ".id", raw(e)
        if e[0] == "bin" and e[1] == "+" and num_value(e[3]) == 1 and is_simple_source(e[2]):
            return ".plus1", raw(e[2])
        if e[0] == "call" and e[1][0] == "name":
            fn, args = e[1][1], e[2]
            if fn in ("swprop", "scprop") and len(args) == 2 and args[0][0] == "name" and args[0][1].startswith("M::") \
                    and fn in lambdas and (lambdas[fn] == ("param",) or self.is_from_si_lambda(lambdas[fn])):
                if is_simple_source(args[1]):
                    return f".fromSI {lean_str(args[0][1][3:])}", raw(args[1])
                if is_constant_expr(args[1]):
                    return f".const {lean_str(raw(e))}", ""
                if strip_paren(args[1])[0] == "bin" and strip_paren(args[1])[1] == "*" and num_value(strip_paren(args[1])[2]) is not None \
                        and is_simple_source(strip_paren(args[1])[3]):
                    a = strip_paren(args[1])
                    if isinstance(num_value(a[2]), int):
                        return f".fromSIScaled {lean_str(args[0][1][3:])} ({num_value(a[2])})", raw(a[3])
            if fn in self.enc_tables and len(args) == 1 and is_simple_source(args[0]):
                return f".enumEnc {lean_str(fn)}", raw(args[0])
            if fn == "get" and len(args) == 1 and args[0][0] == "str" and fn in lambdas:
                return f".smry {lean_str(args[0][1][1:-1])} false", args[0][1][1:-1]
            if fn in lambdas and all(a[0] == "chr" for a in args):
                keys = self.format_keys(lambdas[fn], [a[1][1:-1] for a in args])
                if keys and len(keys) == 1:
                    return f".smry {lean_str(keys[0])} false", keys[0]
                if keys and len(keys) == 2:
                    return f".smryPI {lean_str(keys[0])} {lean_str(keys[1])}", keys[0] + "|" + keys[1]
            if is_simple_source(e) and fn not in ("swprop", "scprop", "get") and fn not in lambdas \
                    and not re.search(r"\bM::|\bunits\b|\bunit_system\b", raw(e)):
                return ".id", raw(e)       # value computed by a local helper without unit conversion
        if e[0] == "call" and e[1][0] == "member" and e[1][2] == "from_si" and len(e[2]) == 2 \
                and e[2][0][0] == "name" and e[2][0][1].startswith("M::") and is_simple_source(e[2][1]):
            return f".fromSI {lean_str(e[2][0][1][3:])}", raw(e[2][1])
        if e[0] == "unary" and e[1] == "-":
            inner = strip_paren(e[2])
            if inner[0] == "call" and inner[1] == ("name", "get") and len(inner[2]) == 1 and inner[2][0][0] == "str" and "get" in lambdas:
                return f".smry {lean_str(inner[2][0][1][1:-1])} true", inner[2][0][1][1:-1]
        if e[0] == "tern":
            a, b = self.const_int(e[2], aliases), self.const_int(e[3], aliases)
            fa, fb = num_value(e[2]), num_value(e[3])
            if a is not None and b is not None:
                return f".sel ({a}) ({b})", raw(strip_paren(e[1]))
            if fa is not None and fb is not None and float(fa) == int(fa) and float(fb) == int(fb):
                return f".sel ({int(fa)}) ({int(fb)})", raw(strip_paren(e[1]))
            # cond ? <recognised source shape> : <constant>   (either order)
            pa, sa = self.classify(e[2], aliases, refs, lambdas, ty)
            pb, sb = self.classify(e[3], aliases, refs, lambdas, ty)
            simple = lambda p: p.split()[0] in (".id", ".plus1", ".castInt", ".fromSI", ".enumEnc") and "(" not in p
            if simple(pa) and pb.startswith(".const "):
                return f".cond ({pa}) {pb[7:]} true", sa
            if simple(pb) and pa.startswith(".const "):
                return f".cond ({pb}) {pa[7:]} false", sb
        ch = from_si_chain(e)
        if ch and len(ch[0]) >= 2 and is_simple_source(ch[1]):
            return ".fromSIChain [" + ", ".join(lean_str(m) for m in ch[0]) + "]", raw(strip_paren(ch[1]))
        if e[0] == "call" and e[1][0] == "name" and e[1][1] in self.helpers and self.depth < 2:
            params, body = self.helpers[e[1][1]]
            if len(params) == len(e[2]):
                self.depth += 1
                try:
                    pre, src = self.classify(substitute(body, dict(zip(params, e[2]))), aliases, refs, lambdas, ty)
                finally:
                    self.depth -= 1
                if not pre.startswith(".opaque"):
                    return pre, src
        return f".opaque {lean_str(raw(rhs))}", ""

    @staticmethod
    def is_from_si_lambda(lam):
        t = text(lam[2])
        return bool(re.fullmatch(r"return static_cast<float>\(units\.from_si\((\w+),(\w+)\)\);", t))

    @staticmethod
    def format_keys(lam, chars):
        """Lambda whose body builds a summary key with fmt::format from its char parameters."""
        body = text(lam[2])
        params = [p[1] for p in lam[1] if p[0] == "id" and p[1] not in ("const", "char", "auto")]
        m = re.search(r'fmt::format\("([^"]*)",([^;]*?)\)\s*[;)]', body)
        if not m or len(params) != len(chars):
            return None
        env = dict(zip(params, chars))
        pat, args = m.group(1), [a.strip() for a in m.group(2).split(",")]
        alts = [""]
        pieces = pat.split("{}")
        if len(pieces) != len(args) + 1:
            return None
        per_arg = []
        for a in args:
            if a in env:
                per_arg.append([env[a]])
            else:
                mm = re.fullmatch(r"is_producer\?'(.)':'(.)'", a.replace(" ", ""))
                if not mm:
                    return None
                per_arg.append([mm.group(1), mm.group(2)])
        two = any(len(x) == 2 for x in per_arg)
        outs = []
        for sel in ([0, 1] if two else [0]):
            s = pieces[0]
            for x, piece in zip(per_arg, pieces[1:]):
                s += (x[sel] if len(x) == 2 else x[0]) + piece
            outs.append(s)
        if two and not re.search(r"return is_producer\?val:-val;", body):
            return None
        return outs

    def function(self, ns, name, body, header=()):
        self.try_enc_table(name, body)
        aliases = dict(self.file_aliases)
        aliases.update(collect_aliases(body))
        w = Walker()
        w.block(body, ())
        refs, lambdas = {}, {}
        htxt = [t[1] for t in header]
        if "get" in htxt and "GetSummaryVector" in htxt:
            lambdas["get"] = ("param",)      # template parameter: the callers pass their `get` lambda
        if "swprop" in htxt and "SWProp" in htxt:
            lambdas["swprop"] = ("param",)   # template parameter: SWell::staticContrib passes its `swprop` lambda
            self.swprop_params.append(name)
        for kind, toks, guard in w.stmts:
            if kind != "simple":
                continue
            toks = list(toks)
            d = split_decl(toks)
            expr_toks = toks
            if d:
                dname, is_ref, init = d
                try:
                    ie = parse_expr(list(init))
                except ParseFail:
                    ie = None
                if ie is not None and ie[0] == "lambda":
                    lambdas[dname] = ie
                    if dname == "swprop" and self.is_from_si_lambda(ie):
                        self.swprop_lambda_ok = True
                    continue
                if ie is not None and is_ref:
                    wr = self.window_ref(ie, aliases, refs)
                    if wr:
                        refs[dname] = wr
                        continue
                if ie is None or not self.mentions_window(init):
                    continue
                expr_toks = init
            if not self.mentions_window(expr_toks) and not any(t[1] in refs for t in expr_toks):
                continue
            try:
                e = parse_expr(expr_toks)
            except ParseFail as ex:
                self.emit(name, "?", "?", -1, ".opaque " + lean_str(text(expr_toks)), "", guard, "unparsed")
                continue
            self.assignment(name, e, aliases, refs, lambdas, guard)

    @staticmethod
    def mentions_window(toks):
        return any(t[1] in WRITER_ARRAY_VARS and i + 1 < len(toks) and toks[i + 1][1] == "[" for i, t in enumerate(toks))

    def assignment(self, fn, e, aliases, refs, lambdas, guard):
        if e[0] != "assign":
            # std::fill(...), std::copy(...) into a window, reads in conditions: bulk
            if e[0] == "call" and raw(e[1]) in ("std::fill", "std::copy"):
                self.emit(fn, "?", "?", -1, ".opaque " + lean_str(raw(e)), "", guard, "bulk")
            return
        targets, rhs = [], e
        while rhs[0] == "assign":
            targets.append((rhs[1], rhs[2]))
            rhs = rhs[3]
        first = True
        for op, lhs in reversed(targets):
            wr = self.window_ref(lhs, aliases, refs)
            if wr is None:
                first = False
                continue
            if wr[0] == "computed":
                self.emit(fn, "?", wr[2], -1, ".opaque " + lean_str(raw(rhs)), "", guard, "computed-index")
                first = False
                continue
            arr, slot, idx = wr
            ty = ARRAY_TY[arr]
            if op != "=":
                pre, src = f".opaque {lean_str(op + raw(rhs))}", ""
            elif first:
                pre, src = self.classify(rhs, aliases, refs, lambdas, ty)
            else:
                # a = b = rhs : the outer targets receive the value of the inner window element
                inner = self.window_ref(targets[targets.index((op, lhs)) + 1][1], aliases, refs)
                pre, src = (f".copyOf {lean_str(inner[1])}", "") if inner and inner[0] != "computed" else (f".opaque {lean_str(raw(rhs))}", "")
            self.emit(fn, arr, slot, idx, pre, src, guard, "named")
            first = False

    def emit(self, fn, arr, slot, idx, pre, src, guard, cls):
        self.entries.append(dict(fn=fn, arr=arr, slot=slot, idx=idx, pre=pre, src=src, guard=guard, cls=cls))


# ---------------------------------------------------------------------------------------------
# reader side

READER_ARRAYS = {"iwel": "IWEL", "swel": "SWEL", "xwel": "XWEL", "zwel": "ZWEL",
                 "icon": "ICON", "scon": "SCON", "xcon": "XCON"}
NS_OF_ARRAY = {v: k for k, v in ARRAY_OF_NS.items()}


class ReaderTranslator:
    def __init__(self, res, file_aliases):
        self.res, self.file_aliases = res, file_aliases
        self.entries = []
        self.decoders = {}
        self.helpers = {}
        self.depth = 0

    def find_refs(self, e, aliases, acc):
        """collect all ARR[IDX] nodes below e"""
        if not isinstance(e, tuple):
            return
        if e[0] == "index" and e[1][0] == "name" and e[1][1] in READER_ARRAYS:
            acc.append(e)
            return
        if e[0] == "lambda":
            try:
                toks = [t for t in e[2]]
                if toks and toks[0][1] == "return":
                    toks = toks[1:]
                if toks and toks[-1][1] == ";":
                    toks = toks[:-1]
                self.find_refs(parse_expr(toks), aliases, acc)
            except ParseFail:
                pass
            return
        for x in e[1:]:
            if isinstance(x, tuple):
                self.find_refs(x, aliases, acc)
            elif isinstance(x, list):
                for y in x:
                    if isinstance(y, tuple):
                        self.find_refs(y, aliases, acc)

    def ref(self, e, aliases):
        e = strip_paren(e)
        if e[0] == "index" and e[1][0] == "name" and e[1][1] in READER_ARRAYS:
            arr = READER_ARRAYS[e[1][1]]
            ix = strip_paren(e[2])
            if ix[0] == "name":
                r = self.res.resolve(ix[1], aliases)
                if r and r[0].split(".")[0] == NS_OF_ARRAY[arr]:
                    return arr, r[1], r[2]
            v = num_value(ix)
            if isinstance(v, int):
                return arr, f"#{v}", v
            return arr, None, raw(ix)
        return None

    @staticmethod
    def to_si_call(e):
        """unit_system.to_si(M::m, X) -> (m, X)"""
        e = strip_paren(e)
        if e[0] == "call" and e[1][0] == "member" and e[1][2] == "to_si" and len(e[2]) == 2 \
                and e[2][0][0] == "name" and e[2][0][1].startswith("M::"):
            return e[2][0][1][3:], e[2][1]
        return None

    def lambda_shape(self, lam):
        """[..](const double v) { return v; }  -> ('id',) ;  { return u.to_si(M::m, v); } -> ('toSI', m)"""
        params = [p[1] for p in lam[1] if p[0] == "id" and p[1] not in ("const", "double", "float", "auto")]
        if len(params) != 1:
            return None
        toks = list(lam[2])
        if not toks or toks[0][1] != "return" or toks[-1][1] != ";":
            return None
        try:
            e = strip_paren(parse_expr(toks[1:-1]))
        except ParseFail:
            return None
        if e == ("name", params[0]):
            return ("id",)
        ts = self.to_si_call(e)
        if ts and strip_paren(ts[1]) == ("name", params[0]):
            return ("toSI", ts[0])
        return None

    def classify(self, e, aliases):
        """-> list of (array, slot, idx, post)"""
        e = strip_paren(e)
        r = self.ref(e, aliases)
        if r and r[1] is not None:
            return [(r, ".id")]
        if e[0] == "bin" and e[1] == "-" and num_value(e[3]) == 1:
            r = self.ref(e[2], aliases)
            if r and r[1] is not None:
                return [(r, ".minus1")]
        if e[0] == "bin" and e[1] == "==" and isinstance(num_value(e[3]), int):
            r = self.ref(e[2], aliases)
            if r and r[1] is not None:
                return [(r, f".eqInt ({num_value(e[3])})")]
        neg = False
        inner = e
        if e[0] == "unary" and e[1] == "-":
            neg, inner = True, strip_paren(e[2])
        ts = self.to_si_call(inner)
        if ts:
            r = self.ref(ts[1], aliases)
            if r and r[1] is not None:
                return [(r, (".negToSI " if neg else ".toSI ") + lean_str(ts[0]))]
            a = strip_paren(ts[1])
            if not neg and a[0] == "call" and a[1] == ("name", "swel_value") and len(a[2]) == 1:
                r = self.ref(a[2][0], aliases)
                if r and r[1] is not None:
                    return [(r, f".swelValueToSI {lean_str(ts[0])}")]
        if e[0] == "call" and e[1] == ("name", "as_float") and len(e[2]) == 1:
            ts = self.to_si_call(e[2][0])
            if ts:
                r = self.ref(ts[1], aliases)
                if r and r[1] is not None:
                    return [(r, f".narrowToSI {lean_str(ts[0])}")]
        if e[0] == "call" and e[1] == ("name", "keep_sentinel") and len(e[2]) == 2 and e[2][1][0] == "lambda":
            r = self.ref(e[2][0], aliases)
            sh = self.lambda_shape(e[2][1])
            if r and r[1] is not None and sh:
                return [(r, ".sentinelId" if sh[0] == "id" else f".sentinelToSI {lean_str(sh[1])}")]
        if e[0] == "tcall" and e[1] == "from_int" and len(e[3]) == 1:
            r = self.ref(e[3][0], aliases)
            if r and r[1] is not None:
                return [(r, f".decode {lean_str('from_int<' + e[2] + '>')}")]
        if e[0] == "call" and e[1][0] == "name" and e[1][1] in ("from_float",) and len(e[2]) == 1:
            r = self.ref(e[2][0], aliases)
            if r and r[1] is not None:
                return [(r, f".decode {lean_str(e[1][1])}")]
        narrow = False
        inner = e
        if e[0] == "call" and e[1] == ("name", "as_float") and len(e[2]) == 1:
            narrow, inner = True, strip_paren(e[2][0])
        ch = to_si_chain(inner)
        if ch and len(ch[0]) >= 2:
            r = self.ref(ch[1], aliases)
            if r and r[1] is not None:
                return [(r, ".toSIChain [" + ", ".join(lean_str(m) for m in ch[0]) + "] " + ("true" if narrow else "false"))]
        if e[0] == "call" and e[1][0] == "name" and e[1][1] in self.helpers and self.depth < 2:
            params, body = self.helpers[e[1][1]]
            if len(params) == len(e[2]):
                self.depth += 1
                try:
                    got = self.classify(substitute(body, dict(zip(params, e[2]))), aliases)
                finally:
                    self.depth -= 1
                if len(got) == 1 and not got[0][1].startswith(".opaque"):
                    return got
        acc = []
        self.find_refs(e, aliases, acc)
        out = []
        for x in acc:
            r = self.ref(x, aliases)
            out.append(((r[0], r[1] if r[1] is not None else "?", r[2] if r[1] is not None else -1),
                        f".opaque {lean_str(raw(e))}"))
        return out

    def components(self, e):
        e = strip_paren(e)
        if e[0] == "init":
            return e[1]
        if e[0] == "call" and raw(e[1]) == "std::make_pair":
            return e[2]
        return [e]

    def constructor(self, toks, cname, aliases, prefix):
        """Find `cname::cname(` ... `)` `:` mem-initialisers `{` body `}` (first overload that reads arrays)."""
        n = 0
        for i in range(len(toks) - 3):
            if toks[i][1] == cname and toks[i + 1][1] == "::" and toks[i + 2][1] == cname and toks[i + 3][1] == "(":
                close = match_close(toks, i + 3, "(", ")")
                j = close + 1
                if toks[j][1] != ":":
                    continue
                j += 1
                inits = []
                while True:
                    # member name (possibly qualified: delegating constructor -> skip whole overload)
                    name = toks[j][1]
                    k = j + 1
                    if toks[k][1] not in ("(", "{"):
                        inits = None
                        break
                    end = match_close(toks, k, toks[k][1], ")" if toks[k][1] == "(" else "}")
                    inits.append((name, toks[k], toks[k + 1:end]))
                    j = end + 1
                    if toks[j][1] == ",":
                        j += 1
                        continue
                    break
                if inits is None or toks[j][1] != "{":
                    continue
                if cname in [x[0] for x in inits]:
                    continue        # delegating overload
                body_end = match_close(toks, j, "{", "}")
                self.mem_inits(inits, aliases, prefix)
                self.body(toks[j + 1:body_end], aliases, prefix)
                n += 1
        if n != 1:
            raise TranslateError(f"{cname}: expected exactly one non-delegating constructor with mem-initialisers, found {n}")

    def mem_inits(self, inits, aliases, prefix):
        for name, opener, toks in inits:
            try:
                args = P(list(toks)).args_all()
            except ParseFail:
                if any(t[1] in READER_ARRAYS for t in toks):
                    self.entries.append(dict(field=prefix + name, arr="?", slot="?", idx=-1, post=".opaque " + lean_str(text(toks))))
                continue
            comps = []
            for a in args:
                comps += self.components(a)
            multi = len(comps) > 1
            for ci, c in enumerate(comps):
                for (arr, slot, idx), post in self.classify(c, aliases):
                    self.entries.append(dict(field=prefix + name + (f".{ci}" if multi else ""), arr=arr, slot=slot, idx=idx, post=post))

    def body(self, toks, aliases, prefix):
        w = Walker()
        w.block(toks, ())
        for kind, st, guard in w.stmts:
            st = list(st)
            if not any(t[1] in READER_ARRAYS and i + 1 < len(st) and st[i + 1][1] == "[" for i, t in enumerate(st)):
                continue
            if kind == "loop":
                # for (init; cond; incr): classify reads in the condition
                segs, acc, depth = [], [], 0
                for t in st:
                    if t[1] == ";" and depth == 0:
                        segs.append(acc)
                        acc = []
                    else:
                        acc.append(t)
                segs.append(acc)
                for s in segs:
                    self.generic(s, aliases, prefix + "<loop>")
                continue
            if kind == "simple":
                try:
                    e = parse_expr(st)
                except ParseFail:
                    e = None
                if e is not None and e[0] == "assign" and e[1] == "=":
                    lhs = raw(e[2]).replace("this.", "")
                    for (arr, slot, idx), post in self.classify(e[3], aliases):
                        self.entries.append(dict(field=prefix + lhs, arr=arr, slot=slot, idx=idx, post=post))
                    continue
            self.generic(st, aliases, prefix + "<body>")

    def generic(self, toks, aliases, field):
        i = 0
        while i < len(toks):
            if toks[i][1] in READER_ARRAYS and i + 1 < len(toks) and toks[i + 1][1] == "[":
                j = match_close(toks, i + 1, "[", "]")
                try:
                    r = self.ref(parse_expr(list(toks[i:j + 1])), aliases)
                except ParseFail:
                    r = None
                if r:
                    named = r[1] is not None
                    self.entries.append(dict(field=field, arr=r[0], slot=r[1] if named else "?", idx=r[2] if named else -1,
                                             post=".opaque " + lean_str(text(toks))))
                i = j + 1
            else:
                i += 1


def _args_all(self):
    out = []
    if self.done():
        return out
    while True:
        out.append(self.expr())
        if self.done():
            return out
        self.eat(",")


P.args_all = _args_all


# ---------------------------------------------------------------------------------------------
# LoadRestart.cpp: the second reader (data::Wells, cumulatives)

class LoaderTranslator(ReaderTranslator):
    """Every statement of LoadRestart.cpp that mentions xwel[...] / xcon[...] / iwel[...] / icon[...]."""

    def run(self, toks):
        for ns, name, header, body, pidx in functions(toks):
            aliases = dict(self.file_aliases)
            aliases.update(collect_aliases(body))
            w = Walker()
            w.block(body, ())
            conds = {}
            for kind, st, guard in w.stmts:
                if kind in ("cond", "switch", "loop"):
                    conds[guard[-1][0]] = text(st)
                elif kind == "case":
                    conds[guard[-1]] = text(st)
            for kind, st, guard in w.stmts:
                st = list(st)
                if not any(t[1] in READER_ARRAYS and i + 1 < len(st) and st[i + 1][1] == "[" for i, t in enumerate(st)):
                    continue
                ctx = []
                for cid, br in guard:
                    if br in (0, 1):
                        ctx.append(("+" if br == 1 else "-") + conds.get(cid, "?"))
                    elif br >= 2:
                        ctx.append("case " + conds.get((cid, br), "?"))
                n0 = len(self.entries)
                self.statement(name, kind, st, aliases)
                for e in self.entries[n0:]:
                    e["ctx"] = ctx

    def statement(self, fn, kind, st, aliases):
        e = None
        if kind in ("simple", "return"):
            d = split_decl(st) if kind == "simple" else None
            try:
                e = parse_expr(list(d[2]) if d else st)
            except ParseFail:
                e = None
            if d and e is not None:
                for (arr, slot, idx), post in self.classify(e, aliases):
                    self.entries.append(dict(field=f"{fn}:{d[0]}", arr=arr, slot=slot, idx=idx, post=post))
                return
        if e is not None and e[0] == "assign" and e[1] == "=":
            for (arr, slot, idx), post in self.classify(e[3], aliases):
                self.entries.append(dict(field=f"{fn}:{raw(e[2])}", arr=arr, slot=slot, idx=idx, post=post))
            return
        if e is not None and e[0] == "call":
            callee, args = raw(e[1]), e[2]
            # f(..., "KEY", arr[slot])  : a summary vector restored from one slot
            keys = [a[1][1:-1] for a in args if a[0] == "str"]
            last = self.ref(args[-1], aliases) if args else None
            if len(keys) == 1 and last and last[1] is not None:
                self.entries.append(dict(field=f"{fn}:{callee}", arr=last[0], slot=last[1], idx=last[2], post=f".smryKey {lean_str(keys[0])}"))
                return
            # x.set(ITEM, [-] to_si(M::m, arr[slot]))
            if e[1][0] == "member" and e[1][2] == "set" and len(args) == 2:
                cl = self.classify(args[1], aliases)
                if len(cl) == 1 and not cl[0][1].startswith(".opaque"):
                    item = raw(args[0]).split("::")[-1]
                    self.entries.append(dict(field=f"{fn}:{raw(e[1][1])}.{item}", arr=cl[0][0][0], slot=cl[0][0][1], idx=cl[0][0][2], post=cl[0][1]))
                    return
        self.generic(st, aliases, f"{fn}:<expr>")


# ---------------------------------------------------------------------------------------------
# CreateInteHead.cpp window sizes

def window_sizes(toks):
    """params_NWELZ(a, b, c, d) and params_NCON(a, b, c) as Lean expressions in `nt` (number of water tracers)."""
    txt_vars = {}
    for i, (k, t) in enumerate(toks):
        if t == "int" and toks[i + 1][0] == "id" and toks[i + 2][1] == "=" and toks[i + 1][1].startswith("nxwelz"):
            j = i + 3
            while toks[j][1] != ";":
                j += 1
            txt_vars[toks[i + 1][1]] = toks[i + 3:j]

    def to_lean(e):
        e2 = strip_paren(e)
        k = e2[0]
        if k == "num":
            return str(int(e2[1], 0))
        if k == "name" and e2[1] == "num_water_tracer":
            return "nt"
        if k == "name" and e2[1] in txt_vars:
            return "(" + to_lean(parse_expr(list(txt_vars[e2[1]]))) + ")"
        if k == "bin" and e2[1] in ("+", "*"):
            return f"({to_lean(e2[2])} {e2[1]} {to_lean(e2[3])})"
        if k == "bin" and e2[1] == ">" and e2[3] == ("num", "0"):
            return f"(if {to_lean(e2[2])} > 0 then 1 else 0)"
        raise TranslateError(f"CreateInteHead.cpp: window size expression {raw(e)} not understood")

    out = {}
    for fn, names in (("params_NWELZ", ["NIWELZ", "NSWELZ", "NXWELZ", "NZWELZ"]), ("params_NCON", ["NICONZ", "NSCONZ", "NXCONZ"])):
        hits = [i for i, (k, t) in enumerate(toks) if t == fn and toks[i + 1][1] == "(" and toks[i - 1][1] == "."]
        if len(hits) != 1:
            raise TranslateError(f"CreateInteHead.cpp: expected one call .{fn}(...), found {len(hits)}")
        i = hits[0]
        j = match_close(toks, i + 1, "(", ")")
        try:
            args = P(list(toks[i + 2:j])).args_all()
        except ParseFail as ex:
            raise TranslateError(f"CreateInteHead.cpp: {fn}: {ex}")
        if len(args) != len(names):
            raise TranslateError(f"CreateInteHead.cpp: {fn} has {len(args)} arguments, expected {len(names)}")
        for n, a in zip(names, args):
            out[n] = to_lean(a)
    return out


# ---------------------------------------------------------------------------------------------

WRITER_FILES = ["opm/output/eclipse/AggregateWellData.cpp", "opm/output/eclipse/AggregateConnectionData.cpp"]
READER_FILES = [("opm/io/eclipse/rst/well.cpp", "RstWell", "well."), ("opm/io/eclipse/rst/connection.cpp", "RstConnection", "conn.")]
LOADER_FILE = "opm/output/eclipse/LoadRestart.cpp"
INTEHEAD_FILE = "opm/output/eclipse/CreateInteHead.cpp"


def parse_decoders(toks):
    """`template<> T from_int(int v) { switch (v) { case N: return T::X; ... } }` and
    `return (v == N) ? T::A : T::B;`  ->  {name: ('table', [(N, label)]) | ('eq', N, A, B)}"""
    out = {}
    for ns, name, header, body, pidx in functions(toks):
        if name not in ("from_int", "from_float"):
            continue
        key = name
        if name == "from_int":
            # return type precedes the name:  template<> Opm::Connection::State from_int(int)
            ret = [t[1] for t in header[:pidx - 1] if t[0] == "id" and t[1] not in ("template", "Opm")]
            key = "from_int<" + "::".join(ret) + ">"
        w = Walker()
        w.block(body, ())
        cases, cur = [], None
        for kind, st, guard in w.stmts:
            if kind == "case":
                cur = text(st)
            elif kind == "return":
                try:
                    e = strip_paren(parse_expr(list(st)))
                except ParseFail:
                    continue
                if cur is not None and e[0] == "name" and guard and guard[-1][1] >= 2:
                    v = num_value(parse_expr(tokenize(cur)))
                    if isinstance(v, int):
                        cases.append((v, e[1].split("::")[-1]))
                    cur = None
                elif e[0] == "tern":
                    c = strip_paren(e[1])
                    if c[0] == "bin" and c[1] == "==" and num_value(c[3]) is not None and e[2][0] == "name" and e[3][0] == "name":
                        v = num_value(c[3])
                        out[key] = ("eq", int(v), e[2][1].split("::")[-1], e[3][1].split("::")[-1])
        if cases:
            out[key] = ("table", cases)
    return out


def parse_class_enums(toks, names):
    """enum class <name> { A = 1, ... } inside a class: {name: [(enumerator, value)]}"""
    out = {}
    for i, (k, t) in enumerate(toks):
        if t == "enum" and toks[i + 1][1] == "class" and toks[i + 2][1] in names:
            j = i + 3
            while toks[j][1] != "{":
                j += 1
            end = match_close(toks, j, "{", "}")
            items, cur, seen, acc, parts = [], -1, {}, [], []
            for tk in toks[j + 1:end]:
                if tk[1] == ",":
                    parts.append(acc)
                    acc = []
                else:
                    acc.append(tk)
            parts.append(acc)
            for part in parts:
                if not part:
                    continue
                cur = cur + 1 if len(part) == 1 else eval_const(part[2:], seen, toks[i + 2][1])
                seen[part[0][1]] = cur
                items.append((part[0][1], cur))
            out[toks[i + 2][1]] = items
    return out


def member_types(toks):
    """`float name;` / `double name{};` / `int name;` / `bool name;` declarations of a struct -> {name: type}"""
    out = {}
    for i in range(1, len(toks) - 2):
        if toks[i][1] in ("float", "double", "int", "bool") and toks[i + 1][0] == "id" and toks[i - 1][1] in (";", "{", "}", ":") \
                and toks[i + 2][1] in (";", "{", "="):
            out[toks[i + 1][1]] = toks[i][1]
    return out


def file_level_aliases(toks):
    al = {"VI": VI_PREFIX}
    al.update({k: v for k, v in collect_aliases(toks).items() if k in ("VI", "M")})
    return al


def translate(repo):
    sources = []
    enums = {}
    vi_dir = os.path.join(repo, VI_DIR)
    if not os.path.isdir(vi_dir):
        raise TranslateError(f"{VI_DIR}: directory not found")
    for fn in sorted(os.listdir(vi_dir)):
        if fn.endswith(".hpp"):
            path, toks = load(repo, os.path.join(VI_DIR, fn))
            sources.append(path)
            for q, items in parse_enums(toks, fn).items():
                if q in enums:
                    raise TranslateError(f"enum {q} defined in two headers")
                enums[q] = items
    for need in ("IWell.index", "SWell.index", "XWell.index", "IConn.index", "SConn.index", "XConn.index", "intehead"):
        if need not in enums:
            raise TranslateError(f"VectorItems: enum {need} not found")
    res = Resolver(enums)

    writer = []
    enc_tables = {}
    for rel in WRITER_FILES:
        path, toks = load(repo, rel)
        sources.append(path)
        wt = WriterTranslator(res, file_level_aliases(toks), rel)
        wt.helpers = single_return_helpers(toks)
        for ns, name, header, body, pidx in functions(toks):
            wt.function(ns, name, body, header)
        if wt.swprop_params and not wt.swprop_lambda_ok:
            raise TranslateError(f"{rel}: functions {wt.swprop_params} take `swprop` but no lambda "
                                 "`swprop = [&units](M u, double x) -> float { return static_cast<float>(units.from_si(u, x)); }` was found")
        writer += wt.entries
        enc_tables.update(wt.enc_tables)
    named = [w for w in writer if w["cls"] == "named"]
    if len(named) < 150:
        raise TranslateError(f"writer files: only {len(named)} named window writes recognised (expected ≈ 200) — source shape changed")

    reader = []
    decoders = {}
    for rel, cname, prefix in READER_FILES:
        path, toks = load(repo, rel)
        sources.append(path)
        decoders.update(parse_decoders(toks))
        rt = ReaderTranslator(res, file_level_aliases(toks))
        rt.helpers = single_return_helpers(toks)
        rt.constructor(toks, cname, dict(rt.file_aliases, **collect_aliases(toks)), prefix)
        hpath, htoks = load(repo, rel[:-4] + ".hpp")
        sources.append(hpath)
        mt = member_types(htoks)
        if len(mt) < 10:
            raise TranslateError(f"{rel[:-4]}.hpp: member declarations not recognised")
        for r in rt.entries:
            r["fty"] = mt.get(r["field"][len(prefix):].split(".")[0], "other")
        reader += rt.entries
    if len([r for r in reader if r["idx"] >= 0]) < 90:
        raise TranslateError(f"reader files: only {len(reader)} window reads recognised (expected ≈ 110)")

    path, toks = load(repo, LOADER_FILE)
    sources.append(path)
    lt = LoaderTranslator(res, file_level_aliases(toks))
    lt.run(toks)
    loader = lt.entries
    if len(loader) < 30:
        raise TranslateError(f"LoadRestart.cpp: only {len(loader)} window reads recognised")

    path, toks = load(repo, INTEHEAD_FILE)
    sources.append(path)
    sizes = window_sizes(toks)
    path, toks = load(repo, "opm/input/eclipse/Schedule/Well/Connection.hpp")
    sources.append(path)
    conn_enums = parse_class_enums(toks, {"State", "Direction"})
    for need in ("State", "Direction"):
        if need not in conn_enums:
            raise TranslateError(f"Connection.hpp: enum class {need} not found")
    for need in ("from_int<Connection::State>", "from_int<Connection::Direction>", "from_float"):
        if need not in decoders:
            raise TranslateError(f"rst/connection.cpp: decoder {need} not recognised")
    # copies: `a[X] = a[Y]` receives the pre-map of the closest preceding write of Y in the same function
    for i, w in enumerate(writer):
        w["rpre"], w["rsrc"] = w["pre"], w["src"]
        seen = 0
        while w["rpre"].startswith(".copyOf ") and seen < 4:
            slot = w["rpre"][len(".copyOf "):].strip('"')
            prev = [x for x in writer[:i] if x["fn"] == w["fn"] and x["arr"] == w["arr"] and x["slot"] == slot]
            if not prev:
                break
            w["rpre"], w["rsrc"] = prev[-1].get("rpre", prev[-1]["pre"]), prev[-1].get("rsrc", prev[-1]["src"])
            seen += 1
    return dict(enums=enums, writer=writer, enc=enc_tables, reader=reader, loader=loader, sizes=sizes, sources=sources,
                decoders=decoders, conn_enums=conn_enums)


def guard_lean(g):
    return "[" + ", ".join(f"({a}, {b})" for a, b in g) + "]"


def render(d):
    o = ["/- GENERATED by translate/rstslots.py from opm/output/eclipse/VectorItems/*.hpp, AggregateWellData.cpp,",
         "   AggregateConnectionData.cpp, CreateInteHead.cpp, opm/io/eclipse/rst/{well,connection}.cpp and",
         "   LoadRestart.cpp — do not edit. -/",
         "import OpmVerif.Model.RstSlot", "",
         "set_option linter.unusedVariables false", "namespace OpmVerif.Gen.RstSlots", "open OpmVerif.RstSlot", ""]
    o.append("/-- Every enum of VectorItems/*.hpp. -/")
    o.append("def enums : List (String × List (String × Int)) := [")
    rows = []
    for q in sorted(d["enums"]):
        rows.append(f"  ({lean_str(q)}, [" + ", ".join(f"({lean_str(n)}, {v})" for n, v in d["enums"][q]) + "])")
    o.append(",\n".join(rows) + "]")
    o.append("")
    o.append("/-- Window sizes set by CreateInteHead.cpp as functions of the number of water tracers. -/")
    for n in ("NIWELZ", "NSWELZ", "NXWELZ", "NZWELZ", "NICONZ", "NSCONZ", "NXCONZ"):
        o.append(f"def size{n} (nt : Nat) : Nat := {d['sizes'][n]}")
    o.append("")
    o.append("/-- `switch` functions encoding a C++ enum as a restart integer: (function, [(case label, value)]). -/")
    o.append("def encTables : List (String × List (String × Int)) := [")
    o.append(",\n".join(f"  ({lean_str(fn)}, [" + ", ".join(f"({lean_str(c)}, {v})" for c, v, _ in cs) + "])" for fn, cs in sorted(d["enc"].items())) + "]")
    o.append("")
    o.append("/-- Decoders of rst/connection.cpp: integer -> enumerator label. -/")
    o.append("def decTables : List (String × List (Int × String)) := [")
    o.append(",\n".join(f"  ({lean_str(k)}, [" + ", ".join(f"({n}, {lean_str(l)})" for n, l in v[1]) + "])"
                        for k, v in sorted(d["decoders"].items()) if v[0] == "table") + "]")
    o.append("/-- Decoders of the form `(v == n) ? A : B`: (name, n, A, B). -/")
    o.append("def decEq : List (String × Int × String × String) := [")
    o.append(",\n".join(f"  ({lean_str(k)}, {v[1]}, {lean_str(v[2])}, {lean_str(v[3])})" for k, v in sorted(d["decoders"].items()) if v[0] == "eq") + "]")
    o.append("/-- `enum class State/Direction` of Connection.hpp (what `static_cast<int>(conn.dir())` stores). -/")
    o.append("def connEnums : List (String × List (String × Int)) := [")
    o.append(",\n".join(f"  ({lean_str(k)}, [" + ", ".join(f"({lean_str(n)}, {v})" for n, v in items) + "])" for k, items in sorted(d["conn_enums"].items())) + "]")
    o.append("")
    o.append("/-- One entry per statement that stores into a restart window. -/")
    o.append("def writer : List WEntry := [")
    rows = []
    for w in d["writer"]:
        rows.append(f"  ⟨{lean_str(w['fn'])}, {lean_str(w['arr'])}, {lean_str(w['slot'])}, {w['idx']}, {lean_str(w['src'])}, {w['pre']}, {w['rpre']}, {guard_lean(w['guard'])}, {lean_str(w['cls'])}⟩")
    o.append(",\n".join(rows) + "]")
    o.append("")
    o.append("/-- One entry per read of a restart window in the RstWell / RstConnection constructors. -/")
    o.append("def reader : List REntry := [")
    o.append(",\n".join(f"  ⟨{lean_str(r['field'])}, {lean_str(r['arr'])}, {lean_str(r['slot'])}, {r['idx']}, {r['post']}, [], {lean_str(r.get('fty', 'other'))}⟩" for r in d["reader"]) + "]")
    o.append("")
    o.append("/-- One entry per read of a restart window in LoadRestart.cpp (data::Wells, cumulatives). -/")
    o.append("def loader : List REntry := [")
    o.append(",\n".join(f"  ⟨{lean_str(r['field'])}, {lean_str(r['arr'])}, {lean_str(r['slot'])}, {r['idx']}, {r['post']}, [" + ", ".join(lean_str(c) for c in r.get("ctx", [])) + "], \"double\"⟩" for r in d["loader"]) + "]")
    o += ["", "end OpmVerif.Gen.RstSlots", ""]
    return "\n".join(o)


def summary(d):
    """Counts for the evidence: recognised / opaque per array and side."""
    out = {"writer": {}, "reader": {}, "loader": {}}
    for w in d["writer"]:
        k = w["arr"] if w["arr"] != "?" else "(computed/bulk)"
        s = out["writer"].setdefault(k, {"recognised": 0, "opaque": 0})
        s["opaque" if w["pre"].startswith(".opaque") else "recognised"] += 1
    for side in ("reader", "loader"):
        for r in d[side]:
            s = out[side].setdefault(r["arr"], {"recognised": 0, "opaque": 0})
            s["opaque" if r["post"].startswith(".opaque") or r["idx"] < 0 else "recognised"] += 1
    out["enums"] = len(d["enums"])
    out["enumerators"] = sum(len(v) for v in d["enums"].values())
    out["encTables"] = {k: len(v) for k, v in d["enc"].items()}
    out["opaque_writer_texts"] = sorted({f"{w['fn']}: {w['arr']}[{w['slot']}] {w['pre'][8:]}" for w in d["writer"] if w["pre"].startswith(".opaque")})
    out["opaque_reader_texts"] = sorted({f"{r['field']}: {r['arr']}[{r['slot']}] {r['post'][8:]}" for side in ("reader", "loader") for r in d[side] if r["post"].startswith(".opaque")})
    return out


def generate(repo):
    d = translate(repo)
    return {"module": "OpmVerif.Gen.RstSlots", "file": "RstSlots.lean", "text": render(d), "sources": d["sources"]}


if __name__ == "__main__":
    import json, sys
    d = translate(sys.argv[1] if len(sys.argv) > 1 else os.environ.get("VERIF_REPO", "/repo"))
    print(json.dumps(summary(d), indent=1))
