"""opm/output/eclipse/Summary.cpp (+ SummaryState.cpp, SummaryConfig.cpp, UnitSystem.hpp, Wells.hpp)
   -> lean/OpmVerif/Gen/SumFuns.lean

What is read, and into what:

* the `funs` table (`{ "KEY", expr }` entries): every expression becomes a term of the AST
  `OpmVerif.SumFuns.E`; the combinators `mul, div, sum, sub`, the leaves `rate<p,inj>`,
  `ratel<p,inj>`, `crate<p,inj>`, `cratel<p,inj>`, `srate<p>`, `duration`,
  `production_history<Phase>`, `injection_history<Phase>` are understood, every other callable
  becomes `atom "<source text>"` (counted, reported in the evidence);
* `enum class measure` (UnitSystem.hpp) -> `inductive Measure`;  `Rates::opt` (Wells.hpp) ->
  `inductive Rt`;
* the `rate_unit<>` specialisations, `mul_unit`, `div_unit` -> lookup tables;
* `is_total` of SummaryState.cpp (prefix list) and `is_total` of SummaryConfig.cpp (exact set +
  the TPT/TIT rule) -> string lists;
* anything that does not have the expected shape raises TranslateError (tie broken).
"""
import os, re
from .common import strip_comments, TranslateError

BIN = {"mul", "div", "sum", "sub"}
LEAF2 = {"rate", "ratel", "crate", "cratel"}          # <rt::phase, injector|producer>
HIST = {"production_history": "prodHist", "injection_history": "injHist"}
HPHASE = {"WATER": "water", "OIL": "oil", "GAS": "gas"}


# ---------------------------------------------------------------------------
# tiny tokenizer / parser for the expressions of the funs table

TOK = re.compile(r'\s*(?:("(?:[^"\\]|\\.)*")|([A-Za-z_][\w:]*)|([{}()<>,;]))')


def tokenize(s):
    pos, out = 0, []
    while pos < len(s):
        m = TOK.match(s, pos)
        if not m:
            if s[pos:].strip() == "":
                break
            raise TranslateError(f"funs: cannot tokenize near {s[pos:pos+40]!r}")
        pos = m.end()
        out.append(m.group(1) or m.group(2) or m.group(3))
    return out


class P:
    def __init__(self, toks):
        self.t, self.i = toks, 0

    def peek(self):
        return self.t[self.i] if self.i < len(self.t) else None

    def next(self):
        x = self.peek()
        self.i += 1
        return x

    def expect(self, x):
        y = self.next()
        if y != x:
            raise TranslateError(f"funs: expected {x!r}, found {y!r} at token {self.i}")

    def targs(self):
        """< a, b, ... >  (no nesting occurs in this table except identifiers with ::)"""
        args = []
        self.expect("<")
        cur = []
        while True:
            t = self.next()
            if t is None:
                raise TranslateError("funs: unterminated template argument list")
            if t == ">":
                args.append(" ".join(cur))
                break
            if t == ",":
                args.append(" ".join(cur))
                cur = []
            else:
                cur.append(t)
        return [a for a in args]

    def expr(self):
        name = self.next()
        if name is None or not re.match(r"[A-Za-z_]", name):
            raise TranslateError(f"funs: expression expected, found {name!r}")
        targs = self.targs() if self.peek() == "<" else None
        args = None
        if self.peek() == "(":
            self.next()
            args = []
            if self.peek() != ")":
                args.append(self.expr())
                while self.peek() == ",":
                    self.next()
                    args.append(self.expr())
            self.expect(")")
        return (name, targs, args)


def src_text(node):
    name, targs, args = node
    s = name
    if targs is not None:
        s += "<" + ",".join(a.replace(" ", "") for a in targs) + ">"
    if args is not None:
        s += "(" + ",".join(src_text(a) for a in args) + ")"
    return s


SEGPRESS = []      # SegmentPressures::Value enum, filled by generate()


def to_lean(node, rts, atoms):
    name, targs, args = node
    if name in BIN:
        if targs is not None or args is None or len(args) != 2:
            raise TranslateError(f"funs: {name} is expected to be binary: {src_text(node)}")
        return f"(.{name} {to_lean(args[0], rts, atoms)} {to_lean(args[1], rts, atoms)})"
    if args is None:
        if name == "duration" and targs is None:
            return ".duration"
        if name in LEAF2 and targs and 1 <= len(targs) <= 2 and targs[0].startswith("rt::"):
            ph = targs[0][4:]
            if ph not in rts:
                raise TranslateError(f"funs: unknown rate component {targs[0]} in {src_text(node)}")
            inj = "true"                      # template default: injection = true
            if len(targs) == 2:
                if targs[1] not in ("injector", "producer"):
                    raise TranslateError(f"funs: unknown direction {targs[1]} in {src_text(node)}")
                inj = "true" if targs[1] == "injector" else "false"
            return f"(.{name} .{lean_id(ph)} {inj})"
        if name == "srate" and targs and len(targs) == 1 and targs[0].startswith("rt::"):
            ph = targs[0][4:]
            if ph not in rts:
                raise TranslateError(f"funs: unknown rate component {targs[0]}")
            return f"(.srate .{lean_id(ph)})"
        if name in HIST and targs and len(targs) == 1:
            ph = targs[0].split("::")[-1]
            if ph not in HPHASE:
                raise TranslateError(f"funs: history of unsupported phase {targs[0]}")
            return f"(.{HIST[name]} .{HPHASE[ph]})"
        if name == "region_rate" and targs and len(targs) == 2 and targs[0].startswith("rt::") \
                and targs[1] in ("injector", "producer"):
            ph = targs[0][4:]
            if ph not in rts:
                raise TranslateError(f"funs: unknown rate component {targs[0]}")
            return f"(.regionRate .{lean_id(ph)} {'true' if targs[1] == 'injector' else 'false'})"
        if name == "crate_resv" and targs and len(targs) == 1 and targs[0] in ("injector", "producer"):
            return f"(.crateResv {'true' if targs[0] == 'injector' else 'false'})"
        if name == "cpr" and targs is None:
            return ".cpr"
        if name == "segpress" and targs and len(targs) == 1:
            v = targs[0].split("::")[-1]
            if v not in SEGPRESS:
                raise TranslateError(f"funs: unknown segment pressure item {targs[0]}")
            return f"(.segpress {SEGPRESS.index(v)})"
        if name == "node_pressure" and targs is None:
            return "(.nodePressure false)"
        if name == "converged_node_pressure" and targs is None:
            return "(.nodePressure true)"
    txt = src_text(node)
    atoms[txt] = atoms.get(txt, 0) + 1
    return f'(.atom "{txt}")'


def lean_id(s):
    return s if s not in ("at", "from", "end", "then", "else", "do", "if", "in") and not s.startswith("_") else "«" + s + "»"


# ---------------------------------------------------------------------------

def block_after(src, start_pat, what, open_ch="{", close_ch="}"):
    m = re.search(start_pat, src)
    if not m:
        raise TranslateError(f"{what}: start pattern not found")
    i = src.index(open_ch, m.end() - 1)
    depth, j = 0, i
    while j < len(src):
        c = src[j]
        if c == '"':
            j += 1
            while src[j] != '"':
                j += 2 if src[j] == "\\" else 1
        elif c == open_ch:
            depth += 1
        elif c == close_ch:
            depth -= 1
            if depth == 0:
                return src[i + 1:j]
        j += 1
    raise TranslateError(f"{what}: unbalanced braces")


def strip_comments_keep_strings(src):
    """Remove // and /* */ comments but not inside string literals (keys contain '#')."""
    out, i, n = [], 0, len(src)
    while i < n:
        c = src[i]
        if c == '"':
            j = i + 1
            while src[j] != '"':
                j += 2 if src[j] == "\\" else 1
            out.append(src[i:j + 1])
            i = j + 1
        elif src.startswith("//", i):
            j = src.find("\n", i)
            i = n if j < 0 else j
        elif src.startswith("/*", i):
            j = src.find("*/", i)
            i = n if j < 0 else j + 2
            out.append(" ")
        else:
            out.append(c)
            i += 1
    return "".join(out)


def string_set(body, what):
    """Comma separated string literals; adjacent literals concatenate as in C++."""
    items, cur, last_was_str = [], None, False
    for t in tokenize(body):
        if t.startswith('"'):
            s = t[1:-1]
            cur = s if cur is None else cur + s       # "A" "B" == "AB"
        elif t == ",":
            if cur is not None:
                items.append(cur)
            cur = None
        else:
            raise TranslateError(f"{what}: unexpected token {t!r}")
    if cur is not None:
        items.append(cur)
    if not items:
        raise TranslateError(f"{what}: empty set")
    return items


def code(s):
    """big-endian base-256 number of the ASCII codes (`keyCode` in Model/SumFuns.lean)"""
    n = 0
    for ch in s:
        if not (0 < ord(ch) < 128):
            raise TranslateError(f"non-ASCII key {s!r}")
        n = n * 256 + ord(ch)
    return str(n)


def lean_code_list(name, items, per_line=4):
    """List Nat: the code of each string (kernel evaluation on `String` is slow)."""
    lines = [f"def {name} : List Nat := ["]
    for k in range(0, len(items), per_line):
        chunk = items[k:k + per_line]
        lines.append("  " + ", ".join(code(x) for x in chunk) + ("," if k + per_line < len(items) else "") +
                     "   -- " + " ".join(chunk))
    lines.append("]")
    return lines


def lean_str_list(name, items, per_line=10):
    lines = [f"def {name} : List String := ["]
    for k in range(0, len(items), per_line):
        lines.append("  " + ", ".join(f'"{x}"' for x in items[k:k + per_line]) + ("," if k + per_line < len(items) else ""))
    lines.append("]")
    return lines


def generate(repo):
    p_sum = os.path.join(repo, "opm/output/eclipse/Summary.cpp")
    p_st = os.path.join(repo, "opm/input/eclipse/Schedule/SummaryState.cpp")
    p_cfg = os.path.join(repo, "opm/input/eclipse/EclipseState/SummaryConfig/SummaryConfig.cpp")
    p_us = os.path.join(repo, "opm/input/eclipse/Units/UnitSystem.hpp")
    p_w = os.path.join(repo, "opm/output/data/Wells.hpp")
    src = strip_comments_keep_strings(open(p_sum).read())

    # --- enums --------------------------------------------------------------
    us = strip_comments(open(p_us).read())
    m = re.search(r"enum\s+class\s+measure\s*:\s*int\s*\{([^}]*)\}", us)
    if not m:
        raise TranslateError("UnitSystem.hpp: enum class measure not found")
    measures = [x.strip() for x in m.group(1).split(",") if x.strip() and x.strip() != "_count"]
    wh = strip_comments(open(p_w).read())
    m = re.search(r"enum\s+class\s+opt\s*:\s*uint32_t\s*\{([^}]*)\}", wh)
    if not m:
        raise TranslateError("Wells.hpp: Rates::opt not found")
    rts = []
    for item in m.group(1).split(","):
        item = item.strip()
        if not item:
            continue
        mm = re.match(r"(\w+)\s*=\s*\(\s*1\s*<<\s*(\d+)\s*\)", item)
        if not mm:
            raise TranslateError(f"Wells.hpp: unexpected Rates::opt item {item!r}")
        rts.append(mm.group(1))

    m = re.search(r"class\s+SegmentPressures\s*\{\s*public:\s*enum\s+class\s+Value\s*:\s*std::size_t\s*\{([^}]*)\}", wh)
    if not m:
        raise TranslateError("Wells.hpp: SegmentPressures::Value not found")
    SEGPRESS[:] = [x.strip() for x in m.group(1).split(",") if x.strip()]

    # --- rate_unit<> --------------------------------------------------------
    rate_unit = {}
    dm = re.search(r"template<\s*rt\s*>\s*constexpr\s*measure\s+rate_unit\(\)\s*\{\s*return\s+measure::(\w+)\s*;", src)
    if not dm:
        raise TranslateError("Summary.cpp: primary template rate_unit<rt> not found")
    default_unit = dm.group(1)
    for mm in re.finditer(r"template\s*<>\s*constexpr\s*measure\s+rate_unit\s*<\s*rt::(\w+)\s*>\s*\(\)\s*\{\s*return\s+measure::(\w+)\s*;", src):
        rate_unit[mm.group(1)] = mm.group(2)
    if "gas" not in rate_unit:
        raise TranslateError("Summary.cpp: rate_unit<rt::gas> specialisation not found")
    for v in list(rate_unit.values()) + [default_unit]:
        if v not in measures:
            raise TranslateError(f"rate_unit: unknown measure {v}")
    # rate<>/ratel<>/crate<>/cratel<> override: polymer and brine are mass rates
    ov = re.findall(r"phase\s*==\s*rt::(\w+)\s*\|\|\s*\(?\s*phase\s*==\s*rt::(\w+)", src)
    mass_over = sorted({x for pr in ov for x in pr})
    if mass_over != ["brine", "polymer"]:
        raise TranslateError(f"Summary.cpp: mass-rate override set changed: {mass_over}")

    # --- mul_unit / div_unit -------------------------------------------------
    def unit_rules(fn, a, b):
        body = block_after(src, r"measure\s+" + fn + r"\s*\([^)]*\)\s*\{", fn)
        rules = []
        for im in re.finditer(r"if\s*\((.*?)\)\s*return\s+(?:measure::)?(\w+)\s*;", body, re.S):
            cond, res = im.group(1), im.group(2)
            if re.fullmatch(r"\s*lhs\s*==\s*rhs\s*", cond):
                rules.append(("eq", None, None, res))
                continue
            for alt in cond.split("||"):
                av = re.search(a + r"\s*==\s*measure::(\w+)", alt)
                bv = re.search(b + r"\s*==\s*measure::(\w+)", alt)
                if not av or not bv:
                    raise TranslateError(f"{fn}: condition not understood: {alt.strip()}")
                rules.append(("pair", av.group(1), bv.group(1), res))
        tail = re.search(r"return\s+(?:measure::)?(\w+)\s*;\s*$", body.strip())
        if not tail:
            raise TranslateError(f"{fn}: final return not found")
        return rules, tail.group(1)

    div_rules, div_default = unit_rules("div_unit", "denom", "div")
    mul_rules, mul_default = unit_rules("mul_unit", "lhs", "rhs")
    if div_default != "identity" or mul_default != "lhs":
        raise TranslateError(f"mul_unit/div_unit defaults changed: {mul_default}, {div_default}")
    if not mul_rules or mul_rules[0][0] != "eq" or mul_rules[0][3] != "lhs":
        raise TranslateError("mul_unit: first rule is expected to be `if (lhs == rhs) return lhs`")
    if any(r[0] == "eq" for r in div_rules) or any(r[0] == "eq" for r in mul_rules[1:]):
        raise TranslateError("mul_unit/div_unit: unexpected equality rule")

    # --- quantity operators: the shape the model assumes ---------------------
    q = block_after(src, r"struct\s+quantity\s*\{", "struct quantity")
    need = [r"operator\+\(.*?return\s*\{\s*this->value\s*\+\s*rhs\.value\s*,\s*this->unit\s*\}",
            r"operator\*\(.*?return\s*\{\s*this->value\s*\*\s*rhs\.value\s*,\s*mul_unit\(\s*this->unit\s*,\s*rhs\.unit\s*\)\s*\}",
            r"operator/\(\s*const\s+quantity&.*?if\(\s*rhs\.value\s*==\s*0\s*\)\s*return\s*\{\s*0\.0\s*,\s*res_unit\s*\}\s*;\s*return\s*\{\s*this->value\s*/\s*rhs\.value\s*,\s*res_unit\s*\}",
            r"operator-\(.*?return\s*\{\s*this->value\s*-\s*rhs\.value\s*,\s*this->unit\s*\}"]
    for pat in need:
        if not re.search(pat, q, re.S):
            raise TranslateError("struct quantity: operator no longer has the modelled shape: " + pat[:30])

    # --- funs ----------------------------------------------------------------
    body = block_after(src, r"static\s+const\s+auto\s+funs\s*=\s*std::unordered_map<\s*std::string\s*,\s*ofun\s*>\s*\{", "funs")
    toks = tokenize(body)
    p = P(toks)
    entries, atoms = [], {}
    while p.peek() is not None:
        p.expect("{")
        key = p.next()
        if not key or not key.startswith('"'):
            raise TranslateError(f"funs: key string expected, found {key!r}")
        p.expect(",")
        node = p.expr()
        p.expect("}")
        if p.peek() == ",":
            p.next()
        entries.append((key[1:-1], node))
    if len(entries) < 400:
        raise TranslateError(f"funs: only {len(entries)} entries parsed")
    lean_entries = [(k, to_lean(n, rts, atoms), src_text(n)) for k, n in entries]

    # --- is_total (SummaryState) / is_total (SummaryConfig) --------------------
    st = strip_comments_keep_strings(open(p_st).read())
    tb = block_after(st, r"static\s+const\s+std::vector<std::string>\s+totals\s*=\s*\{", "SummaryState totals")
    state_totals = string_set(tb, "SummaryState totals")
    if not re.search(r"key\.compare\(\s*1\s*,\s*total\.size\(\)\s*,\s*total\s*\)\s*==\s*0", st):
        raise TranslateError("SummaryState::is_total: prefix comparison at offset 1 not found")
    if not re.search(r"if\s*\(\s*is_total\(\s*var\s*\)\s*\)\s*\{\s*val_ref\s*\+=\s*value;\s*wval_ref\s*\+=\s*value;", st):
        raise TranslateError("SummaryState::update_well_var: accumulate-if-total shape not found")
    if not re.search(r"if\s*\(\s*is_total\(\s*var\s*\)\s*\)\s*\{\s*val_ref\s*\+=\s*value;\s*gval_ref\s*\+=\s*value;", st):
        raise TranslateError("SummaryState::update_group_var: accumulate-if-total shape not found")
    cfg = strip_comments_keep_strings(open(p_cfg).read())
    cb = block_after(cfg, r"bool\s+is_total\s*\(\s*const\s+std::string&\s+keyword\s*\)\s*\{\s*static\s+const\s+keyword_set\s+totalkw\s*\{", "SummaryConfig totalkw")
    cfg_totals = string_set(cb, "SummaryConfig totalkw")
    fn = block_after(cfg, r"bool\s+is_total\s*\(\s*const\s+std::string&\s+keyword\s*\)\s*\{", "SummaryConfig is_total")
    mm = re.search(r"keyword\.length\(\)\s*>\s*(\d+)\s*\)\s*&&\s*is_in_set\(\s*\{([^}]*)\}\s*,\s*keyword\.substr\(\s*1\s*,\s*3\s*\)", fn)
    if not mm or not re.search(r"is_in_set\(\s*totalkw\s*,\s*keyword\.substr\(\s*1\s*\)\s*\)", fn):
        raise TranslateError("SummaryConfig::is_total: rule shape changed")
    cfg_len = int(mm.group(1))
    cfg_sub3 = string_set(mm.group(2), "SummaryConfig is_total substr set")
    rb = block_after(cfg, r"bool\s+is_rate\s*\(\s*const\s+std::string&\s+keyword\s*\)\s*\{\s*static\s+const\s+keyword_set\s+ratekw\s*\{", "SummaryConfig ratekw")
    cfg_rates = string_set(rb, "SummaryConfig ratekw")
    rfn = block_after(cfg, r"bool\s+is_rate\s*\(\s*const\s+std::string&\s+keyword\s*\)\s*\{", "SummaryConfig is_rate")
    mm = re.search(r"keyword\.length\(\)\s*>\s*(\d+)\s*\)\s*&&\s*is_in_set\(\s*\{([^}]*)\}\s*,\s*keyword\.substr\(\s*1\s*,\s*3\s*\)", rfn)
    if not mm:
        raise TranslateError("SummaryConfig::is_rate: rule shape changed")
    cfg_rate_len = int(mm.group(1))
    cfg_rate_sub3 = string_set(mm.group(2), "SummaryConfig is_rate substr set")
    # parseKeywordType tests is_rate before is_total
    pk = block_after(cfg, r"SummaryConfigNode::Type\s+parseKeywordType\s*\(\s*std::string\s+keyword\s*\)\s*\{", "parseKeywordType")
    if not (0 <= pk.find("is_rate(keyword)") < pk.find("is_total(keyword)")):
        raise TranslateError("parseKeywordType: is_rate is expected to be tested before is_total")
    wc = re.search(r'well_compl_kw\s*=\s*std::regex\s*\{\s*R"\((.*?)\)"', cfg)
    if not wc or wc.group(1) != "W[OGWLV][PIGOLCF][RT]L([0-9_]{2}[0-9])?":
        raise TranslateError("is_well_completion: regex changed")

    # --- setFactors: the shape the model assumes ------------------------------
    sf = block_after(src, r"void\s+EfficiencyFactor::setFactors\s*\([^)]*\)\s*\{", "setFactors")
    sf_need = [r"is_rate\s*\{\s*node\.type\s*!=\s*Opm::EclIO::SummaryNode::Type::Total\s*\}",
               r"if\s*\(\s*!is_field\s*&&\s*!is_group\s*&&\s*!is_region\s*&&\s*is_rate\s*\)\s*return;",
               r"double\s+eff_factor\s*=\s*well->getEfficiencyFactor\(\);",
               r"if\s*\(\s*is_group\s*&&\s*is_rate\s*&&\s*\(\s*group_ptr->name\(\)\s*==\s*node\.wgname\s*\)\s*\)\s*break;",
               r"eff_factor\s*\*=\s*group_ptr->getGroupEfficiencyFactor\(\);",
               r"group_ptr->flow_group\(\)"]
    for pat in sf_need:
        if not re.search(pat, sf):
            raise TranslateError("EfficiencyFactor::setFactors no longer has the modelled shape: " + pat[:40])
    # rate<>: the shape the model assumes
    rb_ = block_after(src, r"template<\s*rt\s+phase\s*,\s*bool\s+injection\s*=\s*true\s*>\s*inline\s+quantity\s+rate\s*\(\s*const\s+fn_args&\s+args\s*\)\s*\{", "rate<>")
    r_need = [r"xwPos\s*==\s*args\.wells\.end\(\)\s*\)\s*\|\|\s*\(\s*xwPos->second\.dynamicStatus\s*==\s*Opm::Well::Status::SHUT\s*\)",
              r"const\s+auto\s+v\s*=\s*xwPos->second\.rates\.get\(\s*phase\s*,\s*0\.0\s*\)\s*\*\s*eff_fac;",
              r"if\s*\(\s*\(\s*v\s*>\s*0\.0\s*\)\s*==\s*injection\s*\)\s*\{\s*sum\s*\+=\s*v;",
              r"if\s*\(\s*!\s*injection\s*\)\s*\{\s*sum\s*\*=\s*-1\.0;"]
    for pat in r_need:
        if not re.search(pat, rb_):
            raise TranslateError("rate<> no longer has the modelled shape: " + pat[:40])

    # connection / completion / segment / region / node leaves: the shapes the model assumes
    def need(fn_pat, what, pats):
        b = block_after(src, fn_pat, what)
        for pat in pats:
            if not re.search(pat, b, re.S):
                raise TranslateError(f"{what} no longer has the modelled shape: " + pat[:50])
        return b
    head = [r"if\s*\(\s*args\.schedule_wells\.empty\(\)\s*\)\s*(?:\{\s*)?return\s+zero;",
            r"args\.schedule_wells\.front\(\)",
            r"xwPos\s*==\s*args\.wells\.end\(\)\s*\)\s*\|\|\s*\(\s*xwPos->second\.dynamicStatus\s*==\s*Opm::Well::Status::SHUT\s*\)"]
    typed = [r"\|\|\s*\(\s*xwPos->second\.current_control\.isProducer\s*==\s*injection\s*\)"]
    byidx = [r"global_index\s*=\s*(?:static_cast<std::size_t>\(\s*)?args\.num\s*-\s*1",
             r"c\.index\s*==\s*global_index",
             r"==\s*well_data\.connections\.end\(\)\s*\)\s*return\s+zero;"]
    unit_l = [r"\(\s*\(?\s*phase\s*==\s*rt::polymer\s*\)?\s*\|\|\s*\(?\s*phase\s*==\s*rt::brine\s*\)?\s*\)\s*\?\s*measure::mass_rate\s*:\s*rate_unit<\s*phase\s*>\(\)"]
    need(r"template<\s*rt\s+phase\s*,\s*bool\s+injection\s*=\s*true\s*>\s*inline\s+quantity\s+crate\s*\(\s*const\s+fn_args&\s+args\s*\)\s*\{", "crate<>",
         unit_l + [r"const\s+quantity\s+zero\s*=\s*\{\s*0\s*,\s*unit\s*\}"] +
         head + typed + byidx + [r"auto\s+v\s*=\s*completion->rates\.get\(\s*phase\s*,\s*0\.0\s*\)\s*\*\s*eff_fac;",
                                 r"if\s*\(\s*!\s*injection\s*\)\s*v\s*\*=\s*-1;",
                                 r"if\s*\(\s*phase\s*==\s*rt::polymer\s*\|\|\s*phase\s*==\s*rt::brine\s*\)\s*return\s*\{\s*v\s*,\s*measure::mass_rate\s*\}",
                                 r"return\s*\{\s*v\s*,\s*rate_unit<\s*phase\s*>\(\)\s*\}"])
    need(r"template\s*<\s*bool\s+injection\s*=\s*true\s*>\s*quantity\s+crate_resv\s*\(\s*const\s+fn_args&\s+args\s*\)\s*\{", "crate_resv<>",
         head + typed + byidx + [r"auto\s+v\s*=\s*completion->reservoir_rate\s*\*\s*eff_fac;",
                                 r"if\s*\(\s*!\s*injection\s*\)\s*v\s*\*=\s*-1;",
                                 r"return\s*\{\s*v\s*,\s*rate_unit<rt::reservoir_oil>\(\)\s*\}"])
    need(r"inline\s+quantity\s+cpr\s*\(\s*const\s+fn_args&\s+args\s*\)\s*\{", "cpr",
         [head[0][:-1].replace("return\\s+zero", "return\\s+zero") , head[1], head[2]] + byidx[:2] +
         [r"return\s*\{\s*connection->pressure\s*,\s*measure::pressure\s*\}"])
    loop_l = [r"conn_ptr->global_index\(\)", r"cdata\.index\s*==\s*global_index",
              r"if\s*\(\s*conn_data\s*!=\s*well_data\.connections\.end\(\)\s*\)\s*\{\s*sum\s*\+=\s*conn_data->rates\.get\(\s*phase\s*,\s*0\.0\s*\)\s*\*\s*eff_fac;",
              r"if\s*\(\s*!\s*injection\s*\)\s*\{\s*sum\s*\*=\s*-1;"]
    need(r"template<\s*rt\s+phase\s*,\s*bool\s+injection\s*=\s*true\s*>\s*inline\s+quantity\s+ratel\s*\(\s*const\s+fn_args&\s+args\s*\)\s*\{", "ratel<>",
         unit_l + head[1:] + typed + loop_l + [r"well->getConnections\(\s*args\.num\s*\)"])
    need(r"template<\s*rt\s+phase\s*,\s*bool\s+injection\s*=\s*true\s*>\s*inline\s+quantity\s+cratel\s*\(\s*const\s+fn_args&\s+args\s*\)\s*\{", "cratel<>",
         unit_l + head[1:] + typed + loop_l +
         [r"getCompletionNumberFromGlobalConnectionIndex\(\s*well->getConnections\(\)\s*,\s*args\.num\s*-\s*1\s*\)",
          r"if\s*\(\s*!\s*complnum\.has_value\(\)\s*\)[^;]*return\s+zero;", r"well->getConnections\(\s*\*complnum\s*\)"])
    need(r"quantity\s+segment_quantity\s*\([^)]*\)\s*\{", "segment_quantity",
         head[1:] + [r"segNumber\s*=\s*static_cast<std::size_t>\(\s*args\.num\s*\)", r"well_data\.segments\.find\(\s*segNumber\s*\)",
                     r"return\s*\{\s*getValue\(\s*segPos->second\s*\)\s*,\s*m\s*\}"])
    need(r"template\s*<\s*rt\s+phase\s*>\s*inline\s+quantity\s+srate\s*\(\s*const\s+fn_args&\s+args\s*\)\s*\{", "srate<>",
         [r"\(\s*\(\s*phase\s*==\s*rt::polymer\s*\)\s*\|\|\s*\(\s*phase\s*==\s*rt::brine\s*\)\s*\)\s*\?\s*measure::mass_rate\s*:\s*rate_unit<\s*phase\s*>\(\)",
          r"return\s*-\s*segment\.rates\.get\(\s*phase\s*,\s*0\.0\s*\)\s*\*\s*efac\(\s*args\.eff_factors\s*,\s*args\.schedule_wells\.front\(\)->name\(\)\s*\)"])
    need(r"template\s*<\s*Opm::data::SegmentPressures::Value\s+ix\s*>\s*inline\s+quantity\s+segpress\s*\(\s*const\s+fn_args&\s+args\s*\)\s*\{", "segpress<>",
         [r"segment_quantity\(\s*args\s*,\s*measure::pressure", r"return\s+segment\.pressures\[\s*ix\s*\]"])
    need(r"template<\s*rt\s+phase\s*,\s*bool\s+injection\s*>\s*quantity\s+region_rate\s*\(\s*const\s+fn_args&\s+args\s*\)\s*\{", "region_rate<>",
         [r"args\.regionCache\.connections\(\s*std::get<std::string>\(\s*\*args\.extra_data\s*\)\s*,\s*args\.num\s*\)",
          r"xwPos\s*=\s*args\.wells\.find\(\s*pair\.first\s*\)\s*;\s*if\s*\(\s*\(\s*xwPos\s*!=\s*args\.wells\.end\(\)\s*\)\s*&&\s*"
          r"\(\s*xwPos->second\.dynamicStatus\s*==\s*Opm::Well::Status::SHUT\s*\)\s*\)\s*\{\s*continue;",
          r"double\s+eff_fac\s*=\s*efac\(\s*args\.eff_factors\s*,\s*pair\.first\s*\)",
          r"double\s+Rate\s*=\s*args\.wells\.get\(\s*pair\.first\s*,\s*pair\.second\s*,\s*phase\s*\)\s*\*\s*eff_fac;",
          r"if\s*\(\s*\(\s*Rate\s*>\s*0\s*\)\s*!=\s*injection\s*\)\s*\{\s*Rate\s*=\s*0;", r"sum\s*\+=\s*Rate;",
          r"if\s*\(\s*injection\s*\)\s*return\s*\{\s*sum\s*,\s*rate_unit<\s*phase\s*>\(\)\s*\}\s*;\s*else\s*return\s*\{\s*-sum\s*,\s*rate_unit<\s*phase\s*>\(\)\s*\}"])
    for fn, fld in (("node_pressure", "pressure"), ("converged_node_pressure", "converged_pressure")):
        need(r"inline\s+quantity\s+" + fn + r"\s*\(\s*const\s+fn_args&\s+args\s*\)\s*\{", fn,
             [r"args\.grp_nwrk\.nodeData\.find\(\s*args\.group_name\s*\)", r"return\s*\{\s*0\.0\s*,\s*measure::pressure\s*\}",
              r"return\s*\{\s*nodePos->second\." + fld + r"\s*,\s*measure::pressure\s*\}"])
    # find_wells / setFactors treat Connection, Completion, Segment like Well and Region like Field
    fw = block_after(src, r"find_wells\s*\(\s*const\s+Opm::Schedule&\s+schedule\s*,[^)]*\)\s*\{", "find_wells")
    if not re.search(r"Category::Well:\s*case\s+Opm::EclIO::SummaryNode::Category::Connection:\s*case\s+Opm::EclIO::SummaryNode::Category::Completion:\s*"
                     r"case\s+Opm::EclIO::SummaryNode::Category::Segment:\s*return\s+find_single_well\(", fw):
        raise TranslateError("find_wells: Connection/Completion/Segment no longer use find_single_well")
    if not re.search(r"Category::Region:\s*return\s+find_region_wells\(", fw):
        raise TranslateError("find_wells: Region no longer uses find_region_wells")
    frw = block_after(src, r"find_region_wells\s*\([^)]*\)\s*\{", "find_region_wells")
    for pat in (r"regionCache\.connections\(\s*\*node\.fip_region\s*,\s*region\s*\)", r"schedule\.hasWell\(\s*w_name\s*,\s*sim_step\s*\)",
                r"sort_wells_by_insert_index\(\s*result\s*\)"):
        if not re.search(pat, frw):
            raise TranslateError("find_region_wells no longer has the modelled shape: " + pat[:40])
    cc = re.search(r'conn_compl_kw\s*=\s*std::regex\s*\{\s*R"\((.*?)\)"', cfg)
    if not cc or cc.group(1) != "C[OGW][IP][RT]L":
        raise TranslateError("is_connection_completion: regex changed")
    if not (0 <= pk.find("is_well_completion(keyword)") < pk.find("is_connection_completion(keyword)") < pk.find("is_rate(keyword)")):
        raise TranslateError("parseKeywordType: completion suffixes are expected to be dropped before is_rate")
    for fn, ref in (("update_conn_var", "cval_ref"), ("update_segment_var", "sval_ref")):
        if not re.search(r"void\s+SummaryState::" + fn + r"\([^)]*\)\s*\{.{0,300}?if\s*\(\s*is_total\(\s*var\s*\)\s*\)\s*\{\s*val_ref\s*\+=\s*value;\s*" + ref + r"\s*\+=\s*value;", st, re.S):
            raise TranslateError(f"SummaryState::{fn}: accumulate-if-total shape not found")
    if not re.search(r"update_region_var\([^)]*\)\s*\{.*?if\s*\(\s*is_total\(\s*regKw\s*\)\s*\)\s*\{\s*val_ref\s*\+=\s*value;\s*rval_ref\s*\+=\s*value;", st, re.S):
        raise TranslateError("SummaryState::update_region_var: accumulate-if-total shape not found")

    # --- emit -------------------------------------------------------------------
    out = ["/- GENERATED by translate/sumfuns.py from opm/output/eclipse/Summary.cpp, SummaryState.cpp,",
           "   SummaryConfig.cpp, UnitSystem.hpp, output/data/Wells.hpp — do not edit. -/",
           "import OpmVerif.Model.SumFunsAst",
           "namespace OpmVerif.SumFuns.Gen", "open OpmVerif.SumFuns", ""]
    out.append("/-- `UnitSystem::measure`, declaration order. -/")
    out.append("def measureNames : List String := [" + ", ".join(f'"{x}"' for x in measures) + "]")
    out.append("/-- `data::Rates::opt`, declaration order. -/")
    out.append("def rtNames : List String := [" + ", ".join(f'"{x}"' for x in rts) + "]")
    out.append("/-- `data::SegmentPressures::Value`, declaration order (`segpress i` is position `i`). -/")
    out.append("def segPressNames : List String := [" + ", ".join(f'"{x}"' for x in SEGPRESS) + "]")
    out.append("")
    out.append("/-- `rate_unit<rt::X>()` specialisations; every other component gets `rateUnitDefault`. -/")
    out.append("def rateUnitDefault : String := \"" + default_unit + "\"")
    out.append("def rateUnitTable : List (String × String) := [" + ", ".join(f'("{k}", "{v}")' for k, v in rate_unit.items()) + "]")
    out.append("/-- components for which `rate<>`, `ratel<>`, `crate<>`, `cratel<>` return `mass_rate` instead. -/")
    out.append("def massRateOverride : List String := [" + ", ".join(f'"{x}"' for x in mass_over) + "]")
    out.append("")
    out.append("/-- `mul_unit`: after `lhs == rhs → lhs`, the first matching (lhs, rhs, result); default lhs. -/")
    out.append("def mulUnitTable : List (String × String × String) := [" +
               ", ".join(f'("{a}", "{b}", "{r}")' for _, a, b, r in mul_rules[1:]) + "]")
    out.append("/-- `div_unit`: first matching (numerator, denominator, result); default identity. -/")
    out.append("def divUnitTable : List (String × String × String) := [" +
               ", ".join(f'("{a}", "{b}", "{r}")' for _, a, b, r in div_rules) + "]")
    out.append("")
    out.append("/-! Keys and keyword sets are numbers (big-endian base 256 of the ASCII codes, `keyCode`): kernel")
    out.append("evaluation (`decide +kernel`) over `String` is three orders of magnitude slower than over `Nat`. -/")
    out.append("")
    out.append("/-- `SummaryState.cpp`: `totals` of `is_total` -/")
    out += lean_code_list("stateTotalsK", state_totals)
    out.append("")
    out.append("/-- `SummaryConfig.cpp`: `totalkw` of `is_total` -/")
    out += lean_code_list("configTotalsK", cfg_totals)
    out.append(f"def configTotalMinLen : Nat := {cfg_len}")
    out += lean_code_list("configTotalSub3K", cfg_sub3)
    out.append("/-- `SummaryConfig.cpp`: `ratekw` of `is_rate` (adjacent literals concatenated as C++ does) -/")
    out += lean_code_list("configRatesK", cfg_rates)
    out.append(f"def configRateMinLen : Nat := {cfg_rate_len}")
    out += lean_code_list("configRateSub3K", cfg_rate_sub3)
    out.append("")
    out.append(f"/-- the `funs` table: {len(lean_entries)} entries, {sum(atoms.values())} atom leaves "
               f"({len(atoms)} distinct callables not modelled). -/")
    out.append("def funsK : List (Nat × E) := [")
    for k, (key, le, txt) in enumerate(lean_entries):
        out.append(f'  ({code(key)}, {le})' + ("," if k + 1 < len(lean_entries) else "") + f"   -- {key}")
    out.append("]")
    out.append("")
    out.append(f"def atomLeafCount : Nat := {sum(atoms.values())}")
    out.append("def atomNames : List String := [" + ", ".join(f'"{a}"' for a in sorted(atoms)) + "]")
    out += ["", "end OpmVerif.SumFuns.Gen", ""]
    return {"module": "OpmVerif.Gen.SumFuns", "file": "SumFuns.lean", "text": "\n".join(out),
            "sources": [p_sum, p_st, p_cfg, p_us, p_w],
            "stats": {"entries": len(lean_entries), "atom_leaves": sum(atoms.values()),
                      "distinct_atoms": len(atoms)}}
