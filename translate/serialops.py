"""serializeOp member lists -> lean/OpmVerif/Gen/SerialClasses.lean   (property C11)

For every class reachable (through the types of its data members) from the root classes the
property names, the translator records

  * the direct non-static data members and base classes, in declaration order, with their
    types — taken from the compiler: one `clang++-14 -fsyntax-only -Xclang -fdump-record-layouts`
    run over a synthetic translation unit that includes the headers and forces the layouts
    (repeated until no new class shows up in a member type);
  * the members named in `serializeOp`, in order of first mention (token-level scan of the body
    of the `serializeOp` that sits directly in that class's body);
  * the members named in `operator==` (in-class, out-of-line `X::operator==` in a .cpp/.hpp, or
    a free `operator==(const X&, const X&)`), or all members when it is `= default`.

A class is kept when it has a `serializeOp`.  The result is cached under .build/serialops/ by
the hash of every source file read, so the quick tier pays for clang only after an edit.
"""
import hashlib, json, os, re, subprocess, sys
from .common import TranslateError, strip_comments, VERIF

ROOTS = [
    "Opm::Schedule", "Opm::ScheduleState", "Opm::ScheduleStatic", "Opm::ScheduleDeck", "Opm::ScheduleBlock",
    "Opm::Well", "Opm::Group", "Opm::Connection", "Opm::WellConnections",
    "Opm::UDQConfig", "Opm::Action::ActionX", "Opm::Action::Actions",
    "Opm::SummaryState", "Opm::UDQState", "Opm::Action::State", "Opm::WellTestState",
    "Opm::RestartValue", "Opm::EclipseState", "Opm::SummaryConfig",
]
# classes that must be found, with a serializeOp, or the source changed shape
REQUIRED = ["Opm::Schedule", "Opm::ScheduleState", "Opm::Well", "Opm::Group", "Opm::Connection",
            "Opm::WellConnections", "Opm::UDQConfig", "Opm::Action::ActionX", "Opm::SummaryState",
            "Opm::UDQState", "Opm::Action::State", "Opm::WellTestState", "Opm::RestartValue"]
SCAN_DIRS = ["opm/input/eclipse", "opm/output/data", "opm/output/eclipse", "opm/common", "opm/io/eclipse"]
CLANG = "clang++-14"
MAX_CLASSES = 400

TOKEN = re.compile(r"[A-Za-z_]\w*|::|->|==|\d[\w.]*|\S")


def _clean(src):
    src = strip_comments(src)
    src = re.sub(r'"(?:\\.|[^"\\\n])*"', '""', src)
    src = re.sub(r"'(?:\\.|[^'\\\n])'", "'c'", src)
    # drop preprocessor lines (with continuations)
    src = re.sub(r"^[ \t]*#(?:[^\n\\]|\\.|\\\n)*", "", src, flags=re.M)
    return src


def scan_scopes(text):
    """Token-level scope parse of one source file.  Returns (tokens, classes, functions) where
    classes = {qualified name: (body_begin, body_end)} (token indices of the braces) and
    the list of all class body spans (to find what sits *directly* in a body)."""
    toks = TOKEN.findall(_clean(text))
    classes = {}
    templates = set()
    stack = []      # (kind, name, open_index)
    i, n = 0, len(toks)
    pending = None  # ('namespace'|'class', name) seen, waiting for its '{'
    while i < n:
        t = toks[i]
        if t == "namespace":
            j = i + 1
            name = []
            while j < n and (re.match(r"[A-Za-z_]\w*$", toks[j]) or toks[j] == "::"):
                name.append(toks[j]); j += 1
            if j < n and toks[j] == "{":
                stack.append(("namespace", "".join(name), j))
                i = j + 1
                continue
            i = j
            continue
        if t in ("class", "struct") and (i == 0 or toks[i - 1] not in ("enum", "friend", "<", ",")):
            j = i + 1
            # skip attributes / alignas
            name = None
            if j < n and re.match(r"[A-Za-z_]\w*$", toks[j]):
                name = toks[j]; j += 1
            # template specialisation arguments or final
            depth = 0
            k = j
            ok = False
            while k < n:
                if toks[k] == "<": depth += 1
                elif toks[k] == ">": depth -= 1
                elif toks[k] in (";", "(", ")", "=") and depth <= 0:
                    break
                elif toks[k] == "{" and depth <= 0:
                    ok = True
                    break
                k += 1
            if ok and name:
                is_tmpl = False
                if i > 0 and toks[i - 1] == ">":
                    d, q = 0, i - 1
                    while q >= 0:
                        if toks[q] == ">": d += 1
                        elif toks[q] == "<":
                            d -= 1
                            if d == 0:
                                break
                        q -= 1
                    is_tmpl = q >= 1 and toks[q - 1] == "template"
                stack.append(("class", name + ("\0T" if is_tmpl else ""), k))
                i = k + 1
                continue
            i = j
            continue
        if t == "{":
            stack.append(("block", "", i))
        elif t == "}":
            if stack:
                kind, name, op = stack.pop()
                if kind == "class":
                    qual = "::".join([s[1] for s in stack if s[0] in ("namespace", "class") and s[1]] + [name])
                    if "\0T" in qual:
                        qual = qual.replace("\0T", "")
                        templates.add(qual)
                    classes.setdefault(qual, (op, i))
        i += 1
    return toks, classes, templates


def match_brace(toks, i):
    """toks[i] == '{' -> index of the matching '}'"""
    depth = 0
    for j in range(i, len(toks)):
        if toks[j] == "{": depth += 1
        elif toks[j] == "}":
            depth -= 1
            if depth == 0:
                return j
    return len(toks) - 1


def direct_positions(toks, begin, end, word):
    """indices of `word` that sit directly in the class body (brace depth 1)"""
    out, depth = [], 0
    for j in range(begin, end + 1):
        if toks[j] == "{": depth += 1
        elif toks[j] == "}": depth -= 1
        elif depth == 1 and toks[j] == word:
            out.append(j)
    return out


def function_body(toks, j):
    """toks[j] is a function name followed by '(' ... ')' ...; returns ('body', b, e) |
    ('default',) | ('decl',)"""
    k = j + 1
    if k >= len(toks) or toks[k] != "(":
        return ("none",)
    depth = 0
    while k < len(toks):
        if toks[k] == "(": depth += 1
        elif toks[k] == ")":
            depth -= 1
            if depth == 0:
                break
        k += 1
    k += 1
    while k < len(toks) and toks[k] not in ("{", ";", "="):
        k += 1
    if k >= len(toks): return ("none",)
    if toks[k] == "{":
        return ("body", k, match_brace(toks, k))
    if toks[k] == "=" and k + 1 < len(toks) and toks[k + 1] == "default":
        return ("default",)
    return ("decl",)


def mentioned(toks, b, e, names):
    seen = []
    for j in range(b, e + 1):
        if toks[j] in names and toks[j] not in seen:
            # a call `name(` is a member function, not the data member, unless preceded by . or ->
            seen.append(toks[j])
    return seen


# ---------------------------------------------------------------------------------------------
# compiler side: record layouts

LAYOUT_HDR = re.compile(r"^\s*0 \| (?:class|struct|union) (.+?)\s*$")
FIELD = re.compile(r"^\s*[\d:\-]+ \| (  +)(.*\S)\s*$")


def parse_layouts(text):
    """{record name: {"fields": [(type, name)], "bases": [type]}} from -fdump-record-layouts"""
    recs = {}
    blocks = text.split("*** Dumping AST Record Layout")
    for blk in blocks[1:]:
        lines = blk.strip("\n").split("\n")
        if not lines:
            continue
        m = LAYOUT_HDR.match(lines[0])
        if not m:
            continue
        name = m.group(1)
        fields, bases = [], []
        for ln in lines[1:]:
            if "|" not in ln:
                continue
            left, right = ln.split("|", 1)
            if not left.strip() or right.startswith(" ["):
                continue
            if not right.startswith("   ") or right.startswith("    "):
                continue    # depth-1 entries have exactly three blanks after the bar
            body = right.strip()
            if body.endswith("(empty)"): body = body[:-7].strip()
            if "(base)" in body or "(primary base)" in body or "(virtual base)" in body:
                bases.append(re.sub(r"\((?:primary |virtual )?base\)", "", body).strip())
                continue
            if body.startswith("(") and "vtable pointer" in body:
                continue
            mm = re.match(r"(.*\S)\s+([A-Za-z_]\w*)$", body)
            if mm:
                fields.append((mm.group(1), mm.group(2)))
        if name not in recs:
            recs[name] = {"fields": fields, "bases": bases}
    return recs


def run_clang(repo, headers, classes, workdir):
    opm_build = os.path.join(VERIF, ".build", "opm")
    tu = ["#include <config.h>"] + [f"#include <{h}>" for h in headers]
    for k, c in enumerate(classes):
        tu.append(f"static_assert(sizeof({c}) > 0, \"\");")
    path = os.path.join(workdir, "layouts.cpp")
    with open(path, "w") as f:
        f.write("\n".join(tu) + "\n")
    cmd = [CLANG, "-std=gnu++17", "-fsyntax-only", "-w", "-Xclang", "-fno-access-control", "-Xclang", "-fdump-record-layouts",
           "-I", repo, "-I", opm_build, "-I", os.path.join(opm_build, "include"), "-I", "/root/miniconda/include", path]
    p = subprocess.run(cmd, stdout=subprocess.PIPE, stderr=subprocess.PIPE, text=True, errors="replace")
    if p.returncode != 0:
        raise TranslateError("clang could not parse the headers: " + p.stderr[-1500:])
    return parse_layouts(p.stdout)


OPM_NAME = re.compile(r"\bOpm::(?:[A-Za-z_]\w*::)*[A-Za-z_]\w*")


def coarse(ty):
    """coarse descriptor of a member type (outermost constructor only)"""
    t = re.sub(r"\b(class|struct|enum|const)\s+", "", ty).strip()
    table = [("std::basic_string<", "str"), ("std::string", "str"), ("std::vector<bool", "vecBool"), ("std::vector<", "vec"),
             ("std::array<", "arr"), ("std::optional<", "opt"), ("std::unique_ptr<", "uptr"), ("std::shared_ptr<", "sptr"),
             ("std::map<", "map"), ("std::unordered_map<", "umap"), ("std::set<", "set"), ("std::unordered_set<", "uset"),
             ("std::pair<", "tup"), ("std::tuple<", "tup"), ("std::variant<", "var"), ("std::bitset<", "bitset"),
             ("std::chrono::time_point<", "time"), ("Opm::time_point", "time"), ("std::function<", "function")]
    for prefix, k in table:
        if t.startswith(prefix):
            return k
    if t.endswith("*"):
        return "rawptr"
    if re.match(r"(unsigned |signed |long |short )*(int|long|short|char|bool|double|float|std::size_t|size_t|std::time_t|time_t|std::int64_t|std::uint64_t|__int128)\b", t) or t in ("bool", "double", "float"):
        return "pod"
    if t.startswith("Opm::"):
        return "class"
    return "other"


PTR_MODELLED = {"std::shared_ptr", "std::vector", "std::optional", "std::unique_ptr", "std::array", "std::map",
                "std::unordered_map", "std::pair", "std::tuple"}
PTR_NOT_DATA = {"std::allocator", "std::less", "std::hash", "std::equal_to", "std::default_delete", "std::char_traits"}


def ptr_shape(ty):
    """pointer shape of a member type, for the pointer layer of the model (Model/SerialGraph.lean):
       0  no shared_ptr and no raw pointer anywhere in the type
       1  every shared_ptr sits under combinators the pointer layer models (shared_ptr, vector, optional,
          unique_ptr, array, the VALUE of a (unordered_)map, pair, tuple)
       2  a shared_ptr under something else (variant, set, function, the key of a map, ...)
       3  a raw pointer"""
    t = re.sub(r"\b(class|struct|enum|const)\s+", "", ty)
    if "*" in t:
        return 3
    if "shared_ptr" not in t:
        return 0
    worst, stack, prev = 1, [], None
    for tok in re.findall(r"[A-Za-z_][\w:]*|[<>,]", t):
        if tok == "<":
            stack.append([prev, 0])
        elif tok == ">":
            if stack:
                stack.pop()
        elif tok == ",":
            if stack:
                stack[-1][1] += 1
        else:
            if tok == "std::shared_ptr":
                for name, idx in stack:
                    if name in PTR_NOT_DATA:
                        break
                    if name not in PTR_MODELLED or (name in ("std::map", "std::unordered_map") and idx == 0):
                        worst = 2
            prev = tok
    return worst


# ---------------------------------------------------------------------------------------------

def _sources(repo):
    files = []
    for d in SCAN_DIRS:
        for root, _, fns in os.walk(os.path.join(repo, d)):
            for fn in fns:
                if fn.endswith((".hpp", ".cpp")):
                    files.append(os.path.join(root, fn))
    return sorted(files)


def analyse(repo):
    files = _sources(repo)
    texts = {}
    for p in files:
        try:
            texts[p] = open(p, errors="replace").read()
        except OSError:
            pass
    # 1. headers that define a serializeOp, scope-parsed
    hdr_info = {}        # path -> (toks, classes)
    templates = set()    # qualified names of class templates
    class_home = {}      # qualified name -> path
    for p, tx in texts.items():
        if p.endswith(".hpp") and "serializeOp" in tx:
            toks, classes, tmpl = scan_scopes(tx)
            templates |= tmpl
            hdr_info[p] = (toks, classes)
            for q, (b, e) in classes.items():
                if direct_positions(toks, b, e, "serializeOp"):
                    class_home.setdefault(q, p)
    for r in REQUIRED:
        if r not in class_home:
            raise TranslateError(f"{r}: no class body with a serializeOp found in the headers")
    # 2. layouts: closure over member types
    workdir = os.path.join(VERIF, ".build", "serialops")
    os.makedirs(workdir, exist_ok=True)
    todo = [r for r in ROOTS if r in class_home]
    known = []
    layouts = {}
    for _round in range(12):
        new = [c for c in todo if c not in known]
        if not new:
            break
        known += new
        headers = sorted({os.path.relpath(class_home[c], repo) for c in known})
        layouts = run_clang(repo, headers, [c for c in known if c not in templates], workdir)
        for c in known:
            if c in templates and c not in layouts:
                inst = sorted(k for k in layouts if k.startswith(c + "<"))
                if inst:
                    layouts[c] = layouts[inst[0]]
        todo = list(known)
        for c in known:
            rec = layouts.get(c)
            if not rec:
                continue
            for ty, _ in rec["fields"] + [(b, "") for b in rec["bases"]]:
                for q in OPM_NAME.findall(ty):
                    # the printed type may be a nested name of a template instance; keep known classes only
                    if q in class_home and q not in todo and len(todo) < MAX_CLASSES:
                        todo.append(q)
    # 3. per class: members / serialized / compared
    cpp_tokens = {}

    def toks_of(path):
        if path in hdr_info:
            return hdr_info[path][0]
        if path not in cpp_tokens:
            cpp_tokens[path] = TOKEN.findall(_clean(texts[path]))
        return cpp_tokens[path]

    out = []
    used_sources = set()
    for c in sorted(known):
        rec = layouts.get(c)
        if rec is None:
            continue
        path = class_home[c]
        toks, classes = hdr_info[path]
        b, e = classes[c]
        used_sources.add(path)
        names = [n for _, n in rec["fields"]]
        nameset = set(names)
        # serializeOp
        ser = None
        for j in direct_positions(toks, b, e, "serializeOp"):
            fb = function_body(toks, j)
            if fb[0] == "body":
                ser = mentioned(toks, fb[1], fb[2], nameset)
                break
            if fb[0] == "decl":
                # defined out of line:  X::serializeOp(
                short = c.split("::")[-1]
                for p2 in [path, path[:-4] + ".cpp"]:
                    if p2 not in texts:
                        continue
                    t2 = toks_of(p2)
                    for k in range(len(t2) - 3):
                        if t2[k] == short and t2[k + 1] == "::" and t2[k + 2] == "serializeOp":
                            fb2 = function_body(t2, k + 2)
                            if fb2[0] == "body":
                                ser = mentioned(t2, fb2[1], fb2[2], nameset)
                                used_sources.add(p2)
                                break
                    if ser is not None:
                        break
                if ser is not None:
                    break
        if ser is None:
            raise TranslateError(f"{c}: serializeOp found but its body could not be located")
        # operator== : in-class, out-of-line X::operator==, or free operator==(const X&, const X&);
        # member functions it calls (getters, cmp_structure, ...) are followed up to depth 3
        short = c.split("::")[-1]
        cands = [path, path[:-4] + ".cpp"] + sorted(p for p in texts if p.endswith(".cpp") and os.path.dirname(p) == os.path.dirname(path))
        cands = [p2 for k, p2 in enumerate(cands) if p2 in texts and p2 not in cands[:k]]

        def quals_ok(t2, k):
            quals, q = [], k - 1
            while q >= 1 and t2[q] == "::" and re.match(r"[A-Za-z_]\w*$", t2[q - 1]):
                quals.insert(0, t2[q - 1]); q -= 2
            return (not quals) or c.endswith("::".join(quals + [short]))

        def find_method(name):
            """bodies (toks, b, e) of member function `name` of this class"""
            res = []
            for j in direct_positions(toks, b, e, name):
                fb = function_body(toks, j)
                if fb[0] == "body":
                    res.append((toks, fb[1], fb[2]))
            for p2 in cands:
                if name not in texts[p2]:
                    continue
                t2 = toks_of(p2)
                for k in range(len(t2) - 3):
                    if t2[k] == short and t2[k + 1] == "::" and t2[k + 2] == name and t2[k + 3] == "(" and quals_ok(t2, k):
                        fb2 = function_body(t2, k + 2)
                        if fb2[0] == "body":
                            res.append((t2, fb2[1], fb2[2]))
                            used_sources.add(p2)
            return res

        eq_bodies, has_eq, eq_default = [], False, False
        for j in direct_positions(toks, b, e, "operator"):
            if toks[j + 1] == "==":
                fb = function_body(toks, j + 1)
                if fb[0] == "body":
                    eq_bodies.append((toks, fb[1], fb[2])); has_eq = True
                elif fb[0] == "default":
                    eq_default, has_eq = True, True
                elif fb[0] == "decl":
                    has_eq = True
                break
        if not eq_bodies and not eq_default:
            for p2 in cands:
                if "operator==" not in texts[p2]:
                    continue
                t2 = toks_of(p2)
                for k in range(len(t2) - 8):
                    if t2[k] == short and t2[k + 1] == "::" and t2[k + 2] == "operator" and t2[k + 3] == "==" and quals_ok(t2, k):
                        fb2 = function_body(t2, k + 3)
                        if fb2[0] == "body":
                            eq_bodies.append((t2, fb2[1], fb2[2])); has_eq = True
                            used_sources.add(p2)
                    # free function: operator == ( const [Ns::]*Short &
                    if t2[k] == "operator" and t2[k + 1] == "==" and t2[k + 2] == "(" and (k == 0 or t2[k - 1] != "::"):
                        q = k + 3
                        if t2[q] == "const": q += 1
                        names_ = []
                        while q + 1 < len(t2) and re.match(r"[A-Za-z_]\w*$", t2[q]) and t2[q + 1] == "::":
                            names_.append(t2[q]); q += 2
                        if q < len(t2) and t2[q] == short and t2[q + 1] == "&" and c.endswith("::".join(names_ + [short])):
                            # inside another class body this is that class's friend; accept
                            fb2 = function_body(t2, k + 1)
                            if fb2[0] == "body":
                                eq_bodies.append((t2, fb2[1], fb2[2])); has_eq = True
                                used_sources.add(p2)
                if eq_bodies:
                    break
        cmp_ = None
        if eq_default:
            cmp_ = list(names)
        elif eq_bodies:
            cmp_ = []
            seen_fn, frontier = set(["operator"]), list(eq_bodies)
            for _depth in range(4):
                nxt = []
                for (tt, bb, ee) in frontier:
                    for n_ in mentioned(tt, bb, ee, nameset):
                        if n_ not in cmp_:
                            cmp_.append(n_)
                    for j in range(bb, ee):
                        if tt[j + 1] == "(" and re.match(r"[A-Za-z_]\w*$", tt[j]) and tt[j] not in seen_fn and tt[j] not in nameset:
                            seen_fn.add(tt[j])
                            nxt += find_method(tt[j])
                frontier = nxt
                if not frontier:
                    break
        if cmp_ is None:
            cmp_ = []
        out.append({"name": c, "file": os.path.relpath(path, repo), "bases": rec["bases"],
                    # anonymous types print with an absolute source path: keep it relative to the repo
                    "members": [{"name": n, "type": t.replace(repo.rstrip("/") + "/", ""), "kind": coarse(t)} for t, n in rec["fields"]],
                    "serialized": ser, "compared": cmp_, "has_eq": has_eq})
    for r in REQUIRED:
        if not any(o["name"] == r for o in out):
            raise TranslateError(f"{r}: the compiler reported no record layout")
    return out, sorted(used_sources)


def str_key(s):
    """must equal OpmVerif.Serial.Coverage.strKey"""
    h = 7
    for ch in s:
        h = (h * 131 + ord(ch)) % 1000000007
    return h


def lean_str(s):
    return '"' + s.replace("\\", "\\\\").replace('"', '\\"') + '"'


def render(classes):
    L = ["/- GENERATED by translate/serialops.py from the class headers of opm-common — do not edit.",
         "   One entry per class with a serializeOp reachable from the C11 root classes:",
         "   data members (compiler record layout), members named in serializeOp (in order),",
         "   members named in operator==. -/",
         "namespace OpmVerif.Gen.SerialClasses", "",
         "/-- `ptr`: pointer shape of the member type (0 none, 1 shared_ptr under modelled combinators only,",
         "2 shared_ptr under an unmodelled one, 3 raw pointer) — see `ptr_shape` in translate/serialops.py. -/",
         "structure Member where", "  name : String", "  kind : String", "  type : String", "  ptr : Nat", "  deriving Repr, DecidableEq", "",
         "/-- `serializedIdx` / `comparedIdx`: positions in `members` (kernel evaluation on numbers is fast,",
         "on strings it is not); `serialized` / `compared` keep the names in source order for display.",
         "`key`: `Coverage.strKey name` (polynomial hash), so that classes are looked up by number. -/",
         "structure ClassInfo where", "  name : String", "  key : Nat", "  file : String", "  bases : List String", "  members : List Member",
         "  serialized : List String", "  compared : List String", "  serializedIdx : List Nat", "  comparedIdx : List Nat",
         "  hasEq : Bool", "  deriving Repr", ""]
    idents = []
    for k, c in enumerate(classes):
        ident = "c_" + re.sub(r"\W", "_", c["name"])
        idents.append(ident)
        L.append(f"def {ident} : ClassInfo :=")
        L.append(f"  {{ name := {lean_str(c['name'])}, key := {str_key(c['name'])}, file := {lean_str(c['file'])},")
        L.append("    bases := [" + ", ".join(lean_str(b) for b in c["bases"]) + "],")
        L.append("    members := [")
        L.append(",\n".join(f"      ⟨{lean_str(m['name'])}, {lean_str(m['kind'])}, {lean_str(m['type'])}, {ptr_shape(m['type'])}⟩" for m in c["members"]))
        L.append("    ],")
        L.append("    serialized := [" + ", ".join(lean_str(s) for s in c["serialized"]) + "],")
        L.append("    compared := [" + ", ".join(lean_str(s) for s in c["compared"]) + "],")
        names = [m["name"] for m in c["members"]]
        L.append("    serializedIdx := [" + ", ".join(str(names.index(s)) for s in c["serialized"]) + "],")
        L.append("    comparedIdx := [" + ", ".join(str(names.index(s)) for s in c["compared"]) + "],")
        L.append(f"    hasEq := {'true' if c['has_eq'] else 'false'} }}")
        L.append("")
    L.append("def classes : List ClassInfo := [" + ", ".join(idents) + "]")
    L += ["", "end OpmVerif.Gen.SerialClasses", ""]
    return "\n".join(L)


def generate(repo):
    files = _sources(repo)
    h = hashlib.sha256()
    h.update(open(__file__, "rb").read())
    for p in files:
        h.update(p.encode()); h.update(open(p, "rb").read())
    key = h.hexdigest()
    cdir = os.path.join(VERIF, ".build", "serialops")
    os.makedirs(cdir, exist_ok=True)
    cpath = os.path.join(cdir, "cache.json")
    data = None
    try:
        cached = json.load(open(cpath))
        if cached.get("key") == key and cached.get("repo") == repo:
            data = cached
    except Exception:
        pass
    if data is None:
        classes, sources = analyse(repo)
        data = {"key": key, "repo": repo, "classes": classes, "sources": sources}
        json.dump(data, open(cpath, "w"))
    return {"module": "OpmVerif.Gen.SerialClasses", "file": "SerialClasses.lean", "text": render(data["classes"]),
            "sources": data["sources"]}


if __name__ == "__main__":
    r = generate(sys.argv[1] if len(sys.argv) > 1 else os.environ.get("VERIF_REPO", "/repo"))
    print(r["text"][:3000])
