import OpmVerif.Proofs.DenseAdGen
import Mathlib.Tactic.Ring
import Mathlib.Tactic.FieldSimp
import Mathlib.Algebra.Field.Basic

namespace OpmVerif.DenseAd
open Gen

variable {K : Type} [Field K] {n : Nat}

/-- every slot ≥ 1 is a successor -/
theorem succ_val_ne_zero (j : Fin n) : ¬ (j.succ.val = 0) := by simp

macro "dual_ext" : tactic =>
  `(tactic| (apply Dual.ext' <;> (try intro j) <;>
      simp [toDual, Dual.add, Dual.sub, Dual.mul, Dual.div, Dual.neg, Dual.const, Dual.chain,
        L.add, L.sub, L.mul, L.div, L.adds, L.subs, L.muls, L.divs, L.neg, L.assign, L.const,
        L.sadd, L.ssub, L.smul, L.sdiv, L.clearDerivatives, L.copyDerivatives, L.varBase] <;> try ring1))

theorem L_add_dual (a b : Fin (n+1) → K) : toDual (L.add a b) = Dual.add (toDual a) (toDual b) := by dual_ext
theorem L_sub_dual (a b : Fin (n+1) → K) : toDual (L.sub a b) = Dual.sub (toDual a) (toDual b) := by dual_ext
theorem L_mul_dual (a b : Fin (n+1) → K) : toDual (L.mul a b) = Dual.mul (toDual a) (toDual b) := by dual_ext
theorem L_div_dual (a b : Fin (n+1) → K) : toDual (L.div a b) = Dual.div (toDual a) (toDual b) := by dual_ext
theorem L_neg_dual (a : Fin (n+1) → K) : toDual (L.neg a) = Dual.neg (toDual a) := by dual_ext
theorem L_const_dual (c : K) : toDual (L.const (n := n) c) = Dual.const c := by dual_ext
theorem L_adds_dual (a : Fin (n+1) → K) (c : K) : toDual (L.adds a c) = Dual.add (toDual a) (Dual.const c) := by dual_ext
theorem L_subs_dual (a : Fin (n+1) → K) (c : K) : toDual (L.subs a c) = Dual.sub (toDual a) (Dual.const c) := by dual_ext
theorem L_muls_dual (a : Fin (n+1) → K) (c : K) : toDual (L.muls a c) = Dual.mul (toDual a) (Dual.const c) := by dual_ext
theorem L_divs_dual (a : Fin (n+1) → K) (c : K) : toDual (L.divs a c) = Dual.div (toDual a) (Dual.const c) := by
  by_cases hc : c = 0
  · subst hc; dual_ext
  · dual_ext
    field_simp
theorem L_sadd_dual (c : K) (a : Fin (n+1) → K) : toDual (L.sadd c a) = Dual.add (Dual.const c) (toDual a) := by dual_ext
theorem L_ssub_dual (c : K) (a : Fin (n+1) → K) : toDual (L.ssub c a) = Dual.sub (Dual.const c) (toDual a) := by dual_ext
theorem L_smul_dual (c : K) (a : Fin (n+1) → K) : toDual (L.smul c a) = Dual.mul (Dual.const c) (toDual a) := by dual_ext
theorem L_sdiv_dual (c : K) (a : Fin (n+1) → K) : toDual (L.sdiv c a) = Dual.div (Dual.const c) (toDual a) := by dual_ext
end OpmVerif.DenseAd
