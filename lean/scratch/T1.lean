import OpmVerif.Gen.DenseAd
import Mathlib.Tactic.Ring
import Mathlib.Tactic.FinCases
import Mathlib.Data.Fintype.Basic
import Mathlib.Tactic.FieldSimp
import Mathlib.Algebra.Field.Basic

open OpmVerif.DenseAd

variable {K : Type} [Field K]

theorem t1 (a b : Fin 10 → K) : Gen.U9.mul a b = Gen.L.mul a b := by
  funext i; fin_cases i <;> rfl

theorem t1' {α : Type} [Add α] [Mul α] (a b : Fin 10 → α) : Gen.U9.mul a b = Gen.L.mul a b := by
  funext i; fin_cases i <;> rfl

theorem t2 {n : Nat} (a b : Fin (n+1) → K) : toDual (Gen.L.mul a b) = Dual.mul (toDual a) (toDual b) := by
  apply Dual.ext'
  · simp [toDual, Gen.L.mul, Dual.mul]
  · intro j
    simp [toDual, Gen.L.mul, Dual.mul]
    ring

theorem t3 {n : Nat} (a b : Fin (n+1) → K) : toDual (Gen.L.div a b) = Dual.div (toDual a) (toDual b) := by
  apply Dual.ext'
  · simp [toDual, Gen.L.div, Dual.div]
  · intro j
    simp [toDual, Gen.L.div, Dual.div]
    ring
#print axioms t1
#print axioms t3
