/-
  C06 — Well connection factors obey the Peaceman relation for every COMPDAT input.

  Only property statements (one-line proofs from `Proofs/Peaceman.lean` and
  `Proofs/Connections.lean`) and non-vacuity examples.

  Numeric theorems are over ℝ, about `ctfOf realFns inp cell`: the model of one iteration of
  the `k` loop of `WellConnections::loadCOMPDAT` (all five paths through the CF/Kh case
  analysis, `CF_done` back-computation by `RstConnection::inverse_peaceman`), instantiated
  with `sqrt, log, exp, pow` := the real functions and `angle` := 2π (the same constant in
  `loadCOMPDAT` and in `inverse_peaceman`).  `inp` is the COMPDAT record in SI (items 8–11,
  13, 14), `cell` the cell's DX/DY/DZ, PERMX/Y/Z and NTG.  Quantifier: every record, every
  cell.  List theorems are about `Model/Connections.lean` for every list of connections and
  every sequence of COMPDAT / WPIMULT / WELOPEN records and report-step ends.
-/
import OpmVerif.Proofs.Peaceman
import OpmVerif.Proofs.Connections
import OpmVerif.Proofs.ConnectionsOrder
import OpmVerif.Proofs.ConnectionsIdentity
import OpmVerif.Proofs.PeacemanExamples
import OpmVerif.Proofs.ConnectionsLayers

namespace OpmVerif.Props.C06
open OpmVerif.Peaceman OpmVerif.Conns

/-! ## The Peaceman relation `CF · (ln(r0/rw) + S) = 2π · Kh` on the stored values -/

/-- All branches at once.  Hypotheses: the stored values are in the physical region
`0 < rw < r0` with a non-zero stored denominator (`Admissible`), and the record does not
give CF, Kh *and* a non-negative r0 all three explicitly (then all three are stored as given,
see `identity_all_explicit`). -/
theorem peaceman_identity (inp : Input ℝ) (cell : Cell ℝ)
    (hadm : Admissible (ctfOf realFns inp cell))
    (hexp : (0 < cfInitial realFns inp ∧ 0 < khInitial realFns inp) → r0Initial realFns inp < 0) :
    (ctfOf realFns inp cell).CF *
        (Real.log ((ctfOf realFns inp cell).r0 / (ctfOf realFns inp cell).rw) + (ctfOf realFns inp cell).skin)
      = 2 * Real.pi * (ctfOf realFns inp cell).Kh :=
  identity_of_admissible inp cell hadm hexp

/-- Non-vacuity: a fully defaulted vertical record with skin 1 in an isotropic 3 × 4 × 2 cell
(`r0 = 0.7 > rw = 0.1524`, denominator `ln(0.7/0.1524) + 1 > 0`) meets the hypotheses. -/
example : Admissible (ctfOf realFns Ex.dflt Ex.cell) ∧
    ((0 < cfInitial realFns Ex.dflt ∧ 0 < khInitial realFns Ex.dflt) → r0Initial realFns Ex.dflt < 0) :=
  ⟨Ex.dflt_admissible, fun _ => Ex.dflt_all.r0⟩

/-- Branch "CF and Kh given, r0 defaulted": r0 is back-computed by `inverse_peaceman` with
the same 2π, so the relation holds exactly; only `rw ≠ 0` is needed. -/
theorem peaceman_identity_both_given (inp : Input ℝ) (cell : Cell ℝ)
    (h : 0 < cfInitial realFns inp ∧ 0 < khInitial realFns inp)
    (hr0 : r0Initial realFns inp < 0) (hrw : wellRadius realFns inp ≠ 0) :
    Identity (ctfOf realFns inp cell) :=
  identity_both inp cell h hr0 hrw

example : (0 < cfInitial realFns Ex.both ∧ 0 < khInitial realFns Ex.both) ∧
    r0Initial realFns Ex.both < 0 ∧ wellRadius realFns Ex.both ≠ 0 :=
  ⟨Ex.both_pos, Ex.dflt_all.r0, Ex.rw_ne _ rfl⟩

/-- Branch "Kh given, CF defaulted". -/
theorem peaceman_identity_kh_given (inp : Input ℝ) (cell : Cell ℝ)
    (h : ¬ (0 < cfInitial realFns inp ∧ 0 < khInitial realFns inp)) (hk : 0 < khInitial realFns inp)
    (hadm : Admissible (ctfOf realFns inp cell)) :
    Identity (ctfOf realFns inp cell) :=
  identity_khGiven inp cell h hk hadm

example : ¬ (0 < cfInitial realFns Ex.khGiven ∧ 0 < khInitial realFns Ex.khGiven) ∧
    0 < khInitial realFns Ex.khGiven ∧ Admissible (ctfOf realFns Ex.khGiven Ex.cell) :=
  ⟨Ex.khGiven_not_both, Ex.khGiven_pos, Ex.khGiven_admissible⟩

/-- Branch "CF given, Kh defaulted or negative" (Kh derived from CF); no condition on the
denominator. -/
theorem peaceman_identity_cf_given (inp : Input ℝ) (cell : Cell ℝ)
    (hk : ¬ 0 < khInitial realFns inp) (hc : 0 < cfInitial realFns inp) (hd : inp.khDefaulted = true)
    (hrw : 0 < (ctfOf realFns inp cell).rw)
    (hr : (ctfOf realFns inp cell).rw < (ctfOf realFns inp cell).r0) :
    Identity (ctfOf realFns inp cell) :=
  identity_cfGivenKhDefault inp cell hk hc hd hrw hr

example : ¬ 0 < khInitial realFns Ex.cfGiven ∧ 0 < cfInitial realFns Ex.cfGiven ∧
    Ex.cfGiven.khDefaulted = true ∧ 0 < (ctfOf realFns Ex.cfGiven Ex.cell).rw ∧
    (ctfOf realFns Ex.cfGiven Ex.cell).rw < (ctfOf realFns Ex.cfGiven Ex.cell).r0 :=
  ⟨Ex.cfGiven_kh, Ex.cfGiven_cf, rfl, Ex.cfGiven_rw, Ex.cfGiven_r0⟩

/-- Branch "CF given, Kh = 0 entered" (Kh from the cell, r0 back-computed): only `rw ≠ 0`. -/
theorem peaceman_identity_cf_given_kh_zero (inp : Input ℝ) (cell : Cell ℝ)
    (hk : ¬ 0 < khInitial realFns inp) (hc : 0 < cfInitial realFns inp) (hd : ¬ inp.khDefaulted = true)
    (hrw : wellRadius realFns inp ≠ 0) :
    Identity (ctfOf realFns inp cell) :=
  identity_cfGivenKhZero inp cell hk hc hd hrw

example : ¬ 0 < khInitial realFns Ex.cfKhZero ∧ 0 < cfInitial realFns Ex.cfKhZero ∧
    ¬ Ex.cfKhZero.khDefaulted = true ∧ wellRadius realFns Ex.cfKhZero ≠ 0 :=
  ⟨Ex.cfKhZero_kh, Ex.cfKhZero_cf, by decide, Ex.rw_ne _ rfl⟩

/-- Branch "neither given". -/
theorem peaceman_identity_defaults (inp : Input ℝ) (cell : Cell ℝ)
    (hk : ¬ 0 < khInitial realFns inp) (hc : ¬ 0 < cfInitial realFns inp)
    (hadm : Admissible (ctfOf realFns inp cell)) :
    Identity (ctfOf realFns inp cell) :=
  identity_neither inp cell hk hc hadm

example : ¬ 0 < khInitial realFns Ex.dflt ∧ ¬ 0 < cfInitial realFns Ex.dflt ∧
    Admissible (ctfOf realFns Ex.dflt Ex.cell) :=
  ⟨Ex.dflt_all.kh, Ex.dflt_all.cf, Ex.dflt_admissible⟩

/-- CF, Kh and r0 all explicit: the code stores them as given, so the relation holds exactly
when the input satisfies it. -/
theorem identity_all_explicit (inp : Input ℝ) (cell : Cell ℝ)
    (h : 0 < cfInitial realFns inp ∧ 0 < khInitial realFns inp) (hr0 : ¬ r0Initial realFns inp < 0) :
    Identity (ctfOf realFns inp cell) ↔
      cfInitial realFns inp * (Real.log (r0Initial realFns inp / wellRadius realFns inp) + inp.skin)
        = 2 * Real.pi * khInitial realFns inp :=
  identity_all_explicit_iff inp cell h hr0

example : (0 < cfInitial realFns Ex.allThree ∧ 0 < khInitial realFns Ex.allThree) ∧
    ¬ r0Initial realFns Ex.allThree < 0 :=
  ⟨Ex.allThree_pos, Ex.allThree_r0⟩

/-- The boundary `rw ≥ r0` is a real exception, not a proof artefact: the code clamps
`min(rw, r0)`, and for a fully defaulted record with `0 < r0 < rw`, non-zero skin and
non-zero Kh the stored values *violate* the relation (what holds is `CF · S = 2πKh`). -/
theorem rw_clamp_needed (inp : Input ℝ) (cell : Cell ℝ)
    (hk : ¬ 0 < khInitial realFns inp) (hc : ¬ 0 < cfInitial realFns inp)
    (h0 : 0 < r0Used realFns inp cell) (hlt : r0Used realFns inp cell < wellRadius realFns inp)
    (hS : inp.skin ≠ 0) (hK : khCell realFns inp cell ≠ 0) :
    ¬ Identity (ctfOf realFns inp cell) :=
  clamp_breaks_identity inp cell hk hc h0 hlt hS hK

/-- The boundary instance: a 0.3 × 0.4 × 2 cell has Peaceman radius 0.07, below the default
well-bore radius 0.1524; with skin 1 the fully defaulted record stores values that violate
the relation.  (On the real code with zero skin the same situation gives `CF = inf`.) -/
example : ¬ Identity (ctfOf realFns Ex.dflt Ex.smallCell) :=
  rw_clamp_needed Ex.dflt Ex.smallCell Ex.dflt_all.kh Ex.dflt_all.cf Ex.small_clamped.1 Ex.small_clamped.2
    (by show (1 : ℝ) ≠ 0; norm_num) Ex.small_kh

/-! ## Defaults are the Peaceman values of the cell (text-book formulas, per direction) -/

/-- Vertical completion (Z): `Kh = √(kx·ky) · (dz·NTG)`,
`r0 = 0.28 √(√(ky/kx)·dx² + √(kx/ky)·dy²) / ((kx/ky)^¼ + (ky/kx)^¼)`. -/
theorem defaults_are_peaceman_Z (inp : Input ℝ) (dx dy dz kx ky kz ntg : ℝ)
    (hdir : inp.dir = .Z) (hdef : AllDefaulted inp) (hkx : 0 ≤ kx) (hky : 0 ≤ ky) :
    (ctfOf realFns inp ⟨⟨dx, dy, dz⟩, ⟨kx, ky, kz⟩, ntg⟩).Kh = Real.sqrt (kx * ky) * (dz * ntg) ∧
    (ctfOf realFns inp ⟨⟨dx, dy, dz⟩, ⟨kx, ky, kz⟩, ntg⟩).r0 =
      0.28 * Real.sqrt (Real.sqrt (ky / kx) * dx ^ 2 + Real.sqrt (kx / ky) * dy ^ 2) /
        ((kx / ky) ^ (1 / 4 : ℝ) + (ky / kx) ^ (1 / 4 : ℝ)) :=
  defaults_Z inp dx dy dz kx ky kz ntg hdir hdef hkx hky

example : Ex.dflt.dir = .Z ∧ AllDefaulted Ex.dflt ∧ (0 : ℝ) ≤ 1 := ⟨rfl, Ex.dflt_all, by norm_num⟩

/-- Completion along X: the plane is (y, z); the vertical extent `dz·NTG` enters the radius,
`dx` is the length: `Kh = √(ky·kz) · dx`. -/
theorem defaults_are_peaceman_X (inp : Input ℝ) (dx dy dz kx ky kz ntg : ℝ)
    (hdir : inp.dir = .X) (hdef : AllDefaulted inp) (hky : 0 ≤ ky) (hkz : 0 ≤ kz) :
    (ctfOf realFns inp ⟨⟨dx, dy, dz⟩, ⟨kx, ky, kz⟩, ntg⟩).Kh = Real.sqrt (ky * kz) * dx ∧
    (ctfOf realFns inp ⟨⟨dx, dy, dz⟩, ⟨kx, ky, kz⟩, ntg⟩).r0 =
      0.28 * Real.sqrt (Real.sqrt (kz / ky) * dy ^ 2 + Real.sqrt (ky / kz) * (dz * ntg) ^ 2) /
        ((ky / kz) ^ (1 / 4 : ℝ) + (kz / ky) ^ (1 / 4 : ℝ)) :=
  defaults_X inp dx dy dz kx ky kz ntg hdir hdef hky hkz

example : ({ Ex.dflt with dir := .X } : Input ℝ).dir = .X ∧ AllDefaulted { Ex.dflt with dir := .X } :=
  ⟨rfl, Ex.dflt_all⟩

/-- Completion along Y: the plane is (x, z), written in the text-book order (x first; the
code permutes to (z, x)): `Kh = √(kx·kz) · dy`. -/
theorem defaults_are_peaceman_Y (inp : Input ℝ) (dx dy dz kx ky kz ntg : ℝ)
    (hdir : inp.dir = .Y) (hdef : AllDefaulted inp) (hkx : 0 ≤ kx) (hkz : 0 ≤ kz) :
    (ctfOf realFns inp ⟨⟨dx, dy, dz⟩, ⟨kx, ky, kz⟩, ntg⟩).Kh = Real.sqrt (kx * kz) * dy ∧
    (ctfOf realFns inp ⟨⟨dx, dy, dz⟩, ⟨kx, ky, kz⟩, ntg⟩).r0 =
      0.28 * Real.sqrt (Real.sqrt (kz / kx) * dx ^ 2 + Real.sqrt (kx / kz) * (dz * ntg) ^ 2) /
        ((kx / kz) ^ (1 / 4 : ℝ) + (kz / kx) ^ (1 / 4 : ℝ)) :=
  defaults_Y inp dx dy dz kx ky kz ntg hdir hdef hkx hkz

example : ({ Ex.dflt with dir := .Y } : Input ℝ).dir = .Y ∧ AllDefaulted { Ex.dflt with dir := .Y } :=
  ⟨rfl, Ex.dflt_all⟩

/-- The defaulted well-bore radius is half a foot. -/
theorem default_rw (inp : Input ℝ) (cell : Cell ℝ) (h : inp.diam = none) :
    (ctfOf realFns inp cell).rw = 0.1524 :=
  rw_default inp cell h

example : Ex.dflt.diam = none := rfl

/-! ## Entering explicitly the value that would have been computed changes nothing -/

/-- Any record, any branch: replace items 8, 10, 14 by the stored CF, Kh, r0 — the stored
`CTFProperties` (CF, Kh, Ke, rw, r0, re, connection length, skin, denominator) are the same. -/
theorem explicit_equals_default (inp : Input ℝ) (cell : Cell ℝ)
    (hCF : 0 < (ctfOf realFns inp cell).CF) (hKh : 0 < (ctfOf realFns inp cell).Kh)
    (hr0 : 0 ≤ (ctfOf realFns inp cell).r0) :
    ctfOf realFns (feedBack inp (ctfOf realFns inp cell)) cell = ctfOf realFns inp cell :=
  feedback_all inp cell hCF hKh hr0

example : 0 < (ctfOf realFns Ex.dflt Ex.cell).CF ∧ 0 < (ctfOf realFns Ex.dflt Ex.cell).Kh ∧
    0 ≤ (ctfOf realFns Ex.dflt Ex.cell).r0 := Ex.dflt_stored_pos

/-- Only the computed CF entered (Kh still defaulted, so Kh is derived back from CF). -/
theorem explicit_CF_equals_default (inp : Input ℝ) (cell : Cell ℝ)
    (hk : ¬ 0 < khInitial realFns inp) (hc : ¬ 0 < cfInitial realFns inp) (hd : inp.khDefaulted = true)
    (hCF : 0 < (ctfOf realFns inp cell).CF) :
    ctfOf realFns { inp with cf := some (ctfOf realFns inp cell).CF } cell = ctfOf realFns inp cell :=
  feedback_CF inp cell hk hc hd hCF

example : ¬ 0 < khInitial realFns Ex.dflt ∧ ¬ 0 < cfInitial realFns Ex.dflt ∧ Ex.dflt.khDefaulted = true ∧
    0 < (ctfOf realFns Ex.dflt Ex.cell).CF :=
  ⟨Ex.dflt_all.kh, Ex.dflt_all.cf, rfl, Ex.dflt_stored_pos.1⟩

/-- Only the computed Kh entered. -/
theorem explicit_Kh_equals_default (inp : Input ℝ) (cell : Cell ℝ)
    (hk : ¬ 0 < khInitial realFns inp) (hc : ¬ 0 < cfInitial realFns inp)
    (hKh : 0 < (ctfOf realFns inp cell).Kh) :
    ctfOf realFns { inp with kh := (ctfOf realFns inp cell).Kh } cell = ctfOf realFns inp cell :=
  feedback_Kh inp cell hk hc hKh

example : 0 < (ctfOf realFns Ex.dflt Ex.cell).Kh := Ex.dflt_stored_pos.2.1

/-- Only the stored (defaulted, not back-computed) r0 entered. -/
theorem explicit_r0_equals_default (inp : Input ℝ) (cell : Cell ℝ) (hr0 : r0Initial realFns inp < 0)
    (hk : ¬ 0 < khInitial realFns inp → 0 < cfInitial realFns inp → inp.khDefaulted = true)
    (hb : ¬ (0 < cfInitial realFns inp ∧ 0 < khInitial realFns inp))
    (hnn : 0 ≤ effectiveRadius realFns (cellK inp cell) (cellD inp cell)) :
    ctfOf realFns { inp with r0 := some (ctfOf realFns inp cell).r0 } cell = ctfOf realFns inp cell :=
  feedback_r0 inp cell hr0 hk hb hnn

example : r0Initial realFns Ex.dflt < 0 ∧
    0 ≤ effectiveRadius realFns (cellK Ex.dflt Ex.cell) (cellD Ex.dflt Ex.cell) :=
  ⟨Ex.dflt_all.r0, effectiveRadius_nonneg _ _ (by rw [cellK_Z _ _ rfl]; show (0 : ℝ) ≤ 1; norm_num)
    (by rw [cellK_Z _ _ rfl]; show (0 : ℝ) ≤ 1; norm_num)⟩

/-! ## Frame properties of the connection list -/

section lists
variable {α : Type}

/-- Re-entering COMPDAT: every connection in a cell the record does not address keeps its
position and all its fields … -/
theorem compdat_frame [Add α] [Sub α] [Mul α] [Div α] [LT α] [DecidableLT α] (F : Fns α) (one : α) (grid : Grid α) (headI headJ : Int) (r : CompdatRec α)
    (cs : List (Conn α)) (m : Nat) (c : Conn α) (h : cs[m]? = some c)
    (hc : r.targets headI headJ c.ident = false) :
    (loadCompdat F one grid headI headJ r cs)[m]? = some c :=
  loadCompdat_frame F one grid headI headJ r cs m c h hc

/-- Non-vacuity: three connections, COMPDAT re-enters layer 2; the connection in layer 1
(position 0) is not addressed. -/
example : Conns.Ex.cs[0]? = some Conns.Ex.c1 ∧ Conns.Ex.rec2.targets 0 0 Conns.Ex.c1.ident = false :=
  ⟨rfl, by decide⟩

/-- … and cell, completion number, sort value and segment of *every* old connection
(addressed or not) stay as they were, in the same order; new connections are appended. -/
theorem compdat_keeps_identities [Add α] [Sub α] [Mul α] [Div α] [LT α] [DecidableLT α] (F : Fns α) (one : α) (grid : Grid α) (headI headJ : Int)
    (r : CompdatRec α) (cs : List (Conn α)) :
    cs.map Conn.ident <+: (loadCompdat F one grid headI headJ r cs).map Conn.ident :=
  loadCompdat_idPrefix F one grid headI headJ r cs

/-- One cell re-entered: the (first) connection there is replaced in place, keeping
complnum, sort value and segment. -/
theorem compdat_replaces_in_place (one : α) (cs : List (Conn α)) (n : NewConn α) (m : Nat) (c : Conn α)
    (h : cs[m]? = some c) (hc : c.at n.i n.j n.k = true)
    (hfirst : ∀ k d, k < m → cs[k]? = some d → d.at n.i n.j n.k = false) :
    (upsert one cs n)[m]? = some (replaceWith one n c) ∧ (upsert one cs n).length = cs.length :=
  ⟨upsert_target one cs n m c h hc hfirst,
   upsert_length_of_mem one cs n (List.any_eq_true.mpr ⟨c, List.mem_of_getElem? h, hc⟩)⟩

example : Conns.Ex.cs[1]? = some Conns.Ex.c2 ∧ Conns.Ex.c2.at 0 0 1 = true ∧
    (∀ k d, k < 1 → Conns.Ex.cs[k]? = some d → d.at 0 0 1 = false) := by
  refine ⟨rfl, by decide, ?_⟩
  intro k d hk hd
  have : k = 0 := by omega
  subst this
  have : d = Conns.Ex.c1 := by simpa [Conns.Ex.cs] using hd.symm
  subst this
  decide

/-- … and on that instance the replaced connection keeps complnum 2 and sort value 1 while
taking the new state, direction and factor. -/
example : ((upsert 1 Conns.Ex.cs Conns.Ex.newLayer2).map fun c => (c.complnum, c.sortValue, c.state, c.ctf.CF))
    = [(1, 0, .OPEN, 10), (2, 1, .SHUT, 10), (3, 2, .OPEN, 10)] := by decide

/-! ### Records over several layers (K1 < K2) -/

/-- A COMPDAT record K1..K2 has exactly the effect of the one-layer records K1..K1, …, K2..K2
(all other items the same) entered in this order — for every grid (inactive cells included),
every list of connections already present (cells re-entered or new) and every K range. -/
theorem compdat_multilayer_eq_per_layer [Add α] [Sub α] [Mul α] [Div α] [LT α] [DecidableLT α]
    (F : Fns α) (one : α) (grid : Grid α) (headI headJ : Int) (r : CompdatRec α) (cs : List (Conn α)) :
    loadCompdat F one grid headI headJ r cs =
      (layers r.k1 r.k2).foldl (fun acc k => loadCompdat F one grid headI headJ (r.layer k) acc) cs :=
  loadCompdat_eq_per_layer F one grid headI headJ r cs

/-- `layers K1 K2` are the 0-based layers K1 − 1, …, K2 − 1, each once. -/
theorem compdat_layers (k1 k2 k : Int) :
    (k ∈ layers k1 k2 ↔ k1 - 1 ≤ k ∧ k ≤ k2 - 1) ∧ (layers k1 k2).Nodup ∧ layers (k + 1) (k + 1) = [k] :=
  ⟨mem_layers k1 k2 k, layers_nodup k1 k2, layers_single k⟩

/-- Non-vacuity: a fully defaulted record over layers 1..4 of a column whose cells differ in
every layer (layer 2 inactive), on a well that already has connections in layers 1..3: layers
1 and 3 are replaced in place, the connection in the inactive layer 2 stays, layer 4 is
appended; Kh and r0 differ from layer to layer; and this is what the four one-layer records
give. -/
example : layers 1 4 = [0, 1, 2, 3] ∧
    ((loadCompdat Conns.Ex.fnsLayers 1 Conns.Ex.gridVar 0 0 Conns.Ex.rec14 Conns.Ex.cs).map
        fun c => (c.k, c.complnum, c.ctf.Kh, c.ctf.r0, c.depth))
      = [(0, 1, 4, 252, 100), (1, 2, 20, 5, 110), (2, 3, 24, 448, 120), (3, 4, 40, 448, 130)] ∧
    loadCompdat Conns.Ex.fnsLayers 1 Conns.Ex.gridVar 0 0 Conns.Ex.rec14 Conns.Ex.cs =
      [0, 1, 2, 3].foldl (fun acc k => loadCompdat Conns.Ex.fnsLayers 1 Conns.Ex.gridVar 0 0 (Conns.Ex.rec14.layer k) acc)
        Conns.Ex.cs := by decide

/-- After a COMPDAT record K1..K2 the connection in the active cell of layer `k`
(K1 − 1 ≤ k ≤ K2 − 1) carries `ctfOf F r.inp cell` — the connection factors of the record's
items and of the cell of *this* layer — together with this cell's depth and the record's state
and direction.  No quantity computed for another layer of the record enters (in particular
not the Peaceman radius of the first layer), whatever was in the list before. -/
theorem compdat_layer_has_own_cell_values [Add α] [Sub α] [Mul α] [Div α] [LT α] [DecidableLT α]
    (F : Fns α) (one : α) (grid : Grid α) (headI headJ : Int) (r : CompdatRec α)
    (cs : List (Conn α)) (k : Int) (hk : k ∈ layers r.k1 r.k2) (cell : Cell α) (depth : α)
    (hg : grid (if r.iRaw = 0 then headI else r.iRaw - 1) (if r.jRaw = 0 then headJ else r.jRaw - 1) k
            = some (cell, depth)) :
    ∃ c, (loadCompdat F one grid headI headJ r cs).find?
            (fun c => c.at (if r.iRaw = 0 then headI else r.iRaw - 1) (if r.jRaw = 0 then headJ else r.jRaw - 1) k)
          = some c ∧
      c.ctf = ctfOf F r.inp cell ∧ c.depth = depth ∧ c.state = r.state ∧ c.dir = r.inp.dir ∧
      c.fromDeck = ctfFromDeck F r.inp :=
  loadCompdat_layer_own_cell F one grid headI headJ r cs k hk cell depth hg

/-- Non-vacuity: layer 3 (k = 2) of the record above, cell 5 × 4 × 4 with PERMX 3. -/
example : (2 : Int) ∈ layers Conns.Ex.rec14.k1 Conns.Ex.rec14.k2 ∧
    Conns.Ex.gridVar (if Conns.Ex.rec14.iRaw = 0 then 0 else Conns.Ex.rec14.iRaw - 1)
        (if Conns.Ex.rec14.jRaw = 0 then 0 else Conns.Ex.rec14.jRaw - 1) 2
      = some (⟨⟨5, 4, 4⟩, ⟨3, 2, 3⟩, 1⟩, 120) := ⟨by decide, rfl⟩

/-- The same as a locality statement: two grids that agree in the cell of layer `k` — and are
arbitrary in every other layer and column — and two arbitrary earlier connection lists give
layer `k` the same connection factors and depth. -/
theorem compdat_layer_local [Add α] [Sub α] [Mul α] [Div α] [LT α] [DecidableLT α]
    (F : Fns α) (one : α) (grid grid' : Grid α) (headI headJ : Int) (r : CompdatRec α)
    (cs cs' : List (Conn α)) (k : Int) (hk : k ∈ layers r.k1 r.k2) (cell : Cell α) (depth : α)
    (hg : grid (if r.iRaw = 0 then headI else r.iRaw - 1) (if r.jRaw = 0 then headJ else r.jRaw - 1) k
            = some (cell, depth))
    (hg' : grid' (if r.iRaw = 0 then headI else r.iRaw - 1) (if r.jRaw = 0 then headJ else r.jRaw - 1) k
            = some (cell, depth)) :
    ∃ c c', (loadCompdat F one grid headI headJ r cs).find?
              (fun c => c.at (if r.iRaw = 0 then headI else r.iRaw - 1) (if r.jRaw = 0 then headJ else r.jRaw - 1) k)
            = some c ∧
          (loadCompdat F one grid' headI headJ r cs').find?
              (fun c => c.at (if r.iRaw = 0 then headI else r.iRaw - 1) (if r.jRaw = 0 then headJ else r.jRaw - 1) k)
            = some c' ∧
          c.ctf = c'.ctf ∧ c.depth = c'.depth :=
  loadCompdat_layer_local F one grid grid' headI headJ r cs cs' k hk cell depth hg hg'

/-- Non-vacuity: `gridVar'` has other cells than `gridVar` in layers 1, 2 and 4 (so the layers
above and below layer 3 get other factors: Kh 4 ≠ 175 in layer 1) and the same cell in layer 3. -/
example : Conns.Ex.gridVar 0 0 2 = Conns.Ex.gridVar' 0 0 2 ∧
    ((Conns.Ex.gridVar 0 0 0).map fun p => p.2) ≠ ((Conns.Ex.gridVar' 0 0 0).map fun p => p.2) ∧
    ((loadCompdat Conns.Ex.fnsLayers 1 Conns.Ex.gridVar' 0 0 Conns.Ex.rec14 []).map
        fun c => (c.k, c.ctf.Kh, c.ctf.r0)) = [(0, 175, 1372), (1, 175, 1372), (2, 24, 448), (3, 175, 1372)] :=
  ⟨rfl, by decide, by decide⟩

/-! Over ℝ: every layer of a record with CF, Kh and r0 defaulted gets the text-book Kh and Peaceman
radius of the cell of *that* layer (composition of `compdat_layer_has_own_cell_values` with
`defaults_are_peaceman_X/Y/Z`). -/

/-- Vertical record over layers K1..K2: the connection of layer `k` has `Kh = √(kx·ky)·dz·NTG` and the
Peaceman radius of dx, dy, kx, ky — all of the cell of layer `k`. -/
theorem compdat_layer_defaults_Z (grid : Grid ℝ) (headI headJ : Int) (r : CompdatRec ℝ) (cs : List (Conn ℝ))
    (k : Int) (hk : k ∈ layers r.k1 r.k2) (dx dy dz kx ky kz ntg depth : ℝ)
    (hg : grid (if r.iRaw = 0 then headI else r.iRaw - 1) (if r.jRaw = 0 then headJ else r.jRaw - 1) k
            = some (⟨⟨dx, dy, dz⟩, ⟨kx, ky, kz⟩, ntg⟩, depth))
    (hdir : r.inp.dir = .Z) (hdef : AllDefaulted r.inp) (hkx : 0 ≤ kx) (hky : 0 ≤ ky) :
    ∃ c, (loadCompdat realFns 1 grid headI headJ r cs).find?
            (fun c => c.at (if r.iRaw = 0 then headI else r.iRaw - 1) (if r.jRaw = 0 then headJ else r.jRaw - 1) k)
          = some c ∧
      c.ctf.Kh = Real.sqrt (kx * ky) * (dz * ntg) ∧
      c.ctf.r0 = 0.28 * Real.sqrt (Real.sqrt (ky / kx) * dx ^ 2 + Real.sqrt (kx / ky) * dy ^ 2) /
                   ((kx / ky) ^ (1 / 4 : ℝ) + (ky / kx) ^ (1 / 4 : ℝ)) :=
  layer_defaults_Z grid headI headJ r cs k hk dx dy dz kx ky kz ntg depth hg hdir hdef hkx hky

/-- Non-vacuity: the fully defaulted real record over layers 1..3 on a column whose DZ and PERMX
grow with the layer; layer 2 (k = 1) has the 3 × 4 × 3 cell with PERMX 2. -/
example : (1 : Int) ∈ layers Conns.Ex.recR.k1 Conns.Ex.recR.k2 ∧
    Conns.Ex.gridRVar (if Conns.Ex.recR.iRaw = 0 then 0 else Conns.Ex.recR.iRaw - 1)
        (if Conns.Ex.recR.jRaw = 0 then 0 else Conns.Ex.recR.jRaw - 1) 1
      = some (⟨⟨3, 4, 2 + ((1 : Int) : ℝ)⟩, ⟨1 + ((1 : Int) : ℝ), 1, 1⟩, 1⟩, 100 + 10 * ((1 : Int) : ℝ)) ∧
    Conns.Ex.recR.inp.dir = .Z ∧ AllDefaulted Conns.Ex.recR.inp ∧ (0 : ℝ) ≤ 1 + ((1 : Int) : ℝ) :=
  ⟨by decide, rfl, rfl, Ex.dflt_all, by norm_num⟩

/-- Record along X over layers K1..K2: `Kh = √(ky·kz)·dx`, radius from dy, dz·NTG, ky, kz of the cell
of layer `k` (this is where a layer-dependent DZ or NTG enters the radius). -/
theorem compdat_layer_defaults_X (grid : Grid ℝ) (headI headJ : Int) (r : CompdatRec ℝ) (cs : List (Conn ℝ))
    (k : Int) (hk : k ∈ layers r.k1 r.k2) (dx dy dz kx ky kz ntg depth : ℝ)
    (hg : grid (if r.iRaw = 0 then headI else r.iRaw - 1) (if r.jRaw = 0 then headJ else r.jRaw - 1) k
            = some (⟨⟨dx, dy, dz⟩, ⟨kx, ky, kz⟩, ntg⟩, depth))
    (hdir : r.inp.dir = .X) (hdef : AllDefaulted r.inp) (hky : 0 ≤ ky) (hkz : 0 ≤ kz) :
    ∃ c, (loadCompdat realFns 1 grid headI headJ r cs).find?
            (fun c => c.at (if r.iRaw = 0 then headI else r.iRaw - 1) (if r.jRaw = 0 then headJ else r.jRaw - 1) k)
          = some c ∧
      c.ctf.Kh = Real.sqrt (ky * kz) * dx ∧
      c.ctf.r0 = 0.28 * Real.sqrt (Real.sqrt (kz / ky) * dy ^ 2 + Real.sqrt (ky / kz) * (dz * ntg) ^ 2) /
                   ((ky / kz) ^ (1 / 4 : ℝ) + (kz / ky) ^ (1 / 4 : ℝ)) :=
  layer_defaults_X grid headI headJ r cs k hk dx dy dz kx ky kz ntg depth hg hdir hdef hky hkz

example : (1 : Int) ∈ layers Conns.Ex.recR.k1 Conns.Ex.recR.k2 ∧
    ({ Conns.Ex.recR with inp := { Ex.dflt with dir := .X } } : CompdatRec ℝ).inp.dir = .X ∧
    AllDefaulted ({ Conns.Ex.recR with inp := { Ex.dflt with dir := .X } } : CompdatRec ℝ).inp :=
  ⟨by decide, rfl, Ex.dflt_all⟩

/-- Record along Y over layers K1..K2: `Kh = √(kx·kz)·dy`, radius from dx, dz·NTG, kx, kz of the cell
of layer `k`. -/
theorem compdat_layer_defaults_Y (grid : Grid ℝ) (headI headJ : Int) (r : CompdatRec ℝ) (cs : List (Conn ℝ))
    (k : Int) (hk : k ∈ layers r.k1 r.k2) (dx dy dz kx ky kz ntg depth : ℝ)
    (hg : grid (if r.iRaw = 0 then headI else r.iRaw - 1) (if r.jRaw = 0 then headJ else r.jRaw - 1) k
            = some (⟨⟨dx, dy, dz⟩, ⟨kx, ky, kz⟩, ntg⟩, depth))
    (hdir : r.inp.dir = .Y) (hdef : AllDefaulted r.inp) (hkx : 0 ≤ kx) (hkz : 0 ≤ kz) :
    ∃ c, (loadCompdat realFns 1 grid headI headJ r cs).find?
            (fun c => c.at (if r.iRaw = 0 then headI else r.iRaw - 1) (if r.jRaw = 0 then headJ else r.jRaw - 1) k)
          = some c ∧
      c.ctf.Kh = Real.sqrt (kx * kz) * dy ∧
      c.ctf.r0 = 0.28 * Real.sqrt (Real.sqrt (kz / kx) * dx ^ 2 + Real.sqrt (kx / kz) * (dz * ntg) ^ 2) /
                   ((kx / kz) ^ (1 / 4 : ℝ) + (kz / kx) ^ (1 / 4 : ℝ)) :=
  layer_defaults_Y grid headI headJ r cs k hk dx dy dz kx ky kz ntg depth hg hdir hdef hkx hkz

example : (1 : Int) ∈ layers Conns.Ex.recR.k1 Conns.Ex.recR.k2 ∧
    ({ Conns.Ex.recR with inp := { Ex.dflt with dir := .Y } } : CompdatRec ℝ).inp.dir = .Y ∧
    AllDefaulted ({ Conns.Ex.recR with inp := { Ex.dflt with dir := .Y } } : CompdatRec ℝ).inp :=
  ⟨by decide, rfl, Ex.dflt_all⟩

/-- WPIMULT with a connection selection: position by position, selected connections get CF
and the multiplier scaled and nothing else, all others are unchanged; length preserved. -/
theorem wpimult_frame [Mul α] (f : α) (s : Sel) (cs : List (Conn α)) (m : Nat) :
    (wpimultSel f s cs)[m]? =
        (cs[m]?).map (fun c => if s.matches c then
          { c with wpimult := c.wpimult * f, ctf := { c.ctf with CF := c.ctf.CF * f } } else c) ∧
    (wpimultSel f s cs).length = cs.length :=
  ⟨wpimultSel_getElem? f s cs m, wpimultSel_length f s cs⟩

/-- On the three-connection instance WPIMULT 2 on completions 2..3 doubles exactly those CFs. -/
example : ((wpimultSel 2 ⟨none, none, none, some 2, some 3⟩ Conns.Ex.cs).map fun c => (c.complnum, c.ctf.CF, c.wpimult))
    = [(1, 10, 1), (2, 20, 2), (3, 20, 2)] := by decide

/-- WELOPEN on connections: selected connections get the new state and nothing else. -/
theorem welopen_frame (st : State) (s : Sel) (cs : List (Conn α)) (m : Nat) :
    (welopenSel st s cs)[m]? =
        (cs[m]?).map (fun c => if s.matches c then { c with state := st } else c) ∧
    (welopenSel st s cs).length = cs.length :=
  ⟨welopenSel_getElem? st s cs m, welopenSel_length st s cs⟩

example : ((welopenSel .SHUT ⟨some 1, some 1, some 3, none, none⟩ Conns.Ex.cs).map fun c => (c.k, c.state))
    = [(0, .OPEN), (1, .OPEN), (2, .SHUT)] := by decide

/-- Any history (COMPORD INPUT): a connection no record addresses is afterwards at the same
position with every field unchanged. -/
theorem history_frame [Add α] [Sub α] [Mul α] [Div α] [LT α] [DecidableLT α] (E : Env α) (hE : E.ord = .INPUT) (ops : List (Op α)) (w : WellConns α)
    (hp : w.pending = none) (m : Nat) (c : Conn α) (h : w.conns[m]? = some c)
    (ht : ∀ op ∈ ops, op.touches E c.ident = false) :
    (run E ops w).conns[m]? = some c :=
  run_frame E hE ops w hp m c h ht

/-- Non-vacuity: a five-record history (WPIMULT on completions 2..3, end of step, WELOPEN on
cell (1,1,3), COMPDAT re-entering layer 2, end of step) never addresses the first connection. -/
example : Conns.Ex.env.ord = .INPUT ∧ Conns.Ex.cs[0]? = some Conns.Ex.c1 ∧
    (∀ op ∈ Conns.Ex.ops, op.touches Conns.Ex.env Conns.Ex.c1.ident = false) := by
  refine ⟨rfl, rfl, ?_⟩
  intro op hop
  simp only [Conns.Ex.ops, List.mem_cons, List.mem_nil_iff, or_false] at hop
  rcases hop with rfl | rfl | rfl | rfl | rfl <;> decide

/-- Any history (COMPORD INPUT): order, cells, completion numbers, sort values and segments of
the connections present before are preserved; the list only grows at the end.  (`isLump`
excludes COMPLUMP, which renumbers completions by design and is not one of the property's
operations.) -/
theorem history_keeps_identities [Add α] [Sub α] [Mul α] [Div α] [LT α] [DecidableLT α] (E : Env α) (hE : E.ord = .INPUT) (ops : List (Op α)) (w : WellConns α)
    (hl : ∀ op ∈ ops, op.isLump = false) :
    w.conns.map Conn.ident <+: (run E ops w).conns.map Conn.ident :=
  run_idPrefix E hE ops w hl

example : ∀ op ∈ Conns.Ex.ops, op.isLump = false := by
  intro op hop
  simp only [Conns.Ex.ops, List.mem_cons, List.mem_nil_iff, or_false] at hop
  rcases hop with rfl | rfl | rfl | rfl | rfl <;> rfl

/-! ## Any COMPORD (TRACK, DEPTH, INPUT): `WellConnections::order()` -/

/-- `order()` only permutes the connections (no connection is lost, duplicated or altered). -/
theorem order_is_permutation [Sub α] [LT α] [DecidableLT α] (F : Fns α) (ord : Order) (headI headJ : Int)
    (cs : List (Conn α)) : (reorder F ord headI headJ cs).Perm cs :=
  reorder_perm F ord headI headJ cs

/-- `order()` is idempotent — TRACK's nearest-neighbour walk from the well head, DEPTH's
insertion sort, INPUT — so a keyword that adds no connection cannot move any. -/
theorem order_idempotent [LinearOrder α] [Sub α] (F : Fns α) (ord : Order) (headI headJ : Int)
    (cs : List (Conn α)) :
    reorder F ord headI headJ (reorder F ord headI headJ cs) = reorder F ord headI headJ cs :=
  reorder_idem F ord headI headJ cs

/-- `order()` looks only at cell and depth: it commutes with every in-place rewrite that keeps
them (scaling CF, setting the state, …). -/
theorem order_ignores_factors [LinearOrder α] [Sub α] (F : Fns α) (ord : Order) (headI headJ : Int)
    (f : Conn α → Conn α) (hf : KeepsPlace f) (cs : List (Conn α)) :
    reorder F ord headI headJ (cs.map f) = (reorder F ord headI headJ cs).map f :=
  reorder_map F ord headI headJ f hf cs

example : KeepsPlace (scaleWellPi 2 : Conn Int → Conn Int) := fun _ => ⟨rfl, rfl, rfl⟩

/-- Every history leaves the well in its COMPORD order. -/
theorem history_stays_ordered [LinearOrder α] [Sub α] [Add α] [Mul α] [Div α] (E : Env α)
    (ops : List (Op α)) (w : WellConns α) (h : Ordered E w.conns) : Ordered E (run E ops w).conns :=
  run_ordered E ops w h

/-- WPIMULT / WELOPEN histories under **any** COMPORD: on a well in its COMPORD order a
connection that no record addresses stays at its position with every field unchanged … -/
theorem wpimult_welopen_frame_any_compord [LinearOrder α] [Sub α] [Add α] [Mul α] [Div α] (E : Env α)
    (ops : List (Op α)) (w : WellConns α) (ho : Ordered E w.conns) (hp : w.pending = none)
    (hnc : ∀ op ∈ ops, op.isCompdat = false) (m : Nat) (c : Conn α) (h : w.conns[m]? = some c)
    (ht : ∀ op ∈ ops, op.touches E c.ident = false) :
    (run E ops w).conns[m]? = some c :=
  run_frame_anyorder E ops w ho hp hnc m c h ht

/-- … and the order, cells, completion numbers, sort values and segments of *all* connections
are exactly as before. -/
theorem wpimult_welopen_keep_order_any_compord [LinearOrder α] [Sub α] [Add α] [Mul α] [Div α] (E : Env α)
    (ops : List (Op α)) (w : WellConns α) (ho : Ordered E w.conns)
    (hnc : ∀ op ∈ ops, op.isCompdat = false) (hl : ∀ op ∈ ops, op.isLump = false) :
    (run E ops w).conns.map Conn.ident = w.conns.map Conn.ident :=
  run_idents_anyorder E ops w ho hnc hl

/-- Arbitrary histories (COMPDAT included) under any COMPORD, without positions: a connection
that no record addresses is still present afterwards, unchanged in every field. -/
theorem history_frame_any_compord [LinearOrder α] [Sub α] [Add α] [Mul α] [Div α] (E : Env α)
    (ops : List (Op α)) (w : WellConns α) (hp : w.pending = none) (c : Conn α) (h : c ∈ w.conns)
    (ht : ∀ op ∈ ops, op.touches E c.ident = false) :
    c ∈ (run E ops w).conns :=
  run_frame_mem E ops w hp c h ht

/-- COMPDAT **re-entry** under any COMPORD: when the record adds no connection (every cell it
addresses is inactive or already connected) to a well that is in its COMPORD order and whose
connections carry their cells' depths, the `order()` that follows is the identity — so
`compdat_frame`, `compdat_keeps_identities` and `compdat_replaces_in_place` hold position by
position for TRACK and DEPTH as well. -/
theorem compdat_reentry_keeps_order_any_compord [LinearOrder α] [Sub α] [Add α] [Mul α] [Div α]
    (E : Env α) (w : WellConns α) (ho : Ordered E w.conns) (hd : DepthOfGrid E.grid w.conns)
    (r : CompdatRec α)
    (hlen : (loadCompdat E.F E.one E.grid E.headI E.headJ r w.conns).length = w.conns.length) :
    (step E w (.compdat r)).conns = loadCompdat E.F E.one E.grid E.headI E.headJ r w.conns :=
  step_compdat_reentry E w ho hd r hlen

/-- Non-vacuity: the TRACK-ordered three-connection well on a layered grid; COMPDAT re-entering
layer 2 adds no connection. -/
example : Ordered Conns.Ex.envTrack Conns.Ex.cs ∧ DepthOfGrid Conns.Ex.envTrack.grid Conns.Ex.cs ∧
    (loadCompdat Conns.Ex.envTrack.F Conns.Ex.envTrack.one Conns.Ex.envTrack.grid Conns.Ex.envTrack.headI
      Conns.Ex.envTrack.headJ Conns.Ex.rec2 Conns.Ex.cs).length = Conns.Ex.cs.length := by
  refine ⟨by unfold Ordered; decide, ?_, by decide⟩
  intro c hc
  simp only [Conns.Ex.cs, List.mem_cons, List.mem_nil_iff, or_false] at hc
  rcases hc with rfl | rfl | rfl <;> exact ⟨Conns.Ex.cellInt, rfl⟩

/-- The depth invariant used above holds along every history that starts from a well without
connections. -/
theorem history_depths_are_cell_depths [LinearOrder α] [Sub α] [Add α] [Mul α] [Div α]
    (E : Env α) (ops : List (Op α)) :
    DepthOfGrid E.grid (run E ops { conns := [], pending := none }).conns :=
  run_depthOfGrid E ops _ (fun _ h => by cases h)

/-- Non-vacuity: the three-connection vertical well is in TRACK order and in DEPTH order, the
COMPDAT-free history does not address connection 1; and on that instance TRACK really
reorders (a well entered bottom-up is walked top-down from the head). -/
example : Ordered Conns.Ex.envTrack Conns.Ex.cs ∧ Ordered Conns.Ex.envDepth Conns.Ex.cs ∧
    (∀ op ∈ Conns.Ex.opsNoCompdat, op.isCompdat = false ∧ op.isLump = false ∧
      op.touches Conns.Ex.envTrack Conns.Ex.c1.ident = false) := by
  refine ⟨by unfold Ordered; decide, by unfold Ordered; decide, ?_⟩
  intro op hop
  simp only [Conns.Ex.opsNoCompdat, List.mem_cons, List.mem_nil_iff, or_false] at hop
  rcases hop with rfl | rfl | rfl | rfl <;> decide

example : (reorder Conns.Ex.fnsInt .TRACK 0 0 Conns.Ex.cs.reverse).map (·.k) = [0, 1, 2] ∧
    (reorder Conns.Ex.fnsInt .DEPTH 0 0 Conns.Ex.cs.reverse).map (·.k) = [0, 1, 2] := by decide

end lists

/-! ## The Peaceman relation along whole histories -/

/-- For every history — any COMPORD, any number of connections, any sequence of COMPDAT
records that are regular on the grid (`RegularRec`: the record yields the relation in every
active cell, which `peaceman_identity` gives whenever the stored values are admissible),
WPIMULT, WELOPEN, COMPLUMP records and report-step ends — every connection satisfies at the
end `CF · (ln(r0/rw) + S) = wpimult · 2π · Kh`, `wpimult` being the accumulated WPIMULT factor
the connection carries (`Connection::wpimult()`, reset to 1 when COMPDAT re-enters the cell). -/
theorem history_scaled_identity (E : Env ℝ) (hE : RealEnv E) (ops : List (Op ℝ)) (w : WellConns ℝ)
    (hreg : ∀ r, Op.compdat r ∈ ops → RegularRec E.grid r)
    (h : ∀ c ∈ w.conns, ScaledIdentity c) :
    ∀ c ∈ (run E ops w).conns,
      c.ctf.CF * (Real.log (c.ctf.r0 / c.ctf.rw) + c.ctf.skin) = c.wpimult * (2 * Real.pi * c.ctf.Kh) :=
  run_scaled E hE ops w hreg h

/-- Non-vacuity: a TRACK-ordered well on a grid of 3 × 4 × 2 cells, COMPDAT over three layers,
WPIMULT on one layer, COMPDAT again, a global WPIMULT: the record is regular, the empty well
satisfies the invariant. -/
example : RealEnv Conns.Ex.envR ∧ (∀ r, Op.compdat r ∈ Conns.Ex.opsR → RegularRec Conns.Ex.envR.grid r) ∧
    (∀ c ∈ ({ conns := [], pending := none } : WellConns ℝ).conns, ScaledIdentity c) := by
  refine ⟨⟨rfl, rfl⟩, ?_, by intro c hc; cases hc⟩
  intro r hr
  have : r = Conns.Ex.recR := by
    simp only [Conns.Ex.opsR, List.mem_cons, List.mem_nil_iff, or_false] at hr
    rcases hr with h | h | h | h | h | h <;> first | (cases h; rfl) | cases h
  subst this
  apply regular_of_admissible
  · intro i j k cell depth hg
    have : cell = Ex.cell := by
      have : some (Ex.cell, (100 : ℝ)) = some (cell, depth) := hg
      injection this with h; injection h with h1 _; exact h1.symm
    subst this
    exact Ex.dflt_admissible
  · intro _; exact Ex.dflt_all.r0

/-- CSKIN (`Connection::setSkinFactor`) keeps the relation, with any accumulated WPIMULT factor
`m`, and keeps the stored denominator equal to `ln(r0/rw) + S` — which in turn holds after
COMPDAT (`denom_consistent_after_compdat`). -/
theorem cskin_preserves_identity (c : CTF ℝ) (S' m : ℝ) (hd : DenomConsistent c)
    (hid : c.CF * (Real.log (c.r0 / c.rw) + c.skin) = m * (2 * Real.pi * c.Kh))
    (hpd : c.denom - c.skin + S' ≠ 0) :
    (setSkinFactor c S').CF * (Real.log ((setSkinFactor c S').r0 / (setSkinFactor c S').rw) + (setSkinFactor c S').skin)
        = m * (2 * Real.pi * (setSkinFactor c S').Kh) ∧
    DenomConsistent (setSkinFactor c S') :=
  setSkinFactor_preserves c S' m hd hid hpd

/-- After COMPDAT the stored `peaceman_denom` is `ln(r0/rw) + S`. -/
theorem denom_consistent_after_compdat (inp : Input ℝ) (cell : Cell ℝ)
    (hid : Identity (ctfOf realFns inp cell)) (hCF : 0 < (ctfOf realFns inp cell).CF) :
    DenomConsistent (ctfOf realFns inp cell) :=
  denomConsistent_of_identity inp cell hid hCF

/-- Non-vacuity: the fully defaulted example record (relation holds, CF > 0); raising its skin
from 1 to 3 keeps the denominator positive. -/
example : Identity (ctfOf realFns Ex.dflt Ex.cell) ∧ 0 < (ctfOf realFns Ex.dflt Ex.cell).CF ∧
    (ctfOf realFns Ex.dflt Ex.cell).denom - (ctfOf realFns Ex.dflt Ex.cell).skin + 3 ≠ 0 := by
  refine ⟨peaceman_identity Ex.dflt Ex.cell Ex.dflt_admissible (fun _ => Ex.dflt_all.r0), Ex.dflt_stored_pos.1, ?_⟩
  rw [ctfOf_neither _ _ Ex.dflt_all.kh Ex.dflt_all.cf, fin_denom]
  have h := Ex.pd_pos Ex.dflt rfl rfl rfl rfl
  have hs : (fin realFns Ex.dflt Ex.cell (2 * Real.pi * khCell realFns Ex.dflt Ex.cell / pdOf realFns Ex.dflt Ex.cell)
      (khCell realFns Ex.dflt Ex.cell) (r0Used realFns Ex.dflt Ex.cell) (pdOf realFns Ex.dflt Ex.cell)).skin = 1 := rfl
  rw [hs]
  linarith

end OpmVerif.Props.C06
