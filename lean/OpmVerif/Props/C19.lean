/-
  C19 — A Deck written as text parses back to the same Deck (record level).

  Only property statements (one-line proofs from `Proofs/DeckWrite.lean`) and
  non-vacuity examples.  Quantifiers: every schema, every conforming record (`Conf`),
  both layouts (with and without the 7-column line split), every number-conversion
  parameter `cv` and every floating point printing function `fmt`.
-/
import OpmVerif.Proofs.DeckWrite
import OpmVerif.Proofs.RawConsts
import OpmVerif.Proofs.KwRoundTrip

namespace OpmVerif.Props.C19
open OpmVerif.Lex OpmVerif.Tok OpmVerif.Scan OpmVerif.DeckWrite OpmVerif.RawKw

def b (s : String) : Bytes := s.toUTF8.toList

/-- `parse_write_record`: for every schema record and every item list conforming to it,
parsing the text `DeckRecord::write`/`DeckOutput` produce returns the record: the same
values (floating point tokens in printed form) and the same default flags — embedded
defaults come back from `n*`, trailing ones from the premature end of the record. -/
theorem parse_write_record (cv : Conv) (fmt : Bytes → Bytes) (flush split : Bool) (items : List Item)
    (r : List Vals) (hc : Conf cv fmt items r) (hlen : r.flatten.length ≤ 2147483647)
    (htrail : pend flush false 0 r.flatten = 0 ∨ r.flatten.length ≤ singlePrefix items)
    (hat : ∀ t ∈ emitToks fmt flush false 0 r.flatten, Atomic t ∧ evenQuotes t = true) :
    parseRecord cv items (writtenRecordText fmt flush split r) = some (r.map (·.map (normP fmt))) :=
  OpmVerif.DeckWrite.parse_write_record cv fmt flush split items r hc hlen htrail hat

/-- `flush` is what `DeckOutput::end_record` does with defaults still pending, as the
translator finds it in DeckOutput.cpp on this run (`outFlushPendingDefaults`).  Before fix
452487d0e they were dropped (`false`), and `htrail` excluded the records for which that
loses information: an item of size ALL that ends in defaulted values.  Since the fix they
are written whenever the record holds an explicit value (`true`): nothing is dropped from
such a record and `htrail` holds for it. -/
theorem no_restriction_when_pending_defaults_are_written (flat : Vals) (h : ∃ p ∈ flat, p.2 = .deck) :
    pend true false 0 flat = 0 :=
  pend_flush flat h 0

/-- The same at token level (no assumption on the shape of the tokens). -/
theorem parse_write_tokens (cv : Conv) (fmt : Bytes → Bytes) (flush : Bool) (items : List Item) (r : List Vals)
    (hc : Conf cv fmt items r) (hlen : r.flatten.length ≤ 2147483647)
    (htrail : pend flush false 0 r.flatten = 0 ∨ r.flatten.length ≤ singlePrefix items) :
    parseItems cv items (emitToks fmt flush false 0 r.flatten) = some (r.map (·.map (normP fmt))) :=
  OpmVerif.DeckWrite.parse_write_tokens cv fmt flush items r hc hlen htrail

/-- Tokenising the laid-out record gives the emitted tokens; in particular the line
split of data keywords (every 7 entries, a pending `n*` counting as one) is invisible. -/
theorem tokenize_written (split : Bool) (ts : List Bytes) (h : ∀ t ∈ ts, Atomic t) :
    tokenize (layout split 0 ts ++ [32]) = ts :=
  tokenize_layout_record split ts h

/-- The layout constants the writer model uses are `DeckOutput::format` of the source tree
(item separator and record indent one blank, no keyword separator, 7 columns). -/
theorem output_format_is_the_codes :
    OpmVerif.Gen.RawConsts.outItemSep = [32] ∧ OpmVerif.Gen.RawConsts.outRecordIndent = [32] ∧
    OpmVerif.Gen.RawConsts.outKeywordSep = [] ∧ OpmVerif.Gen.RawConsts.outColumns = columns :=
  OpmVerif.Lex.output_format_eq

/-- The literal mirror of the `DeckOutput` state machine (`default_count`, `row_count`,
`write_sep`, `stash_default`, `write<T>`, `start_record`, `end_record` — the model that is
compared byte for byte with `operator<<(std::ostream&, const Deck&)`, TITLE and state
carried between keywords included) writes, for every record, exactly the bytes of the
two-stage writer the theorems above are about. -/
theorem writer_state_machine_is_the_model (fmt : Bytes → Bytes) (flush split : Bool) (r : List Vals) :
    (writeRecordM fmt flush split r).1 = writeRecord fmt flush split r :=
  writeRecordM_eq fmt flush split r

/-- `int_print_parse`: the decimal rendering of every `int` parses back to it. -/
theorem int_print_parse (i : Int) (hlo : -2147483648 ≤ i) (hhi : i ≤ 2147483647) :
    OpmVerif.DeckIO.readIntDec (printInt i) = some i :=
  OpmVerif.DeckWrite.int_print_parse i hlo hhi

/-- The token `n*` the writer emits for `n` pending defaults is the repeat token of count
`n` without value. -/
theorem pending_defaults_token (n : Nat) (h1 : 1 ≤ n) (h2 : n ≤ 2147483647) :
    classify (starTok n) = .rep n [] :=
  classify_starTok n h1 h2

/-- `write_fixpoint`: print(parse(print r)) = print r, given the single assumption on
floating point printing: re-reading a printed token prints the same token. -/
theorem write_fixpoint (fmt : Bytes → Bytes) (hf : ∀ t, fmt (fmt t) = fmt t) (flush split : Bool) (r : List Vals) :
    writeRecord fmt flush split (r.map (·.map (normP fmt))) = writeRecord fmt flush split r :=
  OpmVerif.DeckWrite.write_fixpoint fmt hf flush split r

/-- Integers in `int` range and all strings satisfy `ConfVal` for the concrete
recognisers of the driver; quote-free strings print as atomic tokens. -/
theorem ints_and_strings_conform (fmt : Bytes → Bytes) (it : Item) :
    (it.ty = .int → ∀ i : Int, -2147483648 ≤ i → i ≤ 2147483647 → ConfVal OpmVerif.DeckIO.conv fmt it (.int i, .deck)) ∧
    (it.ty = .string → ∀ s : Bytes, ConfVal OpmVerif.DeckIO.conv fmt it (.str s, .deck)) ∧
    (∀ s : Bytes, (∀ x ∈ s, x ≠ 39) → Atomic (quoted s) ∧ evenQuotes (quoted s) = true) :=
  ⟨fun h i a c => confVal_int fmt it h i a c, fun h s => confVal_str _ fmt it h s, atomic_quoted⟩

/-! Non-vacuity: a WELSPECS-like record with an embedded run of defaults, a string with
a blank, a slash and a star, a negative integer and trailing defaults. -/

def demoSchema : List Item :=
  [⟨.string, false, none⟩, ⟨.string, false, some (.str (b "FIELD"))⟩, ⟨.int, false, none⟩,
   ⟨.int, false, some (.int 3)⟩, ⟨.int, false, none⟩, ⟨.string, false, some (.str (b "OPEN"))⟩, ⟨.int, false, some (.int 0)⟩]

def demoRecord : List Vals :=
  [[(.str (b "P 1/*"), .deck)], [(.str (b "FIELD"), .dflt)], [(.dummy, .empty)], [(.int 3, .dflt)],
   [(.int (-12), .deck)], [(.str (b "OPEN"), .dflt)], [(.int 0, .dflt)]]

example : writeRecord idFmt false false demoRecord = b " 'P 1/*' 3* -12 /\n" := by decide +kernel
example : writeRecord idFmt true false demoRecord = b " 'P 1/*' 3* -12 2* /\n" := by decide +kernel

example : Conf OpmVerif.DeckIO.conv idFmt demoSchema demoRecord := by
  simp only [Conf, demoSchema, demoRecord]
  refine ⟨by decide, ⟨_, rfl, confVal_str _ _ _ rfl _⟩, by decide, ⟨_, rfl, rfl⟩, by decide, ⟨_, rfl, ⟨rfl, rfl⟩⟩,
    by decide, ⟨_, rfl, rfl⟩, by decide, ⟨_, rfl, confVal_int _ _ rfl _ (by decide) (by decide)⟩,
    by decide, ⟨_, rfl, rfl⟩, by decide, ⟨_, rfl, rfl⟩, trivial⟩

example : ∀ t ∈ emitToks idFmt false false 0 demoRecord.flatten, Atomic t ∧ evenQuotes t = true := by
  have e : emitToks idFmt false false 0 demoRecord.flatten = [b "'P 1/*'", b "3*", b "-12"] := by decide +kernel
  rw [e]
  intro t ht
  simp only [List.mem_cons, List.mem_nil_iff, or_false] at ht
  rcases ht with rfl | rfl | rfl
  · have e2 : b "'P 1/*'" = quoted (b "P 1/*") := by decide +kernel
    rw [e2]; exact atomic_quoted (b "P 1/*") (by decide +kernel)
  · exact ⟨Or.inl (by decide +kernel), by decide +kernel⟩
  · exact ⟨Or.inl (by decide +kernel), by decide +kernel⟩

example : demoRecord.flatten.length ≤ 2147483647 ∧
    (pend false false 0 demoRecord.flatten = 0 ∨ demoRecord.flatten.length ≤ singlePrefix demoSchema) := by decide +kernel

example : parseRecord OpmVerif.DeckIO.conv demoSchema (writtenRecordText idFmt false true demoRecord) = some demoRecord := by
  decide +kernel
example : parseRecord OpmVerif.DeckIO.conv demoSchema (writtenRecordText idFmt true true demoRecord) = some demoRecord := by
  decide +kernel

example : ∀ t, idFmt (idFmt t) = idFmt t := fun _ => rfl

/-- the writer's state leaks into a TITLE keyword (the model mirrors the code as it is):
two defaults pending after the EQLDIMS-like record reappear as `2*` in the title. -/
example : writeDeckM idFmt false ⟨0, 0⟩
    [⟨b "EQLDIMS", false, false, [[[(.int 2, .deck)], [(.int 5, .dflt)], [(.int 7, .dflt)]]]⟩,
     ⟨b "TITLE", false, false, [[[(.str (b "abc"), .deck)]]]⟩] =
    b "EQLDIMS\n 2 /\nTITLE\n   2* 'abc'\n" := by decide +kernel
example : printInt (-2147483648) = b "-2147483648" ∧ classify (starTok 12) = .rep 12 [] := by decide +kernel

/-- the excluded shape: an item of size ALL that ends in defaults does not come back
(the model mirrors the code: the writer drops the pending defaults). -/
example : parseItems OpmVerif.DeckIO.conv [⟨.int, true, some (.int 0)⟩]
    (emitToks idFmt false false 0 [(.int 5, .deck), (.int 0, .dflt), (.int 0, .dflt)]) = some [[(.int 5, .deck)]] := by decide +kernel

/-- … and comes back once `end_record` writes the pending defaults (the candidate fix). -/
example : parseItems OpmVerif.DeckIO.conv [⟨.int, true, some (.int 0)⟩]
    (emitToks idFmt true false 0 [(.int 5, .deck), (.int 0, .dflt), (.int 0, .dflt)]) =
      some [[(.int 5, .deck), (.int 0, .dflt), (.int 0, .dflt)]] := by decide +kernel

/-! ### keyword level -/

/-- `parse_write_keyword` for slash-terminated keywords (WELSPECS, COMPDAT, WCONPROD, …):
the bytes `DeckKeyword::write` produces after the keyword line — one line per record, then
`/` — go through `clean`, line splitting, the keyword assembly state machine, the
tokeniser and `ParserKeyword::parse` and come back as exactly the records written (values,
default flags), with nothing left over.  Every record must emit at least one token: a
record of defaults only is written as a bare `/` and ends the keyword (finding
`C19.alldefault_record`; the theorem's hypothesis is exactly what that finding violates). -/
theorem parse_write_keyword_slash (cv : Conv) (fmt : Bytes → Bytes) (flush : Bool) (recog : Bytes → Bool)
    (schemas : List (List Item)) (alt : Bool) (rs : List (List Vals))
    (hrec : ∀ j r, rs[j]? = some r → ∃ items, schemaOf schemas alt j = some items ∧
      Conf cv fmt items r ∧ r.flatten.length ≤ 2147483647 ∧
      (pend flush false 0 r.flatten = 0 ∨ r.flatten.length ≤ singlePrefix items))
    (htok : ∀ r ∈ rs, emitToks fmt flush false 0 r.flatten ≠ [] ∧
      ∀ t ∈ emitToks fmt flush false 0 r.flatten, LineSafe t ∧ NoNL t) :
    parseKeywordText cv recog slashKw schemas alt false (writeKeywordBody fmt flush rs) =
      some (rs.map (·.map (·.map (normP fmt))), []) :=
  OpmVerif.RawKw.parse_write_keyword_slash cv fmt flush recog schemas alt rs hrec htok

example : writeKeywordBody idFmt false [demoRecord, demoRecord] = b " 'P 1/*' 3* -12 /\n 'P 1/*' 3* -12 /\n/\n" := by
  decide +kernel

example : parseKeywordText OpmVerif.DeckIO.conv (fun _ => false) slashKw [demoSchema] false false
    (writeKeywordBody idFmt false [demoRecord, demoRecord]) = some ([demoRecord, demoRecord], []) := by decide +kernel

/-- the tokens of `demoRecord` are safe inside a record line (quote-aware scans for `/` and
`--` pass over `'P 1/*'`). -/
example : ∀ t ∈ emitToks idFmt false false 0 demoRecord.flatten, LineSafe t ∧ NoNL t := by
  have e : emitToks idFmt false false 0 demoRecord.flatten = [b "'P 1/*'", b "3*", b "-12"] := by decide +kernel
  rw [e]
  intro t ht
  simp only [List.mem_cons, List.mem_nil_iff, or_false] at ht
  rcases ht with rfl | rfl | rfl
  · have e2 : b "'P 1/*'" = quoted (b "P 1/*") := by decide +kernel
    refine ⟨⟨?_, by decide +kernel, by decide +kernel, by decide +kernel⟩, by decide +kernel⟩
    rw [e2]; exact (atomic_quoted (b "P 1/*") (by decide +kernel)).1
  · exact ⟨⟨Or.inl (by decide +kernel), by decide +kernel, by decide +kernel, by decide +kernel⟩, by decide +kernel⟩
  · exact ⟨⟨Or.inl (by decide +kernel), by decide +kernel, by decide +kernel, by decide +kernel⟩, by decide +kernel⟩

/-- the excluded shape at keyword level: the middle record holds only defaults, is written
as a bare `/`, and the re-parsed keyword ends there — the third record is left over. -/
example : (parseKeywordText OpmVerif.DeckIO.conv (fun _ => false) slashKw [demoSchema] false false
    (writeKeywordBody idFmt false [demoRecord, [[(.dummy, .empty)], [(.str (b "FIELD"), .dflt)], [(.dummy, .empty)],
      [(.int 3, .dflt)], [(.dummy, .empty)], [(.str (b "OPEN"), .dflt)], [(.int 0, .dflt)]], demoRecord])).map
        (fun p => (p.1.length, p.2)) = some (1, [b "'P 1/*' 3* -12 /", b "/"]) := by decide +kernel

end OpmVerif.Props.C19
