/-
  C19 — A Deck written as text parses back to the same Deck (record, keyword and deck level).

  Only property statements (one-line proofs from `Proofs/DeckWrite.lean`) and
  non-vacuity examples.  Quantifiers: every schema, every conforming record (`Conf`),
  both layouts (with and without the 7-column line split), every number-conversion
  parameter `cv` and every floating point printing function `fmt`.
-/
import OpmVerif.Proofs.DeckWrite
import OpmVerif.Proofs.RawConsts
import OpmVerif.Proofs.KwRoundTrip
import OpmVerif.Proofs.DeckRoundTrip
import OpmVerif.Proofs.TokCheck
import OpmVerif.Proofs.SiColumns

namespace OpmVerif.Props.C19
open OpmVerif.Lex OpmVerif.Tok OpmVerif.Scan OpmVerif.DeckWrite OpmVerif.RawKw

def b (s : String) : Bytes := s.toUTF8.toList

/-- `parse_write_record`: for every schema record and every item list conforming to it,
parsing the text `DeckRecord::write`/`DeckOutput` produce returns the record: the same
values (floating point tokens in printed form) and the same default flags — embedded
defaults come back from `n*`, trailing ones from the premature end of the record. -/
theorem parse_write_record (cv : Conv) (fmt : Bytes → Bytes) (flush split : Bool) (items : List Item)
    (r : List Vals) (hc : Conf cv fmt items r) (hlen : r.flatten.length ≤ 2147483647)
    (htrail : pend flush false 0 r.flatten = 0 ∨ r.flatten.length ≤ singlePrefix items)
    (hat : ∀ t ∈ emitToks fmt flush false 0 r.flatten, Atomic t ∧ evenQuotes t = true) :
    parseRecord cv items (writtenRecordText fmt flush split r) = some (r.map (·.map (normP fmt))) :=
  OpmVerif.DeckWrite.parse_write_record cv fmt flush split items r hc hlen htrail hat

/-- `flush`: are the defaults still pending at the end of the record written as a final `n*`
(when the record holds an explicit value) or dropped.  The theorems hold for both values.
What the code does is read off DeckOutput.cpp / DeckItem.cpp on every run
(`Gen.RawConsts.outFlushShape`): the original code dropped them (`false`; `htrail` then
excludes the records for which that loses information: an item of size ALL ending in
defaulted values); 452487d0e wrote them in `end_record` (`true`: nothing is dropped once the
record holds an explicit value — this theorem); since 14c7867b0 they are written only behind
an item holding several values, i.e. `flush = lastMulti r` (`flushOf`,
`writer_state_machine_is_the_model`): records of single-valued items drop their trailing
defaults as in the original (harmless: `htrail`'s second disjunct), an item of size ALL with
several values keeps them — and an item of size ALL holding exactly ONE value, defaulted,
behind explicit values is still dropped (`WLIST '*L' NEW 1* /`: finding, see design.d/C19.md). -/
theorem no_restriction_when_pending_defaults_are_written (flat : Vals) (h : ∃ p ∈ flat, p.2 = .deck) :
    pend true false 0 flat = 0 :=
  pend_flush flat h 0

/-- The same at token level (no assumption on the shape of the tokens). -/
theorem parse_write_tokens (cv : Conv) (fmt : Bytes → Bytes) (flush : Bool) (items : List Item) (r : List Vals)
    (hc : Conf cv fmt items r) (hlen : r.flatten.length ≤ 2147483647)
    (htrail : pend flush false 0 r.flatten = 0 ∨ r.flatten.length ≤ singlePrefix items) :
    parseItems cv items (emitToks fmt flush false 0 r.flatten) = some (r.map (·.map (normP fmt))) :=
  OpmVerif.DeckWrite.parse_write_tokens cv fmt flush items r hc hlen htrail

/-- Tokenising the laid-out record gives the emitted tokens; in particular the line
split of data keywords (every 7 entries, a pending `n*` counting as one) is invisible. -/
theorem tokenize_written (split : Bool) (ts : List Bytes) (h : ∀ t ∈ ts, Atomic t) :
    tokenize (layout split 0 ts ++ [32]) = ts :=
  tokenize_layout_record split ts h

/-- The layout constants the writer model uses are `DeckOutput::format` of the source tree
(item separator and record indent one blank, no keyword separator, 7 columns). -/
theorem output_format_is_the_codes :
    OpmVerif.Gen.RawConsts.outItemSep = [32] ∧ OpmVerif.Gen.RawConsts.outRecordIndent = [32] ∧
    OpmVerif.Gen.RawConsts.outKeywordSep = [] ∧ OpmVerif.Gen.RawConsts.outColumns = columns :=
  OpmVerif.Lex.output_format_eq

/-- The literal mirror of the `DeckOutput` state machine (`default_count`, `row_count`,
`write_sep`, `stash_default`, `write<T>`, `flush_defaults`, `start_record`, `end_record` — the
model that is compared byte for byte with `operator<<(std::ostream&, const Deck&)`, TITLE and
state carried between keywords included) writes, for every record, exactly the bytes of the
two-stage writer the theorems above are about — for the three shapes of the code the
translator knows (`shape`: 0 original, 1 = 452487d0e, 2 = 14c7867b0), with `flush = flushOf
shape r`; for the per-item flush of shape 2 only the last item of the record may hold several
values (`MultiOnlyLast`: true of every record `ParserRecord::parse` returns). -/
theorem writer_state_machine_is_the_model (fmt : Bytes → Bytes) (shape : Nat) (split : Bool) (r : List Vals)
    (h : shape ≤ 1 ∨ MultiOnlyLast r) :
    (writeRecordM fmt shape split r).1 = writeRecord fmt (flushOf shape r) split r :=
  writeRecordM_eq fmt shape split r h

/-- `int_print_parse`: the decimal rendering of every `int` parses back to it. -/
theorem int_print_parse (i : Int) (hlo : -2147483648 ≤ i) (hhi : i ≤ 2147483647) :
    OpmVerif.DeckIO.readIntDec (printInt i) = some i :=
  OpmVerif.DeckWrite.int_print_parse i hlo hhi

/-- The token `n*` the writer emits for `n` pending defaults is the repeat token of count
`n` without value. -/
theorem pending_defaults_token (n : Nat) (h1 : 1 ≤ n) (h2 : n ≤ 2147483647) :
    classify (starTok n) = .rep n [] :=
  classify_starTok n h1 h2

/-- `write_fixpoint`: print(parse(print r)) = print r, given the single assumption on
floating point printing: re-reading a printed token prints the same token. -/
theorem write_fixpoint (fmt : Bytes → Bytes) (hf : ∀ t, fmt (fmt t) = fmt t) (flush split : Bool) (r : List Vals) :
    writeRecord fmt flush split (r.map (·.map (normP fmt))) = writeRecord fmt flush split r :=
  OpmVerif.DeckWrite.write_fixpoint fmt hf flush split r

/-- Integers in `int` range and all strings satisfy `ConfVal` for the concrete
recognisers of the driver; quote-free strings print as atomic tokens. -/
theorem ints_and_strings_conform (fmt : Bytes → Bytes) (it : Item) :
    (it.ty = .int → ∀ i : Int, -2147483648 ≤ i → i ≤ 2147483647 → ConfVal OpmVerif.DeckIO.conv fmt it (.int i, .deck)) ∧
    (it.ty = .string → ∀ s : Bytes, ConfVal OpmVerif.DeckIO.conv fmt it (.str s, .deck)) ∧
    (∀ s : Bytes, (∀ x ∈ s, x ≠ 39) → Atomic (quoted s) ∧ evenQuotes (quoted s) = true) :=
  ⟨fun h i a c => confVal_int fmt it h i a c, fun h s => confVal_str _ fmt it h s, atomic_quoted⟩

/-! Non-vacuity: a WELSPECS-like record with an embedded run of defaults, a string with
a blank, a slash and a star, a negative integer and trailing defaults. -/

def demoSchema : List Item :=
  [⟨.string, false, none⟩, ⟨.string, false, some (.str (b "FIELD"))⟩, ⟨.int, false, none⟩,
   ⟨.int, false, some (.int 3)⟩, ⟨.int, false, none⟩, ⟨.string, false, some (.str (b "OPEN"))⟩, ⟨.int, false, some (.int 0)⟩]

def demoRecord : List Vals :=
  [[(.str (b "P 1/*"), .deck)], [(.str (b "FIELD"), .dflt)], [(.dummy, .empty)], [(.int 3, .dflt)],
   [(.int (-12), .deck)], [(.str (b "OPEN"), .dflt)], [(.int 0, .dflt)]]

example : writeRecord idFmt false false demoRecord = b " 'P 1/*' 3* -12 /\n" := by decide +kernel
example : writeRecord idFmt true false demoRecord = b " 'P 1/*' 3* -12 2* /\n" := by decide +kernel

example : Conf OpmVerif.DeckIO.conv idFmt demoSchema demoRecord := by
  simp only [Conf, demoSchema, demoRecord]
  refine ⟨by decide, ⟨_, rfl, confVal_str _ _ _ rfl _⟩, by decide, ⟨_, rfl, rfl⟩, by decide, ⟨_, rfl, ⟨rfl, rfl⟩⟩,
    by decide, ⟨_, rfl, rfl⟩, by decide, ⟨_, rfl, confVal_int _ _ rfl _ (by decide) (by decide)⟩,
    by decide, ⟨_, rfl, rfl⟩, by decide, ⟨_, rfl, rfl⟩, trivial⟩

example : ∀ t ∈ emitToks idFmt false false 0 demoRecord.flatten, Atomic t ∧ evenQuotes t = true := by
  have e : emitToks idFmt false false 0 demoRecord.flatten = [b "'P 1/*'", b "3*", b "-12"] := by decide +kernel
  rw [e]
  intro t ht
  simp only [List.mem_cons, List.mem_nil_iff, or_false] at ht
  rcases ht with rfl | rfl | rfl
  · have e2 : b "'P 1/*'" = quoted (b "P 1/*") := by decide +kernel
    rw [e2]; exact atomic_quoted (b "P 1/*") (by decide +kernel)
  · exact ⟨Or.inl (by decide +kernel), by decide +kernel⟩
  · exact ⟨Or.inl (by decide +kernel), by decide +kernel⟩

example : demoRecord.flatten.length ≤ 2147483647 ∧
    (pend false false 0 demoRecord.flatten = 0 ∨ demoRecord.flatten.length ≤ singlePrefix demoSchema) := by decide +kernel

example : parseRecord OpmVerif.DeckIO.conv demoSchema (writtenRecordText idFmt false true demoRecord) = some demoRecord := by
  decide +kernel
example : parseRecord OpmVerif.DeckIO.conv demoSchema (writtenRecordText idFmt true true demoRecord) = some demoRecord := by
  decide +kernel

example : ∀ t, idFmt (idFmt t) = idFmt t := fun _ => rfl

/-- the writer's state leaks into a TITLE keyword (the model mirrors the code as it is):
two defaults pending after the EQLDIMS-like record reappear as `2*` in the title. -/
example : writeDeckM idFmt 0 ⟨0, 0⟩
    [⟨b "EQLDIMS", false, false, [[[(.int 2, .deck)], [(.int 5, .dflt)], [(.int 7, .dflt)]]]⟩,
     ⟨b "TITLE", false, false, [[[(.str (b "abc"), .deck)]]]⟩] =
    b "EQLDIMS\n 2 /\nTITLE\n   2* 'abc'\n" := by decide +kernel
example : printInt (-2147483648) = b "-2147483648" ∧ classify (starTok 12) = .rep 12 [] := by decide +kernel

/-- the excluded shape: an item of size ALL that ends in defaults does not come back
(the model mirrors the code: the writer drops the pending defaults). -/
example : parseItems OpmVerif.DeckIO.conv [⟨.int, true, some (.int 0)⟩]
    (emitToks idFmt false false 0 [(.int 5, .deck), (.int 0, .dflt), (.int 0, .dflt)]) = some [[(.int 5, .deck)]] := by decide +kernel

/-- … and comes back once `end_record` writes the pending defaults (the candidate fix). -/
example : parseItems OpmVerif.DeckIO.conv [⟨.int, true, some (.int 0)⟩]
    (emitToks idFmt true false 0 [(.int 5, .deck), (.int 0, .dflt), (.int 0, .dflt)]) =
      some [[(.int 5, .deck), (.int 0, .dflt), (.int 0, .dflt)]] := by decide +kernel

/-- the code as it is now (shape 2, 14c7867b0): trailing defaults of single-valued items are
dropped as in the original code, those of an item holding several values are written. -/
example : (writeRecordM idFmt 2 false demoRecord).1 = b " 'P 1/*' 3* -12 /\n" ∧
    (writeRecordM idFmt 1 false demoRecord).1 = b " 'P 1/*' 3* -12 2* /\n" ∧
    (writeRecordM idFmt 2 false [[(.int 1, .deck), (.int 2, .deck), (.int 0, .dflt), (.int 0, .dflt)]]).1 = b " 1 2 2* /\n" ∧
    flushOf 2 demoRecord = false ∧ MultiOnlyLast demoRecord := by decide +kernel

/-- what is still dropped (finding, real code: `WLIST\n '*L' NEW 1* /\n/`): an item of size ALL
holding exactly ONE value, defaulted, behind explicit values — `data_size() > 1` does not see
it; it comes back empty.  `htrail` fails for this record (model and code agree). -/
example : (writeRecordM idFmt 2 false [[(.str (b "*L"), .deck)], [(.str (b "NEW"), .deck)], [(.dummy, .empty)]]).1 =
      b " '*L' 'NEW' /\n" ∧
    parseItems OpmVerif.DeckIO.conv [⟨.string, false, none⟩, ⟨.string, false, none⟩, ⟨.string, true, none⟩]
      (emitToks idFmt (flushOf 2 [[(.str (b "*L"), .deck)], [(.str (b "NEW"), .deck)], [(.dummy, .empty)]]) false 0
        [(.str (b "*L"), .deck), (.str (b "NEW"), .deck), (.dummy, .empty)]) =
      some [[(.str (b "*L"), .deck)], [(.str (b "NEW"), .deck)], []] ∧
    ¬ (pend (flushOf 2 [[(.str (b "*L"), .deck)], [(.str (b "NEW"), .deck)], [(.dummy, .empty)]]) false 0
        [(.str (b "*L"), .deck), (.str (b "NEW"), .deck), (.dummy, .empty)] = 0 ∨
       3 ≤ singlePrefix [⟨.string, false, none⟩, ⟨.string, false, none⟩, ⟨.string, true, none⟩]) := by decide +kernel

/-! ### keyword level -/

/-- `parse_write_keyword` for slash-terminated keywords (WELSPECS, COMPDAT, WCONPROD, …):
the bytes `DeckKeyword::write` produces after the keyword line — one line per record, then
`/` — go through `clean`, line splitting, the keyword assembly state machine, the
tokeniser and `ParserKeyword::parse` and come back as exactly the records written (values,
default flags), with nothing left over.  Every record must emit at least one token: a
record of defaults only is written as a bare `/` and ends the keyword (finding
`C19.alldefault_record`; the theorem's hypothesis is exactly what that finding violates). -/
theorem parse_write_keyword_slash (cv : Conv) (fmt : Bytes → Bytes) (flush : Bool) (recog : Bytes → Bool)
    (schemas : List (List Item)) (alt : Bool) (rs : List (List Vals))
    (hrec : ∀ j r, rs[j]? = some r → ∃ items, schemaOf schemas alt j = some items ∧
      Conf cv fmt items r ∧ r.flatten.length ≤ 2147483647 ∧
      (pend flush false 0 r.flatten = 0 ∨ r.flatten.length ≤ singlePrefix items))
    (htok : ∀ r ∈ rs, emitToks fmt flush false 0 r.flatten ≠ [] ∧
      ∀ t ∈ emitToks fmt flush false 0 r.flatten, LineSafe t ∧ NoNL t) :
    parseKeywordText cv recog slashKw schemas alt false (writeKeywordBody fmt flush rs) =
      some (rs.map (·.map (·.map (normP fmt))), []) :=
  OpmVerif.RawKw.parse_write_keyword_slash cv fmt flush recog schemas alt rs hrec htok

example : writeKeywordBody idFmt false [demoRecord, demoRecord] = b " 'P 1/*' 3* -12 /\n 'P 1/*' 3* -12 /\n/\n" := by
  decide +kernel

example : parseKeywordText OpmVerif.DeckIO.conv (fun _ => false) slashKw [demoSchema] false false
    (writeKeywordBody idFmt false [demoRecord, demoRecord]) = some ([demoRecord, demoRecord], []) := by decide +kernel

/-- the tokens of `demoRecord` are safe inside a record line (quote-aware scans for `/` and
`--` pass over `'P 1/*'`). -/
example : ∀ t ∈ emitToks idFmt false false 0 demoRecord.flatten, LineSafe t ∧ NoNL t := by
  have e : emitToks idFmt false false 0 demoRecord.flatten = [b "'P 1/*'", b "3*", b "-12"] := by decide +kernel
  rw [e]
  intro t ht
  simp only [List.mem_cons, List.mem_nil_iff, or_false] at ht
  rcases ht with rfl | rfl | rfl
  · have e2 : b "'P 1/*'" = quoted (b "P 1/*") := by decide +kernel
    refine ⟨⟨?_, by decide +kernel, by decide +kernel, by decide +kernel⟩, by decide +kernel⟩
    rw [e2]; exact (atomic_quoted (b "P 1/*") (by decide +kernel)).1
  · exact ⟨⟨Or.inl (by decide +kernel), by decide +kernel, by decide +kernel, by decide +kernel⟩, by decide +kernel⟩
  · exact ⟨⟨Or.inl (by decide +kernel), by decide +kernel, by decide +kernel, by decide +kernel⟩, by decide +kernel⟩

/-- the excluded shape at keyword level: the middle record holds only defaults, is written
as a bare `/`, and the re-parsed keyword ends there — the third record is left over. -/
example : (parseKeywordText OpmVerif.DeckIO.conv (fun _ => false) slashKw [demoSchema] false false
    (writeKeywordBody idFmt false [demoRecord, [[(.dummy, .empty)], [(.str (b "FIELD"), .dflt)], [(.dummy, .empty)],
      [(.int 3, .dflt)], [(.dummy, .empty)], [(.str (b "OPEN"), .dflt)], [(.int 0, .dflt)]], demoRecord])).map
        (fun p => (p.1.length, p.2)) = some (1, [b "'P 1/*' 3* -12 /", b "/"]) := by decide +kernel


/-! ### second round: every size class, TITLE, the whole deck -/

section second_round
open OpmVerif.Deck

/-- **`parse_write_keyword`, every size class that ends by itself** (slash terminated, fixed
size incl. data keywords, table collection; ordinary and raw-string keywords; with and without
the line split every `columns = 7` entries): the bytes `DeckKeyword::write` produces after the
keyword line — records, closing `/` if the keyword has one — go through `clean`, line
splitting, the keyword assembly state machine, the tokeniser and `ParserKeyword::parse` and
come back as exactly the records written, with nothing left over.  `RunOk` is the size-class
condition on the written records (theorems `size_class_*` below), `BodyOk` the condition on
the tokens (safe inside a line, no line mistaken for the next keyword). -/
theorem parse_write_keyword (cv : Conv) (fmt : Bytes → Bytes) (fl : List Vals → Bool) (split closing : Bool) (recog : Bytes → Bool)
    (k0 : Kw) (hk0 : k0.records = []) (hnf : k0.finished = false) (schemas : List (List Item)) (alt : Bool)
    (rs : List (List Vals)) (hne : rs ≠ [] ∨ closing = true)
    (hrun : RunOk k0 (rs.map fun r => emitToks fmt (fl r) false 0 r.flatten) closing)
    (hbody : BodyOk recog k0.raw split closing (rs.map fun r => emitToks fmt (fl r) false 0 r.flatten))
    (hrec : ∀ j r, rs[j]? = some r → ∃ items, schemaOf schemas alt j = some items ∧
      Conf cv fmt items r ∧ r.flatten.length ≤ 2147483647 ∧
      (pend (fl r) false 0 r.flatten = 0 ∨ r.flatten.length ≤ singlePrefix items)) :
    parseKeywordText cv recog k0 schemas alt false (bodyText fmt fl split closing rs) =
      some (rs.map (·.map (·.map (normP fmt))), []) :=
  parse_write_keyword_text cv fmt fl split closing recog k0 hk0 hnf schemas alt rs hne hrun hbody hrec

/-- slash-terminated keywords (WELSPECS, COMPDAT; raw strings: UDQ, ACTIONX): the run is fine
iff every record emits a token — a record of defaults only is written as a bare `/` and
ends the keyword (finding `C19.alldefault_record`). -/
theorem size_class_slash (tss : List (List Bytes)) (k : Kw) (hk : IsSlash k) (h : ∀ t ∈ tss, t ≠ []) :
    RunOk k tss true :=
  runOk_slash tss k hk h

/-- fixed-size keywords (EQUIL with EQLDIMS, INCLUDE, data keywords such as PORO = one
record): exactly as many records as the size, each emitting a token; no closing `/`. -/
theorem size_class_fixed (tss : List (List Bytes)) (k : Kw) (n : Nat) (hk : IsFixed k n) (hne : tss ≠ [])
    (h : ∀ t ∈ tss, t ≠ []) (hlen : k.records.length + tss.length = n) : RunOk k tss false :=
  runOk_fixed tss k n hk hne h hlen

/-- the same without the condition on the records, for keywords without a smaller minimum
size (`min_size` absent): a bare `/` does not terminate them, it is read as an empty record. -/
theorem size_class_fixed_alldefault_ok (tss : List (List Bytes)) (k : Kw) (n : Nat) (hk : IsFixed k n)
    (hmin : k.minSize = n) (hne : tss ≠ []) (hlen : k.records.length + tss.length = n) : RunOk k tss false :=
  runOk_fixed_min tss k n hk hmin hne hlen

/-- table collections (PVTO, PVTG): the records that emit no token are exactly the
`numTables - 1` table separators (`ParserKeyword::parse` makes the all-default record of an
empty raw record, `DeckOutput` writes it back as the bare `/`), then the closing `/`. -/
theorem size_class_table (tss : List (List Bytes)) (k : Kw) (hk : IsTable k)
    (h : k.curTables + emptyCount tss + 1 = k.numTables) : RunOk k tss true :=
  runOk_table tss k hk h

/-- double-slash keywords (double-record keywords): blocks of records, each closed by the
empty record, no two empty records in a row, then the closing `/`. -/
theorem size_class_double (tss : List (List Bytes)) (k : Kw) (hk : IsDbl k) (h : DblOk k.tempFinished tss) :
    RunOk k tss true :=
  runOk_dbl tss k hk h

/-- double-record keywords: the empty `DeckRecord` that closes a block comes back as such,
and the record numbering restarts behind it. -/
theorem parse_write_keyword_double_record (cv : Conv) (fmt : Bytes → Bytes) (fl : List Vals → Bool) (split : Bool) (recog : Bytes → Bool)
    (k0 : Kw) (hk0 : k0.records = []) (schemas : List (List Item)) (alt : Bool) (rs : List (List Vals)) (R : Bytes)
    (hrun : RunOk k0 (rs.map fun r => emitToks fmt (fl r) false 0 r.flatten) true)
    (hbody : BodyOk recog k0.raw split true (rs.map fun r => emitToks fmt (fl r) false 0 r.flatten))
    (hrec : DblConf (fun r => emitToks fmt (fl r) false 0 r.flatten)
      (fun j r => ∃ items, schemaOf schemas alt j = some items ∧ Conf cv fmt items r ∧ r.flatten.length ≤ 2147483647 ∧
        (pend (fl r) false 0 r.flatten = 0 ∨ r.flatten.length ≤ singlePrefix items)) 0 rs) :
    ∃ kf, feedLines recog k0 [] [] (splitLines (fastClean (bodyText fmt fl split true rs ++ R))) =
        some (kf, splitLines (fastClean R)) ∧ kf.finished = true ∧
      parseRecordsDouble cv schemas alt 0 kf.records = some (rs.map (·.map (·.map (normP fmt)))) :=
  parse_write_keyword_double cv fmt fl split recog k0 hk0 schemas alt rs R hrun hbody hrec

/-- keywords of unknown size (VFPPROD, …; written without a closing `/`): the written records
are assembled into exactly those records; the keyword ends at the end of the input or at the
line of the next recognised keyword, which stays in the input. -/
theorem assemble_written_unknown_size (fmt : Bytes → Bytes) (fl : List Vals → Bool) (split : Bool) (recog : Bytes → Bool) (k0 : Kw)
    (hk : IsUnknown k0) (rs : List (List Vals)) (hne : rs ≠ [])
    (hemit : ∀ r ∈ rs, emitToks fmt (fl r) false 0 r.flatten ≠ [])
    (hbody : BodyOk recog k0.raw split false (rs.map fun r => emitToks fmt (fl r) false 0 r.flatten))
    (R : Bytes) (next : Bytes) (rest : List Bytes)
    (hR : splitLines (fastClean R) = [] ∨ splitLines (fastClean R) = [[]] ∨
      (splitLines (fastClean R) = next :: rest ∧ next ≠ eofMark ∧ next.isEmpty = false ∧
        recog (makeDeckName next) = true)) :
    ∃ kf, feedLines recog k0 [] [] (splitLines (fastClean (bodyText fmt fl split false rs ++ R))) =
        some (kf, if splitLines (fastClean R) = [[]] then [] else splitLines (fastClean R)) ∧ kf.finished = true ∧
      kf.records = k0.records ++ rs.map fun r => emitToks fmt (fl r) false 0 r.flatten :=
  assemble_written_unknown fmt fl split recog k0 hk rs hne hemit hbody R next rest hR

/-- the line split of data keywords: a written record, with or without the split, with or
without tokens, cleans to the lines of its chunks (`recLines`); the text behind it is cleaned
on its own. -/
theorem written_record_lines (split : Bool) (ts : List Bytes) (h : ∀ t ∈ ts, CleanSafe t ∧ NoNL t) (R : Bytes) :
    splitLines (fastClean (recordText split ts ++ R)) = recLines (chunksOf split ts) ++ splitLines (fastClean R) :=
  lines_recordText split ts h R

/-- TITLE: `TITLE\n  <entries>\n` as `write_TITLE` writes it is read back — the line after
TITLE is the record whatever it holds — from any keyword boundary, in front of any text. -/
theorem parse_write_title (cv : Conv) (fmt : Bytes → Bytes) (fl : List Vals → Bool) (tbl : Table) (recog : Bytes → Bool)
    (files : List (Bytes × Bytes) → Bytes → Option Bytes) (fuel : Nat) (al : List (Bytes × Bytes))
    (deck : DeckT) (lead : Bytes) (r : List Vals) (R : Bytes) (h : TitleConf cv fmt fl tbl deck lead r) :
    parseLoop cv tbl recog files (fuel + 1) al deck (splitLines (fastClean (titleText fmt lead r ++ R))) =
      parseLoop cv tbl recog files fuel al (deck ++ [⟨nameTITLE, normRecords fmt [r]⟩]) (splitLines (fastClean R)) :=
  parseLoop_written_title cv fmt fl tbl recog files fuel al deck lead r R h

/-- **`parse_write_deck`**: `parseDeck (writeDeck d) = d` for every deck that `Conforms` — by
induction over the keyword list; each keyword conforms relative to the keywords before it as
they come back from the parser (sizes taken from TABDIMS, EQLDIMS, … are those of the deck
being rebuilt).  What `Conforms` excludes are the recorded findings: a record of defaults only
inside a slash-terminated or fixed-size keyword (`C19.alldefault_record`: `RunOk` fails), code
keywords (`C19.code_keyword_end_token`: printed without their end token; not in the model),
floating point tokens that do not read back (`C19.double_overflow`: `Conf`); and, as a limit
of this theorem, keywords of unknown size and double-record keywords (covered at keyword level
above). -/
theorem parse_write_deck (cv : Conv) (fmt : Bytes → Bytes) (fl : List Vals → Bool) (tbl : Table) (recog : Bytes → Bool)
    (files : List (Bytes × Bytes) → Bytes → Option Bytes) (ks : List DK)
    (h : Conforms cv fmt fl tbl recog [] ks) :
    parseDeckText cv tbl recog files (ks.length + 2) (deckText fmt fl ks) = some (ks.map (DK.result fmt)) :=
  OpmVerif.Deck.parse_write_deck cv fmt fl tbl recog files ks h

/-- the text `parse_write_deck` is about is what the literal mirror of `DeckOutput` /
`Deck::write` writes (the mirror is compared byte for byte with the real
`operator<<(std::ostream&, const Deck&)` in the correspondence), TITLE included. -/
theorem deck_writer_mirror_writes_deckText (fmt : Bytes → Bytes) (shape : Nat) (hs : 1 ≤ shape) (ks : List KwOut)
    (st : OutState) (hdc : st.dc = 0)
    (htitle : ∀ k ∈ ks, k.name = titleName → ∀ p ∈ (k.records.headD []).flatten, p.2 = .deck)
    (hmulti : ∀ k ∈ ks, k.name ≠ titleName → ∀ r ∈ k.records, shape ≤ 1 ∨ MultiOnlyLast r) :
    writeDeckM fmt shape st ks = deckText fmt (flushOf shape) (toDKs fmt shape st ks) :=
  writeDeckM_eq_deckText fmt shape hs ks st hdc htitle hmulti

/-! non-vacuity: one keyword of each class -/

def fixedKw (n : Nat) : Kw :=
  { sizeType := .fixed, raw := false, records := [], minSize := n, fixedSize := n,
    numTables := 0, curTables := 0, tempFinished := false, finished := n == 0 }
def tableKw (n : Nat) : Kw :=
  { sizeType := .tableCollection, raw := false, records := [], minSize := n, fixedSize := 0,
    numTables := n, curTables := 0, tempFinished := false, finished := false }
def dblKw : Kw :=
  { sizeType := .doubleSlash, raw := false, records := [], minSize := 0, fixedSize := 0,
    numTables := 0, curTables := 0, tempFinished := false, finished := false }
def rawSlashKw : Kw := { slashKw with raw := true }

example : mkKw .fixed false none 2 = some (fixedKw 2) ∧ mkKw .tableCollection false none 2 = some (tableKw 2) ∧
    mkKw .doubleSlash false none 0 = some dblKw ∧ mkKw .slashTerminated true none 0 = some rawSlashKw := by decide

/-- a data keyword (one record, size ALL) with ten values: two lines after the split. -/
def dataRecord : List Vals := [([1, 2, 3, 4, 5, 6, 7, 8, 9, 10] : List Int).map fun i => (Val.int i, Status.deck)]

example : bodyText idFmt (flushOf 2) true false [dataRecord] = b " 1 2 3 4 5 6 7\n 8 9 10 /\n" := by decide +kernel
example : (chunksOf true (emitToks idFmt (flushOf 2 dataRecord) false 0 dataRecord.flatten)).map (·.length) = [7, 3] := by decide +kernel
example : RunOk (fixedKw 1) ([dataRecord].map fun r => emitToks idFmt (flushOf 2 r) false 0 r.flatten) false :=
  runOk_fixed _ _ 1 ⟨rfl, rfl, rfl⟩ (by decide) (by decide +kernel) (by decide)
example : BodyOk (fun _ => false) false true false ([dataRecord].map fun r => emitToks idFmt (flushOf 2 r) false 0 r.flatten) :=
  bodyOk_of_B (by decide +kernel)
example : parseKeywordText OpmVerif.DeckIO.conv (fun _ => false) (fixedKw 1) [[⟨.int, true, none⟩]] false false
    (bodyText idFmt (flushOf 2) true false [dataRecord]) = some ([dataRecord], []) := by decide +kernel

/-- a table collection with two tables: the record without tokens is the separator. -/
def pvtoSchema : List (List Item) := [[⟨.int, false, none⟩, ⟨.int, true, some (.int 0)⟩]]
def pvtoRecords : List (List Vals) :=
  [[[(.int 1, .deck)], [(.int 10, .deck), (.int 20, .deck)]], [[(.int 2, .deck)], [(.int 30, .deck)]],
   [[(.dummy, .empty)], []],
   [[(.int 3, .deck)], [(.int 40, .deck)]]]

example : bodyText idFmt (flushOf 2) false true pvtoRecords = b " 1 10 20 /\n 2 30 /\n /\n 3 40 /\n/\n" := by decide +kernel
example : RunOk (tableKw 2) (pvtoRecords.map fun r => emitToks idFmt (flushOf 2 r) false 0 r.flatten) true :=
  runOk_table _ _ ⟨rfl, rfl, rfl⟩ (by decide +kernel)
example : BodyOk (fun _ => false) false false true (pvtoRecords.map fun r => emitToks idFmt (flushOf 2 r) false 0 r.flatten) :=
  bodyOk_of_B (by decide +kernel)
example : parseKeywordText OpmVerif.DeckIO.conv (fun _ => false) (tableKw 2) pvtoSchema false false
    (bodyText idFmt (flushOf 2) false true pvtoRecords) = some (pvtoRecords, []) := by decide +kernel

/-- a raw-string keyword (UDQ-like): tokens may hold slashes, the last slash ends the record. -/
def udqRecords : List (List Vals) :=
  [[[(.raw (b "DEFINE"), .deck)], [(.raw (b "WUX"), .deck)], [(.raw (b "WOPR/2"), .deck), (.raw (b "/"), .deck), (.raw (b "'W 1'"), .deck)]]]

example : bodyText idFmt (flushOf 2) false true udqRecords = b " DEFINE WUX WOPR/2 / 'W 1' /\n/\n" := by decide +kernel
example : RunOk rawSlashKw (udqRecords.map fun r => emitToks idFmt (flushOf 2 r) false 0 r.flatten) true :=
  runOk_slash _ _ ⟨rfl, rfl, rfl⟩ (by decide +kernel)
example : BodyOk (fun _ => false) true false true (udqRecords.map fun r => emitToks idFmt (flushOf 2 r) false 0 r.flatten) :=
  bodyOk_of_B (by decide +kernel)
example : parseKeywordText OpmVerif.DeckIO.conv (fun _ => false) rawSlashKw
    [[⟨.rawString, false, none⟩, ⟨.rawString, false, none⟩, ⟨.rawString, true, none⟩]] false false
    (bodyText idFmt (flushOf 2) false true udqRecords) = some (udqRecords, []) := by decide +kernel

/-- a double-record keyword: two blocks, each closed by the empty record. -/
def dblRecords : List (List Vals) := [[[(.int 1, .deck)]], [[(.int 2, .deck)]], [], [[(.int 3, .deck)]], []]

example : bodyText idFmt (flushOf 2) false true dblRecords = b " 1 /\n 2 /\n /\n 3 /\n /\n/\n" := by decide +kernel
example : RunOk dblKw (dblRecords.map fun r => emitToks idFmt (flushOf 2 r) false 0 r.flatten) true :=
  runOk_dbl _ _ ⟨rfl, rfl, rfl⟩ (by decide +kernel)
example : parseKeywordText OpmVerif.DeckIO.conv (fun _ => false) dblKw [[⟨.int, false, none⟩], [⟨.int, false, none⟩]] false true
    (bodyText idFmt (flushOf 2) false true dblRecords) = some (dblRecords, []) := by decide +kernel

/-- a fixed-size keyword without a smaller minimum size is not ended by a bare `/`: a record
of defaults only comes back (EQUIL-like, two records, the first one all defaults). -/
example : RunOk (fixedKw 2) [[], [b "1"]] false := runOk_fixed_min _ _ 2 ⟨rfl, rfl, rfl⟩ rfl (by decide) (by decide)
example : parseKeywordText OpmVerif.DeckIO.conv (fun _ => false) (fixedKw 2) [[⟨.int, false, some (.int 7)⟩]] false false
    (bodyText idFmt (flushOf 2) false false [[[(.int 7, .dflt)]], [[(.int 1, .deck)]]]) =
      some ([[[(.int 7, .dflt)]], [[(.int 1, .deck)]]], []) := by decide +kernel

/-- a small deck: TABDIMS-like sizes, a table collection sized by it, a data keyword, TITLE. -/
def deckTable : Table :=
  [(b "TABDIMS", ⟨.fixed 1, false, none, [[⟨.int, false, some (.int 1)⟩, ⟨.int, false, some (.int 1)⟩]], false, false⟩),
   (b "PVTO", ⟨.other (b "TABDIMS") 1 true, false, none, pvtoSchema, false, false⟩),
   (b "PORO", ⟨.fixed 1, false, none, [[⟨.int, true, none⟩]], false, false⟩),
   (b "OIL", ⟨.fixed 0, false, none, [], false, false⟩),
   (b "TITLE", ⟨.fixed 1, false, none, [[⟨.string, true, none⟩]], false, false⟩)]

def demoDeck : List DK :=
  [.kw ⟨b "OIL", false, false, []⟩,
   .kw ⟨b "TABDIMS", false, false, [[[(.int 1, .dflt)], [(.int 2, .deck)]]]⟩,
   .title [] [[(.str (b "My"), .deck), (.str (b "deck 1"), .deck)]],
   .kw ⟨b "PVTO", false, true, pvtoRecords⟩,
   .kw ⟨b "PORO", true, false, [dataRecord]⟩]

example : deckText idFmt (flushOf 2) demoDeck =
    b "OIL\nTABDIMS\n 1* 2 /\nTITLE\n  'My' 'deck 1'\nPVTO\n 1 10 20 /\n 2 30 /\n /\n 3 40 /\n/\nPORO\n 1 2 3 4 5 6 7\n 8 9 10 /\n" := by
  decide +kernel

example : parseDeckText OpmVerif.DeckIO.conv deckTable (fun n => (lookup deckTable n).isSome) (fun _ _ => none) 7
    (deckText idFmt (flushOf 2) demoDeck) = some (demoDeck.map (DK.result idFmt)) := by decide +kernel

/-- `DeckItem::write` on an item whose SI data were requested before (TableManager,
EclipseState, Schedule construction): the storage is converted back column by column with
`dim[i % ndim]` — over an exact field `fromSI ∘ toSI = id` for every number of columns and
every list of values (the `example` in `Proofs/SiColumns.lean`: converting back with the first
dimension only does not).  The floating point side is what property mode compares
(`roundtrip_after_si`). -/
theorem si_roundtrip_columnwise (dims : List OpmVerif.SiColumns.Dim) (d0 : OpmVerif.SiColumns.Dim)
    (hd0 : d0.factor ≠ 0) (h : ∀ d ∈ dims, d.factor ≠ 0) (vs : List Rat) (i : Nat) :
    OpmVerif.SiColumns.fromSIAll dims d0 i (OpmVerif.SiColumns.toSIAll dims d0 i vs) = vs :=
  OpmVerif.SiColumns.si_roundtrip_columnwise dims d0 hd0 h vs i

end second_round

end OpmVerif.Props.C19
