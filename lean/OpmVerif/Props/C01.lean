/-
  C01 — Deck content is invariant under lexical re-layout of the input.

  Only property statements (one-line proofs from `Proofs/{Lex,Tok,Scan,RawConsts}.lean`)
  and non-vacuity examples.  Quantifiers: every byte string (lines, records), every
  token list, every record schema (item types int/double/string/UDA, sizes SINGLE/ALL,
  with or without default), every position of the rewrite inside the text, every
  separator run.  Number conversion (`boost::spirit::qi`) is the parameter `cv`.
-/
import OpmVerif.Proofs.DeckRelayout
import OpmVerif.Proofs.TokCheck
import OpmVerif.Proofs.Lex
import OpmVerif.Proofs.LexSafe
import OpmVerif.Proofs.Tok
import OpmVerif.Proofs.Scan
import OpmVerif.Proofs.RawConsts
import OpmVerif.Proofs.LexMirror
import OpmVerif.Proofs.RawKw
import OpmVerif.Proofs.Relayout
import OpmVerif.Proofs.Deck
import OpmVerif.Proofs.IncStack

namespace OpmVerif.Props.C01
open OpmVerif.Lex OpmVerif.Tok OpmVerif.Scan OpmVerif.RawKw OpmVerif.Deck OpmVerif.DeckWrite

def b (s : String) : Bytes := s.toUTF8.toList

/-! ### comments -/

/-- Stripping comments is idempotent. -/
theorem strip_comments_idempotent (l : Bytes) : stripComments (stripComments l) = stripComments l :=
  stripComments_idem l

/-- A `-- comment` appended to a line whose quotes are balanced and that does not end in
`-` disappears without trace. -/
theorem strip_comments_appended (l c : Bytes) (hb : BalancedNoComment l) (hlast : l.getLast? ≠ some 45) :
    stripComments (l ++ 45 :: 45 :: c) = stripComments l :=
  stripComments_append_comment l c hb hlast

/-- The cleaned line (`trim(strip_comments(line))`) is unchanged by appending
`<separator>-- anything` to any line that does not end inside an open quotation. -/
theorem cleaned_line_ignores_comment (l c : Bytes) (s : UInt8) (hs : isSep s = true) (hq : ClosedQuotes l) :
    cleanLine (l ++ s :: 45 :: 45 :: c) = cleanLine l :=
  cleanLine_append_comment l c s hs hq

example : BalancedNoComment (b "WELSPECS 'P--1' 'G' 1 /") ∧ (b "WELSPECS 'P--1' 'G' 1 /").getLast? ≠ some 45 := by decide +kernel
example : ClosedQuotes (b " 'P--1' 'G' 1* /") ∧ isSep 9 = true := by decide +kernel
example : cleanLine (b "  'P--1'\t'G' 1* / \t-- it's a comment '") = b "'P--1'\t'G' 1* /" := by decide +kernel

/-- The recursion of `find_terminator` as written in Parser.cpp (`std::find` for the
terminator, `std::find_if` for the first quote, `std::find` for the closing quote, recursive
call behind it) computes exactly the quote-aware state machine the theorems above are
about — for every byte string, for `--` and for `/`; fuel `length + 1` always suffices. -/
theorem find_terminator_is_the_state_machine (l : Bytes) :
    stripCommentsM l = stripComments l ∧ delAfterFirstSlashM l = delAfterFirstSlash l :=
  ⟨stripCommentsM_eq l, delAfterFirstSlashM_eq l⟩

example : stripCommentsM (b "A 'x--y' \"--\" -- c 'd") = b "A 'x--y' \"--\" " := by decide +kernel

/-! ### blanks, tabs, commas, CR at line ends; blank and comment-only lines -/

/-- Separators in front of and behind a line never change the cleaned line. -/
theorem cleaned_line_ignores_outer_separators (s1 l s2 : Bytes) (h1 : ∀ x ∈ s1, isSep x = true)
    (h2 : ∀ x ∈ s2, isSep x = true) : cleanLine (s1 ++ l ++ s2) = cleanLine l :=
  cleanLine_sep s1 l s2 h1 h2

/-- `trim` itself: leading/trailing separators do not change the trimmed content. -/
theorem trim_ignores_outer_separators (s1 l s2 : Bytes) (h1 : ∀ x ∈ s1, isSep x = true)
    (h2 : ∀ x ∈ s2, isSep x = true) : trim (s1 ++ l ++ s2) = trim l :=
  trim_sep_append s1 l s2 h1 h2

/-- Replacing a line by one with the same cleaned content leaves the cleaned text
(`fast_clean`) unchanged. -/
theorem clean_line_congruence (l l' rest : Bytes) (hl : ∀ x ∈ l, x ≠ 10) (hl' : ∀ x ∈ l', x ≠ 10)
    (h : cleanLine l = cleanLine l') : fastClean (l ++ 10 :: rest) = fastClean (l' ++ 10 :: rest) :=
  fastClean_line_congr l l' rest hl hl' h

/-- Inserting a blank, whitespace-only or comment-only line at a line boundary does not
change the sequence of non-empty cleaned lines (the only lines `tryParseKeyword` looks at
outside a TITLE). -/
theorem blank_lines_ignored (a s rest : Bytes) (ha : a = [] ∨ a.getLast? = some 10)
    (hs : ∀ x ∈ s, x ≠ 10) (hblank : cleanLine s = []) :
    contentLines (a ++ s ++ 10 :: rest) = contentLines (a ++ rest) :=
  contentLines_insert_blank a s rest ha hs hblank

example : ∀ x ∈ b " \t,\r", isSep x = true := by decide +kernel
example : cleanLine (b "DIMENS -- size") = cleanLine (b " \tDIMENS\r") ∧ (∀ x ∈ b "DIMENS -- size", x ≠ 10) := by decide +kernel
example : cleanLine (b " \t -- only a comment") = [] ∧ (b "DIMENS\n").getLast? = some 10 := by decide +kernel
example : contentLines (b "DIMENS\n \t -- c\n\n 10 10 3 /\n") = [b "DIMENS", b "10 10 3 /"] := by decide +kernel

/-- The separator and quote predicates of the model are the tables of RawConsts.hpp. -/
theorem separator_table_is_the_codes (x : UInt8) :
    OpmVerif.Gen.RawConsts.sepTable[x.toNat % 128]? = some (isSep x) ∧
    OpmVerif.Gen.RawConsts.qTable[x.toNat % 128]? = some (isQuote x) :=
  ⟨isSep_eq_table x, isQuote_eq_table x⟩

/-! ### keyword-name case -/

/-- `make_deck_name` is invariant under letter case. -/
theorem deckname_case (l l' : Bytes) (h : l.map upper = l'.map upper) : makeDeckName l = makeDeckName l' :=
  makeDeckName_case l l' h

theorem deckname_lowercase (l : Bytes) : makeDeckName (l.map lower) = makeDeckName l :=
  makeDeckName_lower l

/-- Whatever follows the first separator on a keyword line is ignored. -/
theorem deckname_ignores_rest (w : Bytes) (s : UInt8) (rest : Bytes) (hw : ∀ x ∈ w, isSep x = false)
    (hs : isSep s = true) : makeDeckName (w ++ s :: rest) = w.map upper :=
  makeDeckName_append w s rest hw hs

example : makeDeckName (b "welSpecs  gibberish") = b "WELSPECS" := by decide +kernel
example : (b "welspecs").map upper = (b "WelSpecs").map upper := by decide +kernel

/-! ### text after the terminating slash -/

/-- Everything after the first slash outside quotes is ignored (ordinary keywords). -/
theorem after_slash_ignored (p x : Bytes) (hp : BalancedNoSlash p) :
    delAfterFirstSlash (p ++ 47 :: x) = p ++ [47] :=
  delAfterFirstSlash_append p x hp

/-- Raw-string keywords (UDQ, ACTIONX, …): everything after the *last* slash is ignored. -/
theorem after_last_slash_ignored (p x : Bytes) (next : UInt8) (hx : ∀ c ∈ x, c ≠ 47) (hn : next ≠ 47) :
    delAfterLastSlash (p ++ 47 :: x) next = p ++ [47] :=
  delAfterLastSlash_append p x next hx hn

example : BalancedNoSlash (b " 'A/B' 1 2* ") := by decide +kernel
example : delAfterFirstSlash (b " 'A/B' 1 2* / text 'after' / the slash") = b " 'A/B' 1 2* /" := by decide +kernel
example : delAfterLastSlash (b "DEFINE WUX 1/2 / trailing") 10 = b "DEFINE WUX 1/2 /" := by decide +kernel

/-! ### separators and line breaks between the items of a record -/

/-- `split_sep_congr`: outside quotes, any non-empty run of separators (blank, tab,
comma, CR, LF, VT, FF, SOH) may be replaced by any other: the token list of the record
does not change.  With `s' = "\n"` this is the line break between two items. -/
theorem split_sep_congr (a s s' rest : Bytes) (hs : s ≠ []) (hs' : s' ≠ [])
    (hsep : ∀ x ∈ s, isSep x = true) (hsep' : ∀ x ∈ s', isSep x = true)
    (hout : OutsideP a) :
    tokenize (a ++ s ++ rest) = tokenize (a ++ s' ++ rest) :=
  OpmVerif.Tok.split_sep_congr a s s' rest hs hs' hsep hsep' hout

/-- Separators in front of the first token are irrelevant. -/
theorem leading_separators_ignored (s rest : Bytes) (hsep : ∀ x ∈ s, isSep x = true) :
    tokenize (s ++ rest) = tokenize rest :=
  tokenize_sep_prefix s rest hsep

example : OutsideP (b " 'P 1' 'G'") ∧ ¬ OutsideP (b " 'P 1' 2*'A") := by decide +kernel
example : tokenize (b " 'P 1' 'G'" ++ b " " ++ b "3 4") = tokenize (b " 'P 1' 'G'" ++ b ",\t\r\n  " ++ b "3 4") := by decide +kernel
example : tokenize (b " 'P 1' 'G',\t\r\n  3 4") = [b "'P 1'", b "'G'", b "3", b "4"] := by decide +kernel

/-- `n*'quoted value with blanks'` is one token (fix 15beb5677): digits, `*`, an opening quote,
any quote-free body — blanks, commas, line breaks included — and the closing quote, followed
by a separator or the end of the record.  (`OutsideP` in `split_sep_congr` accordingly
counts the quoted part of such a token as "inside quotes".) -/
theorem star_quoted_is_one_token (ds body rest : Bytes) (hne : ds ≠ []) (hd : ∀ d ∈ ds, isDigit d = true)
    (hb : ∀ x ∈ body, x ≠ 39) (hr : SepStart rest) :
    tokenize (ds ++ 42 :: 39 :: body ++ 39 :: rest) = (ds ++ 42 :: 39 :: body ++ [39]) :: tokenize rest :=
  tok_star_quoted ds body rest hne hd hb hr

example : tokenize (b "2*'A B' 7") = [b "2*'A B'", b "7"] ∧ tokenize (b "12*'a,\n b'") = [b "12*'a,\n b'"] := by
  decide +kernel
example : (b "2" ≠ []) ∧ (∀ d ∈ b "2", isDigit d = true) ∧ (∀ x ∈ b "A B", x ≠ 39) ∧ SepStart (b " 7") := by
  refine ⟨by decide +kernel, by decide +kernel, by decide +kernel, Or.inr ⟨32, b "7", by decide +kernel, by decide +kernel⟩⟩

/-- `assemble_linebreak`: while a keyword is being assembled (RawKeyword state `k`, record
buffer `buf`), a line `a ++ s ++ b` may be written as the two lines `a`, `b` (`s` a
separator run outside quotes, no terminating slash in `a`, neither part mistaken for the
next keyword while the keyword could already be complete; `hma`, `hmb`: both are lines of
text, not the model's end-of-file marker — true of every cleaned line): the raw keyword that
results — records as token lists, termination — and the lines left for the next keyword are
equal. -/
theorem assemble_linebreak (recog : Bytes → Bool) (k : Kw) (hraw : k.raw = false)
    (buf gap a s rest' : Bytes) (rest : List Bytes)
    (hane : a ≠ []) (hbne : rest' ≠ []) (hs : s ≠ []) (hsep : ∀ c ∈ s, isSep c = true)
    (ha : BalancedNoSlash a) (hout : OutsideP (extendBuf buf gap a))
    (hra : (k.canComplete && recog (makeDeckName a)) = false)
    (hrb : (k.canComplete && recog (makeDeckName rest')) = false)
    (hma : a ≠ eofMark) (hmb : rest' ≠ eofMark) :
    feedLines recog k buf gap ((a ++ s ++ rest') :: rest) = feedLines recog k buf gap (a :: rest' :: rest) :=
  OpmVerif.RawKw.assemble_linebreak recog k hraw buf gap a s rest' rest hane hbne hs hsep ha hout hra hrb hma hmb

/-- An empty cleaned line — a blank, whitespace-only or comment-only line of the source —
anywhere inside a keyword (between records, or between the lines of a record outside a
quoted token) changes neither the raw keyword nor the lines left over. -/
theorem blank_line_inside_keyword (recog : Bytes → Bool) (k : Kw) (buf gap : Bytes) (lines : List Bytes)
    (hgap : ∀ c ∈ gap, isSep c = true) (hout : buf = [] ∨ OutsideP buf) :
    feedLines recog k buf gap ([] :: lines) = feedLines recog k buf gap lines :=
  feedLines_empty_line recog k buf gap lines hgap hout

def demoKw : Kw := { sizeType := .slashTerminated, raw := false, records := [], minSize := 0, fixedSize := 0,
                     numTables := 0, curTables := 0, tempFinished := false, finished := false }

example : BalancedNoSlash (b "'P 1' 'G'") ∧ OutsideP (extendBuf [] [] (b "'P 1' 'G'")) := by decide +kernel
example : feedLines (fun _ => false) demoKw [] [] [b "'P 1' 'G'  3 4 /", b "/"] =
          feedLines (fun _ => false) demoKw [] [] [b "'P 1' 'G'", b "3 4 /", b "/"] := by decide +kernel
example : feedLines (fun _ => false) demoKw (b "'P 1' 'G'") [] [[], b "3 4 /", [], b "/"] =
          feedLines (fun _ => false) demoKw (b "'P 1' 'G'") [] [b "3 4 /", b "/"] := by decide +kernel
example : (feedLines (fun _ => false) demoKw [] [] [b "'P 1' 'G'", b "3 4 /", b "/"]).map (·.1.records) =
          some [[b "'P 1'", b "'G'", b "3", b "4"]] := by decide +kernel

/-! ### repeat counts and trailing defaults -/

/-- `scan_star_expand`: at any place of a record, `n*v` may be written as `v … v` and
`n*` as `1* … 1*` (and back): the parsed items, values **and default flags** are the
same, or both spellings are errors.  (Raw-string items take tokens verbatim.) -/
theorem scan_star_expand (cv : Conv) (t : Bytes) (ex : List Bytes) (h : StarExp t ex)
    (pre post : List Bytes) (items : List Item) (hraw : ∀ it ∈ items, it.raw = false) :
    parseItems cv items (pre ++ t :: post) = parseItems cv items (pre ++ ex ++ post) :=
  parseItems_starExp cv t ex h post items hraw pre

/-- `scan_trailing_default`: ending a record early, or writing `1*` for (some of) the
SINGLE items that are not reached, gives the same values and the same default flags. -/
theorem scan_trailing_default (cv : Conv) (items : List Item) (hraw : ∀ it ∈ items, it.raw = false)
    (ts : List Bytes) (k : Nat) (hs : ∀ t ∈ ts, Simple t)
    (hw : totalWeight ts + k ≤ singlePrefix items) :
    parseItems cv items (ts ++ List.replicate k oneStar) = parseItems cv items ts :=
  parseItems_trailing_default cv items hraw ts k hs hw

/-- a COMPDAT-like schema: string, three ints (two with default), string with default,
double without default, then an item of size ALL. -/
def demoSchema : List Item :=
  [⟨.string, false, none⟩, ⟨.int, false, none⟩, ⟨.int, false, some (.int 7)⟩, ⟨.int, false, some (.int 9)⟩,
   ⟨.string, false, some (.str (b "OPEN"))⟩, ⟨.double, false, none⟩, ⟨.double, true, some (.dbl (b "#0"))⟩]

def demoConv : Conv := { readInt := fun t => if t.all isDigit then some (digitsVal t) else none,
                         okDouble := fun t => t.all (fun c => isDigit c || c == 46) }

example : StarExp (b "3*5") [b "5", b "5", b "5"] ∧ StarExp (b "2*") [oneStar, oneStar] := by
  refine ⟨⟨3, b "5", by decide +kernel, Or.inl ⟨by decide +kernel, by decide +kernel, by decide +kernel⟩⟩, ⟨2, [], by decide +kernel, Or.inr ⟨rfl, by decide +kernel⟩⟩⟩
example : ∀ it ∈ demoSchema, it.raw = false := by decide +kernel
example : parseItems demoConv demoSchema [b "'W 1'", b "3*5", b "2*", b "1.5", b "2*0.25"] =
    some [[(.str (b "W 1"), .deck)], [(.int 5, .deck)], [(.int 5, .deck)], [(.int 5, .deck)],
          [(.str (b "OPEN"), .dflt)], [(.dummy, .empty)], [(.dbl (b "1.5"), .deck), (.dbl (b "0.25"), .deck), (.dbl (b "0.25"), .deck)]] := by decide +kernel
example : (∀ t ∈ [b "'W 1'", b "2*5"], Simple t) ∧ totalWeight [b "'W 1'", b "2*5"] + 3 ≤ singlePrefix demoSchema := by decide +kernel
example : parseItems demoConv demoSchema [b "'W 1'", b "2*5"] =
    some [[(.str (b "W 1"), .deck)], [(.int 5, .deck)], [(.int 5, .deck)], [(.int 9, .dflt)],
          [(.str (b "OPEN"), .dflt)], [(.dummy, .empty)], []] := by decide +kernel

/-! ### splitting over INCLUDE files -/

/-- `include_splice` (step form): wherever the keyword loop (`parseState`) stands at a keyword
boundary — any deck parsed so far, any PATHS aliases, any remaining input — the lines
`INCLUDE` / `'path' /` are equivalent to the cleaned lines of the named file, followed by the
end-of-file marker of the model, spliced in front of the remaining input (nested includes by
iterating).  The whole-text statements are `include_splice_text` and `relayout_deck`. -/
theorem include_splice (cv : Conv) (tbl : Table) (recog : Bytes → Bool)
    (files : List (Bytes × Bytes) → Bytes → Option Bytes)
    (htbl : lookup tbl nameINCLUDE = some includeDef)
    (al : List (Bytes × Bytes)) (path content : Bytes) (hfile : files al path = some content)
    (hq : ∀ c ∈ path, c ≠ 39) (hsafe : LineSafe (quoted path))
    (fuel : Nat) (deck : DeckT) (rest : List Bytes) :
    parseLoop cv tbl recog files (fuel + 1) al deck (nameINCLUDE :: recordLine [quoted path] :: rest) =
      parseLoop cv tbl recog files fuel al deck (splitLines (fastClean (content ++ [10])) ++ eofMark :: rest) :=
  OpmVerif.Deck.include_splice cv tbl recog files htbl al path content hfile hq hsafe fuel deck rest

def demoTable : Table :=
  [(b "INCLUDE", includeDef),
   (b "DIMENS", ⟨.fixed 1, false, none, [[⟨.int, false, none⟩, ⟨.int, false, none⟩, ⟨.int, false, none⟩]], false, false⟩),
   (b "OIL", ⟨.fixed 0, false, none, [], false, false⟩)]

def demoFiles (_ : List (Bytes × Bytes)) (p : Bytes) : Option Bytes := if p = b "/d/grid.inc" then some (b "DIMENS\n 10 10 3 / -- from the file") else none

example : lookup demoTable nameINCLUDE = some includeDef ∧ demoFiles [] (b "/d/grid.inc") ≠ none ∧
    (∀ c ∈ b "/d/grid.inc", c ≠ 39) := by decide +kernel

example : LineSafe (quoted (b "/d/grid.inc")) :=
  ⟨(atomic_quoted _ (by decide +kernel)).1, by decide +kernel, by decide +kernel, by decide +kernel⟩

example : parseDeckText demoConv demoTable (fun _ => false) demoFiles 50 (b "OIL\nINCLUDE\n '/d/grid.inc' /\nOIL\n") =
          parseDeckText demoConv demoTable (fun _ => false) demoFiles 50 (b "OIL\nDIMENS\n 10 10 3 /\nOIL\n") := by
  decide +kernel

example : (parseDeckText demoConv demoTable (fun _ => false) demoFiles 50 (b "OIL\nINCLUDE\n '/d/grid.inc' /\nOIL\n")).map
    (·.map (·.name)) = some [b "OIL", b "DIMENS", b "OIL"] := by decide +kernel

/-! ### all compositions of rewrites -/

/-- `relayout_compose`: `Relayout items` is the closure (reflexive, symmetric, transitive) of
the rewrite rules on the text of a record — separator runs / line breaks outside quotes,
star expansion of a token, trailing `1*` — and every derivation, i.e. every composition of
rewrites in any order and number, leaves the parsed record (items, values, default flags,
or the error) unchanged. -/
theorem relayout_compose (cv : Conv) (items : List Item) (hraw : ∀ it ∈ items, it.raw = false)
    {x y : Bytes} (h : Relayout items x y) :
    parseRecord cv items x = parseRecord cv items y :=
  OpmVerif.Scan.relayout_compose cv items hraw h

/-- Star expansion of a quoted value with blanks (the rule `Relayout.starq`, a special case of
`relayout_compose`): `n*'A B'` standing between separators, outside quotes, parses like
`'A B'` written `n` times — same items, values, default flags, or the same error. -/
theorem star_quoted_expand (cv : Conv) (items : List Item) (hraw : ∀ it ∈ items, it.raw = false)
    (a s1 ds body s2 rest : Bytes) (n : Nat) (hout : OutsideP a)
    (hs1 : s1 ≠ []) (hsep1 : ∀ c ∈ s1, isSep c = true) (hs2 : s2 ≠ []) (hsep2 : ∀ c ∈ s2, isSep c = true)
    (hne : ds ≠ []) (hd : ∀ d ∈ ds, isDigit d = true) (hb : ∀ c ∈ body, c ≠ 39)
    (hexp : StarExp (ds ++ 42 :: 39 :: body ++ [39]) (List.replicate n (39 :: body ++ [39]))) :
    parseRecord cv items (a ++ s1 ++ ((ds ++ 42 :: 39 :: body ++ [39]) ++ s2 ++ rest)) =
      parseRecord cv items (a ++ s1 ++ (joinBlank (List.replicate n (39 :: body ++ [39])) ++ s2 ++ rest)) :=
  OpmVerif.Scan.relayout_compose cv items hraw
    (Relayout.starq a s1 ds body s2 rest n hout hs1 hsep1 hs2 hsep2 hne hd hb hexp)

example : StarExp (b "2*'A B'") (List.replicate 2 (b "'A B'")) :=
  ⟨2, b "'A B'", by decide +kernel, Or.inl ⟨by decide +kernel, by decide +kernel, by decide +kernel⟩⟩
example : parseRecord demoConv [⟨.int, false, none⟩, ⟨.string, true, none⟩] (b " 5 2*'A B' ") =
    parseRecord demoConv [⟨.int, false, none⟩, ⟨.string, true, none⟩] (b " 5 'A B' 'A B' ") ∧
    parseRecord demoConv [⟨.int, false, none⟩, ⟨.string, true, none⟩] (b " 5 2*'A B' ") =
      some [[(.int 5, .deck)], [(.str (b "A B"), .deck), (.str (b "A B"), .deck)]] := by decide +kernel

/-- a derivation with three different rules: expand `2*5`, turn a blank into a line break
with a tab, append two `1*`. -/
example : Relayout demoSchema (b " 'W 1' 2*5 ") (b " 'W 1'\n\t5 5  1* 1*") := by
  have h1 : Relayout demoSchema (b " 'W 1' 2*5 ") (b " 'W 1' 5 5 ") := by
    have h := Relayout.star (items := demoSchema) (b " 'W 1'") (b " ") (b "2*5") (b " ") [] [b "5", b "5"]
      (by decide +kernel) (by decide +kernel) (by decide +kernel) (by decide +kernel) (by decide +kernel)
      (by decide +kernel)
      ⟨2, b "5", by decide +kernel, Or.inl ⟨by decide +kernel, by decide +kernel, by decide +kernel⟩⟩
      (by decide +kernel)
    have e1 : b " 'W 1'" ++ b " " ++ (b "2*5" ++ b " " ++ []) = b " 'W 1' 2*5 " := by decide +kernel
    have e2 : b " 'W 1'" ++ b " " ++ (joinBlank [b "5", b "5"] ++ b " " ++ []) = b " 'W 1' 5 5 " := by decide +kernel
    rw [e1, e2] at h; exact h
  have h2 : Relayout demoSchema (b " 'W 1' 5 5 ") (b " 'W 1'\n\t5 5 ") := by
    have h := Relayout.sep (items := demoSchema) (b " 'W 1'") (b " ") (b "\n\t") (b "5 5 ") (by decide +kernel)
      (by decide +kernel) (by decide +kernel) (by decide +kernel) (by decide +kernel)
    have e1 : b " 'W 1'" ++ b " " ++ b "5 5 " = b " 'W 1' 5 5 " := by decide +kernel
    have e2 : b " 'W 1'" ++ b "\n\t" ++ b "5 5 " = b " 'W 1'\n\t5 5 " := by decide +kernel
    rw [e1, e2] at h; exact h
  have h3 : Relayout demoSchema (b " 'W 1'\n\t5 5 ") (b " 'W 1'\n\t5 5  1* 1*") := by
    have h := Relayout.trail (items := demoSchema) (b " 'W 1'\n\t5 5 ") 2 (by decide +kernel) (by decide +kernel)
      (by decide +kernel)
    have e2 : b " 'W 1'\n\t5 5 " ++ 32 :: joinBlank (List.replicate 2 oneStar) = b " 'W 1'\n\t5 5  1* 1*" := by
      decide +kernel
    rw [e2] at h; exact h
  exact Relayout.trans h1 (Relayout.trans h2 h3)

example : parseRecord demoConv demoSchema (b " 'W 1' 2*5 ") =
    some [[(.str (b "W 1"), .deck)], [(.int 5, .deck)], [(.int 5, .deck)], [(.int 9, .dflt)],
          [(.str (b "OPEN"), .dflt)], [(.dummy, .empty)], []] := by decide +kernel


/-! ### second round: whole texts, arbitrary prefixes, deck-level closure -/

section deck_level
open OpmVerif.Deck OpmVerif.DeckWrite

/-- more rounds of the keyword loop never change a result (the fuel of the model is not
what decides). -/
theorem rounds_irrelevant (cv : Conv) (tbl : Table) (recog : Bytes → Bool)
    (files : List (Bytes × Bytes) → Bytes → Option Bytes) (f g : Nat) (hfg : f ≤ g)
    (al : List (Bytes × Bytes)) (deck : DeckT) (lines : List Bytes) (r : DeckT)
    (h : parseLoop cv tbl recog files f al deck lines = some r) :
    parseLoop cv tbl recog files g al deck lines = some r :=
  parseLoop_fuel_le cv tbl recog files f g hfg al deck lines r h

/-- the written text of any conforming deck (every size class, TITLE) is a prefix that ends
at a keyword boundary: whatever text follows, the keyword loop consumes it as whole keywords.
Such prefixes compose (`atBoundary_append`) and may be interleaved with blank and comment
lines (`atBoundary_blank`). -/
theorem written_prefix_at_boundary (cv : Conv) (tbl : Table) (recog : Bytes → Bool)
    (files : List (Bytes × Bytes) → Bytes → Option Bytes) (fmt : Bytes → Bytes) (fl : List Vals → Bool)
    (al : List (Bytes × Bytes)) (deck : DeckT) (ks : List DK) (h : Conforms cv fmt fl tbl recog deck ks) :
    AtBoundary cv tbl recog files ks.length al deck (deckText fmt fl ks) al (deck ++ ks.map (DK.result fmt)) :=
  atBoundary_written cv tbl recog files fmt fl al deck ks h

/-- **`include_splice` as a whole-text statement**: behind ANY prefix text that ends at a
keyword boundary and in front of ANY text, `INCLUDE` / `'path' /` is the cleaned lines of the
named file, followed by the end-of-file marker of the model, spliced in front of the lines of
the text that follows. -/
theorem include_splice_text (cv : Conv) (tbl : Table) (recog : Bytes → Bool)
    (files : List (Bytes × Bytes) → Bytes → Option Bytes) (htbl : lookup tbl nameINCLUDE = some includeDef)
    (n : Nat) (al al' : List (Bytes × Bytes)) (deck deck' : DeckT) (P : Bytes)
    (hP : AtBoundary cv tbl recog files n al deck P al' deck')
    (path content : Bytes) (hfile : files al' path = some content)
    (hq : ∀ c ∈ path, c ≠ 39) (hsafe : LineSafe (quoted path)) (hnl : NoNL (quoted path))
    (fuel : Nat) (R : Bytes) :
    parseLoop cv tbl recog files (fuel + 1 + n) al deck (linesOf (P ++ (includeText path ++ R))) =
      parseLoop cv tbl recog files fuel al' deck' (linesOf (content ++ [10]) ++ eofMark :: linesOf R) :=
  OpmVerif.Deck.include_splice_text cv tbl recog files htbl n al al' deck deck' P hP path content hfile hq hsafe hnl fuel R

/-- **INCLUDE against the content written in place, any content**: if the text with the
INCLUDE parses to a deck, the text with the file's content in its place parses to the same
deck (ENDINC not among the keywords).  The end-of-file marker is transparent
(`marker_transparent`) except that a record running past the end of the file is an error
with the INCLUDE (fix d37f2f297) — which is why the converse needs the content to end at a
keyword boundary (rule `incl` of `RelayoutDeck`). -/
theorem include_inline (cv : Conv) (tbl : Table) (recog : Bytes → Bool)
    (files : List (Bytes × Bytes) → Bytes → Option Bytes)
    (hnoendinc : lookup tbl nameENDINC = none) (htbl : lookup tbl nameINCLUDE = some includeDef)
    (n : Nat) (al' : List (Bytes × Bytes)) (deck' : DeckT) (P : Bytes)
    (hP : AtBoundary cv tbl recog files n [] [] P al' deck')
    (path content : Bytes) (hfile : files al' path = some content)
    (hq : ∀ c ∈ path, c ≠ 39) (hsafe : LineSafe (quoted path)) (hnl : NoNL (quoted path)) (R : Bytes) (r : DeckT)
    (h : ParsesText cv tbl recog files (P ++ (includeText path ++ R)) r) :
    ParsesText cv tbl recog files (P ++ (content ++ 10 :: R)) r :=
  OpmVerif.Deck.include_inline cv tbl recog files hnoendinc htbl n al' deck' P hP path content hfile hq hsafe hnl R r h

/-- **`relayout_deck`** (partial) — `RelayoutDeck` is the closure (reflexive, symmetric,
transitive, in any context) of the deck-level rewrites:
`line`   a line replaced by one with the same cleaned content (comments, outer blanks/tabs,
         blank ↔ comment-only line; anywhere, also inside records);
`blank`  a blank or comment line inserted at a keyword boundary;
`kwname` the keyword line in another case / with text behind the name;
`record` inside a keyword (any size class, behind any number of earlier records) the text of
         one record replaced by any other text that is one record whose tokens parse to the
         same items under the schema of that position: separator runs, text after the slash
         (`oneRec_line`), line breaks at safe points (`oneRec_linebreak`, the writer's split
         `oneRec_written`), star contraction/expansion and early record end (the token-level
         equivalence comes from `relayout_compose` / `scan_star_expand` /
         `scan_trailing_default`); the keyword assembly behind the record is unaffected
         (bisimulation `feedLines_setRecs`);
`incl`   a run of whole keywords moved into an INCLUDE file.
Every derivation leaves what `Parser::parseString` returns unchanged: the same Deck, or no
Deck on either side.

Full shape, not proved: rule `record` for double-record keywords and for the line of TITLE
(and SKIP blocks inside records are not in the model). -/
theorem relayout_deck_partial (cv : Conv) (tbl : Table) (recog : Bytes → Bool)
    (files : List (Bytes × Bytes) → Bytes → Option Bytes) {t u : Bytes}
    (h : RelayoutDeck cv tbl recog files t u) (r : DeckT) :
    ParsesText cv tbl recog files t r ↔ ParsesText cv tbl recog files u r :=
  OpmVerif.Deck.relayout_deck_partial cv tbl recog files h r

/-! non-vacuity: a derivation with all four rules on a small deck -/

def oilKw : DK := .kw ⟨b "OIL", false, false, []⟩

private theorem oil_conforms (deck : DeckT) : Conforms demoConv idFmt (flushOf 2) demoTable (fun _ => false) deck [oilKw] := by
  refine ⟨?_, trivial⟩
  refine ⟨⟨⟨.fixed 0, false, none, [], false, false⟩, _, ?_, rfl, rfl, rfl, Or.inl ⟨rfl, rfl, rfl⟩, ?_⟩⟩
  · exact ⟨by decide +kernel, by decide +kernel, by decide +kernel, by decide +kernel, by decide +kernel,
      by decide +kernel, by decide +kernel, by decide +kernel, by decide +kernel, by decide +kernel,
      by decide +kernel, by decide +kernel, by decide +kernel, by decide +kernel⟩
  · intro j r hj
    simp [oilKw] at hj

example : deckText idFmt (flushOf 2) [oilKw] = b "OIL\n" := by decide +kernel

def incFiles (_ : List (Bytes × Bytes)) (p : Bytes) : Option Bytes := if p = b "/d/oil.inc" then some (b "OIL") else none

/-- `OIL\nOIL\nOIL\n` ~ `OIL -- first\n  \t\noil  again\nINCLUDE\n '/d/oil.inc' /\n`: the last keyword
moved into a file (`incl`, backwards), a whitespace-only line at a keyword boundary (`blank`), keyword
case and trailing text (`kwname`), a comment (`line`) — composed by `trans`. -/
example : RelayoutDeck demoConv demoTable (fun _ => false) incFiles
    (b "OIL\nOIL\nOIL\n") (b "OIL -- first\n  \t\noil  again\nINCLUDE\n '/d/oil.inc' /\n") := by
  have hB1 : AtBoundary demoConv demoTable (fun _ => false) incFiles 1 [] [] (b "OIL\n") [] [⟨b "OIL", []⟩] := by
    have := atBoundary_written demoConv demoTable (fun _ => false) incFiles idFmt (flushOf 2) [] [] [oilKw] (oil_conforms [])
    have e : deckText idFmt (flushOf 2) [oilKw] = b "OIL\n" := by decide +kernel
    rw [e] at this
    exact this
  have hB2 : AtBoundary demoConv demoTable (fun _ => false) incFiles 1 [] [⟨b "OIL", []⟩] (b "OIL\n") []
      [⟨b "OIL", []⟩, ⟨b "OIL", []⟩] := by
    have := atBoundary_written demoConv demoTable (fun _ => false) incFiles idFmt (flushOf 2) [] [⟨b "OIL", []⟩] [oilKw] (oil_conforms _)
    have e : deckText idFmt (flushOf 2) [oilKw] = b "OIL\n" := by decide +kernel
    rw [e] at this
    exact this
  have hB12 : AtBoundary demoConv demoTable (fun _ => false) incFiles (1 + 1) [] [] (b "OIL\n" ++ b "OIL\n") []
      [⟨b "OIL", []⟩, ⟨b "OIL", []⟩] :=
    atBoundary_append demoConv demoTable (fun _ => false) incFiles hB1 hB2
  have hB1b : AtBoundary demoConv demoTable (fun _ => false) incFiles (1 + 1) [] [] (b "OIL\n" ++ (b "  \t" ++ [10])) []
      [⟨b "OIL", []⟩] :=
    atBoundary_append demoConv demoTable (fun _ => false) incFiles hB1
      (atBoundary_blank demoConv demoTable (fun _ => false) incFiles [] _ (b "  \t") (by decide +kernel) (by decide +kernel))
  -- the lines of the file are the lines of a written keyword
  have hfile : AtBoundaryL demoConv demoTable (fun _ => false) incFiles 1 [] [⟨b "OIL", []⟩, ⟨b "OIL", []⟩]
      (linesOf (b "OIL" ++ [10])) [] ([⟨b "OIL", []⟩, ⟨b "OIL", []⟩] ++ [oilKw].map (DK.result idFmt)) := by
    have := atBoundaryL_written demoConv demoTable (fun _ => false) incFiles idFmt (flushOf 2) [] [⟨b "OIL", []⟩, ⟨b "OIL", []⟩]
      [oilKw] (oil_conforms _)
    have e : deckLines idFmt (flushOf 2) [oilKw] = linesOf (b "OIL" ++ [10]) := by decide +kernel
    rw [e] at this
    exact this
  have hpath := lineSafe_of_B (t := quoted (b "/d/oil.inc")) (by decide +kernel)
  -- 1. the third keyword moved into the file
  have s1 : RelayoutDeck demoConv demoTable (fun _ => false) incFiles
      ((b "OIL\n" ++ b "OIL\n") ++ (includeText (b "/d/oil.inc") ++ [])) ((b "OIL\n" ++ b "OIL\n") ++ (b "OIL" ++ 10 :: [])) :=
    RelayoutDeck.incl (1 + 1) 1 [] [] _ _ (b "OIL\n" ++ b "OIL\n") (b "/d/oil.inc") (b "OIL") [] hB12
      (by decide +kernel) (by decide +kernel) (by decide +kernel) hpath.1 hpath.2 hfile
  -- 2. a whitespace-only line behind the first keyword
  have s2 : RelayoutDeck demoConv demoTable (fun _ => false) incFiles
      (b "OIL\n" ++ b "OIL\nINCLUDE\n '/d/oil.inc' /\n") (b "OIL\n" ++ (b "  \t" ++ 10 :: b "OIL\nINCLUDE\n '/d/oil.inc' /\n")) :=
    RelayoutDeck.blank 1 [] [⟨b "OIL", []⟩] (b "OIL\n") (b "  \t") _ hB1 (by decide +kernel) (by decide +kernel)
  -- 3. the second keyword in lower case with text behind it
  have s3 : RelayoutDeck demoConv demoTable (fun _ => false) incFiles
      ((b "OIL\n" ++ (b "  \t" ++ [10])) ++ (b "OIL" ++ 10 :: b "INCLUDE\n '/d/oil.inc' /\n"))
      ((b "OIL\n" ++ (b "  \t" ++ [10])) ++ (b "oil  again" ++ 10 :: b "INCLUDE\n '/d/oil.inc' /\n")) :=
    RelayoutDeck.kwname (1 + 1) [] [⟨b "OIL", []⟩] _ (b "OIL") (b "oil  again") _ hB1b
      (by decide +kernel) (by decide +kernel) (by decide +kernel) (by decide +kernel) (by decide +kernel)
  -- 4. a comment behind the first keyword
  have s4 : RelayoutDeck demoConv demoTable (fun _ => false) incFiles
      ([] ++ (b "OIL" ++ 10 :: b "  \t\noil  again\nINCLUDE\n '/d/oil.inc' /\n"))
      ([] ++ (b "OIL -- first" ++ 10 :: b "  \t\noil  again\nINCLUDE\n '/d/oil.inc' /\n")) :=
    RelayoutDeck.line [] (b "OIL") (b "OIL -- first") _ (Or.inl rfl) (by decide +kernel) (by decide +kernel) (by decide +kernel)
  have e0 : b "OIL\nOIL\nOIL\n" = (b "OIL\n" ++ b "OIL\n") ++ (b "OIL" ++ 10 :: []) := by decide +kernel
  have e1 : (b "OIL\n" ++ b "OIL\n") ++ (includeText (b "/d/oil.inc") ++ []) = b "OIL\n" ++ b "OIL\nINCLUDE\n '/d/oil.inc' /\n" := by
    decide +kernel
  have e2 : b "OIL\n" ++ (b "  \t" ++ 10 :: b "OIL\nINCLUDE\n '/d/oil.inc' /\n") =
      (b "OIL\n" ++ (b "  \t" ++ [10])) ++ (b "OIL" ++ 10 :: b "INCLUDE\n '/d/oil.inc' /\n") := by decide +kernel
  have e3 : (b "OIL\n" ++ (b "  \t" ++ [10])) ++ (b "oil  again" ++ 10 :: b "INCLUDE\n '/d/oil.inc' /\n") =
      [] ++ (b "OIL" ++ 10 :: b "  \t\noil  again\nINCLUDE\n '/d/oil.inc' /\n") := by decide +kernel
  have e4 : [] ++ (b "OIL -- first" ++ 10 :: b "  \t\noil  again\nINCLUDE\n '/d/oil.inc' /\n") =
      b "OIL -- first\n  \t\noil  again\nINCLUDE\n '/d/oil.inc' /\n" := by decide +kernel
  rw [e0, ← e4]
  refine RelayoutDeck.trans (RelayoutDeck.symm s1) ?_
  rw [e1]
  refine RelayoutDeck.trans s2 ?_
  rw [e2]
  refine RelayoutDeck.trans s3 ?_
  rw [e3]
  exact s4

/-- … and both texts indeed parse to the same deck of three `OIL`. -/
example : parseDeckText demoConv demoTable (fun _ => false) incFiles 20 (b "OIL\nOIL\nOIL\n") =
    parseDeckText demoConv demoTable (fun _ => false) incFiles 20
      (b "OIL -- first\n  \t\noil  again\nINCLUDE\n '/d/oil.inc' /\n") ∧
    (parseDeckText demoConv demoTable (fun _ => false) incFiles 20 (b "OIL\nOIL\nOIL\n")).map (·.map (·.name)) =
      some [b "OIL", b "OIL", b "OIL"] := by decide +kernel

/-- rule `record`: `DIMENS` behind `OIL`, its record written with a repeat count and text after
the slash, or written out with commas and a tab and the slash right behind the last item. -/
example : RelayoutDeck demoConv demoTable (fun _ => false) incFiles
    (b "OIL\nDIMENS\n 2*10 3 / text\nOIL\n") (b "OIL\nDIMENS\n 10,10\t3/\nOIL\n") := by
  have hB1 : AtBoundary demoConv demoTable (fun _ => false) incFiles 1 [] [] (b "OIL\n") [] [⟨b "OIL", []⟩] := by
    have := atBoundary_written demoConv demoTable (fun _ => false) incFiles idFmt (flushOf 2) [] [] [oilKw] (oil_conforms [])
    have e : deckText idFmt (flushOf 2) [oilKw] = b "OIL\n" := by decide +kernel
    rw [e] at this
    exact this
  let k0 : Kw := { sizeType := .fixed, raw := false, records := [], minSize := 1, fixedSize := 1,
                   numTables := 0, curTables := 0, tempFinished := false, finished := false }
  have hX : OneRec (fun _ => false) k0 (linesOf (b " 2*10 3 / text\n")) [b "2*10", b "3"] := by
    have e : linesOf (b " 2*10 3 / text\n") = [b "2*10 3 " ++ 47 :: b " text"] := by decide +kernel
    rw [e]
    exact oneRec_line (fun _ => false) k0 rfl (b "2*10 3 ") (b " text") _ (by decide +kernel) (by decide +kernel)
      (by decide +kernel) (by decide +kernel) (by simp)
  have hX' : OneRec (fun _ => false) k0 (linesOf (b " 10,10\t3/\n")) [b "10", b "10", b "3"] := by
    have e : linesOf (b " 10,10\t3/\n") = [b "10,10\t3" ++ 47 :: []] := by decide +kernel
    rw [e]
    exact oneRec_line (fun _ => false) k0 rfl (b "10,10\t3") [] _ (by decide +kernel) (by decide +kernel)
      (by decide +kernel) (by decide +kernel) (by simp)
  have h := RelayoutDeck.record (cv := demoConv) (tbl := demoTable) (recog := fun _ => false) (files := incFiles)
    1 [] [⟨b "OIL", []⟩] (b "OIL\n") (b "DIMENS") [] (b " 2*10 3 / text\n") (b " 10,10\t3/\n") (b "OIL\n")
    (b "DIMENS") ⟨.fixed 1, false, none, [[⟨.int, false, none⟩, ⟨.int, false, none⟩, ⟨.int, false, none⟩]], false, false⟩
    k0 k0 [b "2*10", b "3"] [b "10", b "10", b "3"]
    hB1 (by decide +kernel) (by decide +kernel) (by decide +kernel) (by decide +kernel) (by decide +kernel)
    (by decide +kernel) (by decide +kernel) (by decide +kernel) rfl (by decide +kernel) (by decide +kernel) rfl
    (Or.inl rfl) (by decide +kernel) (by decide +kernel) (by intro rest; rfl) hX hX' (by decide)
    (by
      intro items hi
      have : items = [⟨.int, false, none⟩, ⟨.int, false, none⟩, ⟨.int, false, none⟩] := by
        have h2 : schemaOf [[(⟨.int, false, none⟩ : Item), ⟨.int, false, none⟩, ⟨.int, false, none⟩]] false 0 =
            some [⟨.int, false, none⟩, ⟨.int, false, none⟩, ⟨.int, false, none⟩] := by decide +kernel
        have h3 : (k0.records.length) = 0 := rfl
        rw [h3, h2] at hi
        exact (Option.some.inj hi).symm
      rw [this]
      decide +kernel)
  have e1 : b "OIL\nDIMENS\n 2*10 3 / text\nOIL\n" = b "OIL\n" ++ (b "DIMENS" ++ 10 :: ([] ++ (b " 2*10 3 / text\n" ++ b "OIL\n"))) := by
    decide +kernel
  have e2 : b "OIL\nDIMENS\n 10,10\t3/\nOIL\n" = b "OIL\n" ++ (b "DIMENS" ++ 10 :: ([] ++ (b " 10,10\t3/\n" ++ b "OIL\n"))) := by
    decide +kernel
  rw [e1, e2]
  exact h

example : parseDeckText demoConv demoTable (fun _ => false) incFiles 20 (b "OIL\nDIMENS\n 2*10 3 / text\nOIL\n") =
    parseDeckText demoConv demoTable (fun _ => false) incFiles 20 (b "OIL\nDIMENS\n 10,10\t3/\nOIL\n") ∧
    (parseDeckText demoConv demoTable (fun _ => false) incFiles 20 (b "OIL\nDIMENS\n 2*10 3 / text\nOIL\n")).isSome = true := by
  decide +kernel

/-- a record that runs past the end of an included file: an error with the INCLUDE (the C++
throws "Input file ended inside a record." since d37f2f297), a deck with the content in place. -/
example : parseDeckText demoConv demoTable (fun _ => false)
      (fun _ p => if p = b "/d/dim.inc" then some (b "DIMENS\n 10 10") else none) 20
      (b "INCLUDE\n '/d/dim.inc' /\n 3 /\n") = none ∧
    (parseDeckText demoConv demoTable (fun _ => false) (fun _ _ => none) 20 (b "DIMENS\n 10 10\n 3 /\n")).isSome = true := by
  decide +kernel

end deck_level


/-! ### the input stack: a file read several times, ENDINC, nested chains, the recursion check

`IncStack.run` is the keyword loop on the stack of open files (frames = canonical path + what
is still to be read; a file read to its end is popped, ENDINC pops the file it stands in,
INCLUDE of a path that is on the stack is refused, the check being a walk over the frames).
`IncStack.Expands files l ks`: the one-piece text of the statements `l` — every INCLUDE
replaced by what is read of the file, i.e. the statements in front of its first ENDINC — is
finite and has the keyword sequence `ks`. -/

/-- Splitting over INCLUDE files is sound, for every file system: whenever a layout over
files is accepted, its keyword sequence is that of the one-piece text — whatever the number
of times a file is read, whether it is closed by its end or by ENDINC (text behind ENDINC
included), from whichever parents, at whatever depth. -/
theorem include_stack_split_sound (files : IncStack.Files) (fuel root : Nat) (items : List IncStack.Item)
    (ks : List Nat) (h : IncStack.run files fuel [(root, items)] [] = some ks) :
    IncStack.Expands files items ks := by
  obtain ⟨rest, hs, hk⟩ := IncStack.run_sound files fuel [(root, items)] [] ks h
  simp only [List.nil_append] at hk
  exact hk ▸ IncStack.expandsStack_single hs

/-- Conversely, every layout that HAS a one-piece text is accepted, with exactly the keyword
sequence of that text: the recursion check never refuses a file that was read before and has
been closed — by its end or by ENDINC —, however often and from wherever it is read again.
(`files root = some items`: the root file is what is on disk under its path.) -/
theorem include_stack_split_complete (files : IncStack.Files) (root : Nat) (items : List IncStack.Item)
    (ks : List Nat) (hroot : files root = some items) (h : IncStack.Expands files items ks) :
    ∃ fuel, IncStack.run files fuel [(root, items)] [] = some ks :=
  IncStack.run_complete_full files root items ks hroot h

/-- The form with an explicit rank (any function that decreases along every INCLUDE in front
of the first ENDINC of a file with a one-piece text), from which the theorem above follows
with rank := INCLUDE depth of the one-piece text; the statements of the root frame need not be
those of a file here. -/
theorem include_stack_split_complete_ranked (files : IncStack.Files) (rank : Nat → Nat)
    (hac : IncStack.Acyclic files rank) (root : Nat) (items : List IncStack.Item) (ks : List Nat)
    (hroot : IncStack.IncsBelow rank root items) (h : IncStack.Expands files items ks) :
    ∃ fuel, IncStack.run files fuel [(root, items)] [] = some ks :=
  IncStack.run_complete files rank hac root items ks hroot h

/-- Both directions: the layouts over files that are accepted are exactly those with a
one-piece text, and the keyword sequences agree. -/
theorem include_stack_split_iff (files : IncStack.Files) (root : Nat) (items : List IncStack.Item)
    (ks : List Nat) (hroot : files root = some items) :
    (∃ fuel, IncStack.run files fuel [(root, items)] [] = some ks) ↔ IncStack.Expands files items ks :=
  ⟨fun ⟨fuel, h⟩ => include_stack_split_sound files fuel root items ks h,
   include_stack_split_complete files root items ks hroot⟩

/-- More rounds never change the result of the input stack. -/
theorem include_stack_rounds_irrelevant (files : IncStack.Files) (fuel : Nat) (st : IncStack.Stack)
    (deck ks : List Nat) (h : IncStack.run files fuel st deck = some ks) :
    IncStack.run files (fuel + 1) st deck = some ks :=
  IncStack.run_mono files fuel st deck ks h

/-- INCLUDE of a file that is being read — in whichever frame of the stack — is refused. -/
theorem include_stack_recursion_refused (files : IncStack.Files) (n p f : Nat) (r : List IncStack.Item)
    (st : IncStack.Stack) (deck : List Nat) (h : IncStack.isOpen ((p, r) :: st) f = true) :
    IncStack.run files (n + 1) ((p, .inc f :: r) :: st) deck = none := by
  simp [IncStack.run, h]

/-- root: keyword 1, x, keyword 2, mid, keyword 3; mid reads x twice (first and last statement);
x is closed by ENDINC, and behind the ENDINC stands text that is never read (an INCLUDE of x
itself among it: the include graph as written has a loop, the statements that are read do not). -/
def incDemo : IncStack.Files := fun f =>
  [[.kw 1, .inc 2, .kw 2, .inc 1, .kw 3], [.inc 2, .kw 20, .inc 2], [.kw 10, .endinc, .kw 99, .inc 2]][f]?

example : IncStack.parseFile incDemo 30 0 = some [1, 10, 2, 10, 20, 10, 3] := by decide +kernel
example : IncStack.Acyclic incDemo (fun f => 2 - f) := by
  intro f c hf _ g hg
  rcases f with _ | _ | _ | f <;> simp [incDemo] at hf <;> subst hf <;> simp [IncStack.live] at hg
  · rcases hg with rfl | rfl <;> decide
  · subst hg; decide
example : IncStack.IncsBelow (fun f => 2 - f) 0 [.kw 1, .inc 2, .kw 2, .inc 1, .kw 3] := by
  intro g hg; simp [IncStack.live] at hg; rcases hg with rfl | rfl <;> decide
example : IncStack.Expands incDemo [.kw 1, .inc 2, .kw 2, .inc 1, .kw 3] [1, 10, 2, 10, 20, 10, 3] :=
  include_stack_split_sound incDemo 30 0 _ _ (by decide +kernel)
example : incDemo 0 = some [.kw 1, .inc 2, .kw 2, .inc 1, .kw 3] := by decide
-- a file that reads itself, directly or through another one, is refused
example : IncStack.parseFile (fun f => [[.kw 1, .inc 1], [.kw 2, .inc 0]][f]?) 30 0 = none := by decide +kernel
example : IncStack.isOpen [(1, []), (0, [.kw 3])] 0 = true := by decide

end OpmVerif.Props.C01
