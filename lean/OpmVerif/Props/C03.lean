/-
  C03 — The schedule is causal: state at step k depends only on input up to step k.   (proof, partial)

  What is proved (for every schedule length, every cut, every tail):
    * the ScheduleDeck partition of the past does not depend on the future (`blocks_prefix`), also
      for restarted runs: the skipped part contributes exactly its white-listed keywords to block 0
      (`blocks_restart_skipped`) and after the restart time every closed block is final
      (`blocks_prefix_restart`); `blocks_norestart` ties the two models;
    * the keyword semantics of `Model/SchedCore.lean` (23 record operations: WELSPECS incl. regrouping
      and head change, COMPDAT, COMPLUMP, WPIMULT immediate/deferred, WELOPEN, WCONPROD, WCONINJE,
      WCONHIST, WCONINJH, WHISTCTL, WELTARG, WEFAC, WECON, WTEST, WLIST, GRUPTREE, GEFAC, GCONPROD,
      GCONINJE, NEXTSTEP, UDQ and ACTIONX registries; COMPORD: the connection ordering TRACK / DEPTH /
      INPUT a new well takes from the COMPORD keyword of its own report step, and the connection
      sequence `WellConnections::order()` produces after COMPDAT) is causal end to end (`causal`);
    * no aliasing: the snapshots of `a ++ b` up to |a| are the snapshots of `a` alone, whatever the later
      blocks re-issue for the same group (GRUPTREE re-parenting), well or segment (WSEGVALV / WSEGSICD /
      WSEGAICD on multisegment wells) (`later_blocks_keep_earlier_states`); the multisegment keywords write
      the segment map only (`msw_writes_segments_only`, `device_keyword_other_wells`);
    * the connection ordering of a well is fixed at its creation: no input of the same or any later
      report step — COMPORD keywords included — changes it (`well_order_fixed`);
    * the copy-on-write discipline: effect traces without in-place writes to shared objects and
      without writes to globals a snapshot reads leave all earlier snapshots unchanged
      (`cow_frame`, `cow_frame_blocks`);
    * every site of the real handlers that can break that discipline — non-const references into
      a snapshot, any selector of `snapshots` other than the current step, container-level mutations
      of the snapshot vector, uses of names bound from an earlier snapshot, global writes — is safe
      by class or in an explicit allow-list (`handlers_cow_safe`, over the table regenerated from
      the sources).
  What is only observed (property mode on the real code): all other keywords (≈175 handlers),
  members outside the observation record, the state loaded from a restart file.
-/
import OpmVerif.Proofs.SchedCore
import OpmVerif.Proofs.SchedOrder
import OpmVerif.Proofs.SchedHeap
import OpmVerif.Proofs.SchedSeg
import OpmVerif.Gen.HandlerEffects

namespace OpmVerif.Props.C03
open OpmVerif.Sched

/-- The partition of the past does not depend on the future: for keyword lists that share the
prefix `pre ++ [t]` (t any keyword, in particular a DATES with several records or a TSTEP with
several values) the first `nsteps pre + nsteps [t]` blocks — every block closed so far —
coincide, whatever follows. -/
theorem blocks_prefix {κ : Type} (start : Time) (pre : List (Kw κ)) (t : Kw κ) (tail tail' : List (Kw κ))
    (bs bs' : List (Block κ))
    (h : blocks start (pre ++ t :: tail) = .ok bs) (h' : blocks start (pre ++ t :: tail') = .ok bs') :
    bs.take (nsteps pre + t.nsteps) = bs'.take (nsteps pre + t.nsteps) := by
  have e : ∀ x : List (Kw κ), pre ++ t :: x = (pre ++ [t]) ++ x := by intro x; simp
  rw [e] at h h'
  have := blocks_prefix_gen (pre ++ [t]) tail tail' h h'
  simpa [nsteps_append, nsteps] using this

/-- Restarted runs (report_step > 0, optionally SKIPREST), the skipped part: as long as the
restart time has not been reached (`rst_skip` still true after reading `a`), the block list is
the initial one (placeholders 0 .. report_step-1) except that block 0 has collected exactly the
white-listed keywords of `a`, in order; every other keyword and every time record of `a` is
dropped. -/
theorem blocks_restart_skipped {κ : Type} (cfg : RCfg) (wl : κ → Bool) (start : Time) (a : List (Kw κ)) (s1 : RSt κ)
    (h : runEvsR cfg wl (rinit cfg start) (flatten a) = .ok s1) (hs : s1.skip = true) :
    s1.all = addFirst (rinit cfg start : RSt κ).all (whitelisted wl (flatten a)) :=
  runEvsR_skip_phase h hs

/-- Restarted runs, after the skipped part: once the restart time has been reached by the prefix
`a` (`rst_skip` false), every block closed so far — the placeholders, block 0 with its collected
keywords, and the blocks of the report steps since — is the same whatever follows. -/
theorem blocks_prefix_restart {κ : Type} (cfg : RCfg) (wl : κ → Bool) (start : Time) (a b b' : List (Kw κ))
    (bs bs' : List (Block κ)) (s1 : RSt κ)
    (ha : runEvsR cfg wl (rinit cfg start) (flatten a) = .ok s1) (hs : s1.skip = false)
    (h : rblocks cfg wl start (a ++ b) = .ok bs) (h' : rblocks cfg wl start (a ++ b') = .ok bs') :
    bs.take s1.closed.length = bs'.take s1.closed.length := by
  rw [rblocks_split ha hs h, rblocks_split ha hs h']

/-- Without a restart the restarted-run partition is the plain one. -/
theorem blocks_norestart {κ : Type} (wl : κ → Bool) (start t : Time) (kws : List (Kw κ)) :
    rblocks { rstep := 0, rtime := t, skiprest := false } wl start kws = blocks start kws :=
  rblocks_norestart wl start t kws

/-- … and the number of blocks is the number of report steps plus one. -/
theorem blocks_count {κ : Type} (start : Time) (kws : List (Kw κ)) (bs : List (Block κ))
    (h : blocks start kws = .ok bs) : bs.length = nsteps kws + 1 :=
  blocks_length h

/-- Causality of the core semantics: two schedules that agree up to and including a time
keyword `t` have identical snapshots 0 .. (all steps closed by `pre ++ [t]`) − 1, for any tails
(truncation is `tail' = []`). -/
theorem causal (k : Consts) (start : Time) (pre : List (Kw CKw)) (t : Kw CKw) (tail tail' : List (Kw CKw))
    (ss ss' : List State)
    (h : schedule k start (pre ++ t :: tail) = .ok ss) (h' : schedule k start (pre ++ t :: tail') = .ok ss') :
    ss.take (nsteps pre + t.nsteps) = ss'.take (nsteps pre + t.nsteps) := by
  have e : ∀ x : List (Kw CKw), pre ++ t :: x = (pre ++ [t]) ++ x := by intro x; simp
  rw [e] at h h'
  have := causal_gen (pre ++ [t]) tail tail' h h'
  simpa [nsteps_append, nsteps] using this

/-- Causality at block level: a common prefix of blocks gives a common prefix of snapshots. -/
theorem causal_on_blocks (k : Consts) (a b b' : List (List CKw)) (ss ss' : List State)
    (h : run k (a ++ b) = .ok ss) (h' : run k (a ++ b') = .ok ss') :
    ss.take a.length = ss'.take a.length :=
  causal_blocks h h'

/-- No aliasing between snapshots.  The model's snapshots are values; what the C++ shares between the
`ScheduleState` objects of consecutive report steps (the `Group` objects of `map_member`, the `WellSegments` a
`Well` points to, …) and must therefore never edit in place has no counterpart here.  Stated as a property of the
model: processing the blocks `b` after the blocks `a` never changes an earlier state — the first `|a|` snapshots of
the whole run ARE the snapshots of running `a` alone, whatever `b` contains (a GRUPTREE that moves a group away
from a parent the earlier snapshots know, a WSEGVALV / WSEGSICD / WSEGAICD for a segment that already carries a
device, any keyword re-issued for the same well or group).  The correspondence run compares exactly this: every
earlier state of the real `Schedule` is dumped after the whole deck has been processed. -/
theorem later_blocks_keep_earlier_states (k : Consts) (a b : List (List CKw)) (ss ss0 : List State)
    (h : run k (a ++ b) = .ok ss) (h0 : run k a = .ok ss0) : ss.take a.length = ss0 :=
  run_prefix_is_run k a b ss ss0 h h0

/-- The multisegment keywords (WELSEGS, WSEGVALV, WSEGSICD, WSEGAICD) write the segment map and nothing else:
wells, groups, connections, statuses and events of the state are what they were (`Well::updateWSEGVALV/SICD/AICD`
and `handleWELSEGS` replace `Well::segments` by a fresh copy). -/
theorem msw_writes_segments_only (k : Consts) (m : List String) (s s' : State) (op : SegOp)
    (h : handle k m s (.msw op) = .ok s') :
    ∃ sm, segStep s.p op = .ok sm ∧ s' = { s with p := { s.p with segs := sm } } :=
  handle_msw k m s s' op h

/-- A device keyword leaves the segment set of every well it does not name as it was. -/
theorem device_keyword_other_wells (f : List Seg → Except Err (List Seg)) (ns : List String) (sm sm' : List (String × List Seg))
    (h : forSegs sm f ns = .ok sm') (w : String) (hw : w ∉ ns) : lookup sm' w = lookup sm w :=
  forSegs_other f ns sm sm' h w hw

/-- The connection ordering (COMPORD: TRACK / DEPTH / INPUT) of a well is fixed when the well is
created: if the last snapshot of the prefix `a` knows well `w` with ordering `o`, every later
snapshot does, whatever the blocks `b` that follow contain — COMPORD keywords naming the well
included.  (The ordering of a new well is looked up in `Props.compord`, which `beginBlock` sets
from the well's own block only.) -/
theorem well_order_fixed (k : Consts) (a b : List (List CKw)) (ss : List State) (h : run k (a ++ b) = .ok ss)
    (w : String) (o : Nat) (si : State) (hi : (ss.take a.length).getLast? = some si) (hw : ordOf si w = some o) :
    ∀ x ∈ ss.drop a.length, ordOf x w = some o :=
  run_order_fixed k a b ss h w o si hi hw

/-- … and within a report step: every record of every keyword (COMPORD keywords have no handler)
leaves the ordering of the wells existing before the step as it was. -/
theorem step_keeps_order (k : Consts) (s s' : State) (blk : List CKw) (h : stepBlock k s blk = .ok s') (w : String) (o : Nat)
    (hw : ordOf s w = some o) : ordOf s' w = some o :=
  stepBlock_ord k s s' blk h w o hw

open OpmVerif.SchedHeap in
/-- Heap frame lemma: a safe effect trace (no in-place write to an object reachable from an
earlier snapshot, no write to a global an earlier snapshot reads) leaves every earlier snapshot
denoting what it denoted. -/
theorem cow_frame (reads : Nat → Bool) (σ : St) (hwf : WF σ) (effs : List Eff)
    (hs : SafeTrace reads (createNext σ) effs) :
    ∀ s ∈ σ.past ++ [σ.cur], denote reads (processBlock σ effs) s = denote reads σ s :=
  (block_frame reads σ hwf effs hs).2.2

open OpmVerif.SchedHeap in
/-- … for any number of further blocks. -/
theorem cow_frame_blocks (reads : Nat → Bool) (σ : St) (hwf : WF σ) (bs : List (List Eff))
    (hs : SafeBlocks reads σ bs) :
    ∀ s ∈ σ.past, denote reads (runBlocks σ bs) s = denote reads σ s := by
  obtain ⟨_, _, h⟩ := blocks_frame reads bs σ hwf hs
  exact h

/-! ### the effect table of the real handlers -/

open OpmVerif.Gen.HandlerEffects

/-- Sites that are safe by their class: by-value members of the snapshot being processed,
aliases of it, reads of other snapshots, in-place mutators on a freshly copied object,
appends to the snapshot vector. -/
def safeKind (s : Site) : Bool :=
  (s.kind == "refValue" && s.recv == "cur") || (s.kind == "snapAlias" && s.recv == "cur") ||
  s.kind == "snapIndexR" || s.kind == "snapOtherR" || (s.kind == "innerShared" && s.recv == "fresh") ||
  (s.kind == "snapContainer" && (s.recv == "emplace_back" || s.recv == "push_back" || s.recv == "reserve"))

/-- (function, kind, receiver, justification).  Everything else must be `safeKind`. -/
def allowList : List (String × String × String × String) := [
  ("Schedule::Schedule", "globalWrite", "restart_output", "constructor: sized and cleared before the iteration starts"),
  ("Schedule::Schedule", "globalWrite", "simUpdateFromPython", "constructor: fresh accumulator, not part of any snapshot"),
  ("Schedule::Schedule", "globalWrite", "completed_cells", "ScheduleGrid cache of static cell properties: monotone, values do not depend on the step"),
  ("Schedule::Schedule", "snapIndexW", "restart_step", "restart only: events of step r-1 copied forward to r (outside the non-restarted claim)"),
  ("Schedule::iterateScheduleSection", "globalWrite", "restart_output", "addRestartOutput(report_step): slot of the step being processed only"),
  ("Schedule::iterateScheduleSection", "globalWrite", "m_sched_deck", "clearKeywords(report_step) of the block just processed; m_sched_deck[report_step] lookup"),
  ("Schedule::store_wgnames", "globalWrite", "action_wgnames", "monotone name set; read only to turn an unknown-name error into a warning"),
  ("Schedule::store_wgnames", "globalWrite", "potential_wellopen_patterns", "monotone name set for the simulator, no snapshot reads it"),
  ("Schedule::updateWellStatus", "globalWrite", "potential_wellopen_patterns", "monotone name set for the simulator, no snapshot reads it"),
  ("Schedule::prefetchPossibleFutureConnections", "globalWrite", "possibleFutureConnections", "monotone set for the grid partitioner, no snapshot reads it"),
  ("Schedule::runPyAction", "globalWrite", "simUpdateFromPython", "run-time accumulator of one PYACTION call"),
  ("Schedule::runPyAction", "globalWrite", "current_report_step", "run-time cursor of PYACTION"),
  ("Schedule::internalWELLSTATUSACTIONXFromPYACTION", "globalWrite", "simUpdateFromPython", "run-time accumulator"),
  ("Schedule::applyKeywords", "globalWrite", "simUpdateFromPython", "run-time accumulator"),
  ("Schedule::applyKeywords", "globalWrite", "m_sched_deck", "C04 mechanism: keywords appended to block n (modelled in SchedAction)"),
  ("Schedule::applyKeywords", "globalWrite", "completed_cells", "ScheduleGrid cache, see above"),
  ("Schedule::applyAction", "globalWrite", "m_sched_deck", "C04 mechanism: keywords appended to block n (modelled in SchedAction)"),
  ("Schedule::applyAction", "globalWrite", "completed_cells", "ScheduleGrid cache, see above"),
  ("HandlerContext::setExitCode", "globalWrite", "exit_status", "EXIT keyword: one run-wide scalar by design, no snapshot reads it"),
  ("Schedule::filterConnections", "snapAlias", "all", "post-construction filter the simulator applies to every snapshot on purpose"),
  ("Schedule::filterConnections", "refShared", "all", "same: deliberately all snapshots, not a keyword handler"),
  ("Schedule::addGroup", "refShared", "cur", "RstGroup overload (restart only): FIELD controls from the restart file"),
  ("Schedule::load_rst", "refShared", "cur", "restart only: earlier snapshots are empty placeholders"),
  ("Schedule::applyWellProdIndexScaling", "refShared", "other:step", "run-time PI scaling of step n and later, in place BY DESIGN for later steps (the caller installs independent WellConnections copies first, see design.d/C04.md)"),
  ("Schedule::applyWellProdIndexScaling", "innerShared", "shared", "same: run-time PI scaling of steps >= reportStep"),
  ("Schedule::serializationTestObject", "snapContainer", "operator=", "fresh local test object `result`, not the schedule being built"),
  ("Schedule::applyKeywords", "snapContainer", "resize", "C04 mechanism: resize(reportStep+1) drops the snapshots AFTER reportStep before re-iterating from it; snapshots 0..reportStep are kept (modelled in SchedAction)"),
  ("Schedule::applyAction", "snapContainer", "resize", "C04 mechanism: resize(reportStep+1) drops the snapshots AFTER reportStep before re-iterating from it; snapshots 0..reportStep are kept (modelled in SchedAction)"),
  ("Schedule::filterConnections", "snapOtherW", "all", "same loop as the snapAlias/all entry: post-construction filter applied to every snapshot on purpose, not a keyword handler"),
  ("Schedule::filterConnections", "snapOtherW", "alias:all", "same: the wells of every snapshot are filtered in place by design"),
  ("Schedule::applyWellProdIndexScaling", "snapIndexW", "step", "run-time PI scaling: non-const Well& of every step >= reportStep (the refShared other:step entry seen by the index scan)"),
  ("Schedule::applyWellProdIndexScaling", "snapOtherW", "alias:[step]", "run-time PI scaling: &well collected in unique_wells and scaled in place")
]

def allowed (s : Site) : Bool :=
  safeKind s || allowList.any fun a => a.1 == s.fn && a.2.1 == s.kind && a.2.2.1 == s.recv

/-- Every site of the real handlers that binds a non-const reference into a snapshot, indexes
another snapshot, or writes a Schedule global is either safe by class or in the allow-list. -/
theorem handlers_cow_safe : sites.all allowed = true := by decide +kernel

/-- The scanner saw the handler files. -/
theorem handlers_table_nonempty : 8 ≤ nFiles ∧ 40 ≤ sites.length := by decide +kernel

/-! ### non-vacuity -/

def k0 : Consts := { one := "1", zero := "-", bhpProd := "b", bhpInj := "B", num0 := "0", siP := "sP", siLRate := "sL",
                     siTime := "sT", bhpProdSI := "bS", bhpHistSI := "bH", bhpInjHSI := "bI" }
def d0 : Date := { y := 2015, m := 1, d := 1 }
def pre0 : List (Kw CKw) := [.other (.ops "GRUPTREE" [.gruptree "G1" "FIELD", .gruptree "G2" "G1"]), .other (.ops "RPTRST" [])]
def t0 : Kw CKw := .tstep [{ num := 10, den := 1 }, { num := 1, den := 2 }]
def tailA : List (Kw CKw) := [.other (.actionx "A"), .other (.ops "WELOPEN" [.welopenW "?" .open_]), .other .endactio,
                              .dates [{ y := 2016, m := 3, d := 1 }]]
def tailB : List (Kw CKw) := [.other (.ops "GRUPTREE" [.gruptree "G2" "FIELD"])]

example : (blocks (d0.seconds * 1000) (pre0 ++ t0 :: tailA)).toOption.map List.length = some 4 := by decide +kernel
example : ((schedule k0 (d0.seconds * 1000) (pre0 ++ t0 :: tailA)).toOption.map List.length,
           (schedule k0 (d0.seconds * 1000) (pre0 ++ t0 :: tailB)).toOption.map List.length) = (some 4, some 3) := by decide +kernel
-- the two tails really produce different later states
example : ((schedule k0 (d0.seconds * 1000) (pre0 ++ t0 :: tailA)).toOption.bind (·[2]?)).map (fun s => s.p.actions.length) = some 1 ∧
          ((schedule k0 (d0.seconds * 1000) (pre0 ++ t0 :: tailB)).toOption.bind (·[2]?)).map (fun s => (lookup s.p.groups "G2").map (·.parent)) = some (some "FIELD") := by
  decide +kernel

/-! COMPORD.  OP_1 is created in a report step without COMPORD and connected in non-TRACK order
(layers 1, 3-4, 2); a COMPORD naming it follows in a later report step (tail C) or nothing follows
(truncation): state 0 is the same, the well is TRACK ordered and its connections are in
TRACK sequence.  The same keywords with the COMPORD in the creation step — even after WELSPECS —
give INPUT order and the input sequence. -/
def preC : List (Kw CKw) :=
  [.other (.ops "WELSPECS" [.welspecs "OP_1" "G1" (some 1) (some 1)]),
   .other (.ops "COMPDAT" [.compdat "OP_1" 0 0 1 1 1, .compdat "OP_1" 0 0 3 4 1, .compdat "OP_1" 0 0 2 2 1])]
def tC : Kw CKw := .tstep [{ num := 10, den := 1 }]
def tailC : List (Kw CKw) := [.other (.compord [("OP_1", 2)]), .other (.ops "COMPDAT" [.compdat "OP_1" 2 2 1 1 1]), .tstep [{ num := 5, den := 1 }]]
def obsC (s : State) : Option Nat × List Nat := (ordOf s "OP_1", (connsOf s.c.m "OP_1").map (·.k))

example : ((schedule k0 (d0.seconds * 1000) (preC ++ tC :: tailC)).toOption.map fun ss => ss.map obsC) =
    some [(some 0, [0, 1, 2, 3]), (some 0, [0, 1, 2, 3, 0]), (some 0, [0, 1, 2, 3, 0])] := by decide +kernel
example : ((schedule k0 (d0.seconds * 1000) (preC ++ tC :: [])).toOption.map fun ss => ss.map obsC) =
    some [(some 0, [0, 1, 2, 3]), (some 0, [0, 1, 2, 3])] := by decide +kernel
-- COMPORD in the creation step, after WELSPECS and COMPDAT: found by `block.get("COMPORD")`
example : ((schedule k0 (d0.seconds * 1000) (preC ++ [.other (.compord [("*", 1), ("OP*", 2)]), tC])).toOption.map fun ss => ss.map obsC) =
    some [(some 2, [0, 2, 3, 1]), (some 2, [0, 2, 3, 1])] := by decide +kernel
-- only the first COMPORD keyword of the block counts; DEPTH sorts by layer
example : ((schedule k0 (d0.seconds * 1000) (.other (.compord [("OP_1", 1)]) :: preC ++ [.other (.compord [("OP_1", 2)]), tC])).toOption.map fun ss => ss.map obsC) =
    some [(some 1, [0, 1, 2, 3]), (some 1, [0, 1, 2, 3])] := by decide +kernel
-- TRACK walks from the head: a connection in the head column comes before a nearer-to-surface one elsewhere
example : (reorder 0 2 2 [{ i := 4, j := 4, k := 0, state := 1, complnum := 1, pimult := "1" }, { i := 1, j := 1, k := 3, state := 1, complnum := 2, pimult := "1" },
                          { i := 1, j := 1, k := 1, state := 1, complnum := 3, pimult := "1" }]).map (fun c => (c.i, c.k)) = [(1, 1), (1, 3), (4, 0)] := by decide

/-! Aliasing (seeded changes C03-4 / C03-5).  Groups PLAT_A, PLAT_B under FIELD, G1 under PLAT_A, a multisegment
well M1 in G1 with a valve on segment 3 from report step 1 on.  Report step 3 re-parents G1 to PLAT_B and re-issues
WSEGVALV for the same segment with a smaller opening (tail R) — or the input stops after step 2 (truncation).
States 0..2 are the same: PLAT_A keeps its child G1, the valve keeps its first setting. -/
def preR : List (Kw CKw) :=
  [.other (.ops "GRUPTREE" [.gruptree "PLAT_A" "FIELD", .gruptree "PLAT_B" "FIELD", .gruptree "G1" "PLAT_A"]),
   .other (.ops "WELSPECS" [.welspecs "M1" "G1" (some 1) (some 1)]),
   .other (.ops "COMPDAT" [.compdat "M1" 1 1 1 2 1]),
   .other (.msw (.welsegs "M1" [{ num := 2, branch := 1, outlet := 1, diam := "d", rough := "r", area := "a" },
                                { num := 3, branch := 1, outlet := 2, diam := "d", rough := "r", area := "a" }])),
   .tstep [{ num := 31, den := 1 }],
   .other (.msw (.valve "M1" [{ seg := 3, cv := "cv", ac := "wide", pd := none, pr := none, pa := none, isOpen := true, maxA := none }])),
   .tstep [{ num := 28, den := 1 }],
   .other (.ops "GCONPROD" [.gconprod { pat := "PLAT_B", cmode := 1, oil := some "o", water := none, gas := none, liquid := none, exceed := false }])]
def tR : Kw CKw := .tstep [{ num := 31, den := 1 }]
def tailR : List (Kw CKw) :=
  [.other (.ops "GRUPTREE" [.gruptree "G1" "PLAT_B"]),
   .other (.msw (.valve "M1" [{ seg := 3, cv := "cv", ac := "narrow", pd := some "D", pr := none, pa := none, isOpen := false, maxA := none }])),
   .tstep [{ num := 30, den := 1 }]]
def obsR (s : State) : Option (List String) × Option String × Option (Option Icd) :=
  ((lookup s.p.groups "PLAT_A").map (·.groups), (lookup s.p.groups "G1").map (·.parent),
   (lookup s.p.segs "M1").map fun ss => (ss.find? (·.num = 3)).map (·.icd))

example : ((schedule k0 (d0.seconds * 1000) (preR ++ tR :: tailR)).toOption.map fun ss => ss.map obsR) =
    some [(some ["G1"], some "PLAT_A", some (some .none)),
          (some ["G1"], some "PLAT_A", some (some (.valve "cv" "wide" true "d" "r" "a" "a"))),
          (some ["G1"], some "PLAT_A", some (some (.valve "cv" "wide" true "d" "r" "a" "a"))),
          (some [], some "PLAT_B", some (some (.valve "cv" "narrow" false "D" "r" "a" "a"))),
          (some [], some "PLAT_B", some (some (.valve "cv" "narrow" false "D" "r" "a" "a")))] := by decide +kernel
example : ((schedule k0 (d0.seconds * 1000) (preR ++ tR :: [])).toOption.map fun ss => ss.map obsR) =
    some [(some ["G1"], some "PLAT_A", some (some .none)),
          (some ["G1"], some "PLAT_A", some (some (.valve "cv" "wide" true "d" "r" "a" "a"))),
          (some ["G1"], some "PLAT_A", some (some (.valve "cv" "wide" true "d" "r" "a" "a"))),
          (some ["G1"], some "PLAT_A", some (some (.valve "cv" "wide" true "d" "r" "a" "a")))] := by decide +kernel
-- `later_blocks_keep_earlier_states` has instances: the blocks of the example, cut after block 2
example : (match blocks (d0.seconds * 1000) (preR ++ tR :: tailR) with
    | .ok bs => decide ((run k0 (bs.map Block.kws)).toOption.map (·.take 3) = (run k0 ((bs.map Block.kws).take 3)).toOption) &&
                (run k0 (bs.map Block.kws)).toOption.map List.length == some 5
    | .error _ => false) = true := by decide +kernel
-- a device on a segment the well does not have is an input error; a device keyword for a well without segments is outside the model
example : (segStep { wells := [("M1", { group := "G", headI := 1, headJ := 1, head0I := 1, head0J := 1, prod := newProd k0 1024, inj := newInj k0, efac := "1", econ := ("0", "0", "NONE") })],
                     segs := [("M1", [topSeg, { num := 2, branch := 1, outlet := 1, diam := "d", rough := "r", area := "a" }])] }
            (.sicd "M1" 7 "l" true)).toOption = none := by decide +kernel

/-! restart with SKIPREST at report step 2 (1 FEB 2015): the skipped part contributes RPTRST and
TUNING to block 0, its WELSPECS and its DATES record are dropped -/
def cfgR : RCfg := { rstep := 2, rtime := ({ y := 2015, m := 2, d := 1 } : Date).seconds * 1000, skiprest := true }
def wlR : String → Bool := fun k => ["VFPPROD", "VFPINJ", "RPTSCHED", "RPTRST", "TUNING", "MESSAGES"].contains k
def kwsR : List (Kw String) :=
  [.other "RPTRST", .other "WELSPECS", .dates [{ y := 2015, m := 1, d := 15 }], .other "TUNING", .other "WCONPROD",
   .dates [{ y := 2015, m := 2, d := 1 }], .other "WELOPEN", .dates [{ y := 2015, m := 3, d := 1 }]]

example : ((rblocks cfgR wlR (d0.seconds * 1000) kwsR).toOption.map fun bs => bs.map fun b => (b.ttype, b.kws)) =
    some [(.start, ["RPTRST", "TUNING"]), (.restart, []), (.dates, ["WELOPEN"]), (.dates, [])] := by decide +kernel
example : ((runEvsR cfgR wlR (rinit cfgR (d0.seconds * 1000)) (flatten (kwsR.take 5))).toOption.map (·.skip)) = some true := by
  decide +kernel
example : ((runEvsR cfgR wlR (rinit cfgR (d0.seconds * 1000)) (flatten (kwsR.take 6))).toOption.map fun s => (s.skip, s.closed.length)) =
    some (false, 2) := by decide +kernel
-- stepping over the restart time is the SKIPREST error
example : ((rblocks cfgR wlR (d0.seconds * 1000) [.other "RPTRST", .dates [{ y := 2015, m := 2, d := 2 }]]).toOption.map List.length,
           match rblocks cfgR wlR (d0.seconds * 1000) [.other "RPTRST", .dates [{ y := 2015, m := 2, d := 2 }]] with
           | .error e => some e
           | .ok _ => none) = (none, some DeckErr.skiprestMissed) := by
  decide +kernel

/-- a state whose current snapshot holds object 0; after `create_next` that object is shared
with the past snapshot: `update` then `mutateInPlace` on the fresh object is a safe trace,
`mutateInPlace` on the shared object is not. -/
def σ0 : SchedHeap.St := { heap := fun p => if p = 0 then some 7 else none, next := 1, glob := fun _ => 0,
                           past := [], cur := fun sl => if sl = (0, 0) then some 0 else none }

example : SchedHeap.WF σ0 := by
  constructor
  · intro s hs; simp [σ0] at hs
  · intro sl p h
    simp only [σ0] at h ⊢
    split at h
    · cases h; exact Nat.zero_lt_one
    · cases h

example : SchedHeap.SafeTrace (fun _ => false) (SchedHeap.createNext σ0)
    [.update 0 9, .mutateInPlace 0 0 (· + 1), .global 3 (· + 1)] := by
  refine ⟨trivial, ?_, rfl, trivial⟩
  intro p hp s hs sl
  simp [SchedHeap.step, SchedHeap.alloc, SchedHeap.createNext, σ0] at hp hs
  subst hp; subst hs
  show (if sl = (0, 0) then some 0 else none) ≠ some 1
  split <;> simp

example : ¬ SchedHeap.safe (fun _ => false) (SchedHeap.createNext σ0) (.mutateInPlace 0 0 (· + 1)) := by
  intro h
  exact h 0 (by simp [SchedHeap.createNext, σ0]) (fun sl => if sl = (0, 0) then some 0 else none)
    (by simp [SchedHeap.createNext, σ0]) (0, 0) (by simp)

end OpmVerif.Props.C03
