/-
  C08 — Unified restart files keep a consistent history under rewinds and crashes.

  Quantifiers: every history of report-step writes (any length, any step numbers < 2^31,
  any well-formed arrays per step, rewinds included) on a file that does not exist at first;
  every truncation offset of the resulting unformatted file.
-/
import OpmVerif.Proofs.Unrst
import OpmVerif.Proofs.EclBinExt
import OpmVerif.Proofs.UnrstFmt

namespace OpmVerif.Props.C08
open OpmVerif.Ecl OpmVerif.Unrst

/-- After any sequence of report-step writes the file equals what writing the surviving
steps into a fresh file would have produced. -/
theorem rewind_eq_fresh (n : Nat) (as : List Arr) (h : List (Nat × List Arr))
    (hx : StepWF (n, as)) (hh : ∀ s ∈ h, StepWF s) :
    runHistory none ((n, as) :: h) = .ok (some (fresh (specRun [] ((n, as) :: h)))) :=
  runHistory_from_nothing n as h hx hh

/-- One write in the middle of a history (the refinement step): the concrete seek /
truncate / append arithmetic implements "drop every step ≥ n, append step n". -/
theorem write_step_refines (st : Steps) (hne : st ≠ []) (hwf : ∀ s ∈ st, StepWF s) (hs : Sorted st)
    (n : Nat) (as : List Arr) (hnew : StepWF (n, as)) :
    writeStep (some (fresh st)) n as = .ok (fresh (specStep st n as)) :=
  writeStep_refines st hne hwf hs n as hnew

/-- The surviving steps are strictly increasing after every write. -/
theorem steps_strictly_increasing {st : Steps} (hs : Sorted st) (n : Nat) (as : List Arr) :
    Sorted (specStep st n as) :=
  specStep_sorted hs n as

/-- Every step smaller than the one just written is preserved byte for byte, and the
step just written is last: the new file is the old file's prefix holding the smaller
steps followed by the new step. -/
theorem earlier_steps_preserved_last_written_last (st : Steps) (hs : Sorted st) (n : Nat) (as : List Arr) :
    fresh (specStep st n as) = fresh (st.filter (fun s => s.1 < n)) ++ fresh [(n, as)] ∧
    fresh (st.filter (fun s => s.1 < n)) <+: fresh st := by
  refine ⟨by simp [specStep, fresh_append], ?_⟩
  have h := filter_split_sorted n st hs
  exact ⟨fresh (st.filter (fun s => ¬ s.1 < n)), by rw [← fresh_append, ← h]⟩

/-- The number `seekPosition` subtracts for an unformatted file is the size of the header
record the writer emits, so the write position is the first byte of the SEQNUM header. -/
theorem header_size_binary (name : Bytes) (n : Nat) (t : ArrType) (hn : name.length = 8) :
    (encodeHeader name n t).length = Gen.EclFile.headerSizeBinary :=
  encodeHeader_length name n t hn

/-- … and for a formatted file it is the length of the header line including the newline. -/
theorem header_size_formatted (name tag : List Char) (n : Nat) (hn : name.length = 8)
    (ht : tag.length = 4) (hlt : n < 2147483648) :
    (fmtHeader name n tag).length = Gen.EclFile.headerSizeFormatted :=
  fmtHeader_length name tag n hn ht hlt

/-- Crash clause: cut the unformatted file at any byte.  Every array the reader still
loads without raising an error is exactly the array written at that position. -/
theorem truncation_exact_or_error (as : List Arr) (hwf : ∀ a ∈ as, a.WF) (k : Nat)
    (idx : List Entry)
    (hidx : indexFile ((encodeFile as).take k) (((encodeFile as).take k).length + 1) 0 = .ok idx)
    (i : Nat) (hi : i < idx.length) (a : Arr)
    (hload : loadEntry ((encodeFile as).take k) idx[i] = .ok a) :
    as[i]? = some a :=
  Ecl.truncation_exact_or_error as hwf k idx hidx i hi a hload

/-- **Formatted** files (`.FUNRST`): after any sequence of report-step writes, rewinds
included, the file equals what writing the surviving steps into a fresh file would have
produced.  The model covers the header-line index, `sizeOnDiskFormatted`, `std::stoi` on the
SEQNUM value and the 31-character write position arithmetic. -/
theorem rewind_eq_fresh_formatted (n : Nat) (as : List EclFmt.FArr) (h : List (Nat × List EclFmt.FArr))
    (hx : UnrstFmt.StepWF (n, as)) (hh : ∀ s ∈ h, UnrstFmt.StepWF s) :
    UnrstFmt.runHistory none ((n, as) :: h) =
      some (some (UnrstFmt.fresh (UnrstFmt.specRun [] ((n, as) :: h)))) :=
  UnrstFmt.runHistory_from_nothing n as h hx hh

/-- The refinement step for formatted files. -/
theorem write_step_refines_formatted (st : UnrstFmt.Steps) (hne : st ≠ [])
    (hwf : ∀ s ∈ st, UnrstFmt.StepWF s) (hs : UnrstFmt.Sorted st) (n : Nat) (as : List EclFmt.FArr) :
    UnrstFmt.writeStep (some (UnrstFmt.fresh st)) n as = some (UnrstFmt.fresh (UnrstFmt.specStep st n as)) :=
  UnrstFmt.writeStep_refines st hne hwf hs n as

/-- Formatted: the surviving steps are strictly increasing, earlier steps are a prefix of the
old file and the step just written is last. -/
theorem formatted_steps_increasing_and_preserved (st : UnrstFmt.Steps) (hs : UnrstFmt.Sorted st) (n : Nat)
    (as : List EclFmt.FArr) :
    UnrstFmt.Sorted (UnrstFmt.specStep st n as) ∧
    UnrstFmt.fresh (UnrstFmt.specStep st n as) =
      UnrstFmt.fresh (st.filter (fun s => s.1 < n)) ++ UnrstFmt.fresh [(n, as)] ∧
    UnrstFmt.fresh (st.filter (fun s => s.1 < n)) <+: UnrstFmt.fresh st := by
  refine ⟨UnrstFmt.specStep_sorted hs n as, by simp [UnrstFmt.specStep, UnrstFmt.fresh_append], ?_⟩
  have h := UnrstFmt.filter_split_sorted n st hs
  exact ⟨UnrstFmt.fresh (st.filter (fun s => ¬ s.1 < n)), by rw [← UnrstFmt.fresh_append, ← h]⟩

/-! Non-vacuity: a rewind history on concrete data. -/

def farrA : EclFmt.FArr := { name := "IWEL    ".toList, t := .inte, ints := [7, -3, 2147483647] }
def farrB : EclFmt.FArr := { name := "ZWEL    ".toList, t := .char, strs := ["P1".toList, "I'2".toList] }

example : UnrstFmt.runHistory none [(1, [farrA]), (2, []), (3, [farrB]), (2, [farrB, farrA])] =
    some (some (UnrstFmt.fresh [(1, [farrA]), (2, [farrB, farrA])])) := by decide +kernel


def arrA : Arr := { name := [80, 82, 69, 83, 83, 85, 82, 69], ty := .real, elems := [[66, 200, 0, 0], [66, 200, 0, 1]] }

example : StepWF (3, [arrA]) := by
  refine ⟨by omega, ?_⟩
  intro a ha
  simp only [List.mem_cons, List.mem_nil_iff, or_false] at ha
  subst ha
  refine ⟨?_, by decide⟩
  simp [Arr.WF, Arr.WFcore, arrA, ValidTy, elemSize, Gen.EclIO.sizeOfReal, elemsOk]

example : specRun [] [(1, [arrA]), (2, []), (3, [arrA]), (2, [arrA])] = [(1, [arrA]), (2, [arrA])] := by
  decide

example : runHistory none [(1, [arrA]), (2, []), (3, [arrA]), (2, [arrA])] =
    .ok (some (fresh [(1, [arrA]), (2, [arrA])])) := by decide +kernel

end OpmVerif.Props.C08
