/-
  C16 — Automatic differentiation returns exact values and derivatives in every variant.

  Only property statements, their one-line proofs from `Proofs/DenseAd*.lean`, and non-vacuity
  examples.  The objects the theorems speak about (`U1.ops … U12.ops`, `L.ops`, `D.ops`, `M.*`) are
  the definitions *generated from the C++ headers* on every run (`Gen/DenseAd.lean`):
  Evaluation1.hpp … Evaluation12.hpp, Evaluation.hpp (generic loop form), DynamicEvaluation.hpp,
  Math.hpp.  Quantifiers: every carrier type / every field, every number of derivatives n for the
  loop forms, every expression tree (no depth bound), every point of the tree's domain.
-/
import OpmVerif.Proofs.DenseAdMath

namespace OpmVerif.Props.C16
open OpmVerif.DenseAd OpmVerif.DenseAd.Gen

section anytype
variable {α : Type} [Add α] [Sub α] [Mul α] [Div α] [Neg α] [OfNat α 0] [OfNat α 1] [OfNat α 2]

/-- All variants agree: each of the twelve unrolled specialisations computes, in every one of its
n+1 slots and for every operator (+= -= *= /= with Evaluation and scalar right-hand sides, unary
minus, the friend scalar∘Evaluation operators, constructors, assignment, copy/clearDerivatives),
the very same expression as the generic loop form at that size, and so does the dynamically sized
class for every size.  Holds for every carrier type, so in particular bit for bit for IEEE doubles. -/
theorem variants_agree :
    (U1.ops : ADOps α 1) = L.ops ∧ (U2.ops : ADOps α 2) = L.ops ∧ (U3.ops : ADOps α 3) = L.ops ∧
    (U4.ops : ADOps α 4) = L.ops ∧ (U5.ops : ADOps α 5) = L.ops ∧ (U6.ops : ADOps α 6) = L.ops ∧
    (U7.ops : ADOps α 7) = L.ops ∧ (U8.ops : ADOps α 8) = L.ops ∧ (U9.ops : ADOps α 9) = L.ops ∧
    (U10.ops : ADOps α 10) = L.ops ∧ (U11.ops : ADOps α 11) = L.ops ∧ (U12.ops : ADOps α 12) = L.ops ∧
    ∀ n : Nat, (D.ops : ADOps α n) = L.ops :=
  ⟨GenProofs.U1_ops_eq_loop, GenProofs.U2_ops_eq_loop, GenProofs.U3_ops_eq_loop, GenProofs.U4_ops_eq_loop,
   GenProofs.U5_ops_eq_loop, GenProofs.U6_ops_eq_loop, GenProofs.U7_ops_eq_loop, GenProofs.U8_ops_eq_loop,
   GenProofs.U9_ops_eq_loop, GenProofs.U10_ops_eq_loop, GenProofs.U11_ops_eq_loop, GenProofs.U12_ops_eq_loop,
   fun _ => GenProofs.D_ops_eq_loop⟩
end anytype

section field
variable {K : Type} [Field K]

/-- The generic loop form is the dual-number arithmetic (value, sum/product/quotient rules in every
derivative slot) for EVERY number of derivatives — covers the sizes 13…16 and beyond. -/
theorem generic_exact (n : Nat) : Exact (L.ops : ADOps K n) := loop_exact

/-- The dynamically sized class is the dual-number arithmetic for every run-time size. -/
theorem dynamic_exact (n : Nat) : Exact (D.ops : ADOps K n) := OpmVerif.DenseAd.dynamic_exact

/-- Each unrolled specialisation 1…12 is the dual-number arithmetic: e.g. slot 7 of
`Evaluation9::operator*=` is `a₇·v + b₇·u`. -/
theorem unrolled_exact :
    Exact (U1.ops : ADOps K 1) ∧ Exact (U2.ops : ADOps K 2) ∧ Exact (U3.ops : ADOps K 3) ∧
    Exact (U4.ops : ADOps K 4) ∧ Exact (U5.ops : ADOps K 5) ∧ Exact (U6.ops : ADOps K 6) ∧
    Exact (U7.ops : ADOps K 7) ∧ Exact (U8.ops : ADOps K 8) ∧ Exact (U9.ops : ADOps K 9) ∧
    Exact (U10.ops : ADOps K 10) ∧ Exact (U11.ops : ADOps K 11) ∧ Exact (U12.ops : ADOps K 12) :=
  ⟨unrolled_exact_1, unrolled_exact_2, unrolled_exact_3, unrolled_exact_4, unrolled_exact_5, unrolled_exact_6,
   unrolled_exact_7, unrolled_exact_8, unrolled_exact_9, unrolled_exact_10, unrolled_exact_11, unrolled_exact_12⟩

/-- Mixed scalar/Evaluation operations (`a ⊕ c`, `c ⊕ a` for ⊕ ∈ {+,−,·,/}) equal the
all-Evaluation operation on the lifted constant, for every exact operator set — hence for every
variant. -/
theorem mixed_eq_lifted {n : Nat} {ops : ADOps K n} (hx : Exact ops) :
    (∀ a c, ops.adds a c = ops.add a (ops.const c)) ∧ (∀ a c, ops.subs a c = ops.sub a (ops.const c)) ∧
    (∀ a c, ops.muls a c = ops.mul a (ops.const c)) ∧ (∀ a c, ops.divs a c = ops.div a (ops.const c)) ∧
    (∀ c a, ops.sadd c a = ops.add (ops.const c) a) ∧ (∀ c a, ops.ssub c a = ops.sub (ops.const c) a) ∧
    (∀ c a, ops.smul c a = ops.mul (ops.const c) a) ∧ (∀ c a, ops.sdiv c a = ops.div (ops.const c) a) :=
  OpmVerif.DenseAd.mixed_eq_lifted hx

/-- `createVariable(c, k)` is the k-th independent variable: value c, unit gradient e_k. -/
theorem variable_seed {n : Nat} {ops : ADOps K n} (hx : Exact ops) (c : K) (k : Fin n) :
    toDual (setOneHot (ops.varBase c) k.val) = Dual.var c k := var_dual hx c k

/-- Rational expression trees of any depth over any field: the Evaluation computed by the
translated code from unit-seeded variables holds the value and the formal gradient. -/
theorem rational_trees_exact {n : Nat} {ops : ADOps K n} (hx : Exact ops) (e : RExpr K n) (x : Fin n → K) :
    toDual (RExpr.evalAD ops e x) = ⟨RExpr.eval e x, RExpr.grad e x⟩ := evalAD_exact hx e x
end field

/-- Every unary function of Math.hpp (abs tan atan sin asin sinh asinh cos acos cosh acosh sqrt exp
log log10): the translated value expression is the function and the translated `df_dx` is its
derivative (Mathlib `HasDerivAt`) on the function's domain; the result is the chain rule applied
to the argument's gradient. -/
theorem math_derivs (u : UnFn) {n : Nat} (x : Fin (n + 1) → ℝ) (h : u.dom (x 0)) :
    ∃ d, HasDerivAt u.fn d (x 0) ∧ toDual (u.impl x) = Dual.chain (u.fn (x 0)) d (toDual x) :=
  unary_exact u x h

/-- The binary functions of Math.hpp — `pow(x, y)` (positive base), `atan2(x, y)` (y ≠ 0 and off the
branch cut), `min`, `max` (no tie): the translated value is the function and the translated
derivative expressions are its two partial derivatives, in chain-rule form: for all differentiable
u, v through the point, `t ↦ f (u t) (v t)` has derivative `d1·u' + d2·v'`. -/
theorem binary_math_derivs (f : BinFn) {n : Nat} (x y : Fin (n + 1) → ℝ) (h : f.dom (x 0) (y 0)) :
    ∃ d1 d2, HasGrad2 f.fn d1 d2 (x 0) (y 0) ∧
      toDual (f.impl x y) = Dual.chain2 (f.fn (x 0) (y 0)) d1 d2 (toDual x) (toDual y) :=
  binary_exact f x y h

/-- Mixed scalar/Evaluation forms of the Math.hpp functions equal the all-Evaluation form on the
lifted constant: `pow(x, c)`, `pow(c, x)` (c > 0), `atan2(x, c)`, `atan2(c, x)`, `min/max(c, x)`,
and `min/max(x, c)` away from the tie x = c (at a tie the mixed form returns x, the lifted one c). -/
theorem math_mixed_eq_lifted {n : Nat} (a : Fin (n + 1) → ℝ) (c : ℝ) :
    M.pows RF a c = M.pow RF a (L.const c) ∧ (0 < c → M.spow RF c a = M.pow RF (L.const c) a) ∧
    M.atan2s RF a c = M.atan2 RF a (L.const c) ∧ M.satan2 RF c a = M.atan2 RF (L.const c) a ∧
    M.smin RF c a = M.min RF (L.const c) a ∧ M.smax RF c a = M.max RF (L.const c) a ∧
    (a 0 ≠ c → M.smin RF c a = M.min RF a (L.const c)) ∧ (a 0 ≠ c → M.smax RF c a = M.max RF a (L.const c)) :=
  ⟨pows_eq_lifted a c, fun hc => spow_eq_lifted c hc a, atan2s_eq_lifted a c, satan2_eq_lifted c a,
   smin_eq_lifted c a, smax_eq_lifted c a, mins_eq_lifted a c, maxs_eq_lifted a c⟩

/-- Chain rule for ALL expression trees over + − · / unary minus, the unary Math.hpp functions and pow, atan2, min, max,
at every point of the tree's domain, for every exact operator set (all variants, all sizes):
slot 0 of the computed Evaluation is the value of the expression and slot j+1 is its partial
derivative with respect to variable j. -/
theorem chain_rule_all_trees {n : Nat} {ops : ADOps ℝ n} (hx : Exact ops) (e : Expr n) (x : Fin n → ℝ)
    (hd : e.Defined x) :
    e.evalAD ops x 0 = e.eval x ∧
    ∀ j : Fin n, HasDerivAt (fun t => e.eval (Function.update x j t)) (e.evalAD ops x j.succ) (x j) :=
  evalAD_hasDeriv hx e x hd

/-! Non-vacuity. -/

/-- sin(x₀·x₁) / exp(x₁) + sqrt(x₀) + x₀ ^ x₁ + atan2(x₀, x₁) at (1, 1): every operation is inside
its domain. -/
noncomputable def sample : Expr 2 :=
  .add (.add (.add (.div (.un .sin (.mul (.var 0) (.var 1))) (.un .exp (.var 1))) (.un .sqrt (.var 0)))
    (.bin .pow (.var 0) (.var 1))) (.bin .atan2 (.var 0) (.var 1))

example : sample.Defined (fun _ => 1) := by
  simp [sample, Expr.Defined, UnFn.dom, BinFn.dom, Expr.eval, UnFn.fn, Real.exp_ne_zero]

/-- hypotheses of `binary_math_derivs` / `math_mixed_eq_lifted` are satisfiable -/
example : BinFn.atan2.dom ((fun _ => -2 : Fin 3 → ℝ) 0) ((fun _ => -1 : Fin 3 → ℝ) 0) := by
  simp [BinFn.dom]
example : ((fun _ => 2 : Fin 3 → ℝ) 0) ≠ (1 : ℝ) := by norm_num

example : Exact (U9.ops : ADOps ℝ 9) := unrolled_exact.2.2.2.2.2.2.2.2.1

/-- the hypotheses of `math_derivs` for sqrt at an Evaluation with value 4 -/
example : UnFn.sqrt.dom ((fun _ => 4 : Fin 3 → ℝ) 0) := by simp [UnFn.dom]

/-- `variants_agree` at IEEE doubles: the unrolled and the loop form are the same Float function -/
example : (U9.ops : ADOps Float 9) = L.ops := variants_agree.2.2.2.2.2.2.2.2.1

/-- slot 7 of Evaluation9's product, as the property text spells it -/
example (a b : Fin 10 → ℝ) : (U9.ops : ADOps ℝ 9).mul a b 7 = a 7 * b 0 + b 7 * a 0 := rfl

end OpmVerif.Props.C16
