/-
  C16 — Automatic differentiation returns exact values and derivatives in every variant.

  Only property statements, their one-line proofs from `Proofs/DenseAd*.lean`, and non-vacuity
  examples.  The objects the theorems speak about (`U1.ops … U12.ops`, `L.ops`, `D.ops`, `M.*`) are
  the definitions *generated from the C++ headers* on every run (`Gen/DenseAd.lean`):
  Evaluation1.hpp … Evaluation12.hpp, Evaluation.hpp (generic loop form), DynamicEvaluation.hpp,
  Math.hpp.  Quantifiers: every carrier type / every field, every number of derivatives n for the
  loop forms, every expression tree (no depth bound), every point of the tree's domain.
-/
import OpmVerif.Proofs.DenseAdMath
import OpmVerif.Proofs.DenseAd2

namespace OpmVerif.Props.C16
open OpmVerif.DenseAd OpmVerif.DenseAd.Gen

section anytype
variable {α : Type} [Add α] [Sub α] [Mul α] [Div α] [Neg α] [OfNat α 0] [OfNat α 1] [OfNat α 2]

/-- All variants agree: each of the twelve unrolled specialisations computes, in every one of its
n+1 slots and for every operator (+= -= *= /= with Evaluation and scalar right-hand sides, unary
minus, the friend scalar∘Evaluation operators, constructors, assignment, copy/clearDerivatives),
the very same expression as the generic loop form at that size, and so does the dynamically sized
class for every size.  Holds for every carrier type, so in particular bit for bit for IEEE doubles. -/
theorem variants_agree :
    (U1.ops : ADOps α 1) = L.ops ∧ (U2.ops : ADOps α 2) = L.ops ∧ (U3.ops : ADOps α 3) = L.ops ∧
    (U4.ops : ADOps α 4) = L.ops ∧ (U5.ops : ADOps α 5) = L.ops ∧ (U6.ops : ADOps α 6) = L.ops ∧
    (U7.ops : ADOps α 7) = L.ops ∧ (U8.ops : ADOps α 8) = L.ops ∧ (U9.ops : ADOps α 9) = L.ops ∧
    (U10.ops : ADOps α 10) = L.ops ∧ (U11.ops : ADOps α 11) = L.ops ∧ (U12.ops : ADOps α 12) = L.ops ∧
    ∀ n : Nat, (D.ops : ADOps α n) = L.ops :=
  ⟨GenProofs.U1_ops_eq_loop, GenProofs.U2_ops_eq_loop, GenProofs.U3_ops_eq_loop, GenProofs.U4_ops_eq_loop,
   GenProofs.U5_ops_eq_loop, GenProofs.U6_ops_eq_loop, GenProofs.U7_ops_eq_loop, GenProofs.U8_ops_eq_loop,
   GenProofs.U9_ops_eq_loop, GenProofs.U10_ops_eq_loop, GenProofs.U11_ops_eq_loop, GenProofs.U12_ops_eq_loop,
   fun _ => GenProofs.D_ops_eq_loop⟩
end anytype

section field
variable {K : Type} [Field K]

/-- The generic loop form is the dual-number arithmetic (value, sum/product/quotient rules in every
derivative slot) for EVERY number of derivatives — covers the sizes 13…16 and beyond. -/
theorem generic_exact (n : Nat) : Exact (L.ops : ADOps K n) := loop_exact

/-- The dynamically sized class is the dual-number arithmetic for every run-time size. -/
theorem dynamic_exact (n : Nat) : Exact (D.ops : ADOps K n) := OpmVerif.DenseAd.dynamic_exact

/-- Each unrolled specialisation 1…12 is the dual-number arithmetic: e.g. slot 7 of
`Evaluation9::operator*=` is `a₇·v + b₇·u`. -/
theorem unrolled_exact :
    Exact (U1.ops : ADOps K 1) ∧ Exact (U2.ops : ADOps K 2) ∧ Exact (U3.ops : ADOps K 3) ∧
    Exact (U4.ops : ADOps K 4) ∧ Exact (U5.ops : ADOps K 5) ∧ Exact (U6.ops : ADOps K 6) ∧
    Exact (U7.ops : ADOps K 7) ∧ Exact (U8.ops : ADOps K 8) ∧ Exact (U9.ops : ADOps K 9) ∧
    Exact (U10.ops : ADOps K 10) ∧ Exact (U11.ops : ADOps K 11) ∧ Exact (U12.ops : ADOps K 12) :=
  ⟨unrolled_exact_1, unrolled_exact_2, unrolled_exact_3, unrolled_exact_4, unrolled_exact_5, unrolled_exact_6,
   unrolled_exact_7, unrolled_exact_8, unrolled_exact_9, unrolled_exact_10, unrolled_exact_11, unrolled_exact_12⟩

/-- Mixed scalar/Evaluation operations (`a ⊕ c`, `c ⊕ a` for ⊕ ∈ {+,−,·,/}) equal the
all-Evaluation operation on the lifted constant, for every exact operator set — hence for every
variant. -/
theorem mixed_eq_lifted {n : Nat} {ops : ADOps K n} (hx : Exact ops) :
    (∀ a c, ops.adds a c = ops.add a (ops.const c)) ∧ (∀ a c, ops.subs a c = ops.sub a (ops.const c)) ∧
    (∀ a c, ops.muls a c = ops.mul a (ops.const c)) ∧ (∀ a c, ops.divs a c = ops.div a (ops.const c)) ∧
    (∀ c a, ops.sadd c a = ops.add (ops.const c) a) ∧ (∀ c a, ops.ssub c a = ops.sub (ops.const c) a) ∧
    (∀ c a, ops.smul c a = ops.mul (ops.const c) a) ∧ (∀ c a, ops.sdiv c a = ops.div (ops.const c) a) :=
  OpmVerif.DenseAd.mixed_eq_lifted hx

/-- `createVariable(c, k)` is the k-th independent variable: value c, unit gradient e_k. -/
theorem variable_seed {n : Nat} {ops : ADOps K n} (hx : Exact ops) (c : K) (k : Fin n) :
    toDual (setOneHot (ops.varBase c) k.val) = Dual.var c k := var_dual hx c k

/-- Rational expression trees of any depth over any field: the Evaluation computed by the
translated code from unit-seeded variables holds the value and the formal gradient. -/
theorem rational_trees_exact {n : Nat} {ops : ADOps K n} (hx : Exact ops) (e : RExpr K n) (x : Fin n → K) :
    toDual (RExpr.evalAD ops e x) = ⟨RExpr.eval e x, RExpr.grad e x⟩ := evalAD_exact hx e x
end field

/-- Every unary function of Math.hpp (abs tan atan sin asin sinh asinh cos acos cosh acosh sqrt exp
log log10): the translated value expression is the function and the translated `df_dx` is its
derivative (Mathlib `HasDerivAt`) on the function's domain; the result is the chain rule applied
to the argument's gradient. -/
theorem math_derivs (u : UnFn) {n : Nat} (x : Fin (n + 1) → ℝ) (h : u.dom (x 0)) :
    ∃ d, HasDerivAt u.fn d (x 0) ∧ toDual (u.impl x) = Dual.chain (u.fn (x 0)) d (toDual x) :=
  unary_exact u x h

/-- The binary functions of Math.hpp — `pow(x, y)` (positive base), `atan2(x, y)` (y ≠ 0 and off the
branch cut), `min`, `max` (no tie): the translated value is the function and the translated
derivative expressions are its two partial derivatives, in chain-rule form: for all differentiable
u, v through the point, `t ↦ f (u t) (v t)` has derivative `d1·u' + d2·v'`. -/
theorem binary_math_derivs (f : BinFn) {n : Nat} (x y : Fin (n + 1) → ℝ) (h : f.dom (x 0) (y 0)) :
    ∃ d1 d2, HasGrad2 f.fn d1 d2 (x 0) (y 0) ∧
      toDual (f.impl x y) = Dual.chain2 (f.fn (x 0) (y 0)) d1 d2 (toDual x) (toDual y) :=
  binary_exact f x y h

/-- Mixed scalar/Evaluation forms of the Math.hpp functions equal the all-Evaluation form on the
lifted constant: `pow(x, c)`, `pow(c, x)` (c > 0), `atan2(x, c)`, `atan2(c, x)`, `min/max(c, x)`,
and `min/max(x, c)` away from the tie x = c (at a tie the mixed form returns x, the lifted one c). -/
theorem math_mixed_eq_lifted {n : Nat} (a : Fin (n + 1) → ℝ) (c : ℝ) :
    M.pows RF a c = M.pow RF a (L.const c) ∧ (0 < c → M.spow RF c a = M.pow RF (L.const c) a) ∧
    M.atan2s RF a c = M.atan2 RF a (L.const c) ∧ M.satan2 RF c a = M.atan2 RF (L.const c) a ∧
    M.smin RF c a = M.min RF (L.const c) a ∧ M.smax RF c a = M.max RF (L.const c) a ∧
    (a 0 ≠ c → M.smin RF c a = M.min RF a (L.const c)) ∧ (a 0 ≠ c → M.smax RF c a = M.max RF a (L.const c)) :=
  ⟨pows_eq_lifted a c, fun hc => spow_eq_lifted c hc a, atan2s_eq_lifted a c, satan2_eq_lifted c a,
   smin_eq_lifted c a, smax_eq_lifted c a, mins_eq_lifted a c, maxs_eq_lifted a c⟩

/-- Chain rule for ALL expression trees over + − · / unary minus, the unary Math.hpp functions and pow, atan2, min, max,
at every point of the tree's domain, for every exact operator set (all variants, all sizes):
slot 0 of the computed Evaluation is the value of the expression and slot j+1 is its partial
derivative with respect to variable j. -/
theorem chain_rule_all_trees {n : Nat} {ops : ADOps ℝ n} (hx : Exact ops) (e : Expr n) (x : Fin n → ℝ)
    (hd : e.Defined x) :
    e.evalAD ops x 0 = e.eval x ∧
    ∀ j : Fin n, HasDerivAt (fun t => e.eval (Function.update x j t)) (e.evalAD ops x j.succ) (x j) :=
  evalAD_hasDeriv hx e x hd

/-! Non-vacuity. -/

/-- sin(x₀·x₁) / exp(x₁) + sqrt(x₀) + x₀ ^ x₁ + atan2(x₀, x₁) at (1, 1): every operation is inside
its domain. -/
noncomputable def sample : Expr 2 :=
  .add (.add (.add (.div (.un .sin (.mul (.var 0) (.var 1))) (.un .exp (.var 1))) (.un .sqrt (.var 0)))
    (.bin .pow (.var 0) (.var 1))) (.bin .atan2 (.var 0) (.var 1))

example : sample.Defined (fun _ => 1) := by
  simp [sample, Expr.Defined, UnFn.dom, BinFn.dom, Expr.eval, UnFn.fn, Real.exp_ne_zero]

/-- hypotheses of `binary_math_derivs` / `math_mixed_eq_lifted` are satisfiable -/
example : BinFn.atan2.dom ((fun _ => -2 : Fin 3 → ℝ) 0) ((fun _ => -1 : Fin 3 → ℝ) 0) := by
  simp [BinFn.dom]
example : ((fun _ => 2 : Fin 3 → ℝ) 0) ≠ (1 : ℝ) := by norm_num

example : Exact (U9.ops : ADOps ℝ 9) := unrolled_exact.2.2.2.2.2.2.2.2.1

/-- the hypotheses of `math_derivs` for sqrt at an Evaluation with value 4 -/
example : UnFn.sqrt.dom ((fun _ => 4 : Fin 3 → ℝ) 0) := by simp [UnFn.dom]

/-- `variants_agree` at IEEE doubles: the unrolled and the loop form are the same Float function -/
example : (U9.ops : ADOps Float 9) = L.ops := variants_agree.2.2.2.2.2.2.2.2.1

/-- slot 7 of Evaluation9's product, as the property text spells it -/
example (a b : Fin 10 → ℝ) : (U9.ops : ADOps ℝ 9).mul a b 7 = a 7 * b 0 + b 7 * a 0 := rfl

/-! ## Second part: compound assignment under aliasing, comparison operators, factories, ties -/

section anytype2
variable {α : Type} [Add α] [Sub α] [Mul α] [Div α] [Neg α] [OfNat α 0] [OfNat α 1] [OfNat α 2]
  [LT α] [DecidableLT α] [LE α] [DecidableLE α] [BEq α]

/-- All variants agree on the second operator set too — `x += x`, `x -= x`, `x *= x`, `x /= x` (the
right-hand side aliases `*this`), the 12 member and 5 friend comparison operators, `createConstantZero`,
`createConstantOne`, `createConstant(x, c)`, `createVariable(x, c, k)`: every specialisation and the dynamic
class (every size) compute the expressions of the generic loop form.  Any carrier type, hence IEEE doubles. -/
theorem variants_agree2 :
    (U1.ops2 : ADOps2 α 1) = L.ops2 ∧ (U2.ops2 : ADOps2 α 2) = L.ops2 ∧ (U3.ops2 : ADOps2 α 3) = L.ops2 ∧
    (U4.ops2 : ADOps2 α 4) = L.ops2 ∧ (U5.ops2 : ADOps2 α 5) = L.ops2 ∧ (U6.ops2 : ADOps2 α 6) = L.ops2 ∧
    (U7.ops2 : ADOps2 α 7) = L.ops2 ∧ (U8.ops2 : ADOps2 α 8) = L.ops2 ∧ (U9.ops2 : ADOps2 α 9) = L.ops2 ∧
    (U10.ops2 : ADOps2 α 10) = L.ops2 ∧ (U11.ops2 : ADOps2 α 11) = L.ops2 ∧ (U12.ops2 : ADOps2 α 12) = L.ops2 ∧
    ∀ n : Nat, (D.ops2 : ADOps2 α n) = L.ops2 :=
  ⟨GenProofs.U1_ops2_eq_loop, GenProofs.U2_ops2_eq_loop, GenProofs.U3_ops2_eq_loop, GenProofs.U4_ops2_eq_loop,
   GenProofs.U5_ops2_eq_loop, GenProofs.U6_ops2_eq_loop, GenProofs.U7_ops2_eq_loop, GenProofs.U8_ops2_eq_loop,
   GenProofs.U9_ops2_eq_loop, GenProofs.U10_ops2_eq_loop, GenProofs.U11_ops2_eq_loop, GenProofs.U12_ops2_eq_loop,
   fun _ => GenProofs.D_ops2_eq_loop⟩

/-- Compound assignment whose argument is the object itself computes the binary operation on two copies
(no slot is read after it was overwritten), as expressions, for every carrier type and every n. -/
theorem self_assign_eq_binary {n : Nat} (a : Fin (n + 1) → α) :
    L.addSelf a = L.add a a ∧ L.subSelf a = L.sub a a ∧ L.mulSelf a = L.mul a a ∧ L.divSelf a = L.div a a :=
  ⟨GenProofs.L_addSelf_eq a, GenProofs.L_subSelf_eq a, GenProofs.L_mulSelf_eq a, GenProofs.L_divSelf_eq a⟩

/-- `createConstant(nVars, c)` / `createVariable(nVars, c, k)` of specialisation N accept exactly nVars = N;
the dynamic class accepts every nVars (the result is sized by it). -/
theorem unrolled_factory_arity :
    U1.factoryArity = some 1 ∧ U2.factoryArity = some 2 ∧ U3.factoryArity = some 3 ∧ U4.factoryArity = some 4 ∧
    U5.factoryArity = some 5 ∧ U6.factoryArity = some 6 ∧ U7.factoryArity = some 7 ∧ U8.factoryArity = some 8 ∧
    U9.factoryArity = some 9 ∧ U10.factoryArity = some 10 ∧ U11.factoryArity = some 11 ∧ U12.factoryArity = some 12 ∧
    ∀ n, D.factoryArity n = none :=
  ⟨rfl, rfl, rfl, rfl, rfl, rfl, rfl, rfl, rfl, rfl, rfl, rfl, fun _ => rfl⟩
/-- The generic class (primary template, every n — the sizes 13…16 and the `staticSize` instantiations):
`createConstant(nVars, c)` / `createVariable(nVars, c, k)` accept exactly nVars = n, like every
specialisation (before fix 8f428cec0 the guard read `nVars != 0`). -/
theorem generic_factory_arity (n : Nat) : L.factoryArity n = some (n : Int) := rfl
end anytype2

section ordered
variable {K : Type} [Field K] [LinearOrder K]

/-- Generic loop form, EVERY n: `x op= x` is `x op x` in dual-number arithmetic; `<  >  <=  >=` in all
three forms (Evaluation∘Evaluation, Evaluation∘scalar, scalar∘Evaluation) compare the values — at ties
too; `a == b` holds iff every slot agrees, `a == c` iff the value is c; `!=` is the negation; the
factories are the constants 0, 1, c and the variable seed. -/
theorem generic_exact2 (n : Nat) : Exact2 (L.ops2 : ADOps2 K n) := loop_exact2

/-- the same for the dynamically sized class, every run-time size -/
theorem dynamic_exact2 (n : Nat) : Exact2 (D.ops2 : ADOps2 K n) := OpmVerif.DenseAd.dynamic_exact2

/-- the same for each unrolled specialisation 1…12 -/
theorem unrolled_exact2 :
    Exact2 (U1.ops2 : ADOps2 K 1) ∧ Exact2 (U2.ops2 : ADOps2 K 2) ∧ Exact2 (U3.ops2 : ADOps2 K 3) ∧
    Exact2 (U4.ops2 : ADOps2 K 4) ∧ Exact2 (U5.ops2 : ADOps2 K 5) ∧ Exact2 (U6.ops2 : ADOps2 K 6) ∧
    Exact2 (U7.ops2 : ADOps2 K 7) ∧ Exact2 (U8.ops2 : ADOps2 K 8) ∧ Exact2 (U9.ops2 : ADOps2 K 9) ∧
    Exact2 (U10.ops2 : ADOps2 K 10) ∧ Exact2 (U11.ops2 : ADOps2 K 11) ∧ Exact2 (U12.ops2 : ADOps2 K 12) :=
  ⟨unrolled_exact2_1, unrolled_exact2_2, unrolled_exact2_3, unrolled_exact2_4, unrolled_exact2_5, unrolled_exact2_6,
   unrolled_exact2_7, unrolled_exact2_8, unrolled_exact2_9, unrolled_exact2_10, unrolled_exact2_11, unrolled_exact2_12⟩

/-- Ordering comparisons with a scalar, in both operand orders, equal the all-Evaluation comparison with
the lifted constant, and `c ⋚ x` is `x ⋛ c` — for every exact operator set (every variant, every n). -/
theorem comparisons_mixed_eq_lifted {n : Nat} {ops : ADOps K n} {o : ADOps2 K n} (hx : Exact ops) (h2 : Exact2 o)
    (a : Fin (n + 1) → K) (c : K) :
    o.ltS a c = o.ltE a (ops.const c) ∧ o.gtS a c = o.gtE a (ops.const c) ∧
    o.leS a c = o.leE a (ops.const c) ∧ o.geS a c = o.geE a (ops.const c) ∧
    o.slt c a = o.ltE (ops.const c) a ∧ o.sgt c a = o.gtE (ops.const c) a ∧
    o.sle c a = o.leE (ops.const c) a ∧ o.sge c a = o.geE (ops.const c) a ∧
    o.slt c a = o.gtS a c ∧ o.sgt c a = o.ltS a c ∧ o.sle c a = o.geS a c ∧ o.sge c a = o.leS a c :=
  cmp_mixed_eq_lifted hx h2 a c

/-- `x == c` (value only) versus `x == Evaluation(c)` (every slot): they agree exactly when all
derivatives of x vanish — the mixed form is NOT the lifted form here, by the code's design. -/
theorem eq_scalar_vs_lifted {n : Nat} {ops : ADOps K n} {o : ADOps2 K n} (hx : Exact ops) (h2 : Exact2 o)
    (a : Fin (n + 1) → K) (c : K) :
    (o.eqE a (ops.const c) = true ↔ o.eqS a c = true ∧ ∀ j : Fin n, a j.succ = 0) := eqS_vs_eqE hx h2 a c
end ordered

/-- Derivation rules over an ARBITRARY commutative ring (no division, no order), every n: sum, difference,
Leibniz product rule, negation, the scalar forms in both operand orders, constants, `x *= x`. -/
theorem ring_derivation_rules {R : Type} [CommRing R] [Div R] {n : Nat} (a b : Fin (n + 1) → R) (c : R) :
    toDual ((L.ops : ADOps R n).add a b) = Dual.add (toDual a) (toDual b) ∧
    toDual ((L.ops : ADOps R n).sub a b) = Dual.sub (toDual a) (toDual b) ∧
    toDual ((L.ops : ADOps R n).mul a b) = Dual.mul (toDual a) (toDual b) ∧
    toDual ((L.ops : ADOps R n).neg a) = Dual.neg (toDual a) ∧
    toDual ((L.ops : ADOps R n).adds a c) = Dual.add (toDual a) (Dual.const c) ∧
    toDual ((L.ops : ADOps R n).subs a c) = Dual.sub (toDual a) (Dual.const c) ∧
    toDual ((L.ops : ADOps R n).muls a c) = Dual.mul (toDual a) (Dual.const c) ∧
    toDual ((L.ops : ADOps R n).sadd c a) = Dual.add (Dual.const c) (toDual a) ∧
    toDual ((L.ops : ADOps R n).ssub c a) = Dual.sub (Dual.const c) (toDual a) ∧
    toDual ((L.ops : ADOps R n).smul c a) = Dual.mul (Dual.const c) (toDual a) ∧
    toDual ((L.ops : ADOps R n).const c) = Dual.const c ∧
    toDual (L.mulSelf a) = Dual.mul (toDual a) (toDual a) := loop_ring_exact a b c

/-- `MathToolbox<Evaluation>::isSame / isfinite / isnan` (one template for every variant), every n, any carrier and
any scalar toolbox: `isSame(a, b, tol)` holds iff value AND every derivative are the same up to tol,
`isfinite` iff every slot is finite, `isnan` iff some slot (value or a derivative) is NaN. -/
theorem toolbox_predicates {α : Type} {n : Nat} (P : Preds α) (a b : Fin (n + 1) → α) (tol : α) :
    (M.isSame P a b tol = true ↔ ∀ i, P.isSame (a i) (b i) tol = true) ∧
    (M.isfinite P a = true ↔ ∀ i, P.isfinite (a i) = true) ∧
    (M.isnan P a = true ↔ ∃ i, P.isnan (a i) = true) :=
  ⟨isSame_iff P a b tol, isfinite_iff P a, isnan_iff P a⟩

/-- Math.hpp at ties and at the kink, every input: `min`/`max` return one of their operands whole
(value and all derivatives) — the SECOND one at a tie; `min/max(c, x)` return x at a tie; `abs` returns
−x at x = 0; the value slot is min / max / |·| everywhere. -/
theorem minmax_abs_at_ties {n : Nat} (a b : Fin (n + 1) → ℝ) (c : ℝ) :
    (M.min RF a b = if a 0 < b 0 then a else b) ∧ (M.max RF a b = if a 0 > b 0 then a else b) ∧
    (M.smin RF c a = if c < a 0 then L.const c else a) ∧ (M.smax RF c a = if c > a 0 then L.const c else a) ∧
    (M.abs RF a = if a 0 > 0 then a else L.neg a) ∧
    (M.min RF a b 0 = min (a 0) (b 0) ∧ M.max RF a b 0 = max (a 0) (b 0) ∧
     M.smin RF c a 0 = min c (a 0) ∧ M.smax RF c a 0 = max c (a 0) ∧ M.abs RF a 0 = |a 0|) :=
  ⟨min_select a b, max_select a b, smin_select c a, smax_select c a, abs_select a, minmax_abs_value a b c⟩

/-- The special-cased base 0 of all three `pow` overloads: the result is the constant 0 in every slot
(so `pow(0, 0) = 0` and d/dx x¹ at 0 is reported as 0 — the code as it is). -/
theorem pow_base_zero {n : Nat} (a b : Fin (n + 1) → ℝ) (c : ℝ) :
    (a 0 = 0 → M.pow RF a b = L.const 0) ∧ (a 0 = 0 → M.pows RF a c = L.const 0) ∧ M.spow RF 0 a = L.const 0 :=
  pow_zero_base a b c

/-- `pow(x, m)` with an integer exponent m and ANY non-zero base (negative bases included): value xᵐ and
the chain rule with derivative m·xᵐ⁻¹. -/
theorem pow_integer_exponent {n : Nat} (a : Fin (n + 1) → ℝ) (m : ℤ) (h : a 0 ≠ 0) :
    ∃ d, HasDerivAt (fun t : ℝ => t ^ m) d (a 0) ∧
      toDual (M.pows RF a (m : ℝ)) = Dual.chain ((a 0) ^ m) d (toDual a) := pows_int_exact a m h

/-! Non-vacuity (second part). -/
/-- a NaN-like marker in derivative slot 2 only is seen by `isnan` -/
example : M.isnan (n := 2) (⟨fun x => x == 7, fun x => x != 7, fun a b _ => a == b⟩ : Preds Nat) ![1, 2, 7] = true := by decide
example : Exact2 (U8.ops2 : ADOps2 ℚ 8) := unrolled_exact2.2.2.2.2.2.2.2.1
example : (U8.ops2 : ADOps2 Float 8) = L.ops2 := variants_agree2.2.2.2.2.2.2.2.1
/-- a tie: equal values, different derivatives — `<=` holds, `==` does not -/
example : (L.ops2 : ADOps2 ℚ 1).leE ![1, 2] ![1, 3] = true ∧ (L.ops2 : ADOps2 ℚ 1).eqE ![1, 2] ![1, 3] = false := by
  constructor <;> decide
/-- friend `2 >= x` at the tie x = 2 -/
example : (U3.ops2 : ADOps2 ℚ 3).sge 2 ![2, 0, 1, 5] = true := by decide
/-- the hypothesis of `pow_integer_exponent` with a negative base -/
example : ((fun _ => -2 : Fin 3 → ℝ) 0) ≠ 0 := by norm_num
/-- `x /= x` in slot 2 of Evaluation4 -/
example (a : Fin 5 → ℚ) : U4.divSelf a 2 = (a 0 * a 2 - a 0 * a 2) / (a 0 * a 0) := rfl

end OpmVerif.Props.C16
